(* driver.ml — line-protocol server around the model extracted from Coq (hcmodel.ml).
   Trusted glue: text <-> Coq data conversion, tables of disks/cores, and the cryptographic
   primitives, which are obtained from a helper process (the harness binary's `prim` commands, which
   call the blake2 / crc32fast / ed25519-dalek crates directly, never /repo's code). *)
open Hcmodel

(* ---------- numbers and bytes ---------- *)
let rec pos_of_z (z : Z.t) : positive =
  if Z.equal z Z.one then XH
  else if Z.testbit z 0 then XI (pos_of_z (Z.shift_right z 1))
  else XO (pos_of_z (Z.shift_right z 1))
let n_of_z z = if Z.sign z <= 0 then N0 else Npos (pos_of_z z)
let rec z_of_pos = function
  | XH -> Z.one
  | XO p -> Z.shift_left (z_of_pos p) 1
  | XI p -> Z.succ (Z.shift_left (z_of_pos p) 1)
let z_of_n = function N0 -> Z.zero | Npos p -> z_of_pos p
let n_of_string s = n_of_z (Z.of_string s)
let string_of_n n = Z.to_string (z_of_n n)
let n_of_int i = n_of_z (Z.of_int i)
let int_of_n n = Z.to_int (z_of_n n)
let rec nat_of_int i = if i <= 0 then O else S (nat_of_int (i - 1))

let byte_tab = Array.init 256 n_of_int
let hexd = "0123456789abcdef"
let hex_of_bytes (l : n list) : String.t =
  match l with
  | [] -> "_"
  | _ ->
    let b = Buffer.create 64 in
    List.iter (fun x -> let v = int_of_n x in
                Buffer.add_char b hexd.[(v lsr 4) land 15]; Buffer.add_char b hexd.[v land 15]) l;
    Buffer.contents b
let hv c = match c with
  | '0'..'9' -> Char.code c - 48 | 'a'..'f' -> Char.code c - 87 | 'A'..'F' -> Char.code c - 55
  | _ -> failwith "hex"
let bytes_of_hex (s : String.t) : n list =
  if s = "_" then [] else begin
    if String.length s mod 2 <> 0 then failwith "hex";
    let r = ref [] in
    let i = ref (String.length s - 2) in
    while !i >= 0 do
      r := byte_tab.(hv s.[!i] * 16 + hv s.[!i + 1]) :: !r; i := !i - 2
    done; !r end

let ocaml_string (s : Hcmodel.string) : String.t =
  let b = Buffer.create 32 in
  let bit x k = if x then 1 lsl k else 0 in
  let rec go = function
    | EmptyString -> ()
    | String (Ascii (b0,b1,b2,b3,b4,b5,b6,b7), r) ->
      Buffer.add_char b (Char.chr (bit b0 0 + bit b1 1 + bit b2 2 + bit b3 3 + bit b4 4 + bit b5 5 + bit b6 6 + bit b7 7));
      go r in
  go s; Buffer.contents b

(* ---------- primitives through the helper process ---------- *)
let helper = try Sys.getenv "HC_PRIM_HELPER" with Not_found -> "/verif/.cache/target/release/hcharness"
let (pin, pout) = Unix.open_process helper
let ask (cmd : String.t) : String.t =
  output_string pout cmd; output_char pout '\n'; flush pout;
  let l = input_line pin in
  if String.length l >= 3 && String.sub l 0 3 = "ok " then String.sub l 3 (String.length l - 3)
  else failwith ("helper: " ^ cmd ^ " -> " ^ l)
let main_pk = bytes_of_hex (ask "prim pub main")
let main_sk = bytes_of_hex (ask "prim secret main")
let alt_pk = bytes_of_hex (ask "prim pub alt")
let alt_sk = bytes_of_hex (ask "prim secret alt")
let hash_calls = ref 0
let cr : crypto = {
  cr_hash = (fun b -> incr hash_calls; bytes_of_hex (ask ("prim blake2b " ^ hex_of_bytes b)));
  cr_crc = (fun b -> n_of_string (ask ("prim crc32 " ^ hex_of_bytes b)));
  cr_sign = (fun sk m ->
      let k = if sk = main_sk then "main" else if sk = alt_sk then "alt" else failwith "unknown secret key" in
      bytes_of_hex (ask (Printf.sprintf "prim sign %s %s" k (hex_of_bytes m))));
  cr_verify = (fun pk m s ->
      let k = if pk = main_pk then "main" else if pk = alt_pk then "alt" else failwith "unknown public key" in
      ask (Printf.sprintf "prim verify %s %s %s" k (hex_of_bytes m) (hex_of_bytes s)) = "1");
}

(* ---------- text syntax ---------- *)
let split c s = String.split_on_char c s
let node_text (x : node) = Printf.sprintf "%s.%s.%s" (string_of_n x.n_index) (string_of_n x.n_length) (hex_of_bytes x.n_hash)
let nodes_text (l : node list) = match l with [] -> "_" | _ -> String.concat "+" (List.map node_text l)
let parse_node s = match split '.' s with
  | [i; l; h] -> { n_index = n_of_string i; n_length = n_of_string l; n_hash = bytes_of_hex h }
  | _ -> failwith "node"
let parse_nodes s = if s = "_" then [] else List.map parse_node (split '+' s)

let proof_text (p : proof) =
  let b = match p.p_block with None -> "-" | Some x ->
    Printf.sprintf "%s/%s/%s" (string_of_n x.db_index) (hex_of_bytes x.db_value) (nodes_text x.db_nodes) in
  let h = match p.p_hash with None -> "-" | Some x ->
    Printf.sprintf "%s/%s" (string_of_n x.dh_index) (nodes_text x.dh_nodes) in
  let s = match p.p_seek with None -> "-" | Some x ->
    Printf.sprintf "%s/%s" (string_of_n x.ds_bytes) (nodes_text x.ds_nodes) in
  let u = match p.p_upgrade with None -> "-" | Some x ->
    Printf.sprintf "%s/%s/%s/%s/%s" (string_of_n x.du_start) (string_of_n x.du_length)
      (nodes_text x.du_nodes) (nodes_text x.du_additional) (hex_of_bytes x.du_signature) in
  Printf.sprintf "%s %s %s %s %s" (string_of_n p.p_fork) b h s u

let parse_datablock s = match split '/' s with
  | [i; v; ns] -> { db_index = n_of_string i; db_value = bytes_of_hex v; db_nodes = parse_nodes ns }
  | _ -> failwith "datablock"
let parse_datahash s = match split '/' s with
  | [i; ns] -> { dh_index = n_of_string i; dh_nodes = parse_nodes ns } | _ -> failwith "datahash"
let parse_dataseek s = match split '/' s with
  | [i; ns] -> { ds_bytes = n_of_string i; ds_nodes = parse_nodes ns } | _ -> failwith "dataseek"
let parse_dataupgrade s = match split '/' s with
  | [st; l; ns; an; sg] -> { du_start = n_of_string st; du_length = n_of_string l; du_nodes = parse_nodes ns;
                             du_additional = parse_nodes an; du_signature = bytes_of_hex sg }
  | _ -> failwith "dataupgrade"
let opt f s = if s = "-" then None else Some (f s)
let parse_proof (toks : String.t list) : proof = match toks with
  | [f; b; h; s; u] -> { p_fork = n_of_string f; p_block = opt parse_datablock b; p_hash = opt parse_datahash h;
                         p_seek = opt parse_dataseek s; p_upgrade = opt parse_dataupgrade u }
  | _ -> failwith "proof"
let parse_pair s = match split ',' s with [a; b] -> (n_of_string a, n_of_string b) | _ -> failwith "pair"

let err_name = function
  | BadArgument -> "BadArgument" | NotWritable -> "NotWritable" | InvalidSignature -> "InvalidSignature"
  | InvalidChecksum -> "InvalidChecksum" | EmptyStorage -> "EmptyStorage" | CorruptStorage -> "CorruptStorage"
  | InvalidOperation -> "InvalidOperation" | IOErr -> "IO" | EncodingErr -> "Encoding"

exception Crashed
let answer (f : 'a -> String.t) (r : 'a res) : String.t = match r with
  | Ok a -> let s = f a in if s = "" then "ok" else "ok " ^ s
  | Err e -> "err " ^ err_name e
  | Panic s -> "panic " ^ ocaml_string s
  | OutOfFuel -> "fuel"
let crashed = function Panic _ | OutOfFuel -> true | _ -> false

(* ---------- tables ---------- *)
type dsk = { mutable d : disk; mutable journal : sop list (* newest first *); mutable jlen : int }
type cor = { mutable c : core; dname : String.t; mutable evs : event list (* newest first *);
             mutable nev : int; subs : (String.t, int ref) Hashtbl.t }
let disks : (String.t, dsk) Hashtbl.t = Hashtbl.create 16
let cores : (String.t, cor) Hashtbl.t = Hashtbl.create 16

let store_letter = function Tree -> "t" | Data -> "d" | Bitfield -> "b" | Oplog -> "o"
let store_of = function "t" -> Tree | "d" -> Data | "b" -> Bitfield | "o" -> Oplog | _ -> failwith "store"
let sop_text = function
  | SW (s, off, data) -> Printf.sprintf "w:%s:%s:%s" (store_letter s) (string_of_n off) (hex_of_bytes data)
  | SD (s, off, l) -> Printf.sprintf "d:%s:%s:%s" (store_letter s) (string_of_n off) (string_of_n l)
  | ST (s, l) -> Printf.sprintf "t:%s:%s" (store_letter s) (string_of_n l)

let forced_of tok = match tok with "F=0" -> Some (Some false) | "F=1" -> Some (Some true) | "F=n" -> Some None | _ -> None
(* strips an optional leading F= token *)
let take_forced toks = match toks with
  | t :: r -> (match forced_of t with Some f -> (f, r) | None -> (None, toks))
  | [] -> (None, [])

let run_m (name : String.t) (m : 'a m) : 'a res =
  let co = Hashtbl.find cores name in
  let dk = Hashtbl.find disks co.dname in
  let w = { w_disk = dk.d; w_journal = []; w_events = [] } in
  let ((c', w'), r) = m co.c w in
  co.c <- c'; dk.d <- w'.w_disk;
  dk.journal <- w'.w_journal @ dk.journal; dk.jlen <- dk.jlen + List.length w'.w_journal;
  co.evs <- w'.w_events @ co.evs; co.nev <- co.nev + List.length w'.w_events;
  if crashed r then Hashtbl.remove cores name;
  r

let keypair_of_role = function
  | "writer" -> { kp_public = main_pk; kp_secret = Some main_sk }
  | "replica" -> { kp_public = main_pk; kp_secret = None }
  | "altwriter" -> { kp_public = alt_pk; kp_secret = Some alt_sk }
  | "altreplica" -> { kp_public = alt_pk; kp_secret = None }
  | _ -> failwith "role"

let do_open name dname kp flag =
  let dk = Hashtbl.find disks dname in
  Hashtbl.remove cores name;
  let ((d', ops), r) = core_open cr kp flag dk.d in
  dk.d <- d'; dk.journal <- List.rev_append ops dk.journal; dk.jlen <- dk.jlen + List.length ops;
  (match r with
   | Ok c -> Hashtbl.replace cores name { c; dname; evs = []; nev = 0; subs = Hashtbl.create 4 }
   | _ -> ());
  answer (fun _ -> "") r

let event_text = function
  | EvUpgrade -> "U"
  | EvHave (s, l, d) -> Printf.sprintf "H:%s:%s:%d" (string_of_n s) (string_of_n l) (if d then 1 else 0)
  | EvGet i -> "G:" ^ string_of_n i

let file_text (f : file) =
  let l = int_of_n f.f_len in
  if l = 0 then "0:_" else Printf.sprintf "%d:%s" l (hex_of_bytes (f_content f))

let rec take_n k l = if k <= 0 then [] else match l with [] -> [] | x :: r -> x :: take_n (k - 1) r
let rec drop_n k l = if k <= 0 then l else match l with [] -> [] | _ :: r -> drop_n (k - 1) r

let fiter_text (t : fiter) = Printf.sprintf "%s/%s/%s" (string_of_n t.it_index) (string_of_n t.it_offset) (string_of_n t.it_factor)

let codec_enc ty fields : String.t =
  let fin size r = answer (fun b -> Printf.sprintf "%s %s" (string_of_n size) (hex_of_bytes b)) r in
  match ty with
  | "node" -> let x = parse_node fields in fin (size_node x) (enc_node x)
  | "reqblock" -> let (a, b) = parse_pair fields in let x = { rb_index = a; rb_nodes = b } in fin (size_req_block x) (enc_req_block x)
  | "reqseek" -> let x = n_of_string fields in fin (size_req_seek x) (enc_req_seek x)
  | "requpgrade" -> let (a, b) = parse_pair fields in let x = { ru_start = a; ru_length = b } in fin (size_req_upgrade x) (enc_req_upgrade x)
  | "datablock" -> let x = parse_datablock fields in fin (size_data_block x) (enc_data_block x)
  | "datahash" -> let x = parse_datahash fields in fin (size_data_hash x) (enc_data_hash x)
  | "dataseek" -> let x = parse_dataseek fields in fin (size_data_seek x) (enc_data_seek x)
  | "dataupgrade" -> let x = parse_dataupgrade fields in fin (size_data_upgrade x) (enc_data_upgrade x)
  | _ -> "err Protocol"

let codec_dec ty hex : String.t =
  let b = bytes_of_hex hex in
  let fin f r = answer (fun (x, rest) -> Printf.sprintf "%s %s" (f x) (hex_of_bytes rest)) r in
  match ty with
  | "node" -> fin node_text (dec_node b)
  | "reqblock" -> fin (fun x -> Printf.sprintf "%s,%s" (string_of_n x.rb_index) (string_of_n x.rb_nodes)) (dec_req_block b)
  | "reqseek" -> fin (fun x -> string_of_n x) (dec_req_seek b)
  | "requpgrade" -> fin (fun x -> Printf.sprintf "%s,%s" (string_of_n x.ru_start) (string_of_n x.ru_length)) (dec_req_upgrade b)
  | "datablock" -> fin (fun x -> Printf.sprintf "%s/%s/%s" (string_of_n x.db_index) (hex_of_bytes x.db_value) (nodes_text x.db_nodes)) (dec_data_block b)
  | "datahash" -> fin (fun x -> Printf.sprintf "%s/%s" (string_of_n x.dh_index) (nodes_text x.dh_nodes)) (dec_data_hash b)
  | "dataseek" -> fin (fun x -> Printf.sprintf "%s/%s" (string_of_n x.ds_bytes) (nodes_text x.ds_nodes)) (dec_data_seek b)
  | "dataupgrade" -> fin (fun x -> Printf.sprintf "%s/%s/%s/%s/%s" (string_of_n x.du_start) (string_of_n x.du_length)
                             (nodes_text x.du_nodes) (nodes_text x.du_additional) (hex_of_bytes x.du_signature)) (dec_data_upgrade b)
  | _ -> "err Protocol"

let bool01 b = if b then "1" else "0"

let handle (line : String.t) : String.t =
  let toks = List.filter (fun s -> s <> "") (split ' ' line) in
  match toks with
  | ["reset"] -> Hashtbl.reset disks; Hashtbl.reset cores; "ok"
  | "disk" :: d :: _ -> Hashtbl.replace disks d { d = disk_empty; journal = []; jlen = 0 }; "ok"
  | ["journal"; d; from] ->
    let dk = Hashtbl.find disks d in
    let l = drop_n (int_of_string from) (List.rev dk.journal) in
    String.concat " " (("ok " ^ string_of_int dk.jlen) :: List.map sop_text l)
  | "fork" :: d2 :: d1 :: upto :: opts ->
    let dk = Hashtbl.find disks d1 in
    let upto = int_of_string upto in
    let all = List.rev dk.journal in
    if upto > dk.jlen then "err Protocol" else begin
      let skip = ref [] and torn = ref None in
      List.iter (fun o ->
          if String.length o > 5 && String.sub o 0 5 = "skip=" then
            skip := List.map int_of_string (split ',' (String.sub o 5 (String.length o - 5)))
          else if String.length o > 5 && String.sub o 0 5 = "torn=" then
            torn := Some (int_of_string (String.sub o 5 (String.length o - 5)))) opts;
      let sel = List.filteri (fun i _ -> not (List.mem i !skip)) (take_n upto all) in
      let sel = match !torn with
        | None -> sel
        | Some t -> (match drop_n upto all with
            | (SW (_, _, data) as o) :: _ when t < List.length data -> sel @ [tear o (nat_of_int t)]
            | _ -> failwith "torn") in
      let nd = { d = disk_empty; journal = []; jlen = 0 } in
      List.iter (fun o -> match apply_sop nd.d o with
          | Some d' -> nd.d <- d'; nd.journal <- o :: nd.journal; nd.jlen <- nd.jlen + 1
          | None -> ()) sel;
      Hashtbl.replace disks d2 nd; "ok" end
  | ["files"; d] ->
    let dk = Hashtbl.find disks d in
    Printf.sprintf "ok %s %s %s %s" (file_text dk.d.d_tree) (file_text dk.d.d_data)
      (file_text dk.d.d_bitfield) (file_text dk.d.d_oplog)
  | ["rawwrite"; d; s; off; hex] ->
    let dk = Hashtbl.find disks d in
    let o = SW (store_of s, n_of_string off, bytes_of_hex hex) in
    (match apply_sop dk.d o with Some d' -> dk.d <- d'; dk.journal <- o :: dk.journal; dk.jlen <- dk.jlen + 1; "ok" | None -> "err Protocol")
  | ["rawtrunc"; d; s; l] ->
    let dk = Hashtbl.find disks d in
    let o = ST (store_of s, n_of_string l) in
    (match apply_sop dk.d o with Some d' -> dk.d <- d'; dk.journal <- o :: dk.journal; dk.jlen <- dk.jlen + 1; "ok" | None -> "err Protocol")
  | "new" :: c :: d :: role :: _ -> do_open c d (Some (keypair_of_role role)) false
  | "newover" :: c :: d :: role :: _ ->
    (* Storage::open(.., overwrite = true): the four stores are emptied first, then the core is created *)
    let dk = Hashtbl.find disks d in
    dk.d <- disk_empty;
    do_open c d (Some (keypair_of_role role)) false
  | "open" :: c :: d :: _ -> do_open c d None true
  | "openkp" :: c :: d :: _ -> do_open c d (Some (keypair_of_role "writer")) true
  | ["drop"; c] -> Hashtbl.remove cores c; "ok"
  | "append" :: c :: rest ->
    let (f, blocks) = take_forced rest in
    answer (fun (l, bl) -> Printf.sprintf "%s %s" (string_of_n l) (string_of_n bl))
      (run_m c (core_append cr f (List.map bytes_of_hex blocks)))
  | "clear" :: c :: rest ->
    let (f, r) = take_forced rest in
    (match r with
     | [s; e] -> answer (fun () -> "") (run_m c (core_clear cr f (n_of_string s) (n_of_string e)))
     | _ -> "err Protocol")
  | ["get"; c; i] ->
    answer (function None -> "none" | Some v -> "some " ^ hex_of_bytes v) (run_m c (core_get (n_of_string i)))
  | ["has"; c; i] -> let co = Hashtbl.find cores c in "ok " ^ bool01 (core_has co.c (n_of_string i))
  | ["info"; c] ->
    let co = Hashtbl.find cores c in
    let i = core_info co.c in
    Printf.sprintf "ok %s %s %s %s %s" (string_of_n i.i_length) (string_of_n i.i_byte_length)
      (string_of_n i.i_contiguous) (string_of_n i.i_fork) (bool01 i.i_writeable)
  | ["missing"; c; i] -> answer string_of_n (run_m c (core_missing_nodes (n_of_string i)))
  | ["missingt"; c; i] -> answer string_of_n (run_m c (core_missing_nodes_tree (n_of_string i)))
  | ["prove"; c; b; h; s; u] ->
    let rb x = let (a, b) = parse_pair x in { rb_index = a; rb_nodes = b } in
    let ru x = let (a, b) = parse_pair x in { ru_start = a; ru_length = b } in
    answer (function None -> "none" | Some p -> proof_text p)
      (run_m c (core_create_proof (opt rb b) (opt rb h) (opt n_of_string s) (opt ru u)))
  | "apply" :: c :: rest ->
    let (f, r) = take_forced rest in
    answer bool01 (run_m c (core_apply_proof cr f (parse_proof r)))
  | "readonly" :: c :: _ -> answer bool01 (run_m c (core_make_read_only cr))
  | ["keypair"; c] ->
    let co = Hashtbl.find cores c in
    Printf.sprintf "ok %s %s" (hex_of_bytes co.c.c_keypair.kp_public)
      (bool01 (co.c.c_keypair.kp_secret <> None))
  | ["sub"; c; s] -> let co = Hashtbl.find cores c in Hashtbl.replace co.subs s (ref co.nev); "ok"
  | ["events"; c; s] ->
    let co = Hashtbl.find cores c in
    let cur = Hashtbl.find co.subs s in
    let l = drop_n !cur (List.rev co.evs) in
    cur := co.nev;
    String.concat " " ("ok" :: List.map event_text l)
  | ["enc"; ty; fields] -> codec_enc ty fields
  | ["dec"; ty; hex] -> codec_dec ty hex
  | ["ft"; "index"; d; o] -> "ok " ^ string_of_n (ft_index (n_of_string d) (n_of_string o))
  | ["ft"; "depth"; i] -> "ok " ^ string_of_n (ft_depth (n_of_string i))
  | ["ft"; "offset"; i] -> "ok " ^ string_of_n (ft_offset (n_of_string i))
  | ["ft"; "parent"; i] -> "ok " ^ string_of_n (ft_parent (n_of_string i))
  | ["ft"; "sibling"; i] -> "ok " ^ string_of_n (ft_sibling (n_of_string i))
  | ["ft"; "left_span"; i] -> "ok " ^ string_of_n (ft_left_span (n_of_string i))
  | ["ft"; "right_span"; i] -> "ok " ^ string_of_n (ft_right_span (n_of_string i))
  | ["ft"; "full_roots"; i] ->
    (match ft_full_roots (n_of_string i) with
     | [] -> "ok _" | l -> "ok " ^ String.concat "," (List.map string_of_n l))
  | "ft" :: "iter" :: start :: cmds ->
    let it = ref (it_new (n_of_string start)) in
    let out = List.map (fun cmd ->
        let arg p = n_of_string (String.sub cmd (String.length p) (String.length cmd - String.length p)) in
        let starts p = String.length cmd > String.length p && String.sub cmd 0 (String.length p) = p in
        if cmd = "parent" then (it := it_parent !it; fiter_text !it)
        else if cmd = "sibling" then (it := it_sibling !it; fiter_text !it)
        else if cmd = "left_child" then (it := it_left_child !it; fiter_text !it)
        else if cmd = "right_child" then (it := it_right_child !it; fiter_text !it)
        else if cmd = "next_tree" then (it := it_next_tree !it; fiter_text !it)
        else if cmd = "is_right" then fiter_text !it ^ "/" ^ bool01 (it_is_right !it)
        else if starts "full_root=" then (let (b, t) = it_full_root !it (arg "full_root=") in it := t; fiter_text !it ^ "/" ^ bool01 b)
        else if starts "seek=" then (it := it_new (arg "seek="); fiter_text !it)
        else if starts "contains=" then fiter_text !it ^ "/" ^ bool01 (it_contains !it (arg "contains="))
        else failwith "iter cmd") cmds in
    String.concat " " ("ok" :: out)
  | "bcx" :: cap :: ops ->
    (* the event channel model (Broadcast.v: async-broadcast as Events::new() configures it) on one operation list *)
    let arg o = n_of_string (String.sub o 1 (String.length o - 1)) in
    let parse o =
      if o = "n" then BNew else if o = "l" then BLen
      else if String.length o < 2 then failwith "bcx op"
      else match o.[0] with
        | 's' -> BSend (arg o) | 'r' -> BRecv (arg o) | 'd' -> BDrop (arg o)
        | _ -> failwith "bcx op" in
    let show = function
      | BoSent None -> "ok" | BoSent (Some d) -> "ok:" ^ string_of_n d
      | BoFull -> "full" | BoSendClosed -> "closed" | BoInactive -> "inactive"
      | BoNew k -> "id:" ^ string_of_n k
      | BoMsg m -> "m:" ^ string_of_n m | BoOverflowed n -> "ov:" ^ string_of_n n
      | BoEmpty -> "empty" | BoRecvClosed -> "closed"
      | BoDropped -> "done" | BoNoReceiver -> "x"
      | BoLen (n, rc) -> "n:" ^ string_of_n n ^ ":" ^ string_of_n rc
      | BoPanic -> "panic" in
    if n_of_string cap = N0 then "err Protocol"
    else String.concat " " ("ok" :: List.map show (run_bc_n (n_of_string cap) (List.map parse ops)))
  | "bwx" :: ops ->
    (* the word-level bitfield model (FixedWords.v: src/bitfield/fixed.rs and dynamic.rs) on one operation script; the answer has
       the format of the harness' probe (src/bitfield/verif_probe.rs), a script ends after the first panic *)
    let b01 s = s <> "0" in
    let parse o = match String.split_on_char ':' o with
      | ["fnew"] -> FNew
      | ["ffrom"; di; hx] -> FFrom (n_of_string di, bytes_of_hex hx)
      | ["fbytes"] -> FBytes
      | ["fget"; i] -> FGet (n_of_string i)
      | ["fset"; i; v] -> FSet (n_of_string i, b01 v)
      | ["frange"; s; l; v] -> FRange (n_of_string s, n_of_string l, b01 v)
      | ["findex"; v; p] -> FIndex (b01 v, n_of_string p)
      | ["flast"; v; p] -> FLast (b01 v, n_of_string p)
      | ["dopen"; len; hx] -> DOpen (n_of_string len, bytes_of_hex hx)
      | ["dflush"] -> DFlush
      | ["dget"; i] -> DGet (n_of_string i)
      | ["drange"; s; l; v] -> DRange (n_of_string s, n_of_string l, b01 v)
      | ["dindex"; v; p] -> DIndex (b01 v, n_of_string p)
      | ["dlast"; v; p] -> DLast (b01 v, n_of_string p)
      | _ -> failwith "bwx op" in
    let pairs l = String.concat "," (List.map (fun (i, v) -> string_of_n i ^ "=" ^ string_of_n v) l) in
    let show = function
      | OUnit -> "ok"
      | OBool b -> bool01 b
      | OOptN None -> "none"
      | OOptN (Some n) -> string_of_n n
      | OWords (d, len, nz) -> "dirty=" ^ bool01 d ^ " len=" ^ string_of_n len ^ " " ^ pairs nz
      | OWrites w -> "n=" ^ string_of_int (List.length w) ^ " "
                     ^ String.concat ";" (List.map (fun (off, nz) -> string_of_n off ^ ":" ^ pairs nz) w)
      | OReq n -> "size,read:0:" ^ string_of_n n
      | OPanic -> "panic" in
    let rec upto = function
      | [] -> []
      | OPanic :: _ -> [OPanic]
      | o :: r -> o :: upto r in
    "ok " ^ String.concat " | " (List.map show (upto (bw_run (List.map parse ops))))
  | "ramx" :: ps :: ops ->
    (* the paged in-memory backend model (PagedMem.v) and the flat file model (Storage.v) on one operation list *)
    let parse o = match String.split_on_char ':' o with
      | ["w"; off; hx] -> W (n_of_string off, bytes_of_hex hx)
      | ["r"; off; n] -> R (n_of_string off, n_of_string n)
      | ["d"; off; n] -> D (n_of_string off, n_of_string n)
      | ["t"; n] -> T (n_of_string n)
      | ["l"] -> L
      | _ -> failwith "ramx op" in
    let show (obs, content) =
      String.concat " " (List.map (function
          | ODone -> "done" | OBytes b -> "b:" ^ hex_of_bytes b | OOutOfBounds -> "oob"
          | OLen n -> "n:" ^ string_of_n n) obs) ^ " | " ^ hex_of_bytes content in
    let l = List.map parse ops in
    "ok " ^ show (run_ram (n_of_string ps) l) ^ " || " ^ show (run_file l)
  | "diskx" :: _dir :: ops ->
    (* the disk backend model (DiskFile.v: random-access-disk over a POSIX file; a single read delivers at most 2 MiB as under
       tokio) with hole punching, the same with `del` writing zeros, and the flat file model (Storage.v) on one operation list;
       `o` = drop and open again. Answer: punch || zeros || flat || tight=ops_tight *)
    let parse o = match String.split_on_char ':' o with
      | ["w"; off; hx] -> Dop (W (n_of_string off, bytes_of_hex hx))
      | ["r"; off; n] -> Dop (R (n_of_string off, n_of_string n))
      | ["d"; off; n] -> Dop (D (n_of_string off, n_of_string n))
      | ["t"; n] -> Dop (T (n_of_string n))
      | ["l"] -> Dop L
      | ["o"] -> Reopen
      | _ -> failwith "diskx op" in
    let obs_text obs =
      String.concat " " (List.map (function
          | ODone -> "done" | OBytes b -> "b:" ^ hex_of_bytes b | OOutOfBounds -> "oob"
          | OLen n -> "n:" ^ string_of_n n) obs) in
    let show3 ((obs, content), raw) = obs_text obs ^ " | " ^ hex_of_bytes content ^ " | " ^ hex_of_bytes raw in
    let show2 (obs, content) = obs_text obs ^ " | " ^ hex_of_bytes content in
    let l = List.map parse ops in
    let cap = Some (n_of_string "2097152") in
    "ok " ^ show3 (run_rad { dc_sparse = true; dc_read_cap = cap } l)
    ^ " || " ^ show3 (run_rad { dc_sparse = false; dc_read_cap = cap } l)
    ^ " || " ^ show2 (run_dfile l)
    ^ " || tight=" ^ bool01 (ops_tight file_empty l)
  | ["stats"] -> Printf.sprintf "ok hash_calls=%d" !hash_calls
  | _ -> "err Protocol"

let () =
  try
    while true do
      let line = input_line stdin in
      let a = (try handle line with
          | Not_found -> "err Protocol"
          | Failure m -> "err Protocol " ^ m
          | Stack_overflow -> "panic stack overflow in model"
          | Invalid_argument m -> "err Protocol " ^ m) in
      print_string a; print_char '\n'; flush stdout
    done
  with End_of_file -> (try ignore (Unix.close_process (pin, pout)) with _ -> ()); exit 0

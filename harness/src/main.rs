//! `hcharness`: line-protocol server driving the hypercore crate at /repo (see /verif/PROTOCOL.md).
//!
//! stdin: one command per line; stdout: exactly one answer line per command (flushed).
//! Nothing else is ever written to stdout; diagnostics go to stderr (only with `HC_LOG=1`).

mod sched;
mod text;
mod vecdisk;

use std::collections::HashMap;
use std::io::{BufRead, Write};
use std::panic::{catch_unwind, AssertUnwindSafe};
use std::path::PathBuf;
use std::sync::atomic::{AtomicU64, AtomicU8, Ordering};
use std::sync::{Arc, Mutex, OnceLock};
use std::time::{Duration, Instant};

use async_broadcast::{Receiver, TryRecvError};
use compact_encoding::CompactEncoding;
use futures::future::FutureExt;
use hypercore::replication::Event;
use hypercore::{
    DataBlock, DataHash, DataSeek, DataUpgrade, Hypercore, HypercoreBuilder, HypercoreError, Node,
    PartialKeypair, RequestBlock, RequestSeek, RequestUpgrade, SigningKey, Storage, StorageTraits,
    Store, VerifyingKey,
};
use random_access_disk::RandomAccessDisk;
use random_access_memory::RandomAccessMemory;
use random_access_storage::{RandomAccess, RandomAccessError};
use tokio::runtime::Runtime;

use text::*;
use vecdisk::{lock, DiskState, JOp, RamStore, SharedDisk, VecStore, STORE_LETTERS};

// ------------------------------------------------------------------------------------------
// Keys

const TEST_PUBLIC_KEY_BYTES: [u8; 32] = [
    0x97, 0x60, 0x6c, 0xaa, 0xd2, 0xb0, 0x8c, 0x1d, 0x5f, 0xe1, 0x64, 0x2e, 0xee, 0xa5, 0x62, 0xcb,
    0x91, 0xd6, 0x55, 0xe2, 0x00, 0xc8, 0xd4, 0x3a, 0x32, 0x09, 0x1d, 0x06, 0x4a, 0x33, 0x1e, 0xe3,
];
const TEST_SECRET_KEY_BYTES: [u8; 32] = [
    0x27, 0xe6, 0x74, 0x25, 0xc1, 0xff, 0xd1, 0xd9, 0xee, 0x62, 0x5c, 0x96, 0x2b, 0x57, 0x13, 0xc3,
    0x51, 0x0b, 0x71, 0x14, 0x15, 0xf3, 0x31, 0xf6, 0xfa, 0x9e, 0xf2, 0xbf, 0x23, 0x5f, 0x2f, 0xfe,
];

fn signing_key(which: &str) -> Option<SigningKey> {
    match which {
        "main" => Some(SigningKey::from_bytes(&TEST_SECRET_KEY_BYTES)),
        "alt" => Some(SigningKey::from_bytes(&[7u8; 32])),
        _ => None,
    }
}

pub(crate) fn role_key_pair(role: &str) -> Option<PartialKeypair> {
    let (which, secret) = match role {
        "writer" => ("main", true),
        "replica" => ("main", false),
        "altwriter" => ("alt", true),
        "altreplica" => ("alt", false),
        _ => return None,
    };
    let sk = signing_key(which)?;
    let public = if which == "main" {
        // Use the published public key bytes, like tests/common/mod.rs does.
        VerifyingKey::from_bytes(&TEST_PUBLIC_KEY_BYTES).ok()?
    } else {
        sk.verifying_key()
    };
    Some(PartialKeypair {
        public,
        secret: if secret { Some(sk) } else { None },
    })
}

// ------------------------------------------------------------------------------------------
// Panic capture and watchdog

static LAST_PANIC: Mutex<Option<String>> = Mutex::new(None);
static SCRATCH_DIRS: Mutex<Vec<PathBuf>> = Mutex::new(Vec::new());

const IDLE: u8 = 0;
const BUSY: u8 = 1;
const HUNG: u8 = 2;
static STATE: AtomicU8 = AtomicU8::new(IDLE);
static STARTED_MS: AtomicU64 = AtomicU64::new(0);
static EPOCH: OnceLock<Instant> = OnceLock::new();

fn now_ms() -> u64 {
    EPOCH.get_or_init(Instant::now).elapsed().as_millis() as u64
}

fn log_enabled() -> bool {
    static L: OnceLock<bool> = OnceLock::new();
    *L.get_or_init(|| std::env::var("HC_LOG").map(|v| v != "0").unwrap_or(false))
}

fn one_line(s: &str) -> String {
    s.chars()
        .map(|c| if c == '\n' || c == '\r' { ' ' } else { c })
        .collect()
}

fn install_panic_hook() {
    std::panic::set_hook(Box::new(|info| {
        let payload = info.payload();
        let msg = if let Some(s) = payload.downcast_ref::<&str>() {
            (*s).to_string()
        } else if let Some(s) = payload.downcast_ref::<String>() {
            s.clone()
        } else {
            "<non-string panic payload>".to_string()
        };
        let text = match info.location() {
            Some(l) => format!("{} @ {}:{}:{}", msg, l.file(), l.line(), l.column()),
            None => msg,
        };
        if log_enabled() {
            eprintln!("[hcharness] panic: {}", one_line(&text));
        }
        if let Ok(mut g) = LAST_PANIC.lock() {
            *g = Some(text);
        }
    }));
}

/// Run `f`, converting a panic into `Err(single-line message)`.
pub(crate) fn guarded<T>(f: impl FnOnce() -> T) -> Result<T, String> {
    if let Ok(mut g) = LAST_PANIC.lock() {
        *g = None;
    }
    match catch_unwind(AssertUnwindSafe(f)) {
        Ok(v) => Ok(v),
        Err(payload) => {
            let from_hook = LAST_PANIC.lock().ok().and_then(|mut g| g.take());
            let msg = from_hook.unwrap_or_else(|| {
                if let Some(s) = payload.downcast_ref::<&str>() {
                    (*s).to_string()
                } else if let Some(s) = payload.downcast_ref::<String>() {
                    s.clone()
                } else {
                    "<non-string panic payload>".to_string()
                }
            });
            Err(one_line(&msg))
        }
    }
}

fn cleanup_scratch() {
    if let Ok(mut g) = SCRATCH_DIRS.lock() {
        for d in g.drain(..) {
            let _ = std::fs::remove_dir_all(&d);
        }
    }
}

fn start_watchdog() {
    let limit = std::env::var("HC_WATCHDOG_MS")
        .ok()
        .and_then(|s| s.parse::<u64>().ok())
        .unwrap_or(20_000);
    std::thread::Builder::new()
        .name("watchdog".into())
        .spawn(move || loop {
            std::thread::sleep(Duration::from_millis(limit.clamp(1, 50)));
            if STATE.load(Ordering::SeqCst) == BUSY {
                let started = STARTED_MS.load(Ordering::SeqCst);
                if now_ms().saturating_sub(started) > limit
                    && STARTED_MS.load(Ordering::SeqCst) == started
                    && STATE
                        .compare_exchange(BUSY, HUNG, Ordering::SeqCst, Ordering::SeqCst)
                        .is_ok()
                {
                    {
                        let out = std::io::stdout();
                        let mut out = out.lock();
                        let _ = out.write_all(b"hang\n");
                        let _ = out.flush();
                    }
                    cleanup_scratch();
                    std::process::exit(3);
                }
            }
        })
        .expect("spawn watchdog");
}

// ------------------------------------------------------------------------------------------
// Disks and cores

type SharedRam = Arc<futures::lock::Mutex<RandomAccessMemory>>;

#[derive(Clone)]
pub(crate) enum Disk {
    Vec(SharedDisk),
    Ram([SharedRam; 4]),
    File(PathBuf),
}

const FILE_NAMES: [&str; 4] = ["tree", "data", "bitfield", "oplog"];

fn store_idx(store: &Store) -> usize {
    match store {
        Store::Tree => 0,
        Store::Data => 1,
        Store::Bitfield => 2,
        Store::Oplog => 3,
    }
}

#[derive(Clone, Copy, PartialEq, Debug)]
pub(crate) enum CacheMode {
    Off,
    Default,
    Tiny,
}

fn parse_cache(tokens: &[&str]) -> Option<CacheMode> {
    let mut mode = CacheMode::Off;
    for t in tokens {
        mode = match *t {
            "cache=off" => CacheMode::Off,
            "cache=default" => CacheMode::Default,
            "cache=tiny" => CacheMode::Tiny,
            _ => return None,
        };
    }
    Some(mode)
}

type BoxedStore = Box<dyn StorageTraits + Send>;

/// `Storage::open(.., overwrite)`: set by the `newover` command only.
static OVERWRITE: std::sync::atomic::AtomicBool = std::sync::atomic::AtomicBool::new(false);

async fn open_storage(disk: &Disk) -> Result<Storage, HypercoreError> {
    match disk {
        Disk::Vec(d) => {
            let d = d.clone();
            Storage::open(
                move |store: Store| {
                    let d = d.clone();
                    async move {
                        Ok(Box::new(VecStore::new(d, store_idx(&store))) as BoxedStore)
                    }
                    .boxed()
                },
                OVERWRITE.load(Ordering::SeqCst),
            )
            .await
        }
        Disk::Ram(rams) => {
            let rams = rams.clone();
            Storage::open(
                move |store: Store| {
                    let r = rams[store_idx(&store)].clone();
                    async move { Ok(Box::new(RamStore(r)) as BoxedStore) }.boxed()
                },
                OVERWRITE.load(Ordering::SeqCst),
            )
            .await
        }
        Disk::File(dir) => {
            let dir = dir.clone();
            Storage::open(
                move |store: Store| {
                    let path = dir.join(FILE_NAMES[store_idx(&store)]);
                    async move { Ok(Box::new(RandomAccessDisk::open(path).await?) as BoxedStore) }
                        .boxed()
                },
                OVERWRITE.load(Ordering::SeqCst),
            )
            .await
        }
    }
}

pub(crate) async fn build_core(
    disk: &Disk,
    key_pair: Option<PartialKeypair>,
    open: bool,
    cache: CacheMode,
) -> Result<Hypercore, HypercoreError> {
    let storage = open_storage(disk).await?;
    let mut builder = HypercoreBuilder::new(storage);
    if let Some(kp) = key_pair {
        builder = builder.key_pair(kp);
    }
    if open {
        builder = builder.open(true);
    }
    #[cfg(feature = "cache")]
    {
        builder = match cache {
            CacheMode::Off => builder,
            CacheMode::Default => {
                builder.node_cache_options(hypercore::CacheOptionsBuilder::new())
            }
            CacheMode::Tiny => builder
                .node_cache_options(hypercore::CacheOptionsBuilder::new().max_capacity(150)),
        };
    }
    #[cfg(not(feature = "cache"))]
    {
        let _ = cache;
    }
    builder.build().await
}

pub(crate) fn err_name(e: &HypercoreError) -> &'static str {
    match e {
        HypercoreError::BadArgument { .. } => "BadArgument",
        HypercoreError::NotWritable => "NotWritable",
        HypercoreError::InvalidSignature { .. } => "InvalidSignature",
        HypercoreError::InvalidChecksum { .. } => "InvalidChecksum",
        HypercoreError::EmptyStorage { .. } => "EmptyStorage",
        HypercoreError::CorruptStorage { .. } => "CorruptStorage",
        HypercoreError::InvalidOperation { .. } => "InvalidOperation",
        HypercoreError::IO { .. } => "IO",
    }
}

fn err_answer(e: &HypercoreError) -> String {
    if log_enabled() {
        eprintln!("[hcharness] error: {}", one_line(&e.to_string()));
    }
    format!("err {}", err_name(e))
}

struct CoreEntry {
    core: Hypercore,
    #[allow(dead_code)]
    disk: String,
}

struct Server {
    rt: Runtime,
    disks: HashMap<String, Disk>,
    cores: HashMap<String, CoreEntry>,
    subs: HashMap<(String, String), Receiver<Event>>,
    scratch_counter: u64,
}

fn new_runtime() -> Runtime {
    tokio::runtime::Builder::new_current_thread()
        .build()
        .expect("tokio runtime")
}

fn jop_str(op: &JOp) -> String {
    match op {
        JOp::Write { store, off, data } => {
            format!("w:{}:{}:{}", STORE_LETTERS[*store], off, hex(data))
        }
        JOp::Del { store, off, len } => format!("d:{}:{}:{}", STORE_LETTERS[*store], off, len),
        JOp::Trunc { store, len } => format!("t:{}:{}", STORE_LETTERS[*store], len),
    }
}

fn file_field(bytes: &[u8]) -> String {
    format!("{}:{}", bytes.len(), hex(bytes))
}

async fn read_all(s: &mut (dyn RandomAccess + Send)) -> Result<Vec<u8>, RandomAccessError> {
    let n = s.len().await?;
    if n == 0 {
        return Ok(Vec::new());
    }
    s.read(0, n).await
}

impl Server {
    fn new() -> Self {
        Server {
            rt: new_runtime(),
            disks: HashMap::new(),
            cores: HashMap::new(),
            subs: HashMap::new(),
            scratch_counter: 0,
        }
    }

    fn drop_core(&mut self, name: &str) {
        self.subs.retain(|k, _| k.0 != name);
        if let Some(entry) = self.cores.remove(name) {
            let _ = guarded(move || drop(entry));
        }
    }

    fn reset(&mut self) {
        let names: Vec<String> = self.cores.keys().cloned().collect();
        for n in names {
            self.drop_core(&n);
        }
        self.subs.clear();
        self.disks.clear();
        cleanup_scratch();
    }

    fn vec_disk(&self, name: &str) -> Option<SharedDisk> {
        match self.disks.get(name)? {
            Disk::Vec(d) => Some(d.clone()),
            _ => None,
        }
    }

    /// Run a closure on a core.  A panic drops the core from the table.
    fn run_core(
        &mut self,
        name: &str,
        f: impl FnOnce(&Runtime, &mut Hypercore) -> String,
    ) -> Option<String> {
        let mut entry = self.cores.remove(name)?;
        let rt = &self.rt;
        match guarded(|| f(rt, &mut entry.core)) {
            Ok(s) => {
                self.cores.insert(name.to_string(), entry);
                Some(s)
            }
            Err(p) => {
                self.subs.retain(|k, _| k.0 != name);
                let _ = guarded(move || drop(entry));
                // A panic may have unwound through the runtime: start from a fresh one.
                self.rt = new_runtime();
                Some(format!("panic {p}"))
            }
        }
    }

    fn handle(&mut self, line: &str) -> String {
        let t: Vec<&str> = line.split_whitespace().collect();
        if t.is_empty() {
            return "err Protocol".to_string();
        }
        let r = match t[0] {
            "reset" if t.len() == 1 => {
                self.reset();
                Some("ok".to_string())
            }
            "disk" => self.cmd_disk(&t),
            "journal" => self.cmd_journal(&t),
            "fork" => self.cmd_fork(&t),
            "files" => self.cmd_files(&t),
            "rawwrite" => self.cmd_rawwrite(&t),
            "rawtrunc" => self.cmd_rawtrunc(&t),
            "opcount" => self.cmd_opcount(&t),
            "fail" => self.cmd_fail(&t),
            "new" => self.cmd_new(&t),
            "newover" => self.cmd_newover(&t),
            "open" => self.cmd_open(&t),
            "openkp" => self.cmd_openkp(&t),
            "drop" => self.cmd_drop(&t),
            "append" => self.cmd_append(&t),
            "clear" => self.cmd_clear(&t),
            "get" => self.cmd_get(&t),
            "has" => self.cmd_has(&t),
            "info" => self.cmd_info(&t),
            "missing" => self.cmd_missing(&t, false),
            "missingt" => self.cmd_missing(&t, true),
            "prove" => self.cmd_prove(&t),
            "apply" => self.cmd_apply(&t),
            "readonly" => self.cmd_readonly(&t),
            "keypair" => self.cmd_keypair(&t),
            "sub" => self.cmd_sub(&t),
            "events" => self.cmd_events(&t),
            "enc" => cmd_enc(&t),
            "dec" => cmd_dec(&t),
            "prim" => cmd_prim(&t),
            "bcx" => cmd_bcx(&t),
            "ft" => cmd_ft(&t),
            "ramx" => cmd_ramx(&t),
            "bwx" => cmd_bwx(&t),
            "diskx" => self.cmd_diskx(&t),
            "sched" => self.cmd_sched(&t),
            "schedr" => self.cmd_schedr(&t),
            _ => None,
        };
        one_line(&r.unwrap_or_else(|| "err Protocol".to_string()))
    }

    // ------------------------------------------------------------------ disks

    fn cmd_disk(&mut self, t: &[&str]) -> Option<String> {
        // disk D [vec|ram|file] [from=V]   (from=V, file only: the four stores start as copies of those of the vec disk V)
        if t.len() < 2 || t.len() > 4 || !valid_name(t[1]) {
            return None;
        }
        let kind = if t.len() >= 3 { t[2] } else { "vec" };
        let from: Option<[Vec<u8>; 4]> = match t.get(3) {
            None => None,
            Some(x) => {
                let v = x.strip_prefix("from=")?;
                if kind != "file" {
                    return None;
                }
                let d = self.vec_disk(v)?;
                let st = lock(&d);
                Some(st.files.clone())
            }
        };
        let disk = match kind {
            "vec" => Disk::Vec(Arc::new(Mutex::new(DiskState::new()))),
            "ram" => Disk::Ram(std::array::from_fn(|_| {
                Arc::new(futures::lock::Mutex::new(RandomAccessMemory::default()))
            })),
            "file" => {
                let base = std::env::var_os("HC_SCRATCH")
                    .map(PathBuf::from)
                    .unwrap_or_else(std::env::temp_dir);
                self.scratch_counter += 1;
                let dir = base.join(format!(
                    "hcharness_{}_{}_{}",
                    std::process::id(),
                    self.scratch_counter,
                    t[1]
                ));
                let _ = std::fs::remove_dir_all(&dir);
                if std::fs::create_dir_all(&dir).is_err() {
                    return Some("err IO".to_string());
                }
                if let Ok(mut g) = SCRATCH_DIRS.lock() {
                    g.push(dir.clone());
                }
                if let Some(files) = &from {
                    for (k, name) in FILE_NAMES.iter().enumerate() {
                        if std::fs::write(dir.join(name), &files[k]).is_err() {
                            return Some("err IO".to_string());
                        }
                    }
                }
                Disk::File(dir)
            }
            _ => return None,
        };
        self.disks.insert(t[1].to_string(), disk);
        Some("ok".to_string())
    }

    fn cmd_journal(&mut self, t: &[&str]) -> Option<String> {
        if t.len() != 3 {
            return None;
        }
        let d = self.vec_disk(t[1])?;
        let from = num(t[2])?;
        let st = lock(&d);
        let mut out = format!("ok {}", st.journal.len());
        for op in st.journal.iter().skip(from.min(usize::MAX as u64) as usize) {
            out.push(' ');
            out.push_str(&jop_str(op));
        }
        Some(out)
    }

    fn cmd_fork(&mut self, t: &[&str]) -> Option<String> {
        // fork D2 D1 UPTO [skip=i,j,..] [torn=T]
        if t.len() < 4 || !valid_name(t[1]) {
            return None;
        }
        let src = self.vec_disk(t[2])?;
        let upto = num(t[3])? as usize;
        let mut skip: Vec<u64> = Vec::new();
        let mut torn: Option<u64> = None;
        for tok in &t[4..] {
            if let Some(list) = tok.strip_prefix("skip=") {
                if !list.is_empty() {
                    for s in list.split(',') {
                        skip.push(num(s)?);
                    }
                }
            } else if let Some(n) = tok.strip_prefix("torn=") {
                torn = Some(num(n)?);
            } else {
                return None;
            }
        }
        let mut new = DiskState::new();
        {
            let st = lock(&src);
            if upto > st.journal.len() {
                return None;
            }
            let torn_op = match torn {
                None => None,
                Some(tn) => match st.journal.get(upto)? {
                    JOp::Write { store, off, data } if (tn as usize) < data.len() => {
                        Some(JOp::Write {
                            store: *store,
                            off: *off,
                            data: data[..tn as usize].to_vec(),
                        })
                    }
                    _ => return None,
                },
            };
            for (i, op) in st.journal[..upto].iter().enumerate() {
                if skip.contains(&(i as u64)) {
                    continue;
                }
                // An entry that cannot be applied (e.g. out of bounds after skips) is dropped.
                let _ = new.apply_journalled(op.clone());
            }
            if let Some(op) = torn_op {
                let _ = new.apply_journalled(op);
            }
        }
        self.disks
            .insert(t[1].to_string(), Disk::Vec(Arc::new(Mutex::new(new))));
        Some("ok".to_string())
    }

    fn cmd_files(&mut self, t: &[&str]) -> Option<String> {
        if t.len() != 2 {
            return None;
        }
        let disk = self.disks.get(t[1])?.clone();
        match disk {
            Disk::Vec(d) => {
                let st = lock(&d);
                Some(format!(
                    "ok {} {} {} {}",
                    file_field(&st.files[0]),
                    file_field(&st.files[1]),
                    file_field(&st.files[2]),
                    file_field(&st.files[3])
                ))
            }
            Disk::Ram(rams) => {
                let rt = &self.rt;
                let r = guarded(|| {
                    rt.block_on(async {
                        let mut out = Vec::new();
                        for r in rams.iter() {
                            let mut g = r.lock().await;
                            out.push(read_all(&mut *g).await?);
                        }
                        Ok::<_, RandomAccessError>(out)
                    })
                });
                Some(files_answer(r))
            }
            Disk::File(dir) => {
                let rt = &self.rt;
                let r = guarded(|| {
                    rt.block_on(async {
                        let mut out = Vec::new();
                        for name in FILE_NAMES {
                            let mut f = RandomAccessDisk::open(dir.join(name)).await?;
                            out.push(read_all(&mut f).await?);
                        }
                        Ok::<_, RandomAccessError>(out)
                    })
                });
                Some(files_answer(r))
            }
        }
    }

    /// Apply a raw operation to any kind of disk.
    fn raw_op(&mut self, dname: &str, op: JOp) -> Option<String> {
        let disk = self.disks.get(dname)?.clone();
        let (store, _) = match &op {
            JOp::Write { store, .. } | JOp::Del { store, .. } | JOp::Trunc { store, .. } => {
                (*store, ())
            }
        };
        let res: Result<Result<(), RandomAccessError>, String> = match disk {
            Disk::Vec(d) => Ok(lock(&d).apply_journalled(op)),
            Disk::Ram(rams) => {
                let rt = &self.rt;
                guarded(|| {
                    rt.block_on(async {
                        let mut g = rams[store].lock().await;
                        apply_raw(&mut *g, &op).await
                    })
                })
            }
            Disk::File(dir) => {
                let rt = &self.rt;
                guarded(|| {
                    rt.block_on(async {
                        let mut f = RandomAccessDisk::open(dir.join(FILE_NAMES[store])).await?;
                        apply_raw(&mut f, &op).await
                    })
                })
            }
        };
        Some(match res {
            Ok(Ok(())) => "ok".to_string(),
            Ok(Err(RandomAccessError::OutOfBounds { .. })) => "err InvalidOperation".to_string(),
            Ok(Err(_)) => "err IO".to_string(),
            Err(p) => format!("panic {p}"),
        })
    }

    fn cmd_rawwrite(&mut self, t: &[&str]) -> Option<String> {
        if t.len() != 5 {
            return None;
        }
        let op = JOp::Write {
            store: vecdisk::store_index(t[2])?,
            off: num(t[3])?,
            data: unhex(t[4])?,
        };
        self.raw_op(t[1], op)
    }

    fn cmd_rawtrunc(&mut self, t: &[&str]) -> Option<String> {
        if t.len() != 4 {
            return None;
        }
        let op = JOp::Trunc {
            store: vecdisk::store_index(t[2])?,
            len: num(t[3])?,
        };
        self.raw_op(t[1], op)
    }

    fn cmd_opcount(&mut self, t: &[&str]) -> Option<String> {
        if t.len() != 2 {
            return None;
        }
        let d = self.vec_disk(t[1])?;
        let n = lock(&d).ops;
        Some(format!("ok {n}"))
    }

    fn cmd_fail(&mut self, t: &[&str]) -> Option<String> {
        if t.len() != 3 {
            return None;
        }
        let d = self.vec_disk(t[1])?;
        let k = if t[2] == "off" { None } else { Some(num(t[2])?) };
        lock(&d).fail_at = k;
        Some("ok".to_string())
    }

    // ------------------------------------------------------------------ cores

    fn build(
        &mut self,
        cname: &str,
        dname: &str,
        key_pair: Option<PartialKeypair>,
        open: bool,
        cache: CacheMode,
    ) -> Option<String> {
        if !valid_name(cname) {
            return None;
        }
        let disk = self.disks.get(dname)?.clone();
        self.drop_core(cname);
        let rt = &self.rt;
        match guarded(|| rt.block_on(build_core(&disk, key_pair, open, cache))) {
            Err(p) => {
                self.rt = new_runtime();
                Some(format!("panic {p}"))
            }
            Ok(Err(e)) => Some(err_answer(&e)),
            Ok(Ok(core)) => {
                self.cores.insert(
                    cname.to_string(),
                    CoreEntry {
                        core,
                        disk: dname.to_string(),
                    },
                );
                Some("ok".to_string())
            }
        }
    }

    fn cmd_new(&mut self, t: &[&str]) -> Option<String> {
        if t.len() < 4 {
            return None;
        }
        let kp = role_key_pair(t[3])?;
        let cache = parse_cache(&t[4..])?;
        self.build(t[1], t[2], Some(kp), false, cache)
    }

    /// `newover C D ROLE [cache=…]`: like `new`, but the storage is opened with `overwrite = true`
    /// (existing contents of the four stores are discarded before the core is built).
    fn cmd_newover(&mut self, t: &[&str]) -> Option<String> {
        OVERWRITE.store(true, Ordering::SeqCst);
        let r = self.cmd_new(t);
        OVERWRITE.store(false, Ordering::SeqCst);
        r
    }

    fn cmd_open(&mut self, t: &[&str]) -> Option<String> {
        if t.len() < 3 {
            return None;
        }
        let cache = parse_cache(&t[3..])?;
        self.build(t[1], t[2], None, true, cache)
    }

    fn cmd_openkp(&mut self, t: &[&str]) -> Option<String> {
        if t.len() != 3 {
            return None;
        }
        let kp = role_key_pair("writer")?;
        self.build(t[1], t[2], Some(kp), true, CacheMode::Off)
    }

    fn cmd_drop(&mut self, t: &[&str]) -> Option<String> {
        if t.len() != 2 || !self.cores.contains_key(t[1]) {
            return None;
        }
        self.drop_core(t[1]);
        Some("ok".to_string())
    }

    fn cmd_append(&mut self, t: &[&str]) -> Option<String> {
        if t.len() < 2 {
            return None;
        }
        let args = strip_f(&t[2..]);
        let blocks: Vec<Vec<u8>> = args.iter().map(|s| unhex(s)).collect::<Option<_>>()?;
        self.run_core(t[1], move |rt, core| {
            let r = rt.block_on(async {
                if blocks.len() == 1 {
                    core.append(&blocks[0]).await
                } else {
                    core.append_batch(&blocks).await
                }
            });
            match r {
                Ok(o) => format!("ok {} {}", o.length, o.byte_length),
                Err(e) => err_answer(&e),
            }
        })
    }

    fn cmd_clear(&mut self, t: &[&str]) -> Option<String> {
        if t.len() < 2 {
            return None;
        }
        let args = strip_f(&t[2..]);
        if args.len() != 2 {
            return None;
        }
        let (start, end) = (num(args[0])?, num(args[1])?);
        self.run_core(t[1], move |rt, core| {
            match rt.block_on(core.clear(start, end)) {
                Ok(()) => "ok".to_string(),
                Err(e) => err_answer(&e),
            }
        })
    }

    fn cmd_get(&mut self, t: &[&str]) -> Option<String> {
        if t.len() != 3 {
            return None;
        }
        let i = num(t[2])?;
        self.run_core(t[1], move |rt, core| get_answer(rt.block_on(core.get(i))))
    }

    fn cmd_has(&mut self, t: &[&str]) -> Option<String> {
        if t.len() != 3 {
            return None;
        }
        let i = num(t[2])?;
        self.run_core(t[1], move |_, core| format!("ok {}", core.has(i) as u8))
    }

    fn cmd_info(&mut self, t: &[&str]) -> Option<String> {
        if t.len() != 2 {
            return None;
        }
        self.run_core(t[1], |_, core| info_answer(&core.info()))
    }

    fn cmd_missing(&mut self, t: &[&str], tree_index: bool) -> Option<String> {
        if t.len() != 3 {
            return None;
        }
        let i = num(t[2])?;
        self.run_core(t[1], move |rt, core| {
            let r = rt.block_on(async {
                if tree_index {
                    core.missing_nodes_from_merkle_tree_index(i).await
                } else {
                    core.missing_nodes(i).await
                }
            });
            match r {
                Ok(n) => format!("ok {n}"),
                Err(e) => err_answer(&e),
            }
        })
    }

    fn cmd_prove(&mut self, t: &[&str]) -> Option<String> {
        if t.len() != 6 {
            return None;
        }
        let block = opt(t[2], parse_reqblock)?;
        let hash = opt(t[3], parse_reqblock)?;
        let seek = opt(t[4], parse_reqseek)?;
        let upgrade = opt(t[5], parse_requpgrade)?;
        self.run_core(t[1], move |rt, core| {
            match rt.block_on(core.create_proof(block, hash, seek, upgrade)) {
                Ok(None) => "ok none".to_string(),
                Ok(Some(p)) => format!("ok {}", proof_str(&p)),
                Err(e) => err_answer(&e),
            }
        })
    }

    fn cmd_apply(&mut self, t: &[&str]) -> Option<String> {
        if t.len() < 2 {
            return None;
        }
        let args = strip_f(&t[2..]);
        let proof = parse_proof(&args)?;
        self.run_core(t[1], move |rt, core| {
            match rt.block_on(core.verify_and_apply_proof(&proof)) {
                Ok(b) => format!("ok {}", b as u8),
                Err(e) => err_answer(&e),
            }
        })
    }

    fn cmd_readonly(&mut self, t: &[&str]) -> Option<String> {
        if t.len() < 2 || !strip_f(&t[2..]).is_empty() {
            return None;
        }
        self.run_core(t[1], |rt, core| match rt.block_on(core.make_read_only()) {
            Ok(b) => format!("ok {}", b as u8),
            Err(e) => err_answer(&e),
        })
    }

    fn cmd_keypair(&mut self, t: &[&str]) -> Option<String> {
        if t.len() != 2 {
            return None;
        }
        self.run_core(t[1], |_, core| {
            let kp = core.key_pair();
            format!(
                "ok {} {}",
                hex(kp.public.as_bytes()),
                kp.secret.is_some() as u8
            )
        })
    }

    fn cmd_sub(&mut self, t: &[&str]) -> Option<String> {
        if t.len() != 3 || !valid_name(t[2]) {
            return None;
        }
        let entry = self.cores.get(t[1])?;
        let core = &entry.core;
        match guarded(|| core.event_subscribe()) {
            Ok(rx) => {
                self.subs.insert((t[1].to_string(), t[2].to_string()), rx);
                Some("ok".to_string())
            }
            Err(p) => Some(format!("panic {p}")),
        }
    }

    fn cmd_events(&mut self, t: &[&str]) -> Option<String> {
        if t.len() != 3 {
            return None;
        }
        let rx = self.subs.get_mut(&(t[1].to_string(), t[2].to_string()))?;
        let r = guarded(|| {
            let mut out = String::from("ok");
            loop {
                match rx.try_recv() {
                    Ok(Event::DataUpgrade(_)) => out.push_str(" U"),
                    Ok(Event::Have(h)) => {
                        out.push_str(&format!(" H:{}:{}:{}", h.start, h.length, h.drop as u8))
                    }
                    Ok(Event::Get(g)) => out.push_str(&format!(" G:{}", g.index)),
                    Err(TryRecvError::Overflowed(n)) => out.push_str(&format!(" O:{n}")),
                    Err(TryRecvError::Empty) | Err(TryRecvError::Closed) => break,
                }
            }
            out
        });
        Some(match r {
            Ok(s) => s,
            Err(p) => format!("panic {p}"),
        })
    }

    // ------------------------------------------------------------------ scheduler mode

    /// Optional leading `key=value` tokens of the scheduler commands.
    fn sched_options<'a>(t: &[&'a str]) -> Option<(u64, Option<&'a str>, Option<&'a str>, usize)> {
        let (mut slow, mut blocks, mut have, mut k) = (0u64, None, None, 0usize);
        while k < t.len() {
            if let Some(v) = t[k].strip_prefix("slow=") {
                slow = num(v)?;
                if slow > 100_000 {
                    return None;
                }
            } else if let Some(v) = t[k].strip_prefix("blocks=") {
                blocks = Some(v);
            } else if let Some(v) = t[k].strip_prefix("have=") {
                have = Some(v);
            } else {
                break;
            }
            k += 1;
        }
        Some((slow, blocks, have, k))
    }

    fn sched_finish(&mut self, r: Result<Result<String, String>, String>) -> String {
        match r {
            Ok(Ok(s)) => s,
            Ok(Err(s)) => s,
            Err(p) => {
                self.rt = new_runtime();
                format!("panic {p}")
            }
        }
    }

    fn cmd_sched(&mut self, t: &[&str]) -> Option<String> {
        // sched D SEED NT [slow=MICROS] task1 | task2 | ...
        if t.len() < 4 || !valid_name(t[1]) {
            return None;
        }
        let seed = num(t[2])?;
        let nt = num(t[3])? as usize;
        let (slow, blocks, have, k) = Self::sched_options(&t[4..])?;
        if blocks.is_some() || have.is_some() {
            return None;
        }
        let rest = t[4 + k..].join(" ");
        let tasks = sched::parse_tasks(&rest, nt, 0)?;
        let shared: SharedDisk = Arc::new(Mutex::new(DiskState::new()));
        let disk = Disk::Vec(shared.clone());
        self.disks.insert(t[1].to_string(), disk.clone());
        let rt = &self.rt;
        let kp = role_key_pair("writer")?;
        let core =
            match guarded(|| rt.block_on(build_core(&disk, Some(kp), false, CacheMode::Off))) {
                Err(p) => {
                    self.rt = new_runtime();
                    return Some(format!("panic {p}"));
                }
                Ok(Err(e)) => return Some(err_answer(&e)),
                Ok(Ok(core)) => core,
            };
        lock(&shared).yield_mode = true;
        let sd = shared.clone();
        let r = guarded(move || sched::run(core, &sd, seed, tasks, Vec::new(), slow));
        lock(&shared).yield_mode = false;
        Some(self.sched_finish(r))
    }

    fn cmd_schedr(&mut self, t: &[&str]) -> Option<String> {
        // schedr D SEED NT blocks=HEX,HEX,... [have=I,J,...] [slow=MICROS] task1 | task2 | ...
        if t.len() < 5 || !valid_name(t[1]) {
            return None;
        }
        let seed = num(t[2])?;
        let nt = num(t[3])? as usize;
        let (slow, blocks, have, k) = Self::sched_options(&t[4..])?;
        let blocks: Vec<Vec<u8>> = blocks?.split(',').map(unhex).collect::<Option<_>>()?;
        if blocks.is_empty() || blocks.len() > 4096 {
            return None;
        }
        let n = blocks.len() as u64;
        let have: Vec<u64> = match have {
            None | Some("_") => Vec::new(),
            Some(h) => h.split(',').map(num).collect::<Option<_>>()?,
        };
        if have.iter().any(|i| *i >= n) {
            return None;
        }
        let rest = t[4 + k..].join(" ");
        let tasks = sched::parse_tasks(&rest, nt, n)?;

        let shared: SharedDisk = Arc::new(Mutex::new(DiskState::new()));
        let disk = Disk::Vec(shared.clone());
        self.disks.insert(t[1].to_string(), disk.clone());
        let scratch = Disk::Vec(Arc::new(Mutex::new(DiskState::new())));
        let rt = &self.rt;
        let wkp = role_key_pair("writer")?;
        let rkp = role_key_pair("replica")?;

        // Sequential set-up (no preemption): writer with the blocks, replica at the writer's
        // length by ONE upgrade-only proof, one self-contained proof per block (its `nodes` =
        // what the replica misses while it holds no block at all: every sibling up to a root),
        // then the blocks of `have=` applied.
        let setup = guarded(|| {
            rt.block_on(async {
                let fail = |what: &str, e: &HypercoreError| {
                    format!("err SchedSetup {} {}", what, err_name(e))
                };
                let mut writer = build_core(&scratch, Some(wkp), false, CacheMode::Off)
                    .await
                    .map_err(|e| fail("writer", &e))?;
                writer
                    .append_batch(&blocks)
                    .await
                    .map_err(|e| fail("append", &e))?;
                let mut replica = build_core(&disk, Some(rkp), false, CacheMode::Off)
                    .await
                    .map_err(|e| fail("replica", &e))?;
                let up = writer
                    .create_proof(None, None, None, Some(RequestUpgrade { start: 0, length: n }))
                    .await
                    .map_err(|e| fail("upgrade-proof", &e))?
                    .ok_or_else(|| "err SchedSetup upgrade-proof none".to_string())?;
                match replica.verify_and_apply_proof(&up).await {
                    Ok(true) => {}
                    Ok(false) => return Err("err SchedSetup upgrade-apply false".to_string()),
                    Err(e) => return Err(fail("upgrade-apply", &e)),
                }
                let mut proofs = Vec::with_capacity(blocks.len());
                for i in 0..n {
                    let nodes = replica
                        .missing_nodes(i)
                        .await
                        .map_err(|e| fail("missing", &e))?;
                    let p = writer
                        .create_proof(Some(RequestBlock { index: i, nodes }), None, None, None)
                        .await
                        .map_err(|e| fail("block-proof", &e))?
                        .ok_or_else(|| "err SchedSetup block-proof none".to_string())?;
                    proofs.push(p);
                }
                for i in &have {
                    match replica.verify_and_apply_proof(&proofs[*i as usize]).await {
                        Ok(true) => {}
                        Ok(false) => return Err("err SchedSetup have-apply false".to_string()),
                        Err(e) => return Err(fail("have-apply", &e)),
                    }
                }
                let info = replica.info();
                if info.length != n || info.writeable {
                    return Err("err SchedSetup replica-info".to_string());
                }
                Ok((replica, proofs))
            })
        });
        let (replica, proofs) = match setup {
            Err(p) => {
                self.rt = new_runtime();
                return Some(format!("panic {p}"));
            }
            Ok(Err(s)) => return Some(s),
            Ok(Ok(x)) => x,
        };
        lock(&shared).yield_mode = true;
        let sd = shared.clone();
        let r = guarded(move || sched::run(replica, &sd, seed, tasks, proofs, slow));
        lock(&shared).yield_mode = false;
        Some(self.sched_finish(r))
    }
}

fn files_answer(r: Result<Result<Vec<Vec<u8>>, RandomAccessError>, String>) -> String {
    match r {
        Ok(Ok(v)) => format!(
            "ok {} {} {} {}",
            file_field(&v[0]),
            file_field(&v[1]),
            file_field(&v[2]),
            file_field(&v[3])
        ),
        Ok(Err(RandomAccessError::OutOfBounds { .. })) => "err InvalidOperation".to_string(),
        Ok(Err(_)) => "err IO".to_string(),
        Err(p) => format!("panic {p}"),
    }
}

async fn apply_raw(
    s: &mut (dyn RandomAccess + Send),
    op: &JOp,
) -> Result<(), RandomAccessError> {
    match op {
        JOp::Write { off, data, .. } => s.write(*off, data).await,
        JOp::Del { off, len, .. } => s.del(*off, *len).await,
        JOp::Trunc { len, .. } => s.truncate(*len).await,
    }
}

/// Remove `F=…` tokens (forced flush decisions are for the model driver only).
fn strip_f<'a>(tokens: &[&'a str]) -> Vec<&'a str> {
    tokens
        .iter()
        .copied()
        .filter(|s| !s.starts_with("F="))
        .collect()
}

pub(crate) fn get_answer(r: Result<Option<Vec<u8>>, HypercoreError>) -> String {
    match r {
        Ok(None) => "ok none".to_string(),
        Ok(Some(v)) => format!("ok some {}", hex(&v)),
        Err(e) => err_answer(&e),
    }
}

pub(crate) fn info_answer(i: &hypercore::Info) -> String {
    format!(
        "ok {} {} {} {} {}",
        i.length, i.byte_length, i.contiguous_length, i.fork, i.writeable as u8
    )
}

// ------------------------------------------------------------------------------------------
// Codecs

fn enc_any<T: CompactEncoding>(v: &T) -> String {
    let size = match v.encoded_size() {
        Ok(s) => s,
        Err(_) => return "err Encoding".to_string(),
    };
    let mut buf = vec![0u8; size];
    if v.encode(&mut buf).is_err() {
        return "err Encoding".to_string();
    }
    format!("ok {} {}", size, hex(&buf))
}

fn dec_any<T: CompactEncoding>(bytes: &[u8], show: impl Fn(&T) -> String) -> String {
    match T::decode(bytes) {
        Ok((v, rest)) => format!("ok {} {}", show(&v), hex(rest)),
        Err(_) => "err Encoding".to_string(),
    }
}

fn cmd_enc(t: &[&str]) -> Option<String> {
    if t.len() != 3 {
        return None;
    }
    let f = t[2];
    let r = match t[1] {
        "node" => {
            let v = parse_node(f)?;
            guarded(|| enc_any(&v))
        }
        "reqblock" => {
            let v = parse_reqblock(f)?;
            guarded(|| enc_any(&v))
        }
        "reqseek" => {
            let v = parse_reqseek(f)?;
            guarded(|| enc_any(&v))
        }
        "requpgrade" => {
            let v = parse_requpgrade(f)?;
            guarded(|| enc_any(&v))
        }
        "datablock" => {
            let v = parse_datablock(f)?;
            guarded(|| enc_any(&v))
        }
        "datahash" => {
            let v = parse_datahash(f)?;
            guarded(|| enc_any(&v))
        }
        "dataseek" => {
            let v = parse_dataseek(f)?;
            guarded(|| enc_any(&v))
        }
        "dataupgrade" => {
            let v = parse_dataupgrade(f)?;
            guarded(|| enc_any(&v))
        }
        _ => return None,
    };
    Some(r.unwrap_or_else(|p| format!("panic {p}")))
}

fn cmd_dec(t: &[&str]) -> Option<String> {
    if t.len() != 3 {
        return None;
    }
    let b = unhex(t[2])?;
    let r = match t[1] {
        "node" => guarded(|| dec_any::<Node>(&b, node_str)),
        "reqblock" => guarded(|| dec_any::<RequestBlock>(&b, reqblock_str)),
        "reqseek" => guarded(|| dec_any::<RequestSeek>(&b, reqseek_str)),
        "requpgrade" => guarded(|| dec_any::<RequestUpgrade>(&b, requpgrade_str)),
        "datablock" => guarded(|| dec_any::<DataBlock>(&b, datablock_str)),
        "datahash" => guarded(|| dec_any::<DataHash>(&b, datahash_str)),
        "dataseek" => guarded(|| dec_any::<DataSeek>(&b, dataseek_str)),
        "dataupgrade" => guarded(|| dec_any::<DataUpgrade>(&b, dataupgrade_str)),
        _ => return None,
    };
    Some(r.unwrap_or_else(|p| format!("panic {p}")))
}

// ------------------------------------------------------------------------------------------
// Primitives (dependency crates called directly)

fn cmd_prim(t: &[&str]) -> Option<String> {
    use blake2::digest::consts::U32;
    use blake2::{Blake2b, Digest};
    use ed25519_dalek::{Signature, Signer, Verifier};
    if t.len() < 2 {
        return None;
    }
    let r: Result<String, String> = match (t[1], t.len()) {
        ("blake2b", 3) => {
            let data = unhex(t[2])?;
            guarded(|| {
                let mut h = Blake2b::<U32>::new();
                h.update(&data);
                format!("ok {}", hex(&h.finalize()))
            })
        }
        ("crc32", 3) => {
            let data = unhex(t[2])?;
            guarded(|| format!("ok {}", crc32fast::hash(&data)))
        }
        ("sign", 4) => {
            let sk = signing_key(t[2])?;
            let msg = unhex(t[3])?;
            guarded(|| format!("ok {}", hex(&sk.sign(&msg).to_bytes())))
        }
        ("verify", 5) => {
            let sk = signing_key(t[2])?;
            let msg = unhex(t[3])?;
            let sig = unhex(t[4])?;
            guarded(|| {
                let ok = match Signature::from_slice(&sig) {
                    Ok(sig) => sk.verifying_key().verify(&msg, &sig).is_ok(),
                    Err(_) => false,
                };
                format!("ok {}", ok as u8)
            })
        }
        ("pub", 3) => {
            let sk = signing_key(t[2])?;
            Ok(format!("ok {}", hex(sk.verifying_key().as_bytes())))
        }
        ("secret", 3) => {
            let sk = signing_key(t[2])?;
            Ok(format!("ok {}", hex(&sk.to_bytes())))
        }
        _ => return None,
    };
    Some(r.unwrap_or_else(|p| format!("panic {p}")))
}

/// `bcx CAP op op …` — runs the operations on a fresh channel of the dependency crate async-broadcast itself, configured
/// exactly as `Events::new()` of /repo/src/replication/events.rs configures it (`broadcast(CAP)`, `set_await_active(false)`,
/// the first receiver deactivated and kept, `set_overflow(true)`), and answers `ok obs obs …`; ops: `s<MSG>` =
/// `try_broadcast(MSG)` (u64 message), `n` = `new_receiver()` (receivers are numbered 0, 1, … in creation order), `r<K>` =
/// `try_recv()` on receiver K, `d<K>` = drop receiver K, `l` = `len()` and `receiver_count()`.
fn cmd_bcx(t: &[&str]) -> Option<String> {
    if t.len() < 2 {
        return None;
    }
    let cap = num(t[1])? as usize;
    if cap == 0 {
        return None;
    }
    enum Op {
        S(u64),
        N,
        R(usize),
        D(usize),
        L,
    }
    let mut ops = Vec::new();
    for o in &t[2..] {
        if o.is_empty() || !o.is_ascii() {
            return None;
        }
        let (h, rest) = o.split_at(1);
        ops.push(match (h, rest.is_empty()) {
            ("s", false) => Op::S(num(rest)?),
            ("n", true) => Op::N,
            ("r", false) => Op::R(num(rest)? as usize),
            ("d", false) => Op::D(num(rest)? as usize),
            ("l", true) => Op::L,
            _ => return None,
        });
    }
    let r = guarded(move || {
        // Events::new()
        let (mut channel, receiver) = async_broadcast::broadcast::<u64>(cap);
        channel.set_await_active(false);
        let mut _receiver = receiver.deactivate();
        _receiver.set_overflow(true);
        let mut rcv: Vec<Option<Receiver<u64>>> = Vec::new();
        let mut out = String::from("ok");
        for o in ops {
            let s = match o {
                // Events::send
                Op::S(m) => match channel.try_broadcast(m) {
                    Ok(None) => "ok".to_string(),
                    Ok(Some(d)) => format!("ok:{d}"),
                    Err(async_broadcast::TrySendError::Full(_)) => "full".to_string(),
                    Err(async_broadcast::TrySendError::Closed(_)) => "closed".to_string(),
                    Err(async_broadcast::TrySendError::Inactive(_)) => "inactive".to_string(),
                },
                // Hypercore::event_subscribe
                Op::N => {
                    rcv.push(Some(channel.new_receiver()));
                    format!("id:{}", rcv.len() - 1)
                }
                Op::R(k) => match rcv.get_mut(k).and_then(|x| x.as_mut()) {
                    Some(rx) => match rx.try_recv() {
                        Ok(m) => format!("m:{m}"),
                        Err(TryRecvError::Overflowed(n)) => format!("ov:{n}"),
                        Err(TryRecvError::Empty) => "empty".to_string(),
                        Err(TryRecvError::Closed) => "closed".to_string(),
                    },
                    None => "x".to_string(),
                },
                Op::D(k) => match rcv.get_mut(k).and_then(|x| x.take()) {
                    Some(rx) => {
                        drop(rx);
                        "done".to_string()
                    }
                    None => "x".to_string(),
                },
                Op::L => format!("n:{}:{}", channel.len(), channel.receiver_count()),
            };
            out.push(' ');
            out.push_str(&s);
        }
        out
    });
    Some(r.unwrap_or_else(|p| format!("panic {p}")))
}

/// `bwx op op …` — drives a fresh `hypercore::BitfieldProbe` (the crate-private `FixedBitfield` / `DynamicBitfield`, reachable
/// through the `verif-hooks` feature of /repo) by the operations `name:arg:arg` (see src/bitfield/verif_probe.rs) and answers
/// `ok obs | obs | …`; a panic of the probed code ends the script with the observation `panic`.
fn cmd_bwx(t: &[&str]) -> Option<String> {
    let mut probe = hypercore::BitfieldProbe::new();
    let mut out = String::from("ok");
    for (k, o) in t[1..].iter().enumerate() {
        let cmd = o.replace(':', " ");
        if k > 0 {
            out.push_str(" |");
        }
        match guarded(|| probe.step(&cmd)) {
            Ok(s) => {
                out.push(' ');
                out.push_str(s.trim());
            }
            Err(_) => {
                out.push_str(" panic");
                break;
            }
        }
    }
    Some(out)
}

/// `ramx PAGE_SIZE op op …` — runs the operations on a fresh `RandomAccessMemory::new(PAGE_SIZE)` (the dependency
/// crate itself, not /repo) and answers `ok obs obs … | CONTENT`; ops: `w:OFF:HEX`, `r:OFF:N`, `d:OFF:N`, `t:N`, `l`.
fn cmd_ramx(t: &[&str]) -> Option<String> {
    if t.len() < 2 {
        return None;
    }
    let ps = num(t[1])? as usize;
    if ps == 0 {
        return None;
    }
    enum Op {
        W(u64, Vec<u8>),
        R(u64, u64),
        D(u64, u64),
        T(u64),
        L,
    }
    let mut ops = Vec::new();
    for o in &t[2..] {
        let f: Vec<&str> = o.split(':').collect();
        ops.push(match (f[0], f.len()) {
            ("w", 3) => Op::W(num(f[1])?, unhex(f[2])?),
            ("r", 3) => Op::R(num(f[1])?, num(f[2])?),
            ("d", 3) => Op::D(num(f[1])?, num(f[2])?),
            ("t", 2) => Op::T(num(f[1])?),
            ("l", 1) => Op::L,
            _ => return None,
        });
    }
    let r = guarded(move || {
        futures::executor::block_on(async move {
            let mut ram = RandomAccessMemory::new(ps);
            let mut out = String::from("ok");
            for o in ops {
                let s = match o {
                    Op::W(off, data) => match ram.write(off, &data).await {
                        Ok(()) => "done".to_string(),
                        Err(RandomAccessError::OutOfBounds { .. }) => "oob".to_string(),
                        Err(_) => "io".to_string(),
                    },
                    Op::R(off, n) => match ram.read(off, n).await {
                        Ok(v) => format!("b:{}", hex(&v)),
                        Err(RandomAccessError::OutOfBounds { .. }) => "oob".to_string(),
                        Err(_) => "io".to_string(),
                    },
                    Op::D(off, n) => match ram.del(off, n).await {
                        Ok(()) => "done".to_string(),
                        Err(RandomAccessError::OutOfBounds { .. }) => "oob".to_string(),
                        Err(_) => "io".to_string(),
                    },
                    Op::T(n) => match ram.truncate(n).await {
                        Ok(()) => "done".to_string(),
                        Err(RandomAccessError::OutOfBounds { .. }) => "oob".to_string(),
                        Err(_) => "io".to_string(),
                    },
                    Op::L => match ram.len().await {
                        Ok(n) => format!("n:{n}"),
                        Err(_) => "io".to_string(),
                    },
                };
                out.push(' ');
                out.push_str(&s);
            }
            let n = ram.len().await.unwrap_or(0);
            let content = ram.read(0, n).await.unwrap_or_default();
            out.push_str(" | ");
            out.push_str(&hex(&content));
            out
        })
    });
    Some(r.unwrap_or_else(|p| format!("panic {p}")))
}

/// `diskx DIR op op …` — runs the operations on the REAL `RandomAccessDisk` (the dependency crate random-access-disk, as
/// compiled into this harness: tokio runtime, feature "sparse" = hole punching on linux) on a fresh file `DIR/store`; DIR (a
/// path, relative ones below HC_SCRATCH / the temp dir) must not exist: it is created and removed by the command.
/// Ops as for `ramx` plus `o` (drop the store and open the same file again): `w:OFF:HEX`, `r:OFF:N`, `d:OFF:N`, `t:N`, `l`, `o`.
/// Answer: `ok obs obs … | CONTENT | RAW` — CONTENT is read back through the interface (in pieces of at most 64 KiB),
/// RAW is the file as the OS has it afterwards (std::fs::read).
impl Server {
    fn cmd_diskx(&mut self, t: &[&str]) -> Option<String> {
        if t.len() < 2 {
            return None;
        }
        enum Op {
            W(u64, Vec<u8>),
            R(u64, u64),
            D(u64, u64),
            T(u64),
            L,
            O,
        }
        let mut ops = Vec::new();
        for o in &t[2..] {
            let f: Vec<&str> = o.split(':').collect();
            ops.push(match (f[0], f.len()) {
                ("w", 3) => Op::W(num(f[1])?, unhex(f[2])?),
                ("r", 3) => Op::R(num(f[1])?, num(f[2])?),
                ("d", 3) => Op::D(num(f[1])?, num(f[2])?),
                ("t", 2) => Op::T(num(f[1])?),
                ("l", 1) => Op::L,
                ("o", 1) => Op::O,
                _ => return None,
            });
        }
        let mut dir = PathBuf::from(t[1]);
        if dir.is_relative() {
            dir = std::env::var_os("HC_SCRATCH")
                .map(PathBuf::from)
                .unwrap_or_else(std::env::temp_dir)
                .join(dir);
        }
        if dir.exists() || std::fs::create_dir_all(&dir).is_err() {
            return Some("err IO".to_string());
        }
        if let Ok(mut g) = SCRATCH_DIRS.lock() {
            g.push(dir.clone());
        }
        let path = dir.join("store");
        let rt = &self.rt;
        let r = guarded(|| {
            rt.block_on(async {
                fn e(x: RandomAccessError) -> String {
                    match x {
                        RandomAccessError::OutOfBounds { .. } => "oob".to_string(),
                        _ => "io".to_string(),
                    }
                }
                let mut disk = match RandomAccessDisk::open(path.clone()).await {
                    Ok(d) => d,
                    Err(_) => return "err IO".to_string(),
                };
                let mut out = String::from("ok");
                for o in ops {
                    let s = match o {
                        Op::W(off, data) => match disk.write(off, &data).await {
                            Ok(()) => "done".to_string(),
                            Err(x) => e(x),
                        },
                        Op::R(off, n) => match disk.read(off, n).await {
                            Ok(v) => format!("b:{}", hex(&v)),
                            Err(x) => e(x),
                        },
                        Op::D(off, n) => match disk.del(off, n).await {
                            Ok(()) => "done".to_string(),
                            Err(x) => e(x),
                        },
                        Op::T(n) => match disk.truncate(n).await {
                            Ok(()) => "done".to_string(),
                            Err(x) => e(x),
                        },
                        Op::L => match disk.len().await {
                            Ok(n) => format!("n:{n}"),
                            Err(_) => "io".to_string(),
                        },
                        Op::O => {
                            drop(disk);
                            disk = match RandomAccessDisk::open(path.clone()).await {
                                Ok(d) => d,
                                Err(_) => return "err IO".to_string(),
                            };
                            "done".to_string()
                        }
                    };
                    out.push(' ');
                    out.push_str(&s);
                }
                let n = disk.len().await.unwrap_or(0);
                let mut content = Vec::new();
                let mut at = 0u64;
                while at < n {
                    let k = std::cmp::min(65536, n - at);
                    match disk.read(at, k).await {
                        Ok(v) => content.extend_from_slice(&v),
                        Err(_) => return "err IO".to_string(),
                    }
                    at += k;
                }
                drop(disk);
                let raw = match std::fs::read(&path) {
                    Ok(v) => v,
                    Err(_) => return "err IO".to_string(),
                };
                out.push_str(" | ");
                out.push_str(&hex(&content));
                out.push_str(" | ");
                out.push_str(&hex(&raw));
                out
            })
        });
        let _ = std::fs::remove_dir_all(&dir);
        if let Ok(mut g) = SCRATCH_DIRS.lock() {
            g.retain(|d| d != &dir);
        }
        Some(r.unwrap_or_else(|p| format!("panic {p}")))
    }
}

fn cmd_ft(t: &[&str]) -> Option<String> {
    if t.len() < 2 {
        return None;
    }
    if t[1] == "iter" {
        if t.len() < 3 {
            return None;
        }
        let start = num(t[2])?;
        // Pre-parse the commands so that a syntax error is `err Protocol`, not a partial answer.
        let mut cmds: Vec<(&str, Option<u64>)> = Vec::new();
        for c in &t[3..] {
            match c.split_once('=') {
                Some((name, arg)) => {
                    if !matches!(name, "full_root" | "seek" | "contains") {
                        return None;
                    }
                    cmds.push((name, Some(num(arg)?)));
                }
                None => {
                    if !matches!(
                        *c,
                        "parent"
                            | "sibling"
                            | "left_child"
                            | "right_child"
                            | "next_tree"
                            | "prev_tree"
                            | "next"
                            | "prev"
                            | "left_span"
                            | "right_span"
                            | "is_right"
                            | "is_left"
                    ) {
                        return None;
                    }
                    cmds.push((c, None));
                }
            }
        }
        let r = guarded(|| {
            let mut it = flat_tree::Iterator::new(start);
            let mut out = String::from("ok");
            for (name, arg) in cmds {
                let b: Option<bool> = match (name, arg) {
                    ("parent", _) => {
                        it.parent();
                        None
                    }
                    ("sibling", _) => {
                        it.sibling();
                        None
                    }
                    ("left_child", _) => {
                        it.left_child();
                        None
                    }
                    ("right_child", _) => {
                        it.right_child();
                        None
                    }
                    ("next_tree", _) => {
                        it.next_tree();
                        None
                    }
                    ("prev_tree", _) => {
                        it.prev_tree();
                        None
                    }
                    ("next", _) => {
                        let _ = std::iter::Iterator::next(&mut it);
                        None
                    }
                    ("prev", _) => {
                        it.prev();
                        None
                    }
                    ("left_span", _) => {
                        it.left_span();
                        None
                    }
                    ("right_span", _) => {
                        it.right_span();
                        None
                    }
                    ("is_right", _) => Some(it.is_right()),
                    ("is_left", _) => Some(it.is_left()),
                    ("full_root", Some(n)) => Some(it.full_root(n)),
                    ("contains", Some(n)) => Some(it.contains(n)),
                    ("seek", Some(n)) => {
                        it.seek(n);
                        None
                    }
                    _ => unreachable!(),
                };
                out.push_str(&format!(" {}/{}/{}", it.index(), it.offset(), it.factor()));
                if let Some(b) = b {
                    out.push_str(&format!("/{}", b as u8));
                }
            }
            out
        });
        return Some(r.unwrap_or_else(|p| format!("panic {p}")));
    }
    let args: Vec<u64> = t[2..].iter().map(|s| num(s)).collect::<Option<_>>()?;
    let name = t[1];
    let arity = match name {
        "index" => 2,
        "depth" | "offset" | "parent" | "sibling" | "uncle" | "left_span" | "right_span"
        | "count" | "count_leaves" | "full_roots" => 1,
        _ => return None,
    };
    if args.len() != arity {
        return None;
    }
    let r = guarded(|| match name {
        "index" => format!("ok {}", flat_tree::index(args[0], args[1])),
        "depth" => format!("ok {}", flat_tree::depth(args[0])),
        "offset" => format!("ok {}", flat_tree::offset(args[0])),
        "parent" => format!("ok {}", flat_tree::parent(args[0])),
        "sibling" => format!("ok {}", flat_tree::sibling(args[0])),
        "uncle" => format!("ok {}", flat_tree::uncle(args[0])),
        "left_span" => format!("ok {}", flat_tree::left_span(args[0])),
        "right_span" => format!("ok {}", flat_tree::right_span(args[0])),
        "count" => format!("ok {}", flat_tree::count(args[0])),
        "count_leaves" => format!("ok {}", flat_tree::count_leaves(args[0])),
        "full_roots" => {
            let mut v = Vec::new();
            flat_tree::full_roots(args[0], &mut v);
            if v.is_empty() {
                "ok _".to_string()
            } else {
                format!(
                    "ok {}",
                    v.iter().map(|x| x.to_string()).collect::<Vec<_>>().join(",")
                )
            }
        }
        _ => unreachable!(),
    });
    Some(r.unwrap_or_else(|p| format!("panic {p}")))
}

// ------------------------------------------------------------------------------------------

fn main() {
    let _ = now_ms();
    install_panic_hook();
    start_watchdog();

    let mut server = Server::new();
    let stdin = std::io::stdin();
    let stdout = std::io::stdout();
    for line in stdin.lock().lines() {
        let line = match line {
            Ok(l) => l,
            Err(_) => break,
        };
        STARTED_MS.store(now_ms(), Ordering::SeqCst);
        STATE.store(BUSY, Ordering::SeqCst);
        let answer = match guarded(|| server.handle(&line)) {
            Ok(a) => a,
            Err(p) => format!("panic {p}"),
        };
        if STATE
            .compare_exchange(BUSY, IDLE, Ordering::SeqCst, Ordering::SeqCst)
            .is_err()
        {
            // The watchdog has already answered `hang` and is terminating the process.
            loop {
                std::thread::park();
            }
        }
        let mut out = stdout.lock();
        if out.write_all(answer.as_bytes()).is_err()
            || out.write_all(b"\n").is_err()
            || out.flush().is_err()
        {
            break;
        }
    }
    server.reset();
    cleanup_scratch();
    std::process::exit(0);
}

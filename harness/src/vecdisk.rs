//! Instrumented in-memory storage backend ("vec" disks).
//!
//! A disk is four byte vectors plus a journal of every successful mutating operation and a
//! counter of all operations.  The state is shared (`Arc<Mutex<..>>`) between the four store
//! handles given to hypercore and the harness itself.

use random_access_storage::{RandomAccess, RandomAccessError};
use std::future::Future;
use std::pin::Pin;
use std::sync::{Arc, Mutex, MutexGuard};
use std::task::{Context, Poll};

pub const STORE_LETTERS: [char; 4] = ['t', 'd', 'b', 'o'];

pub fn store_index(letter: &str) -> Option<usize> {
    match letter {
        "t" => Some(0),
        "d" => Some(1),
        "b" => Some(2),
        "o" => Some(3),
        _ => None,
    }
}

/// One journal entry (a mutating operation that succeeded).
#[derive(Clone, Debug, PartialEq)]
pub enum JOp {
    Write { store: usize, off: u64, data: Vec<u8> },
    Del { store: usize, off: u64, len: u64 },
    Trunc { store: usize, len: u64 },
}

pub struct DiskState {
    pub files: [Vec<u8>; 4],
    pub journal: Vec<JOp>,
    pub ops: u64,
    pub fail_at: Option<u64>,
    pub yield_mode: bool,
    /// Number of preemption points taken in `yield_mode` (a storage operation that returned
    /// `Pending` once before being performed); the scheduler uses `ops` and `yields` to tell a
    /// task that is inside the storage layer from one that waits for the lock of the core.
    pub yields: u64,
    /// Safety limit for the size of one file (a write/truncate beyond it fails with an IO error
    /// instead of exhausting memory).
    pub max_len: u64,
}

impl std::fmt::Debug for DiskState {
    fn fmt(&self, f: &mut std::fmt::Formatter<'_>) -> std::fmt::Result {
        write!(
            f,
            "DiskState {{ lens: [{}, {}, {}, {}], journal: {}, ops: {} }}",
            self.files[0].len(),
            self.files[1].len(),
            self.files[2].len(),
            self.files[3].len(),
            self.journal.len(),
            self.ops
        )
    }
}

fn max_len_from_env() -> u64 {
    std::env::var("HC_VEC_MAX")
        .ok()
        .and_then(|s| s.parse::<u64>().ok())
        .unwrap_or(1 << 28)
}

impl DiskState {
    pub fn new() -> Self {
        DiskState {
            files: [Vec::new(), Vec::new(), Vec::new(), Vec::new()],
            journal: Vec::new(),
            ops: 0,
            fail_at: None,
            yield_mode: false,
            yields: 0,
            max_len: max_len_from_env(),
        }
    }

    fn too_large(what: &str) -> RandomAccessError {
        RandomAccessError::IO {
            return_code: None,
            context: Some(format!("vec disk size limit exceeded in {what}")),
            source: std::io::Error::new(std::io::ErrorKind::Other, "vec disk size limit"),
        }
    }

    // ---- raw file semantics (mirror random-access-memory), no counting/journalling ----

    pub fn f_write(&mut self, s: usize, off: u64, data: &[u8]) -> Result<(), RandomAccessError> {
        let new_len = match off.checked_add(data.len() as u64) {
            Some(n) if n <= self.max_len => n,
            _ => return Err(Self::too_large("write")),
        };
        let f = &mut self.files[s];
        if new_len as usize > f.len() {
            f.resize(new_len as usize, 0);
        }
        let o = off as usize;
        f[o..o + data.len()].copy_from_slice(data);
        Ok(())
    }

    pub fn f_read(&self, s: usize, off: u64, n: u64) -> Result<Vec<u8>, RandomAccessError> {
        let len = self.files[s].len() as u64;
        match off.checked_add(n) {
            Some(end) if end <= len => Ok(self.files[s][off as usize..end as usize].to_vec()),
            Some(end) => Err(RandomAccessError::OutOfBounds {
                offset: off,
                end: Some(end),
                length: len,
            }),
            None => Err(RandomAccessError::OutOfBounds {
                offset: off,
                end: Some(u64::MAX),
                length: len,
            }),
        }
    }

    pub fn f_truncate(&mut self, s: usize, n: u64) -> Result<(), RandomAccessError> {
        if n > self.max_len {
            return Err(Self::too_large("truncate"));
        }
        self.files[s].resize(n as usize, 0);
        Ok(())
    }

    pub fn f_del(&mut self, s: usize, off: u64, n: u64) -> Result<(), RandomAccessError> {
        let len = self.files[s].len() as u64;
        if off > len {
            return Err(RandomAccessError::OutOfBounds {
                offset: off,
                end: None,
                length: len,
            });
        }
        if n == 0 {
            return Ok(());
        }
        if off.saturating_add(n) >= len {
            return self.f_truncate(s, off);
        }
        for b in &mut self.files[s][off as usize..(off + n) as usize] {
            *b = 0;
        }
        Ok(())
    }

    /// Apply a journal entry (used by `fork`, `rawwrite`, `rawtrunc`): not counted as a storage
    /// operation, never fault-injected; journalled when it succeeds.
    pub fn apply_journalled(&mut self, op: JOp) -> Result<(), RandomAccessError> {
        match &op {
            JOp::Write { store, off, data } => self.f_write(*store, *off, data)?,
            JOp::Del { store, off, len } => self.f_del(*store, *off, *len)?,
            JOp::Trunc { store, len } => self.f_truncate(*store, *len)?,
        }
        self.journal.push(op);
        Ok(())
    }

    /// Count the operation and decide whether the armed fault hits it.
    fn begin_op(&mut self) -> Result<(), RandomAccessError> {
        let k = self.ops;
        self.ops += 1;
        if self.fail_at == Some(k) {
            self.fail_at = None;
            return Err(RandomAccessError::IO {
                return_code: None,
                context: Some("injected".into()),
                source: std::io::Error::new(std::io::ErrorKind::Other, "injected"),
            });
        }
        Ok(())
    }
}

pub type SharedDisk = Arc<Mutex<DiskState>>;

pub fn lock(d: &SharedDisk) -> MutexGuard<'_, DiskState> {
    d.lock().unwrap_or_else(|e| e.into_inner())
}

/// Future that returns `Pending` exactly once (waking itself immediately).
pub struct YieldOnce(bool);

impl Future for YieldOnce {
    type Output = ();
    fn poll(mut self: Pin<&mut Self>, cx: &mut Context<'_>) -> Poll<()> {
        if self.0 {
            Poll::Ready(())
        } else {
            self.0 = true;
            cx.waker().wake_by_ref();
            Poll::Pending
        }
    }
}

/// Handle to one of the four files of a vec disk.
pub struct VecStore {
    disk: SharedDisk,
    store: usize,
}

impl std::fmt::Debug for VecStore {
    fn fmt(&self, f: &mut std::fmt::Formatter<'_>) -> std::fmt::Result {
        write!(f, "VecStore({})", STORE_LETTERS[self.store])
    }
}

impl VecStore {
    pub fn new(disk: SharedDisk, store: usize) -> Self {
        VecStore { disk, store }
    }

    fn preempt(&self) -> YieldOnce {
        // YieldOnce(true) completes immediately.
        let mut st = lock(&self.disk);
        if st.yield_mode {
            st.yields += 1;
        }
        YieldOnce(!st.yield_mode)
    }
}

#[async_trait::async_trait]
impl RandomAccess for VecStore {
    async fn write(&mut self, offset: u64, data: &[u8]) -> Result<(), RandomAccessError> {
        self.preempt().await;
        let mut st = lock(&self.disk);
        st.begin_op()?;
        st.f_write(self.store, offset, data)?;
        st.journal.push(JOp::Write {
            store: self.store,
            off: offset,
            data: data.to_vec(),
        });
        Ok(())
    }

    async fn read(&mut self, offset: u64, length: u64) -> Result<Vec<u8>, RandomAccessError> {
        self.preempt().await;
        let mut st = lock(&self.disk);
        st.begin_op()?;
        st.f_read(self.store, offset, length)
    }

    async fn del(&mut self, offset: u64, length: u64) -> Result<(), RandomAccessError> {
        self.preempt().await;
        let mut st = lock(&self.disk);
        st.begin_op()?;
        st.f_del(self.store, offset, length)?;
        st.journal.push(JOp::Del {
            store: self.store,
            off: offset,
            len: length,
        });
        Ok(())
    }

    async fn truncate(&mut self, length: u64) -> Result<(), RandomAccessError> {
        self.preempt().await;
        let mut st = lock(&self.disk);
        st.begin_op()?;
        st.f_truncate(self.store, length)?;
        st.journal.push(JOp::Trunc {
            store: self.store,
            len: length,
        });
        Ok(())
    }

    async fn len(&mut self) -> Result<u64, RandomAccessError> {
        self.preempt().await;
        let mut st = lock(&self.disk);
        st.begin_op()?;
        Ok(st.files[self.store].len() as u64)
    }

    async fn is_empty(&mut self) -> Result<bool, RandomAccessError> {
        self.preempt().await;
        let mut st = lock(&self.disk);
        st.begin_op()?;
        Ok(st.files[self.store].is_empty())
    }

    async fn sync_all(&mut self) -> Result<(), RandomAccessError> {
        Ok(())
    }
}

/// `ram` disks: a `RandomAccessMemory` shared between successive cores on the same disk.
pub struct RamStore(pub Arc<futures::lock::Mutex<random_access_memory::RandomAccessMemory>>);

impl std::fmt::Debug for RamStore {
    fn fmt(&self, f: &mut std::fmt::Formatter<'_>) -> std::fmt::Result {
        write!(f, "RamStore")
    }
}

#[async_trait::async_trait]
impl RandomAccess for RamStore {
    async fn write(&mut self, offset: u64, data: &[u8]) -> Result<(), RandomAccessError> {
        self.0.lock().await.write(offset, data).await
    }
    async fn read(&mut self, offset: u64, length: u64) -> Result<Vec<u8>, RandomAccessError> {
        self.0.lock().await.read(offset, length).await
    }
    async fn del(&mut self, offset: u64, length: u64) -> Result<(), RandomAccessError> {
        self.0.lock().await.del(offset, length).await
    }
    async fn truncate(&mut self, length: u64) -> Result<(), RandomAccessError> {
        self.0.lock().await.truncate(length).await
    }
    async fn len(&mut self) -> Result<u64, RandomAccessError> {
        self.0.lock().await.len().await
    }
    async fn is_empty(&mut self) -> Result<bool, RandomAccessError> {
        self.0.lock().await.is_empty().await
    }
    async fn sync_all(&mut self) -> Result<(), RandomAccessError> {
        self.0.lock().await.sync_all().await
    }
}

//! Text syntax of PROTOCOL.md: hex strings, nodes, proofs, requests.

use hypercore::{
    DataBlock, DataHash, DataSeek, DataUpgrade, Node, Proof, RequestBlock, RequestSeek,
    RequestUpgrade,
};
use merkle_tree_stream::Node as NodeTrait;

pub fn hex(bytes: &[u8]) -> String {
    if bytes.is_empty() {
        return "_".to_string();
    }
    const D: &[u8; 16] = b"0123456789abcdef";
    let mut s = String::with_capacity(bytes.len() * 2);
    for b in bytes {
        s.push(D[(b >> 4) as usize] as char);
        s.push(D[(b & 15) as usize] as char);
    }
    s
}

pub fn unhex(s: &str) -> Option<Vec<u8>> {
    if s == "_" {
        return Some(Vec::new());
    }
    let b = s.as_bytes();
    if b.is_empty() || b.len() % 2 != 0 {
        return None;
    }
    fn v(c: u8) -> Option<u8> {
        match c {
            b'0'..=b'9' => Some(c - b'0'),
            b'a'..=b'f' => Some(c - b'a' + 10),
            b'A'..=b'F' => Some(c - b'A' + 10),
            _ => None,
        }
    }
    let mut out = Vec::with_capacity(b.len() / 2);
    for p in b.chunks(2) {
        out.push(v(p[0])? << 4 | v(p[1])?);
    }
    Some(out)
}

pub fn num(s: &str) -> Option<u64> {
    if s.is_empty() || !s.bytes().all(|c| c.is_ascii_digit()) {
        return None;
    }
    s.parse::<u64>().ok()
}

pub fn valid_name(s: &str) -> bool {
    !s.is_empty()
        && s.bytes()
            .all(|c| c.is_ascii_alphanumeric() || c == b'_' || c == b'.')
}

// ---------------------------------------------------------------- nodes

pub fn node_str(n: &Node) -> String {
    format!(
        "{}.{}.{}",
        NodeTrait::index(n),
        NodeTrait::len(n),
        hex(NodeTrait::hash(n))
    )
}

pub fn nodes_str(ns: &[Node]) -> String {
    if ns.is_empty() {
        return "_".to_string();
    }
    ns.iter().map(node_str).collect::<Vec<_>>().join("+")
}

pub fn parse_node(s: &str) -> Option<Node> {
    let mut it = s.split('.');
    let index = num(it.next()?)?;
    let length = num(it.next()?)?;
    let hash = unhex(it.next()?)?;
    if it.next().is_some() {
        return None;
    }
    Some(Node::new(index, hash, length))
}

pub fn parse_nodes(s: &str) -> Option<Vec<Node>> {
    if s == "_" {
        return Some(Vec::new());
    }
    s.split('+').map(parse_node).collect()
}

// ---------------------------------------------------------------- data sections ('/' separated)

pub fn datablock_str(b: &DataBlock) -> String {
    format!("{}/{}/{}", b.index, hex(&b.value), nodes_str(&b.nodes))
}
pub fn datahash_str(h: &DataHash) -> String {
    format!("{}/{}", h.index, nodes_str(&h.nodes))
}
pub fn dataseek_str(s: &DataSeek) -> String {
    format!("{}/{}", s.bytes, nodes_str(&s.nodes))
}
pub fn dataupgrade_str(u: &DataUpgrade) -> String {
    format!(
        "{}/{}/{}/{}/{}",
        u.start,
        u.length,
        nodes_str(&u.nodes),
        nodes_str(&u.additional_nodes),
        hex(&u.signature)
    )
}

fn fields<'a>(s: &'a str, sep: char, n: usize) -> Option<Vec<&'a str>> {
    let v: Vec<&str> = s.split(sep).collect();
    if v.len() == n {
        Some(v)
    } else {
        None
    }
}

pub fn parse_datablock(s: &str) -> Option<DataBlock> {
    let f = fields(s, '/', 3)?;
    Some(DataBlock {
        index: num(f[0])?,
        value: unhex(f[1])?,
        nodes: parse_nodes(f[2])?,
    })
}
pub fn parse_datahash(s: &str) -> Option<DataHash> {
    let f = fields(s, '/', 2)?;
    Some(DataHash {
        index: num(f[0])?,
        nodes: parse_nodes(f[1])?,
    })
}
pub fn parse_dataseek(s: &str) -> Option<DataSeek> {
    let f = fields(s, '/', 2)?;
    Some(DataSeek {
        bytes: num(f[0])?,
        nodes: parse_nodes(f[1])?,
    })
}
pub fn parse_dataupgrade(s: &str) -> Option<DataUpgrade> {
    let f = fields(s, '/', 5)?;
    Some(DataUpgrade {
        start: num(f[0])?,
        length: num(f[1])?,
        nodes: parse_nodes(f[2])?,
        additional_nodes: parse_nodes(f[3])?,
        signature: unhex(f[4])?,
    })
}

// ---------------------------------------------------------------- requests (',' separated)

pub fn reqblock_str(r: &RequestBlock) -> String {
    format!("{},{}", r.index, r.nodes)
}
pub fn reqseek_str(r: &RequestSeek) -> String {
    format!("{}", r.bytes)
}
pub fn requpgrade_str(r: &RequestUpgrade) -> String {
    format!("{},{}", r.start, r.length)
}
pub fn parse_reqblock(s: &str) -> Option<RequestBlock> {
    let f = fields(s, ',', 2)?;
    Some(RequestBlock {
        index: num(f[0])?,
        nodes: num(f[1])?,
    })
}
pub fn parse_reqseek(s: &str) -> Option<RequestSeek> {
    Some(RequestSeek { bytes: num(s)? })
}
pub fn parse_requpgrade(s: &str) -> Option<RequestUpgrade> {
    let f = fields(s, ',', 2)?;
    Some(RequestUpgrade {
        start: num(f[0])?,
        length: num(f[1])?,
    })
}

/// `-` → `Some(None)`, otherwise parse with `p`.
pub fn opt<T>(s: &str, p: impl Fn(&str) -> Option<T>) -> Option<Option<T>> {
    if s == "-" {
        Some(None)
    } else {
        p(s).map(Some)
    }
}

fn opt_str<T>(v: &Option<T>, f: impl Fn(&T) -> String) -> String {
    match v {
        None => "-".to_string(),
        Some(x) => f(x),
    }
}

// ---------------------------------------------------------------- proofs

pub fn proof_str(p: &Proof) -> String {
    format!(
        "{} {} {} {} {}",
        p.fork,
        opt_str(&p.block, datablock_str),
        opt_str(&p.hash, datahash_str),
        opt_str(&p.seek, dataseek_str),
        opt_str(&p.upgrade, dataupgrade_str)
    )
}

/// Parse the five proof tokens.
pub fn parse_proof(t: &[&str]) -> Option<Proof> {
    if t.len() != 5 {
        return None;
    }
    Some(Proof {
        fork: num(t[0])?,
        block: opt(t[1], parse_datablock)?,
        hash: opt(t[2], parse_datahash)?,
        seek: opt(t[3], parse_dataseek)?,
        upgrade: opt(t[4], parse_dataupgrade)?,
    })
}

//! Scheduler mode: run several tasks against one `SharedCore` on a hand-written single-threaded
//! executor whose polling order is chosen by a deterministic PRNG.
//!
//! Two flavours share the executor (`run`):
//! * writer mode (`sched`): the shared core is a fresh writer core;
//! * replica mode (`schedr`): the shared core is a replica that has been brought to the writer's
//!   length sequentially; the tasks apply pre-computed, self-contained block proofs.
//!
//! SLOW mode (`slow=MICROS`): whenever a task is seen to be blocked for the first time in a row
//! (a poll that returned `Pending` without the task having entered or finished a storage
//! operation, i.e. it waits for the core's lock) the executor sleeps MICROS microseconds of wall
//! time.  `async_lock::Mutex` lets a releasing task re-acquire the lock ahead of a waiter unless
//! the waiter has been waiting for more than 500 µs; with `slow` > 500 every waiter is beyond
//! that threshold the next time it is polled, so the "fair hand-over" paths of the mutex are
//! exercised as well (without `slow` only the barging paths are).

use std::cell::{Cell, RefCell};
use std::future::Future;
use std::pin::Pin;
use std::rc::Rc;
use std::task::{Context, Poll};
use std::time::Duration;

use hypercore::replication::{
    CoreInfo, CoreMethods, CoreMethodsError, ReplicationMethods, ReplicationMethodsError,
    SharedCore,
};
use hypercore::{Hypercore, Proof, RequestBlock};

use crate::text::{num, unhex};
use crate::vecdisk::{lock, SharedDisk};
use crate::{err_name, get_answer, info_answer};

#[derive(Debug, Clone)]
pub enum Call {
    Append(Vec<u8>),
    AppendBatch(Vec<Vec<u8>>),
    Get(u64),
    Has(u64),
    Info,
    /// `verify_and_apply_proof` of the pre-computed proof number I (replica mode only)
    Apply(u64),
    /// `clear(START, END)` on the core behind the shared mutex (`SharedCore` has no clear of its own: the lock is taken as its
    /// methods take it)
    Clear(u64, u64),
    /// `missing_nodes(I)`
    Missing(u64),
    /// `create_proof(block {I, 0}, -, -, -)`; only the class of the answer is recorded
    Prove(u64),
}

/// Parse `task1 | task2 | …`, each task `call ; call ; …`.  `nproofs`: number of pre-computed
/// proofs (`apply I` needs I < nproofs; 0 in writer mode, where `apply` is therefore rejected).
pub fn parse_tasks(s: &str, nt: usize, nproofs: u64) -> Option<Vec<Vec<Call>>> {
    let mut tasks = Vec::new();
    if nt == 0 {
        return if s.trim().is_empty() { Some(tasks) } else { None };
    }
    for task in s.split('|') {
        let mut calls = Vec::new();
        for call in task.split(';') {
            let w: Vec<&str> = call.split_whitespace().collect();
            if w.is_empty() {
                continue; // empty task / trailing ';'
            }
            let c = match (w[0], w.len()) {
                ("append", 2) => Call::Append(unhex(w[1])?),
                ("appendb", 1) => Call::AppendBatch(Vec::new()),
                ("appendb", 2) => Call::AppendBatch(
                    w[1].split(',').map(unhex).collect::<Option<Vec<_>>>()?,
                ),
                ("get", 2) => Call::Get(num(w[1])?),
                ("has", 2) => Call::Has(num(w[1])?),
                ("info", 1) => Call::Info,
                ("apply", 2) => {
                    let i = num(w[1])?;
                    if i >= nproofs {
                        return None;
                    }
                    Call::Apply(i)
                }
                ("clear", 3) => Call::Clear(num(w[1])?, num(w[2])?),
                ("missing", 2) => Call::Missing(num(w[1])?),
                ("prove", 2) => Call::Prove(num(w[1])?),
                _ => return None,
            };
            calls.push(c);
        }
        tasks.push(calls);
    }
    if tasks.len() != nt {
        return None;
    }
    Some(tasks)
}

fn core_err(e: &CoreMethodsError) -> String {
    match e {
        CoreMethodsError::HypercoreError(e) => format!("err {}", err_name(e)),
    }
}

fn repl_err(e: &ReplicationMethodsError) -> String {
    match e {
        ReplicationMethodsError::HypercoreError(e) => format!("err {}", err_name(e)),
        ReplicationMethodsError::CoreMethodsError(e) => core_err(e),
    }
}

struct Record {
    task: usize,
    call: usize,
    start: u64,
    end: u64,
    result: String,
}

const MAX_STEPS: u64 = 5_000_000;

/// Returns `Ok("ok rec rec …")` or `Err(answer)`.
///
/// `disk`: the instrumented disk under `core` (its operation / yield counters tell whether a poll
/// made progress inside the storage layer); `slow_us`: see the module documentation (0 = off).
pub fn run(
    core: Hypercore,
    disk: &SharedDisk,
    seed: u64,
    tasks: Vec<Vec<Call>>,
    proofs: Vec<Proof>,
    slow_us: u64,
) -> Result<String, String> {
    let shared = SharedCore::from_hypercore(core);
    let step = Rc::new(Cell::new(0u64));
    let records: Rc<RefCell<Vec<Record>>> = Rc::new(RefCell::new(Vec::new()));
    let proofs: Rc<Vec<Proof>> = Rc::new(proofs);

    let mut futs: Vec<Option<Pin<Box<dyn Future<Output = ()>>>>> = Vec::new();
    for (tid, calls) in tasks.into_iter().enumerate() {
        let sc = shared.clone();
        let step = step.clone();
        let records = records.clone();
        let proofs = proofs.clone();
        futs.push(Some(Box::pin(async move {
            for (ci, call) in calls.into_iter().enumerate() {
                // This code runs inside the poll in which the call's future is created and
                // polled for the first time.
                let start = step.get();
                let result = match call {
                    Call::Append(data) => match sc.append(&data).await {
                        Ok(o) => format!("ok {} {}", o.length, o.byte_length),
                        Err(e) => core_err(&e),
                    },
                    Call::AppendBatch(batch) => match sc.append_batch(batch).await {
                        Ok(o) => format!("ok {} {}", o.length, o.byte_length),
                        Err(e) => core_err(&e),
                    },
                    Call::Get(i) => match sc.get(i).await {
                        Ok(v) => get_answer(Ok(v)),
                        Err(e) => core_err(&e),
                    },
                    Call::Has(i) => format!("ok {}", sc.has(i).await as u8),
                    Call::Info => info_answer(&sc.info().await),
                    Call::Apply(i) => {
                        match sc.verify_and_apply_proof(&proofs[i as usize]).await {
                            Ok(b) => format!("ok {}", b as u8),
                            Err(e) => repl_err(&e),
                        }
                    }
                    Call::Clear(s, e) => match sc.0.lock().await.clear(s, e).await {
                        Ok(()) => "ok".to_string(),
                        Err(e) => format!("err {}", err_name(&e)),
                    },
                    Call::Missing(i) => match sc.missing_nodes(i).await {
                        Ok(n) => format!("ok {n}"),
                        Err(e) => repl_err(&e),
                    },
                    Call::Prove(i) => {
                        let req = RequestBlock { index: i, nodes: 0 };
                        match sc.create_proof(Some(req), None, None, None).await {
                            Ok(Some(_)) => "ok proof".to_string(),
                            Ok(None) => "ok none".to_string(),
                            Err(e) => repl_err(&e),
                        }
                    }
                };
                let end = step.get();
                records.borrow_mut().push(Record {
                    task: tid,
                    call: ci,
                    start,
                    end,
                    result,
                });
            }
        })));
    }

    // xorshift64* whose state is initialised with the splitmix64 finaliser of the seed (small
    // seeds would otherwise give very poor first outputs); the high 32 bits are used.
    let mut x: u64 = {
        let mut z = seed.wrapping_add(0x9E37_79B9_7F4A_7C15);
        z = (z ^ (z >> 30)).wrapping_mul(0xBF58_476D_1CE4_E5B9);
        z = (z ^ (z >> 27)).wrapping_mul(0x94D0_49BB_1331_11EB);
        z ^= z >> 31;
        if z == 0 {
            0x9E37_79B9_7F4A_7C15
        } else {
            z
        }
    };
    let mut next = move || {
        x ^= x << 13;
        x ^= x >> 7;
        x ^= x << 17;
        x.wrapping_mul(0x2545_F491_4F6C_DD1D) >> 32
    };

    let progress = |d: &SharedDisk| {
        let st = lock(d);
        (st.ops, st.yields)
    };

    let waker = futures::task::noop_waker();
    let mut cx = Context::from_waker(&waker);
    let mut n: u64 = 0;
    // was the last poll of the task a "blocked" one (Pending without storage progress)?
    let mut blocked: Vec<bool> = vec![false; futs.len()];
    loop {
        let alive: Vec<usize> = (0..futs.len()).filter(|i| futs[*i].is_some()).collect();
        if alive.is_empty() {
            break;
        }
        if n >= MAX_STEPS {
            return Err("err SchedStepLimit".to_string());
        }
        let pick = alive[(next() % alive.len() as u64) as usize];
        step.set(n);
        n += 1;
        let before = progress(disk);
        let done = match futs[pick].as_mut() {
            Some(f) => matches!(f.as_mut().poll(&mut cx), Poll::Ready(())),
            None => false,
        };
        if done {
            futs[pick] = None;
        } else if progress(disk) == before {
            // Pending, and the task neither finished nor entered a storage operation during
            // this poll: it waits for the lock of the core.
            if !blocked[pick] && slow_us > 0 {
                std::thread::sleep(Duration::from_micros(slow_us));
            }
            blocked[pick] = true;
        } else {
            blocked[pick] = false;
        }
    }

    let mut out = String::from("ok");
    for r in records.borrow().iter() {
        out.push_str(&format!(
            " {}.{}.{}.{}.{}",
            r.task,
            r.call,
            r.start,
            r.end,
            r.result.replace(' ', ",")
        ));
    }
    Ok(out)
}

//! Scheduler mode: run several tasks against one `SharedCore` on a hand-written single-threaded
//! executor whose polling order is chosen by a deterministic PRNG.

use std::cell::{Cell, RefCell};
use std::future::Future;
use std::pin::Pin;
use std::rc::Rc;
use std::task::{Context, Poll};

use hypercore::replication::{CoreInfo, CoreMethods, CoreMethodsError, SharedCore};
use hypercore::Hypercore;

use crate::text::{num, unhex};
use crate::{err_name, get_answer, info_answer};

#[derive(Debug, Clone)]
pub enum Call {
    Append(Vec<u8>),
    AppendBatch(Vec<Vec<u8>>),
    Get(u64),
    Has(u64),
    Info,
}

/// Parse `task1 | task2 | …`, each task `call ; call ; …`.
pub fn parse_tasks(s: &str, nt: usize) -> Option<Vec<Vec<Call>>> {
    let mut tasks = Vec::new();
    if nt == 0 {
        return if s.trim().is_empty() { Some(tasks) } else { None };
    }
    for task in s.split('|') {
        let mut calls = Vec::new();
        for call in task.split(';') {
            let w: Vec<&str> = call.split_whitespace().collect();
            if w.is_empty() {
                continue; // empty task / trailing ';'
            }
            let c = match (w[0], w.len()) {
                ("append", 2) => Call::Append(unhex(w[1])?),
                ("appendb", 1) => Call::AppendBatch(Vec::new()),
                ("appendb", 2) => Call::AppendBatch(
                    w[1].split(',').map(unhex).collect::<Option<Vec<_>>>()?,
                ),
                ("get", 2) => Call::Get(num(w[1])?),
                ("has", 2) => Call::Has(num(w[1])?),
                ("info", 1) => Call::Info,
                _ => return None,
            };
            calls.push(c);
        }
        tasks.push(calls);
    }
    if tasks.len() != nt {
        return None;
    }
    Some(tasks)
}

fn core_err(e: &CoreMethodsError) -> String {
    match e {
        CoreMethodsError::HypercoreError(e) => format!("err {}", err_name(e)),
    }
}

struct Record {
    task: usize,
    call: usize,
    start: u64,
    end: u64,
    result: String,
}

const MAX_STEPS: u64 = 5_000_000;

/// Returns `Ok("ok rec rec …")` or `Err(answer)`.
pub fn run(core: Hypercore, seed: u64, tasks: Vec<Vec<Call>>) -> Result<String, String> {
    let shared = SharedCore::from_hypercore(core);
    let step = Rc::new(Cell::new(0u64));
    let records: Rc<RefCell<Vec<Record>>> = Rc::new(RefCell::new(Vec::new()));

    let mut futs: Vec<Option<Pin<Box<dyn Future<Output = ()>>>>> = Vec::new();
    for (tid, calls) in tasks.into_iter().enumerate() {
        let sc = shared.clone();
        let step = step.clone();
        let records = records.clone();
        futs.push(Some(Box::pin(async move {
            for (ci, call) in calls.into_iter().enumerate() {
                // This code runs inside the poll in which the call's future is created and
                // polled for the first time.
                let start = step.get();
                let result = match call {
                    Call::Append(data) => match sc.append(&data).await {
                        Ok(o) => format!("ok {} {}", o.length, o.byte_length),
                        Err(e) => core_err(&e),
                    },
                    Call::AppendBatch(batch) => match sc.append_batch(batch).await {
                        Ok(o) => format!("ok {} {}", o.length, o.byte_length),
                        Err(e) => core_err(&e),
                    },
                    Call::Get(i) => match sc.get(i).await {
                        Ok(v) => get_answer(Ok(v)),
                        Err(e) => core_err(&e),
                    },
                    Call::Has(i) => format!("ok {}", sc.has(i).await as u8),
                    Call::Info => info_answer(&sc.info().await),
                };
                let end = step.get();
                records.borrow_mut().push(Record {
                    task: tid,
                    call: ci,
                    start,
                    end,
                    result,
                });
            }
        })));
    }

    // xorshift64* whose state is initialised with the splitmix64 finaliser of the seed (small
    // seeds would otherwise give very poor first outputs); the high 32 bits are used.
    let mut x: u64 = {
        let mut z = seed.wrapping_add(0x9E37_79B9_7F4A_7C15);
        z = (z ^ (z >> 30)).wrapping_mul(0xBF58_476D_1CE4_E5B9);
        z = (z ^ (z >> 27)).wrapping_mul(0x94D0_49BB_1331_11EB);
        z ^= z >> 31;
        if z == 0 {
            0x9E37_79B9_7F4A_7C15
        } else {
            z
        }
    };
    let mut next = move || {
        x ^= x << 13;
        x ^= x >> 7;
        x ^= x << 17;
        x.wrapping_mul(0x2545_F491_4F6C_DD1D) >> 32
    };

    let waker = futures::task::noop_waker();
    let mut cx = Context::from_waker(&waker);
    let mut n: u64 = 0;
    loop {
        let alive: Vec<usize> = (0..futs.len()).filter(|i| futs[*i].is_some()).collect();
        if alive.is_empty() {
            break;
        }
        if n >= MAX_STEPS {
            return Err("err SchedStepLimit".to_string());
        }
        let pick = alive[(next() % alive.len() as u64) as usize];
        step.set(n);
        n += 1;
        let done = match futs[pick].as_mut() {
            Some(f) => matches!(f.as_mut().poll(&mut cx), Poll::Ready(())),
            None => false,
        };
        if done {
            futs[pick] = None;
        }
    }

    let mut out = String::from("ok");
    for r in records.borrow().iter() {
        out.push_str(&format!(
            " {}.{}.{}.{}.{}",
            r.task,
            r.call,
            r.start,
            r.end,
            r.result.replace(' ', ",")
        ));
    }
    Ok(out)
}

(* AnyReopen1.v -- the hash-level replica invariant ACROSS CLOSE / REOPEN (C04, C09).
   Libraries: AnyReopenA.v (tree level), AnyReopenB.v (definitions over the four stores), AnyReopenC.v (every outcome of
   core_apply_proof), AnyReopenD.v (core_open).  Examples and counterexamples: AnyReopen1Ex.v.

   AnyProof.HInv (roots, length and byte length in memory are the writer's; every visible node carries the writer's
   hash) is NOT re-established by a reopen: MerkleTree::open reads the roots back from the tree store, where a
   one-node hash section may have overwritten their size, and sums the stored sizes
   (AnyProofEx.byte_length_after_reopen_refuted; AnyReopen1Ex.reopened_state_is_HInvR_not_HInv).

   HInvR (AnyReopenA.HInvR) is HInv with exactly two clauses weakened:
       t_roots t = ref_roots cr bs r        ~~>  hroots: the INDICES and HASHES of the writer's roots, every size a u64
       t_byte_length t = prefix_size bs r   ~~>  t_byte_length t = sum of the sizes of the roots in memory
   (a)  HInv -> HInvR (HInv_implies_HInvR); HInvR + "the sizes of the roots in memory are the writer's" -> HInv
        (HInvR_plus_root_sizes_is_HInv): nothing else was dropped.
   (b)  HInvR speaks about the tree and the tree store only; whether core_open succeeds is decided by the oplog store.
        HDInvR c d H (AnyReopenB.HDInvR) = HInvR + what the four stores hold (header, pending entries described at the
        hash level, roots of the flushed length present as non-blank records, bitfield store replaying to the held set H).
        reopen_reestablishes_invariant: core_open cr None true d on the disk of an HDInvR replica succeeds, issues no
        storage operation, replays the pending entries and gives HDInvR again: same length, same held set, same
        contiguous length, same key pair.  HDInvR holds for the fresh replica (fresh_replica_HDInvR) and follows from
        ReplicaDisk1.RDInv (RDInv_implies_HDInvR).
   (c)  apply_anyR_outcome (tree level, the trichotomy of AnyProofCor.apply_any_outcome) and
        apply_any_keeps_HDInvR (memory and the four stores): for ANY proof, Ok true with the invariant / state
        unchanged / frame panic with the invariant / hash collision / forged signature.  Under HDInvR the only
        frame panic left is the one of the ENTRY frame (the header always fits its slot): the core is unchanged.
        An accepted proof WITH an upgrade section repairs the roots: the full HInv holds afterwards
        (apply_anyR_proof).
   (d)  HInvR_content / HDInvR_content: every node the replica can look up carries the writer's hash at its index and
        lies inside the replica's tree; the roots in memory have the writer's indices and hashes; the length is one
        the writer signed, the fork is 0; the byte length is the sum of the root sizes (and the writer's as soon as
        those sizes are); the signature the tree carries verifies, under the replica's key, the message the writer
        signed at this length; every held index lies below the length; an accepted block value is the writer's.
        NOT in the content, because it is FALSE already under HInv: "every held block reads as the writer's block or
        the read fails" (AnyReopen1Ex.held_block_reads_foreign_value_refuted: a state satisfying HInv, block 3 held,
        get 3 = [0;5;6;7], the writer's block is [5;6;7;8]).  What is true: reads_writer_range_R (the read looks at the
        writer's byte range when the sizes it uses are the writer's). *)
From HC Require Import Base NMap Codec CodecFacts Crypto FlatTree Storage Bitfield Oplog Merkle Core.
From HC Require Import FlatTreeFacts StorageFacts BitfieldFacts OplogFacts TreeRef OffsetFacts CoreFacts Crash Refine.
From HC Require Import ClearRefine Reopen ContigBridge Unified1 Unified2 CrashCore1 CrashCore2 CrashClear1.
From HC Require Import Sound NoPanic Replicate SoundCoreLib SoundCore SoundCoreUp SoundCoreBU NoPanic2
                       EventsAvail CacheModel CacheOps ReplicaCor ReplicaCorA.
From HC Require Import ReplicaDisk1 ReplicaDisk2 ReplicaDisk3 AnyProofLib AnyProofUp AnyProof AnyProofCorLib
                       AnyReopenA AnyReopenB AnyReopenC AnyReopenD.
From Coq Require Import FMapPositive ZifyN ZifyNat ZifyBool.
Ltac Zify.zify_post_hook ::= Z.div_mod_to_equations.
Arguments N.add : simpl never.
Arguments N.sub : simpl never.
Arguments N.mul : simpl never.
Arguments N.div : simpl never.
Arguments N.modulo : simpl never.
Arguments N.pow : simpl never.
Arguments N.eqb : simpl never.
Arguments N.ltb : simpl never.
Arguments N.leb : simpl never.
Arguments N.max : simpl never.
Arguments N.min : simpl never.
Arguments N.of_nat : simpl never.
Arguments N.to_nat : simpl never.

Section Main.
  Variable cr : crypto.
  Hypothesis Hcrc : crc_ok cr.
  Hypothesis Hhash32 : forall x, length (cr_hash cr x) = 32%nat.
  Hypothesis Hnonblank : forall x, all_zero (cr_hash cr x) = false.
  Hypothesis Hhashbytes : forall x, bytes_ok (cr_hash cr x) = true.
  Variable bs : list bytes.               (* the writer's blocks *)
  Hypothesis Hw : writer_fits bs.

  (* ------------------------------------------------------------------------------------ *)
  (* (a)                                                                                   *)
  (* ------------------------------------------------------------------------------------ *)

  Theorem HInv_implies_HInvR c d : HInv cr bs c d -> HInvR cr bs c d.
  Proof. apply (HInv_HInvR cr Hhash32 bs Hw). Qed.

  Theorem HInvR_plus_root_sizes_is_HInv c d :
    HInvR cr bs c d ->
    (forall x, In x (t_roots (c_tree c)) -> n_length x = n_length (ref_at cr bs (n_index x))) ->
    HInv cr bs c d.
  Proof. apply HInvR_sizes_HInv. Qed.

  Theorem HDInvR_implies_HInvR c d H : HDInvR cr bs c d H -> HInvR cr bs c d.
  Proof. intros (W & _). exact W. Qed.

  Theorem RDInv_implies_HDInvR c d H : RDInv cr bs c d H -> HDInvR cr bs c d H.
  Proof. apply (RDInv_HDInvR cr Hhash32 Hnonblank bs Hw Hhashbytes). Qed.

  (* creating a replica from the public key alone on empty storage *)
  Theorem fresh_replica_HDInvR kp :
    keypair_ok kp = true -> kp_secret kp = None ->
    exists d' ops c,
      core_open cr (Some kp) false disk_empty = (d', ops, Ok c) /\
      HDInvR cr bs c d' (fun _ => false) /\ c_keypair c = kp /\ t_length (c_tree c) = 0.
  Proof.
    intros Hk Hs. destruct (RDInv_fresh cr Hcrc Hhash32 Hnonblank bs kp Hk Hs) as (d' & ops & c & E & X & K & L).
    exists d', ops, c. split; [exact E|]. split; [apply RDInv_implies_HDInvR, X|]. split; assumption.
  Qed.

  (* ------------------------------------------------------------------------------------ *)
  (* (b)                                                                                   *)
  (* ------------------------------------------------------------------------------------ *)

  Theorem reopen_reestablishes_invariant c d H :
    HDInvR cr bs c d H ->
    exists c', core_open cr None true d = (d, [], Ok c') /\
      HDInvR cr bs c' d H /\
      t_length (c_tree c') = t_length (c_tree c) /\ c_keypair c' = c_keypair c /\
      c_oplog c' = c_oplog c /\ (forall i, core_has c' i = core_has c i) /\
      hd_contig (c_header c') = hd_contig (c_header c) /\ c_skip c' = 0.
  Proof. apply (reopen_HDInvR cr Hcrc Hhash32 Hnonblank Hhashbytes bs Hw). Qed.

  (* ------------------------------------------------------------------------------------ *)
  (* (c), tree level: every outcome of core_apply_proof on an HInvR replica, proof of ANY shape *)
  (* ------------------------------------------------------------------------------------ *)

  Theorem apply_anyR_outcome f pf c w c' w' r :
    HInvR cr bs c (w_disk w) -> proof_wire pf ->
    core_apply_proof cr f pf c w = (c', w', r) ->
    (r = Ok true /\ HInvR cr bs c' (w_disk w')) \/
    (c' = c /\ w' = w /\ unchanged_outcome cr pf c w r) \/
    (r = Panic frame_msg /\ HInvR cr bs c' (w_disk w')) \/
    some_collision cr \/ forged_signature cr bs (kp_public (c_keypair c)).
  Proof.
    intros W Hwire H. pose proof H as H0. pose proof W as (H1 & H2 & H3 & H4 & H5 & H6).
    pose proof (proof_wire_root_fits cr Hhash32 pf (c_tree c) Hwire) as Hfits.
    destruct (N.eq_dec (p_fork pf) (t_fork (c_tree c))) as [Ef|Ef].
    2:{ rewrite (apply_fork_mismatch cr f pf c w Ef) in H. injection H as <- <- <-.
        right. left. split; [reflexivity|]. split; [reflexivity|]. left. reflexivity. }
    destruct (verifier_says cr c w pf) as [cs|e|s|] eqn:V.
    2:{ rewrite (apply_verify_error cr f pf c w e Ef V) in H. injection H as <- <- <-.
        right. left. split; [reflexivity|]. split; [reflexivity|]. right. left. rewrite V. reflexivity. }
    2:{ rewrite (apply_verify_panic cr f pf c w s Ef V) in H. injection H as <- <- <-.
        right. left. split; [reflexivity|]. split; [reflexivity|]. right. left. rewrite V. reflexivity. }
    2:{ rewrite (apply_verify_out_of_fuel cr f pf c w Ef V) in H. injection H as <- <- <-.
        right. left. split; [reflexivity|]. split; [reflexivity|]. right. left. rewrite V. exact I. }
    destruct (commitable (c_tree c) cs) eqn:Cm.
    2:{ rewrite (apply_not_commitable cr f pf c w cs V Cm) in H. injection H as <- <- <-.
        right. left. split; [reflexivity|]. split; [reflexivity|]. left. reflexivity. }
    rewrite (apply_gates_pass cr f pf c w cs Ef V Cm) in H.
    unfold verifier_says in V.
    destruct (verify_proof_acceptedR cr Hhash32 bs Hw _ _ _ _ _ H1 H3 H4 H5 H6 Hwire Hfits V)
      as [(m & Acc)|[C|F]]; [|right; right; right; left; exact C|right; right; right; right; exact F].
    assert (H32 : forall x, In x (cs_nodes cs) -> length (n_hash x) = 32%nat).
    { intros x Hx. pose proof (acr_nodes _ _ _ _ _ _ _ _ Acc) as A. rewrite Forall_forall in A.
      destruct (A x Hx) as [_ [B _]]. exact B. }
    (* the part behind the block write *)
    assert (Cont : forall bu w1,
               (log_and_commit cr cs bu ;;; maybe_flush cr f ;;;
                (match p_upgrade pf with Some _ => send EvUpgrade | None => ret tt end) ;;;
                (match bu with Some u => send (EvHave (bu_start u) (bu_length u) false) | None => ret tt end) ;;;
                ret true) c w1 = (c', w', r) ->
               r = Ok true \/ r = Panic frame_msg).
    { intros bu w1 HC.
      destruct (apply_commit cr _ _ _ _ _ V Cm) as (t' & Htc & _).
      destruct (log_and_commit_cases cr cs bu c w1 (verify_proof_hashed cr _ _ _ _ _ V)
                  H32 (ex_intro _ t' Htc)) as [E|(c2 & w2 & E)].
      { rewrite (mbind_panic _ _ _ _ _ _ _ E) in HC. injection HC as _ _ <-. right. reflexivity. }
      rewrite (mbind_eq _ _ _ _ _ _ _ E) in HC.
      destruct (log_and_commit_inv cr cs bu c w1 c2 w2 tt E) as (t2 & Htc2 & Et2 & _).
      assert (Hok2 : unflushed_ok (c_tree c2)).
      { rewrite Et2.
        destruct (tree_commit_hinvR cr bs _ _ _ _ _ _ _ Acc (eq_trans Ef H2) W Htc2) as (_ & (_ & _ & _ & _ & T5 & _) & _).
        apply (hunfl_sound_ok cr Hhash32 bs t2 _ T5). }
      destruct (maybe_flush_cases cr Hhash32 Hnonblank f c2 w2 Hok2) as [(c3 & w3 & E3)|(c3 & w3 & E3)].
      { rewrite (mbind_panic _ _ _ _ _ _ _ E3) in HC. injection HC as _ _ <-. right. reflexivity. }
      rewrite (mbind_eq _ _ _ _ _ _ _ E3) in HC.
      left. destruct (p_upgrade pf), bu; cbn in HC; injection HC as _ _ <-; reflexivity. }
    assert (Done : r = Ok true \/ r = Panic frame_msg ->
                   (r = Ok true /\ HInvR cr bs c' (w_disk w')) \/
                   (c' = c /\ w' = w /\ unchanged_outcome cr pf c w r) \/
                   (r = Panic frame_msg /\ HInvR cr bs c' (w_disk w')) \/
                   some_collision cr \/ forged_signature cr bs (kp_public (c_keypair c))).
    { intros Hr. destruct w as [d j ev]. cbn [w_disk] in *.
      destruct (apply_anyR_any_outcome cr Hhash32 bs Hw f pf c d j ev c' w' r W Hwire H0)
        as [[W' _]|[C|F]]; [|right; right; right; left; exact C|right; right; right; right; exact F].
      destruct Hr as [-> | ->]; [left|right; right; left]; (split; [reflexivity|exact W']). }
    unfold apply_tail in H.
    apply mbind_inv in H. destruct H as (c1 & w1 & r1 & Hbu & H).
    destruct (p_block pf) as [b|] eqn:Eb.
    - rewrite mbind_lift in Hbu.
      destruct (byte_offset_in_changeset (c_tree c) (d_tree (w_disk w)) (db_index b) cs) as [off|e|s|] eqn:Hoff.
      + rewrite mbind_emit_SW in Hbu. unfold ret in Hbu. injection Hbu as <- <- <-.
        apply Done. exact (Cont _ _ H).
      + injection Hbu as <- <- <-. destruct H as (-> & -> & ->).
        right. left. split; [reflexivity|]. split; [reflexivity|]. right. right.
        exists b, cs. split; [exact Eb|]. split; [exact V|]. rewrite Hoff. reflexivity.
      + injection Hbu as <- <- <-. destruct H as (-> & -> & ->).
        right. left. split; [reflexivity|]. split; [reflexivity|]. right. right.
        exists b, cs. split; [exact Eb|]. split; [exact V|]. rewrite Hoff. reflexivity.
      + injection Hbu as <- <- <-. destruct H as (-> & -> & ->).
        right. left. split; [reflexivity|]. split; [reflexivity|]. right. right.
        exists b, cs. split; [exact Eb|]. split; [exact V|]. rewrite Hoff. exact I.
    - unfold ret in Hbu. injection Hbu as <- <- <-. apply Done. exact (Cont _ _ H).
  Qed.

  (* (c), memory and the four stores: AnyReopenC.apply_any_keeps_HDInvR, restated *)
  Theorem apply_any_outcome_keeps_HDInvR f pf c w H c' w' r :
    HDInvR cr bs c (w_disk w) H -> proof_wireS pf ->
    core_apply_proof cr f pf c w = (c', w', r) ->
    (r = Ok true /\ HDInvR cr bs c' (w_disk w') (hold H (p_block pf)) /\ c_keypair c' = c_keypair c /\
     t_length (c_tree c) <= t_length (c_tree c') /\
     (forall b, p_block pf = Some b -> db_value b = blk bs (db_index b) /\ db_index b < t_length (c_tree c'))) \/
    (c' = c /\ w' = w /\ unchanged_outcome cr pf c w r) \/
    (r = Panic frame_msg /\ c' = c /\ HDInvR cr bs c' (w_disk w') H) \/
    some_collision cr \/ forged_signature cr bs (kp_public (c_keypair c)).
  Proof. apply (apply_any_keeps_HDInvR cr Hcrc Hhash32 Hnonblank Hhashbytes bs Hw). Qed.

  (* ------------------------------------------------------------------------------------ *)
  (* (d)                                                                                   *)
  (* ------------------------------------------------------------------------------------ *)

  (* what HInvR says about a replica, spelled out *)
  Theorem HInvR_content c d :
    HInvR cr bs c d ->
    let t := c_tree c in let r := t_length t in
    (* LENGTH, FORK: a length at which the writer signed (roots hash of its first r blocks, r, fork 0) *)
    i_length (core_info c) = r /\ r <= N.of_nat (length bs) /\ i_fork (core_info c) = 0 /\
    signed_by_writer cr bs (signable (tree_hash cr (ref_roots cr bs r)) r 0) /\
    (* ROOTS in memory: the writer's indices and hashes *)
    map n_index (t_roots t) = map n_index (ref_roots cr bs r) /\
    map n_hash (t_roots t) = map n_hash (ref_roots cr bs r) /\
    (* BYTE LENGTH: the sum of the sizes of the roots in memory; the writer's as soon as those sizes are *)
    i_byte_length (core_info c) = lens (t_roots t) /\
    ((forall x, In x (t_roots t) -> n_length x = n_length (ref_at cr bs (n_index x))) ->
     i_byte_length (core_info c) = prefix_size bs r) /\
    (* HASHES: every node that can be looked up, in memory or in the tree store, carries the writer's hash at
       its index and lies inside the tree over r blocks *)
    (forall j nd, required_node t (d_tree d) j = Ok nd ->
       n_index nd = j /\ n_hash nd = n_hash (ref_at cr bs j) /\ in_len r j).
  Proof.
    intros W. pose proof W as (H1 & H2 & H3 & H4 & H5 & H6). cbv zeta.
    cbn [core_info i_length i_byte_length i_fork].
    split; [reflexivity|]. split; [exact H1|]. split; [exact H2|].
    split; [exists (t_length (c_tree c)); split; [exact H1|reflexivity]|].
    destruct H3 as [EI HF].
    split; [rewrite EI; symmetry; apply ref_roots_indices|].
    split.
    { unfold ref_roots. rewrite <- EI, !map_map. apply map_ext_in. intros x Hx.
      rewrite Forall_forall in HF. apply (HF x Hx). }
    split; [exact H4|]. split.
    { intros Hs. destruct (HInvR_sizes_HInv cr bs c d W Hs) as (_ & _ & _ & E & _). exact E. }
    intros j nd Hreq. destruct (required_node_hsound cr bs _ _ _ j nd H5 H6 Hreq) as [Ei [Ag Il]].
    split; [exact Ei|]. unfold hagree in Ag. rewrite Ei in Ag, Il. split; assumption.
  Qed.

  (* what the invariant over memory and the stores adds *)
  Theorem HDInvR_content c d H :
    HDInvR cr bs c d H ->
    let t := c_tree c in let r := t_length t in
    HInvR cr bs c d /\
    (* SIGNATURE: none needed at length 0; else the 64 bytes the tree carries verify, under the replica's key,
       the message the writer signed at length r *)
    (r = 0 \/ exists sg, t_signature t = Some sg /\ length sg = 64%nat /\
                         cr_verify cr (kp_public (c_keypair c))
                           (signable (tree_hash cr (ref_roots cr bs r)) r 0) sg = true) /\
    (* AVAILABILITY: has = the held set, every held index lies below the length, the contiguous length is the
       first index not held; the replica holds no secret key *)
    (forall i, core_has c i = H i) /\ (forall i, H i = true -> i < r) /\
    fexact H (i_contiguous (core_info c)) /\ i_writeable (core_info c) = false /\
    (* the roots of the current length can be looked up *)
    (forall i, In i (ft_full_roots (2 * r)) -> exists x, required_node t (d_tree d) i = Ok x).
  Proof.
    intros (W & _ & Hav & Hsg & Hbd & Hb & Hex & Hk & _). cbv zeta.
    split; [exact W|]. split; [exact Hsg|]. split; [exact Hb|]. split; [exact Hbd|].
    split; [exact Hex|]. split; [|exact Hav].
    cbn [core_info i_writeable]. rewrite Hk. reflexivity.
  Qed.

  (* reads: under HInvR, when the sizes of the roots in memory and the visible sizes up to block i are the
     writer's, a read of block i looks at the writer's byte range (AnyProof.get_reads_writer_range) *)
  Corollary reads_writer_range_R c d j ev i c' w' v :
    HInvR cr bs c d ->
    (forall x, In x (t_roots (c_tree c)) -> n_length x = n_length (ref_at cr bs (n_index x))) ->
    sizes_ok_upto cr bs c d i ->
    core_get i c (mkWorld d j ev) = (c', w', Ok (Some v)) ->
    i < t_length (c_tree c) /\
    ((len (blk bs i) = 0 /\ v = []) \/
     (len (blk bs i) <> 0 /\ f_read (d_data d) (prefix_size bs i) (len (blk bs i)) = Some v)).
  Proof.
    intros W Hs Hsz Hg.
    apply (get_reads_writer_range cr bs Hw c d j ev i c' w' v (HInvR_sizes_HInv cr bs c d W Hs) Hsz Hg).
  Qed.
End Main.

Print Assumptions HInv_implies_HInvR.
Print Assumptions HInvR_plus_root_sizes_is_HInv.
Print Assumptions RDInv_implies_HDInvR.
Print Assumptions fresh_replica_HDInvR.
Print Assumptions reopen_reestablishes_invariant.
Print Assumptions apply_anyR_outcome.
Print Assumptions apply_any_outcome_keeps_HDInvR.
Print Assumptions HInvR_content.
Print Assumptions HDInvR_content.
Print Assumptions reads_writer_range_R.

(* FrameGuardUnified.v -- C01 at the level of histories without the frame alternative.
   Unified3.history_unified says: a history over {append, batch append, clear, get, has, info, close-and-reopen}
   observes exactly the model "list of blocks + set of cleared indices", OR stops early at an append answered by
   the 2^30 frame panic.  When every batch has at most MAX_BATCH = 10737384 blocks the second alternative is
   impossible (FrameGuard.append_FInv_no_panic): every observation is the specification's. *)
From HC Require Import Base NMap Codec CodecFacts Crypto FlatTree Storage Bitfield Oplog Merkle Core.
From HC Require Import FlatTreeFacts StorageFacts BitfieldFacts OplogFacts TreeRef OffsetFacts CoreFacts Crash Refine.
From HC Require Import ClearRefine Reopen ContigBridge Unified1 Unified2 Unified3.
From HC Require Import FrameGuardLib FrameGuard.
From Coq Require Import FMapPositive ZifyN ZifyNat ZifyBool.
Ltac Zify.zify_post_hook ::= Z.div_mod_to_equations.
Arguments N.add : simpl never.
Arguments N.sub : simpl never.
Arguments N.mul : simpl never.
Arguments N.div : simpl never.
Arguments N.modulo : simpl never.
Arguments N.pow : simpl never.
Arguments N.eqb : simpl never.
Arguments N.ltb : simpl never.
Arguments N.leb : simpl never.
Arguments N.max : simpl never.
Arguments N.min : simpl never.
Arguments N.of_nat : simpl never.
Arguments N.to_nat : simpl never.

(* every batch of the history has at most MAX_BATCH blocks *)
Fixpoint batches_small (ops : list uop) : Prop :=
  match ops with
  | [] => True
  | UAppend _ batch :: rest => N.of_nat (length batch) <= MAX_BATCH /\ batches_small rest
  | _ :: rest => batches_small rest
  end.

Section HistoryNoPanic.
  Variable cr : crypto.
  Hypothesis Hcrc : crc_ok cr.
  Hypothesis Hhash32 : forall x, length (cr_hash cr x) = 32%nat.
  Hypothesis Hnonblank : forall x, all_zero (cr_hash cr x) = false.
  Hypothesis Hhashbytes : forall x, bytes_ok (cr_hash cr x) = true.
  Hypothesis Hsig64 : forall sk m, length (cr_sign cr sk m) = 64%nat.
  Hypothesis Hsigbytes : forall sk m, bytes_ok (cr_sign cr sk m) = true.

  Theorem history_unified_no_panic (ops : list uop) : forall c d j ev bs cl sk,
    FInv cr c d bs cl -> kp_secret (c_keypair c) = Some sk ->
    wf_u ops (N.of_nat (length bs)) -> batches_small ops ->
    sumN (map len (bs ++ uappended ops)) <= u64_max ->
    NODE_SIZE * (2 * N.of_nat (length (bs ++ uappended ops))) <= u64_max ->
    urun cr ops c (mkWorld d j ev) = uspec ops bs cl.
  Proof.
    induction ops as [|op ops IH]; intros c d j ev bs cl sk D Hsk Hwf Hsm Hfit Hidx.
    - reflexivity.
    - pose proof (FInv_CInv cr c d bs cl D) as W.
      destruct op as [f batch|f s e|i|i| |]; cbn [urun uspec uappended wf_u batches_small] in *.
      + destruct Hsm as [Hb Hsm].
        destruct (core_append cr f batch c (mkWorld d j ev)) as [[c' w'] r] eqn:E.
        rewrite app_assoc in Hfit, Hidx.
        assert (Hfit1 : sumN (map len (bs ++ batch)) <= u64_max).
        { rewrite map_app, TreeRef.sumN_app in Hfit. lia. }
        assert (Hidx1 : NODE_SIZE * (2 * N.of_nat (length (bs ++ batch))) <= u64_max).
        { rewrite (app_length (bs ++ batch)) in Hidx. unfold NODE_SIZE in *. lia. }
        destruct (append_FInv_no_panic cr Hcrc Hhash32 Hnonblank Hhashbytes Hsig64 Hsigbytes
                    f batch c d j ev bs cl sk c' w' r D Hsk Hfit1 Hidx1 Hb E) as (-> & D' & K').
        destruct w' as [d' j' ev']. cbn [w_disk] in D'. rewrite <- K' in Hsk.
        assert (Hwf' : wf_u ops (N.of_nat (length (bs ++ batch)))).
        { rewrite app_length, Nat2N.inj_add. exact Hwf. }
        rewrite (IH c' d' j' ev' (bs ++ batch) _ sk D' Hsk Hwf' Hsm Hfit Hidx). reflexivity.
      + destruct Hwf as [Hse Hwf].
        destruct (N.leb_spec e s) as [L|L].
        * rewrite (clear_noop cr f s e c _ L).
          rewrite (IH c d j ev bs cl sk D Hsk Hwf Hsm Hfit Hidx). reflexivity.
        * destruct Hse as [Hse|[Hse He]]; [lia|].
          destruct (core_clear cr f s e c (mkWorld d j ev)) as [[c' w'] r] eqn:E.
          destruct (clear_FInv cr Hcrc Hhash32 Hnonblank Hhashbytes f c d j ev bs cl s e c' w' r D Hse L He E)
            as (-> & D' & K').
          destruct w' as [d' j' ev']. cbn [w_disk] in D'. rewrite <- K' in Hsk.
          rewrite (IH c' d' j' ev' bs _ sk D' Hsk Hwf Hsm Hfit Hidx). reflexivity.
      + rewrite (get_correct_c cr c d bs cl j ev i W).
        destruct (held (N.of_nat (length bs)) cl i).
        * rewrite (IH c d j ev bs cl sk D Hsk Hwf Hsm Hfit Hidx). reflexivity.
        * rewrite (IH c d j (EvGet i :: ev) bs cl sk D Hsk Hwf Hsm Hfit Hidx). reflexivity.
      + rewrite (has_correct_c cr c d bs cl i W).
        rewrite (IH c d j ev bs cl sk D Hsk Hwf Hsm Hfit Hidx). reflexivity.
      + rewrite (proj1 (info_correct_c cr c d bs cl W)), Hsk.
        rewrite (IH c d j ev bs cl sk D Hsk Hwf Hsm Hfit Hidx). reflexivity.
      + destruct (reopen_FInv cr Hcrc Hhash32 Hnonblank Hhashbytes c d bs cl D) as (c' & E & D' & K').
        cbn [w_disk w_journal w_events]. rewrite E. cbn [res_unit rev app]. rewrite <- K' in Hsk.
        rewrite (IH c' d j ev bs cl sk D' Hsk Hwf Hsm Hfit Hidx). reflexivity.
  Qed.

  (* from creation: C01 in full for every history whose batches have at most MAX_BATCH blocks *)
  Theorem fresh_history_unified_no_panic kp sk ops :
    keypair_ok kp = true -> kp_secret kp = Some sk ->
    wf_u ops 0 -> batches_small ops ->
    sumN (map len (uappended ops)) <= u64_max ->
    NODE_SIZE * (2 * N.of_nat (length (uappended ops))) <= u64_max ->
    exists d0 ops0 c0,
      core_open cr (Some kp) false disk_empty = (d0, ops0, Ok c0) /\
      urun cr ops c0 (mkWorld d0 [] []) = uspec ops [] (fun _ => false).
  Proof.
    intros Hkp Hsk Hwf Hsm Hfit Hidx.
    destruct (FInv_init cr Hcrc Hhash32 Hnonblank Hhashbytes kp Hkp) as (d0 & ops0 & c0 & Ho & D & K).
    exists d0, ops0, c0. split; [exact Ho|].
    apply (history_unified_no_panic ops c0 d0 [] [] [] (fun _ => false) sk D);
      [rewrite K; exact Hsk|exact Hwf|exact Hsm|exact Hfit|exact Hidx].
  Qed.
End HistoryNoPanic.

(* non-vacuity: the toy history of Unified3 (appends with empty blocks and an empty batch, clears, reopens) *)
Example toy_history_batches_small : batches_small toy_uops /\ wf_u toy_uops 0.
Proof.
  split.
  - cbn [batches_small toy_uops obs_all app flat_map map seq length]. unfold MAX_BATCH. repeat split; lia.
  - cbn [wf_u toy_uops obs_all app flat_map map seq length]. unfold u64_max. lia.
Qed.

Example toy_fresh_history_unified_no_panic :
  exists d0 ops0 c0,
    core_open toy_cr (Some toy_keypair) false disk_empty = (d0, ops0, Ok c0) /\
    urun toy_cr toy_uops c0 (mkWorld d0 [] []) = uspec toy_uops [] (fun _ => false).
Proof.
  apply (fresh_history_unified_no_panic toy_cr toy_crc_ok' toy_hash32 toy_nonblank toy_hashbytes toy_sig64 toy_sigbytes
           toy_keypair (repeat 2 32%nat) toy_uops); try reflexivity.
  - exact (proj2 toy_history_batches_small).
  - exact (proj1 toy_history_batches_small).
  - vm_compute. discriminate.
  - vm_compute. discriminate.
Qed.

Print Assumptions history_unified_no_panic.
Print Assumptions fresh_history_unified_no_panic.
Print Assumptions toy_fresh_history_unified_no_panic.

(* AnyReopen1Ex.v -- non-vacuity of AnyReopen1.v on the toy instances (sc_cr of SoundCore.v: a writer with six
   blocks [1;2;3] [] [4] [5;6;7;8] [9;10] [11], a replica created from the public key alone; ex_cr of Replicate.v),
   and the counterexamples that delimit it.
   1. the synced replica of SoundCore.v (upgrade entry PENDING in the oplog, roots 3 and 9 only in the unflushed
      map) satisfies HDInvR outright; the reopen theorem applies: the pending entry is replayed;
   2. a ONE-NODE hash section (flat 3, a root: the stored hash, size 100 instead of 8) applied to it with a flush:
      the hypotheses of the apply theorem are met, the outcome is Ok true;
   3. NECESSITY of the two weakened clauses: the state after 2. and a reopen satisfies HInvR (proved outright, by a
      checker) and violates both clauses of HInv that HInvR weakens: the root 3 in memory has size 100, the byte length
      is 103 where the writer signed 11;
   4. the read clause asked for in (d) is FALSE already under HInv: a state satisfying HInv (proved outright) in
      which block 3 is held and get 3 returns [0;5;6;7], the writer's block being [5;6;7;8]. *)
From HC Require Import Base NMap Codec CodecFacts Crypto FlatTree Storage Bitfield Oplog Merkle Core.
From HC Require Import FlatTreeFacts StorageFacts BitfieldFacts OplogFacts TreeRef OffsetFacts CoreFacts Crash Refine.
From HC Require Import ClearRefine Reopen ContigBridge Unified1 Unified2 CrashCore1 CrashCore2 CrashClear1.
From HC Require Import Sound NoPanic Replicate SoundCoreLib SoundCore SoundCoreUp SoundCoreBU NoPanic2
                       EventsAvail CacheModel CacheOps ReplicaCor ReplicaCorA.
From HC Require Import ReplicaDisk1 ReplicaDisk2 ReplicaDisk3 ReplicaDisk6 ReplicaDisk7
                       AnyProofLib AnyProofUp AnyProof AnyProofEx AnyProofCorLib
                       AnyReopenA AnyReopenB AnyReopenC AnyReopenD AnyReopen1.
From Coq Require Import FMapPositive ZifyN ZifyNat ZifyBool.
Ltac Zify.zify_post_hook ::= Z.div_mod_to_equations.
Arguments N.add : simpl never.
Arguments N.sub : simpl never.
Arguments N.mul : simpl never.
Arguments N.div : simpl never.
Arguments N.modulo : simpl never.
Arguments N.pow : simpl never.
Arguments N.eqb : simpl never.
Arguments N.ltb : simpl never.
Arguments N.leb : simpl never.
Arguments N.of_nat : simpl never.
Arguments N.to_nat : simpl never.

(* ====================================================================================== *)
(* 0. A checker for the two quantified clauses of HInv / HInvR on concrete states           *)
(* ====================================================================================== *)

Lemma in_nrange n : forall off x, In x (nrange off n) <-> off <= x < off + N.of_nat n.
Proof.
  induction n as [|n IH]; intros off x; cbn [nrange In].
  - split; [intros []|lia].
  - rewrite IH. lia.
Qed.

Section Checker.
  Variable cr : crypto.
  Variable bs : list bytes.

  Definition hauth_b (r : N) (x : node) : bool :=
    bytes_eqb (n_hash x) (n_hash (ref_at cr bs (n_index x))) &&
    ((ft_offset (n_index x) + 1) * 2 ^ ft_depth (n_index x) <=? r).

  Lemma hauth_b_ok r x : hauth_b r x = true -> hauth cr bs r x.
  Proof.
    unfold hauth_b. intros H. apply andb_prop in H as [H1 H2]. apply bytes_eqb_eq in H1.
    split; [exact H1|]. unfold in_len. lia.
  Qed.

  Definition hunfl_check (t : mtree) (r : N) : bool :=
    forallb (fun kv => (n_index (snd kv) =? fst kv) && hauth_b r (snd kv) && (n_length (snd kv) <=? u64_max))
            (nm_elements (t_unflushed t)).

  Lemma hunfl_check_ok t r : hunfl_check t r = true -> hunfl_sound cr bs t r.
  Proof.
    unfold hunfl_check. intros H j nd G. rewrite forallb_forall in H.
    apply nm_elements_in in G. specialize (H _ G). cbn [fst snd] in H.
    apply andb_prop in H as [H H3]. apply andb_prop in H as [H1 H2].
    split; [lia|]. split; [apply hauth_b_ok, H2|lia].
  Qed.

  Definition hfile_check (tf : file) (r : N) : bool :=
    (f_len tf mod NODE_SIZE =? 0) &&
    forallb (fun j => match f_read tf (NODE_SIZE * j) NODE_SIZE with
                      | Some data => node_blank (node_from_bytes j data) || hauth_b r (node_from_bytes j data)
                      | None => true
                      end) (nrange 0 (N.to_nat (f_len tf / NODE_SIZE))).

  Lemma hfile_check_ok tf r : hfile_check tf r = true -> hfile_sound cr bs tf r.
  Proof.
    unfold hfile_check. intros H. apply andb_prop in H as [H1 H2]. split; [lia|].
    intros j data R B. rewrite forallb_forall in H2.
    assert (Hj : In j (nrange 0 (N.to_nat (f_len tf / NODE_SIZE)))).
    { apply in_nrange. pose proof R as R'. apply f_read_spec in R' as (Rb & _). unfold NODE_SIZE in *. lia. }
    specialize (H2 j Hj). rewrite R, B in H2. cbn [orb] in H2. apply hauth_b_ok, H2.
  Qed.
End Checker.

(* ====================================================================================== *)
(* 1. The synced replica: HDInvR outright, the reopen theorem replays the pending entry      *)
(* ====================================================================================== *)

Theorem sc_synced_HDInvR :
  match fst sc_R1 with
  | Some (c, w) => HDInvR sc_cr sc_blocks c (w_disk w) (fun _ => false) /\ t_length (c_tree c) = 6
  | None => False
  end.
Proof.
  pose proof sc_synced_RDInv as HX.
  destruct (fst sc_R1) as [[c w]|]; [|exact HX]. destruct HX as [X L].
  split; [|exact L].
  apply (RDInv_implies_HDInvR sc_cr sc_hash32 sc_nonblank sc_hashbytes sc_blocks sc_writer_fits c (w_disk w) _ X).
Qed.

(* computed facts are stated on closed terms and proved by one run of the virtual machine each *)
Definition obs1 (s : option (core * world)) :=
  match s with
  | Some (c, w) => Some (map fst (nm_elements (t_unflushed (c_tree c))), f_len (d_tree (w_disk w)),
                         ol_entries_len (c_oplog c))
  | None => None
  end.
Lemma obs1_sc : obs1 (fst sc_R1) = Some ([3; 9], 0, 1).
Proof. vm_compute. reflexivity. Qed.

Example sc_synced_reopen_theorem_applies :
  match fst sc_R1 with
  | Some (c, w) =>
      map fst (nm_elements (t_unflushed (c_tree c))) = [3; 9] /\ f_len (d_tree (w_disk w)) = 0 /\
      ol_entries_len (c_oplog c) = 1 /\
      exists c', core_open sc_cr None true (w_disk w) = (w_disk w, [], Ok c') /\
        HDInvR sc_cr sc_blocks c' (w_disk w) (fun _ => false) /\
        t_length (c_tree c') = 6 /\ c_keypair c' = c_keypair c /\ (forall i, core_has c' i = core_has c i)
  | None => False
  end.
Proof.
  pose proof sc_synced_HDInvR as HX. pose proof obs1_sc as O.
  destruct (fst sc_R1) as [[c w]|]; [|exact HX]. destruct HX as [X L6].
  cbn [obs1] in O. injection O as C1 C2 C3.
  split; [exact C1|]. split; [exact C2|]. split; [exact C3|].
  destruct (reopen_reestablishes_invariant sc_cr sc_crc_ok sc_hash32 sc_nonblank sc_hashbytes sc_blocks sc_writer_fits
              c (w_disk w) _ X) as (c' & E & X' & El & Ek & _ & Eh & _).
  exists c'. split; [exact E|]. split; [exact X'|]. split; [rewrite El; exact L6|]. split; [exact Ek|exact Eh].
Qed.

(* ====================================================================================== *)
(* 2. A one-node hash section with a wrong size at a root index                             *)
(* ====================================================================================== *)

Definition sx_apply (s : option (core * world)) (f : option bool) (j l : N) :=
  match lone_proof s j l with
  | Some pf => ex_run s (core_apply_proof sc_cr f pf)
  | None => (None, None)
  end.
Definition sx_reopen (s : option (core * world)) : option (core * world) :=
  match s with
  | Some (c, w) =>
      match core_open sc_cr None true (w_disk w) with
      | (d, _, Ok c0) => Some (c0, mkWorld d [] [])
      | _ => None
      end
  | None => None
  end.
Definition sx_info (s : option (core * world)) : option (N * N) :=
  match s with Some (c, _) => Some (i_length (core_info c), i_byte_length (core_info c)) | None => None end.
Definition sx_root_sizes (s : option (core * world)) : option (list (N * N)) :=
  match s with Some (c, _) => Some (map (fun x => (n_index x, n_length x)) (t_roots (c_tree c))) | None => None end.

Definition obs2 (s : option (core * world)) :=
  match s with
  | Some (c, w) =>
      match lone_proof s 3 100 with
      | Some pf => Some (p_block pf,
                         option_map (fun h => map (fun x => (n_index x, n_length x)) (dh_nodes h)) (p_hash pf),
                         p_seek pf, p_upgrade pf, option_map n_length (lone_node s 3), proof_okb pf,
                         snd (core_apply_proof sc_cr (Some true) pf c w))
      | None => None
      end
  | None => None
  end.
Lemma obs2_sc : obs2 (fst sc_R1) = Some (None, Some [(3, 100)], None, None, Some 8, true, Ok true).
Proof. vm_compute. reflexivity. Qed.

(* the hypotheses of the apply theorem are met by the rogue proof on the synced replica; the outcome is Ok true *)
Example rogue_root_size_apply_theorem_applies :
  match fst sc_R1 with
  | Some (c, w) =>
      exists pf c' w',
        lone_proof (Some (c, w)) 3 100 = Some pf /\
        p_block pf = None /\ p_seek pf = None /\ p_upgrade pf = None /\
        option_map (fun h => map (fun x => (n_index x, n_length x)) (dh_nodes h)) (p_hash pf) = Some [(3, 100)] /\
        option_map n_length (lone_node (Some (c, w)) 3) = Some 8 /\
        HDInvR sc_cr sc_blocks c (w_disk w) (fun _ => false) /\ proof_wireS pf /\
        core_apply_proof sc_cr (Some true) pf c w = (c', w', Ok true) /\
        (* the conclusion of the theorem for this outcome *)
        ((HDInvR sc_cr sc_blocks c' (w_disk w') (hold (fun _ => false) (p_block pf)) /\
          t_length (c_tree c) <= t_length (c_tree c'))
         \/ some_collision sc_cr \/ forged_signature sc_cr sc_blocks (kp_public (c_keypair c)))
  | None => False
  end.
Proof.
  pose proof sc_synced_HDInvR as HX. pose proof obs2_sc as O.
  destruct (fst sc_R1) as [[c w]|]; [|exact HX]. destruct HX as [X _].
  cbn [obs2] in O. destruct (lone_proof (Some (c, w)) 3 100) as [pf|]; [|discriminate O].
  destruct (core_apply_proof sc_cr (Some true) pf c w) as [[c' w'] r] eqn:Ea. cbn [snd] in O.
  injection O as S1 S2 S3 S4 S6 Hok ->.
  assert (Hwire : proof_wireS pf).
  { split; [apply proof_okb_wire, Hok|]. intros u Eu. rewrite S4 in Eu. discriminate Eu. }
  exists pf, c', w'. split; [reflexivity|]. split; [exact S1|]. split; [exact S3|]. split; [exact S4|].
  split; [exact S2|]. split; [exact S6|]. split; [exact X|]. split; [exact Hwire|]. split; [exact Ea|].
  destruct (apply_any_outcome_keeps_HDInvR sc_cr sc_crc_ok sc_hash32 sc_nonblank sc_hashbytes sc_blocks sc_writer_fits
              (Some true) pf c w _ c' w' _ X Hwire Ea)
    as [(_ & X' & _ & Mono & _)|[(_ & _ & [Hu|[Hu|(b & cs & Eb & _)]])|[(Hp & _)|[C|F]]]].
  - left. split; assumption.
  - discriminate Hu.
  - destruct (verifier_says sc_cr c w pf); destruct Hu.
  - rewrite S1 in Eb. discriminate Eb.
  - discriminate Hp.
  - right. left. exact C.
  - right. right. exact F.
Qed.

(* ====================================================================================== *)
(* 3. NECESSITY: after a reopen the state satisfies HInvR and violates the two clauses of HInv *)
(* ====================================================================================== *)

(* the history: synced replica; the rogue proof with a forced flush; close and reopen *)
Definition sx_hist :=
  let s0 := fst sc_R1 in
  let a1 := sx_apply s0 (Some true) 3 100 in
  let s2 := sx_reopen (fst a1) in
  (s0, a1, s2).
Definition sx2 : option (core * world) := snd sx_hist.

Definition obs3 :=
  let '(s0, a1, s2) := sx_hist in
  (snd a1, sx_info s0, sx_root_sizes s0, sx_info (fst a1), sx_root_sizes (fst a1), sx_info s2, sx_root_sizes s2,
   prefix_size sc_blocks 6).
Lemma obs3_sc :
  obs3 = (Some (Ok true), Some (6, 11), Some [(3, 8); (9, 3)], Some (6, 11), Some [(3, 8); (9, 3)],
          Some (6, 103), Some [(3, 100); (9, 3)], 11).
Proof. vm_compute. reflexivity. Qed.

Definition obs4 (s : option (core * world)) :=
  match s with
  | Some (c, w) =>
      Some (t_length (c_tree c), t_fork (c_tree c), map n_index (t_roots (c_tree c)),
            forallb (fun x => bytes_eqb (n_hash x) (n_hash (ref_at sc_cr sc_blocks (n_index x))) &&
                              (n_length x <=? u64_max)) (t_roots (c_tree c)),
            t_byte_length (c_tree c) =? lens (t_roots (c_tree c)),
            hunfl_check sc_cr sc_blocks (c_tree c) 6, hfile_check sc_cr sc_blocks (d_tree (w_disk w)) 6,
            map n_length (t_roots (c_tree c)), t_byte_length (c_tree c))
  | None => None
  end.
Lemma obs4_sc : obs4 sx2 = Some (6, 0, ft_full_roots (2 * 6), true, true, true, true, [100; 3], 103).
Proof. vm_compute. reflexivity. Qed.

(* synced replica: length 6, byte length 11, roots (3, 8) and (9, 3).  After the rogue proof (flush forced): the
   same in memory.  After a reopen: the root 3 in MEMORY has size 100 and the byte length is 103.  The reopened
   state satisfies HInvR (checked clause by clause); it does not satisfy HInv: the clause on the roots and the
   clause on the byte length both fail -- exactly the two clauses HInvR weakens. *)
Example reopened_state_is_HInvR_not_HInv :
  obs3 = (Some (Ok true), Some (6, 11), Some [(3, 8); (9, 3)], Some (6, 11), Some [(3, 8); (9, 3)],
          Some (6, 103), Some [(3, 100); (9, 3)], 11) /\
  match sx2 with
  | Some (c, w) =>
      HInvR sc_cr sc_blocks c (w_disk w) /\
      t_roots (c_tree c) <> ref_roots sc_cr sc_blocks (t_length (c_tree c)) /\
      t_byte_length (c_tree c) <> prefix_size sc_blocks (t_length (c_tree c)) /\
      ~ HInv sc_cr sc_blocks c (w_disk w)
  | None => False
  end.
Proof.
  split; [exact obs3_sc|].
  pose proof obs4_sc as O. destruct sx2 as [[c w]|]; [|discriminate O].
  cbn [obs4] in O. injection O as C1 C2 C3 C4 C5 C6 C7 C8 C9.
  assert (NR : t_roots (c_tree c) <> ref_roots sc_cr sc_blocks (t_length (c_tree c))).
  { intros E. apply (f_equal (map n_length)) in E. rewrite C8, C1 in E. vm_compute in E. discriminate E. }
  assert (NB : t_byte_length (c_tree c) <> prefix_size sc_blocks (t_length (c_tree c))).
  { rewrite C9, C1. vm_compute. discriminate. }
  split; [|split; [exact NR|split; [exact NB|]]].
  - unfold HInvR, HTreeR. cbv zeta. rewrite C1.
    split; [vm_compute; discriminate|]. split; [exact C2|]. split.
    { split; [exact C3|]. apply Forall_forall. intros x Hx. rewrite forallb_forall in C4.
      specialize (C4 x Hx). apply andb_prop in C4 as [A B]. apply bytes_eqb_eq in A. split; [exact A|lia]. }
    split; [lia|]. split; [apply hunfl_check_ok, C6|apply hfile_check_ok, C7].
  - intros (_ & _ & _ & H4 & _). exact (NB H4).
Qed.

(* ====================================================================================== *)
(* 4. The read clause of (d) is false already under HInv                                    *)
(* ====================================================================================== *)

Lemma nodes_eq_maps : forall l l' : list node,
  map n_index l = map n_index l' -> map n_length l = map n_length l' -> map n_hash l = map n_hash l' -> l = l'.
Proof.
  induction l as [|x l IH]; intros [|y l'] H1 H2 H3; cbn [map] in *; try discriminate; [reflexivity|].
  injection H1 as A1 B1. injection H2 as A2 B2. injection H3 as A3 B3.
  f_equal; [apply node_eq; assumption|apply IH; assumption].
Qed.

Definition obs5 (s : option (core * world)) :=
  match s with
  | Some (c, w) =>
      Some (t_length (c_tree c), t_fork (c_tree c),
            map n_index (t_roots (c_tree c)), map n_length (t_roots (c_tree c)), map n_hash (t_roots (c_tree c)),
            t_byte_length (c_tree c),
            hunfl_check ex_cr ex_blocks (c_tree c) 5, hfile_check ex_cr ex_blocks (d_tree (w_disk w)) 5,
            core_has c 3, snd (core_get 3 c w))
  | None => None
  end.
Lemma obs5_ex :
  obs5 (fst co_A3) =
  Some (5, 0, map n_index (ref_roots ex_cr ex_blocks 5), map n_length (ref_roots ex_cr ex_blocks 5),
        map n_hash (ref_roots ex_cr ex_blocks 5), prefix_size ex_blocks 5, true, true, true, Ok (Some [0; 5; 6; 7])).
Proof. vm_compute. reflexivity. Qed.

(* The statement asked for: "every held block reads as the writer's block or the read fails (never a foreign
   value)".  In the last state of SoundCore.size_carveout_refuted (replica of the five-block writer of
   Replicate.v: a hash section with sizes shifted inside a sibling pair, the honest proof of block 3, the honest
   proof of block 2 -- all three accepted) HInv holds, proved here outright: every visible node is the writer's,
   nothing was flushed.  Block 3 is held, and get 3 returns [0;5;6;7]: the writer's block 3 is [5;6;7;8].
   HInv implies HInvR, so neither invariant can imply the read clause; what is true is
   AnyProof.get_reads_writer_range / AnyReopen1.reads_writer_range_R. *)
Example held_block_reads_foreign_value_refuted :
  match fst co_A3 with
  | Some (c, w) =>
      HInv ex_cr ex_blocks c (w_disk w) /\ HInvR ex_cr ex_blocks c (w_disk w) /\
      core_has c 3 = true /\
      snd (core_get 3 c w) = Ok (Some [0; 5; 6; 7]) /\ blk ex_blocks 3 = [5; 6; 7; 8]
  | None => False
  end.
Proof.
  pose proof obs5_ex as O. destruct (fst co_A3) as [[c w]|]; [|discriminate O].
  cbn [obs5] in O. injection O as C1 C2 C3a C3b C3c C4 C5 C6 C7 C8.
  assert (HH : HInv ex_cr ex_blocks c (w_disk w)).
  { unfold HInv. cbv zeta. rewrite C1. split; [vm_compute; discriminate|]. split; [exact C2|].
    split; [apply nodes_eq_maps; assumption|]. split; [exact C4|].
    split; [apply hunfl_check_ok, C5|apply hfile_check_ok, C6]. }
  split; [exact HH|]. split.
  - apply (HInv_implies_HInvR ex_cr); [| |exact HH].
    + intros x. cbn [cr_hash ex_cr]. unfold ex_hash. rewrite map_length, nrange_length. reflexivity.
    + split; vm_compute; discriminate.
  - split; [exact C7|]. split; [exact C8|]. vm_compute. reflexivity.
Qed.

Print Assumptions sc_synced_HDInvR.
Print Assumptions sc_synced_reopen_theorem_applies.
Print Assumptions rogue_root_size_apply_theorem_applies.
Print Assumptions reopened_state_is_HInvR_not_HInv.
Print Assumptions held_block_reads_foreign_value_refuted.

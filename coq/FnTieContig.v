(* FnTieContig.v — the update_contiguous_length part of the expression-level source tie (see FnTie.v for the conventions);
   pinned in props/C08.v. *)
From HC Require Import Base Codec CodecFacts Crypto Storage Bitfield Oplog Merkle Core OplogFacts FnDesc SrcFns FnTieLib.
From Coq Require Import FMapPositive.
From Coq Require Import ZifyN ZifyNat ZifyBool Lia.
Ltac Zify.zify_post_hook ::= Z.div_mod_to_equations.
#[local] Arguments N.add : simpl never.
#[local] Arguments N.sub : simpl never.
#[local] Arguments N.mul : simpl never.
#[local] Arguments N.div : simpl never.
#[local] Arguments N.modulo : simpl never.
#[local] Arguments N.pow : simpl never.
#[local] Arguments N.eqb : simpl never.
#[local] Arguments N.ltb : simpl never.
#[local] Arguments N.leb : simpl never.
#[local] Arguments N.shiftl : simpl never.
#[local] Arguments N.shiftr : simpl never.
#[local] Arguments N.land : simpl never.
#[local] Arguments N.lor : simpl never.
#[local] Arguments N.odd : simpl never.
#[local] Arguments N.testbit : simpl never.
Local Open Scope string_scope.
Local Open Scope list_scope.
Local Open Scope N_scope.

(* ================================================================================================================= *)
(* 4. update_contiguous_length                                                                                        *)
(* ================================================================================================================= *)

Definition env_contig (c start length : N) : string -> N :=
  env_of [("c", c); ("bitfield_update.start", start); ("bitfield_update.length", length)].

Definition contig_end_tie (e : rexpr) : Prop :=
  forall c start length, reval (env_contig c start length) e = start + length.

(* drop: the contiguous length falls back to the source's value exactly when the source's condition holds *)
Definition contig_drop_spec (dc dv : rexpr) : Prop :=
  forall c b start length, let env := env_contig c start length in
    update_contig c b (mkBfUpdate true start length) = if truthy (reval env dc) then reval env dv else c.
Definition contig_drop_tie : Prop :=
  tied_fn src_contig_drop_cond (fun dc => tied_fn src_contig_drop_value (fun dv => contig_drop_spec dc dv)).

(* set: the scan over the following set bits starts at the source's value exactly when the source's condition holds *)
Definition contig_set_spec (sc sf : rexpr) : Prop :=
  forall c b start length, let env := env_contig c start length in
    update_contig c b (mkBfUpdate false start length) =
    if truthy (reval env sc) then bf_skip_set (S (PositiveMap.cardinal (bf_bits b))) b (reval env sf) else c.
Definition contig_set_tie : Prop :=
  tied_fn src_contig_set_cond (fun sc => tied_fn src_contig_set_from (fun sf => contig_set_spec sc sf)).

Lemma tie_contig_end : tied_fn src_contig_end contig_end_tie.
Proof. open_tie. first [exact I | intros c s l; unfold env_contig; ev; lia]. Qed.

Theorem contig_drop_is_the_sources : contig_drop_tie.
Proof.
  unfold contig_drop_tie, contig_drop_spec. open_tie.
  first [exact I | intros c b s l; cbv zeta; unfold update_contig, env_contig; cbn [bu_drop bu_start bu_length]; ev; cmp_cases].
Qed.

Theorem contig_set_is_the_sources : contig_set_tie.
Proof.
  unfold contig_set_tie, contig_set_spec. open_tie.
  first [exact I | intros c b s l; cbv zeta; unfold update_contig, env_contig; cbn [bu_drop bu_start bu_length]; ev;
                   generalize (S (PositiveMap.cardinal (bf_bits b))); intros fuel; cmp_cases].
Qed.

(* ================================================================================================================= *)
(* Examples: the specifications are met by the expressions of today's source (written out, independent of SrcFns.v), on concrete  *)
(* arguments the two sides compute the same non-trivial values, and deliberately wrong expressions are REFUTED                    *)
(* ================================================================================================================= *)

Definition ex_combined := RVar "combined".
Definition ex_c := RVar "c".
Definition ex_start := RVar "bitfield_update.start".
Definition ex_end := RBin OAdd (RVar "bitfield_update.start") (RVar "bitfield_update.length").

(* a checksum that depends on its input, to make the zone visible *)
Definition ex_cr : crypto := mkCrypto (fun _ => []) (fun b => fold_right N.add 0 b) (fun _ _ => []) (fun _ _ _ => true).

(* leader word of a 5-byte payload with the header bit: 5 * 4 + 1 *)
(* today's drop rule, on a concrete case: clearing 2..4 of a core contiguous to 10 leaves 2 *)
Example contig_drop_example :
  contig_drop_spec (RBin OGt ex_c ex_start) ex_start /\ update_contig 10 bf_empty (mkBfUpdate true 2 2) = 2.
Proof.
  split; [|vm_compute; reflexivity].
  intros c b s l; cbv zeta; unfold update_contig, env_contig, ex_c, ex_start; cbn [bu_drop bu_start bu_length]; ev; cmp_cases.
Qed.

(* the earlier defect (since repaired): `c <= end && c > start` in the DROP branch keeps a stale contiguous length when the
   cleared range ends below it: contiguous 10, clear 2..4 must give 2, the wrong rule leaves 10 *)
Example contig_drop_old_defect_refuted :
  ~ contig_drop_spec (RBin OLAnd (RBin OLe ex_c ex_end) (RBin OGt ex_c ex_start)) ex_start.
Proof. intros H. specialize (H 10 bf_empty 2 2). vm_compute in H. discriminate. Qed.

(* `c < end` in the SET branch would not extend a contiguous length that touches the end of the range *)
Example contig_set_lt_refuted :
  ~ contig_set_spec (RBin OLAnd (RBin OLt ex_c ex_end) (RBin OGe ex_c ex_start)) ex_end.
Proof. intros H. specialize (H 4 (bf_set_range bf_empty 4 1 true) 2 2). vm_compute in H. discriminate. Qed.

(* update_contiguous_length of src/core.rs (pinned in props/C08.v) *)
Theorem source_contig_functions_are_the_models :
  tied_fn src_contig_end contig_end_tie /\ contig_drop_tie /\ contig_set_tie.
Proof.
  split; [exact tie_contig_end|]. split; [exact contig_drop_is_the_sources | exact contig_set_is_the_sources].
Qed.

Print Assumptions source_contig_functions_are_the_models.

(* ReplicaDisk7.v -- replicas end to end: an UNCONDITIONAL non-trivial instance of RDInv.
   The theorems of ReplicaDisk3-5 are reductions (invariant kept, or a collision / foreign signature), so on a toy
   hash they cannot by themselves exhibit a state satisfying RDInv other than the fresh one.  Here RDInv is
   established outright for the synced replica of SoundCore.v (sc_R1: the writer's upgrade proof 0..6 applied
   without a flush -- the upgrade entry is PENDING in the oplog, the roots 3 and 9 are only in the unflushed map),
   from SoundCore.sc_RInv_synced and computed facts about the verifier's changeset.  The reopen, observation and
   crash theorems then apply to this state without any escape clause on their hypotheses. *)
From HC Require Import Base NMap Codec CodecFacts Crypto FlatTree Storage Bitfield Oplog Merkle Core.
From HC Require Import FlatTreeFacts StorageFacts BitfieldFacts OplogFacts TreeRef OffsetFacts CoreFacts Crash Refine.
From HC Require Import ClearRefine Reopen ContigBridge Unified1 Unified2 CrashCore1 CrashCore2 CrashCore3 CrashClear1.
From HC Require Import Sound NoPanic Replicate SoundCoreLib SoundCore SoundCoreUp SoundCoreBU.
From HC Require Import ReplicaDisk1 ReplicaDisk2 ReplicaDisk3 ReplicaDisk4 ReplicaDisk5 ReplicaDisk6.
From Coq Require Import FMapPositive ZifyN ZifyNat ZifyBool.
Ltac Zify.zify_post_hook ::= Z.div_mod_to_equations.
Arguments N.add : simpl never.
Arguments N.sub : simpl never.
Arguments N.mul : simpl never.
Arguments N.div : simpl never.
Arguments N.modulo : simpl never.
Arguments N.pow : simpl never.
Arguments N.eqb : simpl never.
Arguments N.ltb : simpl never.
Arguments N.leb : simpl never.
Arguments N.of_nat : simpl never.
Arguments N.to_nat : simpl never.

Section Given.
  Variable cr : crypto.
  Hypothesis Hcrc : crc_ok cr.
  Hypothesis Hhash32 : forall x, length (cr_hash cr x) = 32%nat.
  Hypothesis Hnonblank : forall x, all_zero (cr_hash cr x) = false.
  Hypothesis Hhashbytes : forall x, bytes_ok (cr_hash cr x) = true.
  Variable bs : list bytes.
  Hypothesis Hw : writer_fits bs.

  (* apply_keeps_RDInv for an application without flush, with the soundness facts (SoundCore.RInv afterwards, the
     changeset's nodes are the writer's) given instead of derived by the collision / signature reductions *)
  Lemma noflush_RDInv_given pf c d j ev H c' w' cs :
    RDInv cr bs c d H ->
    core_apply_proof cr (Some false) pf c (mkWorld d j ev) = (c', w', Ok true) ->
    verifier_says cr c (mkWorld d j ev) pf = Ok cs ->
    SoundCore.RInv cr bs c' (w_disk w') ->
    let r := t_length (c_tree c) in
    let m := if cs_upgraded cs then cs_length cs else r in
    r <= m -> m <= N.of_nat (length bs) -> Forall (authentic cr bs m) (cs_nodes cs) ->
    (cs_upgraded cs = true -> cs_ancestors cs = r) ->
    (cs_upgraded cs = true ->
     exists sg, cs_signature cs = Some sg /\ length sg = 64%nat /\ bytes_ok sg = true /\
       cs_hash cs = Some (tree_hash cr (cs_roots cs)) /\
       cr_verify cr (kp_public (c_keypair c))
         (signable (tree_hash cr (cs_roots cs)) (cs_length cs) (cs_fork cs)) sg = true) ->
    RDInv cr bs c' (w_disk w') (hold H (p_block pf)) /\ t_length (c_tree c') = m.
  Proof.
    intros X Happ V W' r m Hrm Hmn Hauth Hanc Hsig.
    destruct (accepted_gates cr _ _ _ _ _ _ Happ) as (cs0 & Ef & V0 & Cm & Ht).
    rewrite V in V0. injection V0 as <-.
    apply apply_tail_inv in Ht. destruct Ht as (_ & bu & c1 & w1 & c2 & w2 & w3 & Hbu & Hlc & Hmf & Hd3).
    fold (block_part pf c (w_disk (mkWorld d j ev)) cs) in Hbu.
    unfold maybe_flush in Hmf. rewrite mbind_get_core in Hmf. unfold put_skip in Hmf.
    injection Hmf as Ec' Ew3. subst w3.
    assert (W2 : SoundCore.RInv cr bs c2 (w_disk w2)).
    { rewrite Hd3 in W'.
      apply (RInv_ext cr bs c' c2 (w_disk w2) (w_disk w2));
        [rewrite <- Ec'; reflexivity|intros i; rewrite <- Ec'; reflexivity|reflexivity|reflexivity|exact W']. }
    destruct (block_part_inv pf c _ cs c _ c1 w1 bu Hbu) as (-> & Et1 & Eo1 & Eb1 & Ebu & _).
    cbn [w_disk] in Et1, Eo1, Eb1.
    assert (Hbus : match bu with Some u => bu_drop u = false /\ bu_length u = 1 | None => True end).
    { rewrite Ebu. destruct (p_block pf); [split; reflexivity|exact I]. }
    destruct w1 as [d1 j1 ev1]. cbn [w_disk] in Et1, Eo1, Eb1.
    destruct (RDInv_commit cr Hcrc Hhash32 Hnonblank Hhashbytes bs Hw c d d1 H cs bu j1 ev1 c2 w2 tt
                X Et1 Eo1 Eb1 Hlc W2 Hrm Hmn Hauth Hanc Hsig Hbus) as (X2 & Em & _).
    rewrite Hd3, <- Ec'. cbn [c_tree]. split; [|exact Em].
    apply (RDInv_ext cr bs _ (w_disk w2) (held_after H bu)); [|apply RDInv_skip, X2].
    intros i. unfold hold, held_after. rewrite Ebu. destruct (p_block pf) as [b|]; [|reflexivity].
    unfold upd_fun. cbn [bu_start bu_length bu_drop negb].
    destruct (N.eqb_spec i (db_index b)) as [->|Ne].
    - destruct (N.leb_spec (db_index b) (db_index b)) as [_|L]; [|lia].
      destruct (N.ltb_spec (db_index b) (db_index b + 1)) as [_|L]; [reflexivity|lia].
    - destruct ((db_index b <=? i) && (i <? db_index b + 1)) eqn:E; [lia|reflexivity].
  Qed.
End Given.

(* ---------- the synced replica of SoundCore.v ---------- *)

Lemma sc_R1_run pf : sc_upgrade_proof = Some pf -> sc_R1 = ex_run sc_R0 (core_apply_proof sc_cr (Some false) pf).
Proof.
  unfold sc_upgrade_proof, sc_R1.
  destruct (snd (ex_run sc_W (core_create_proof None None None (Some (mkReqUpgrade 0 6))))) as [r|];
    [|intros H; discriminate H].
  destruct r as [o|e|s|]; [|intros H; discriminate H|intros H; discriminate H|intros H; discriminate H].
  destruct o as [q|]; [|intros H; discriminate H]. intros H. injection H as ->. reflexivity.
Qed.

(* computed facts about the run: accepted, and the verifier's changeset *)
Lemma sc_up_facts d0 ops c0 pf c1 w1 r1 :
  core_open sc_cr (Some (mkKeypair sc_key None)) false disk_empty = (d0, ops, Ok c0) ->
  sc_upgrade_proof = Some pf ->
  core_apply_proof sc_cr (Some false) pf c0 (mkWorld d0 [] []) = (c1, w1, r1) ->
  r1 = Ok true /\ p_block pf = None /\ t_length (c_tree c0) = 0 /\
  exists cs, verifier_says sc_cr c0 (mkWorld d0 [] []) pf = Ok cs /\
    cs_upgraded cs = true /\ cs_length cs = 6 /\ cs_ancestors cs = 0 /\
    map n_index (cs_nodes cs) = [3; 9] /\
    Forall (authentic sc_cr sc_blocks 6) (cs_nodes cs) /\
    exists sg, cs_signature cs = Some sg /\ length sg = 64%nat /\ bytes_ok sg = true /\
      cs_hash cs = Some (tree_hash sc_cr (cs_roots cs)) /\
      cr_verify sc_cr (kp_public (c_keypair c0))
        (signable (tree_hash sc_cr (cs_roots cs)) (cs_length cs) (cs_fork cs)) sg = true.
Proof.
  intros H1 H2 H3. vm_compute in H1. injection H1 as <- _ <-. vm_compute in H2. injection H2 as <-.
  vm_compute in H3. injection H3 as _ _ <-.
  split; [reflexivity|]. split; [reflexivity|]. split; [reflexivity|].
  eexists. split; [vm_compute; reflexivity|].
  split; [reflexivity|]. split; [reflexivity|]. split; [reflexivity|]. split; [reflexivity|].
  split.
  { match goal with |- Forall _ ?l => let l' := eval vm_compute in l in change l with l' end.
    repeat (apply Forall_cons; [split; [vm_compute; reflexivity|vm_compute; intros E; discriminate E]|]).
    apply Forall_nil. }
  eexists. split; [reflexivity|]. split; [reflexivity|]. split; [vm_compute; reflexivity|].
  split; [vm_compute; reflexivity|]. vm_compute. reflexivity.
Qed.

(* the synced replica satisfies the invariant: length 6, nothing held, the upgrade entry pending *)
Theorem sc_synced_RDInv :
  match fst sc_R1 with
  | Some (c, w) => RDInv sc_cr sc_blocks c (w_disk w) (fun _ => false) /\ t_length (c_tree c) = 6
  | None => False
  end.
Proof.
  pose proof sc_RInv_synced as HS.
  destruct (RDInv_fresh sc_cr sc_crc_ok sc_hash32 sc_nonblank sc_blocks (mkKeypair sc_key None) eq_refl eq_refl)
    as (d0 & ops & c0 & Hopen & X & K & L).
  assert (ER0 : sc_R0 = Some (c0, mkWorld d0 [] [])) by (unfold sc_R0, sc_open; rewrite Hopen; reflexivity).
  destruct sc_upgrade_proof as [pf|] eqn:Ep.
  2:{ exfalso. pose proof sc_upgrade_theorem_applies as HB. rewrite ER0, Ep in HB. exact HB. }
  rewrite (sc_R1_run pf Ep) in HS |- *. rewrite ER0 in HS |- *. unfold ex_run in HS |- *.
  destruct (core_apply_proof sc_cr (Some false) pf c0 (mkWorld d0 [] [])) as [[c1 w1] r1] eqn:Happ.
  cbn [fst] in HS |- *. destruct HS as (W1 & L1 & _).
  destruct (sc_up_facts d0 ops c0 pf c1 w1 r1 Hopen Ep Happ)
    as (-> & Hpb & L0 & cs & V & Up & Cl & Ca & _ & Hauth & Hsig).
  destruct (noflush_RDInv_given sc_cr sc_crc_ok sc_hash32 sc_nonblank sc_hashbytes sc_blocks sc_writer_fits
              pf c0 d0 [] [] _ c1 w1 cs X Happ V W1) as (X1 & _).
  - rewrite Up, Cl, L0. lia.
  - rewrite Up, Cl. vm_compute. intros E; discriminate E.
  - rewrite Up, Cl. exact Hauth.
  - intros _. rewrite Ca, L0. reflexivity.
  - intros _. exact Hsig.
  - split; [|exact L1]. rewrite Hpb in X1. exact X1.
Qed.

(* goals 3 and 4, unconditionally, on a state with a pending upgrade entry: the reopen replays the entry
   (tree_truncate finds the roots 3 and 9 among the entry's nodes -- the tree store is empty) to the same tree
   and header, nothing to repair, and shows the observations of a replica of length 6 holding nothing *)
Example sc_synced_reopens :
  match fst sc_R1 with
  | Some (c, w) =>
      map fst (nm_elements (t_unflushed (c_tree c))) = [3; 9] /\ f_len (d_tree (w_disk w)) = 0 /\
      ol_entries_len (c_oplog c) = 1 /\
      exists c', core_open sc_cr None true (w_disk w) = (w_disk w, [], Ok c') /\
        RDInv sc_cr sc_blocks c' (w_disk w) (fun _ => false) /\
        c_tree c' = c_tree c /\ c_header c' = c_header c /\
        core_info c' = mkInfo 6 11 0 0 false /\
        (forall i, core_has c' i = false) /\
        (forall i j ev, snd (core_get i c' (mkWorld (w_disk w) j ev)) = Ok None)
  | None => False
  end.
Proof.
  pose proof sc_synced_RDInv as HX.
  destruct (fst sc_R1) as [[c w]|] eqn:E1; [|exact HX]. destruct HX as [X L6].
  assert (Hc : map fst (nm_elements (t_unflushed (c_tree c))) = [3; 9] /\ f_len (d_tree (w_disk w)) = 0 /\
               ol_entries_len (c_oplog c) = 1).
  { clear X L6. vm_compute in E1. injection E1 as <- <-. repeat split. }
  destruct Hc as (C1 & C2 & C3). split; [exact C1|]. split; [exact C2|]. split; [exact C3|].
  destruct (reopen_RDInv sc_cr sc_crc_ok sc_nonblank sc_blocks sc_writer_fits c (w_disk w) _ X)
    as (c' & E & X' & Et & Eh & _).
  exists c'. split; [exact E|]. split; [exact X'|]. split; [exact Et|]. split; [exact Eh|].
  destruct (RD_info sc_cr sc_blocks c' (w_disk w) _ X') as (I & _ & Hex).
  split.
  { rewrite I, Et, L6.
    assert (Hcg : hd_contig (c_header c') = 0).
    { apply (fexact_unique (fun _ : N => false)); [exact Hex|]. split; [intros i Hi; lia|reflexivity]. }
    rewrite Hcg. reflexivity. }
  split; [intros i; apply (RD_has sc_cr sc_blocks c' (w_disk w) _ i X')|].
  intros i j ev. rewrite (RD_get sc_cr sc_blocks sc_writer_fits c' (w_disk w) _ j ev i X'). reflexivity.
Qed.

(* goal 5 with an unconditional hypothesis: from the synced state, the writer's proof for block 4 applied with a
   flush; every cut of its journal recovers (conclusion of apply_crash_recovers) *)
Lemma sc_block4_run c w pf c' w' r :
  fst sc_R1 = Some (c, w) -> sc_block_proof (fst sc_R1) 4 = Some pf ->
  core_apply_proof sc_cr (Some true) pf c w = (c', w', r) ->
  r = Ok true /\ p_hash pf = None /\ p_seek pf = None /\ p_upgrade pf = None /\
  (exists b, p_block pf = Some b /\ db_index b = 4) /\
  length (w_journal w) = 1%nat /\ length (w_journal w') = 10%nat.
Proof.
  intros H1 H2 H3. vm_compute in H1. injection H1 as <- <-. vm_compute in H2. injection H2 as <-.
  vm_compute in H3. injection H3 as _ <- <-. repeat split. eexists. split; reflexivity.
Qed.

(* the journal of the application has nine operations: data write, entry write, one bitfield page, four tree
   nodes (3 and 9 from the pending upgrade entry, the leaf 8 and its sibling 10 from the block proof), header slot,
   truncate *)
Example sc_synced_crash_theorem_applies :
  match fst sc_R1, sc_block_proof (fst sc_R1) 4 with
  | Some (c, w), Some pf =>
      RDInv sc_cr sc_blocks c (w_disk w) (fun _ => false) /\ rd_proof_ok pf /\ commit_point pf = 1%nat /\
      exists c' w',
        core_apply_proof sc_cr (Some true) pf c w = (c', w', Ok true) /\
        ((exists ops,
            w_journal w' = rev ops ++ w_journal w /\ length ops = 9%nat /\
            forall k, exists dk,
              apply_sops (w_disk w) (firstn k ops) = Some dk /\
              exists c'' d'' rops, core_open sc_cr None true dk = (d'', rops, Ok c'') /\
                if (k <=? 1)%nat
                then obs_replica sc_blocks c'' d'' (fun _ => false) 6
                else obs_replica sc_blocks c'' d'' (hold (fun _ => false) (p_block pf)) (t_length (c_tree c'))) \/
         some_collision sc_cr \/ forged_signature sc_cr sc_blocks (kp_public (c_keypair c)))
  | _, _ => False
  end.
Proof.
  pose proof sc_synced_RDInv as HX.
  destruct (fst sc_R1) as [[c w]|] eqn:E1; [|exact HX]. destruct HX as [X L6].
  destruct (sc_block_proof (Some (c, w)) 4) as [pf|] eqn:Ep.
  2:{ clear X L6. vm_compute in E1. injection E1 as <- <-. vm_compute in Ep. discriminate Ep. }
  destruct (core_apply_proof sc_cr (Some true) pf c w) as [[c' w'] r] eqn:Happ.
  rewrite <- E1 in Ep.
  destruct (sc_block4_run c w pf c' w' r E1 Ep Happ) as (-> & A1 & A2 & A3 & (b & Hb & Hi) & Hjw & Hlen).
  assert (Hrd : rd_proof_ok pf)
    by (split; [split; [exact A1|split; [exact A2|rewrite A3; exact I]]|rewrite A3; exact I]).
  assert (Ecp : commit_point pf = 1%nat) by (unfold commit_point; rewrite Hb; reflexivity).
  split; [exact X|]. split; [exact Hrd|]. split; [exact Ecp|].
  exists c', w'. split; [reflexivity|].
  destruct w as [d j ev]. cbn [w_disk w_journal] in *.
  destruct (apply_crash_recovers sc_cr sc_crc_ok sc_hash32 sc_nonblank sc_hashbytes sc_blocks sc_writer_fits
              (Some true) pf c d j ev _ c' w' X Hrd Happ)
    as [(dl & Hj & _ & Hcuts)|[C|F]]; [left|right; left; exact C|right; right; exact F].
  exists dl. split; [exact Hj|]. split.
  { rewrite Hj, app_length, rev_length, Hjw in Hlen. lia. }
  intros k. destruct (Hcuts k) as (dk & Ak & c'' & d'' & rops & Eo & _ & Hcase).
  exists dk. split; [exact Ak|]. exists c'', d'', rops. split; [exact Eo|]. rewrite Ecp in Hcase.
  destruct (k <=? 1)%nat.
  - destruct Hcase as (_ & O & _). rewrite L6 in O. exact O.
  - destruct Hcase as (_ & O & _). exact O.
Qed.

Print Assumptions noflush_RDInv_given.
Print Assumptions sc_synced_RDInv.
Print Assumptions sc_synced_reopens.
Print Assumptions sc_synced_crash_theorem_applies.

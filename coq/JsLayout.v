(* JsLayout.v — C06, the converse direction over all four stores: storage laid out per the JavaScript on-disk rules,
   including entries that carry the partial flag (atomic batches), is opened by core_open to the state it describes.

   JsDisk kp d bs cl : d is what a JavaScript-style writer with key pair kp could have left for the log (bs, cl):
                       header in either slot (any valid / invalid / older other slot), entries framed with ANY
                       partial flags; the state is described by the entries up to and including the last
                       non-partial one (js_kept l); what follows is an unfinished batch and / or bytes that are
                       no frame of the current epoch.
   JsInv c d bs cl   : memory c and disk d between two calls when the entries in the oplog may carry partial flags
                       (completed batches).  CrashClear1.YInv is the special case "no flag set"; in general the
                       disk is a FLAG VARIANT (FlagRel) of a disk satisfying YInv: same tree / data / bitfield
                       stores, an oplog file that differs only in the partial flags of its frames.

   Main results: FInv / YInv / YDisk -> JsDisk; core_open on a JsDisk succeeds, gives JsInv for the same (bs, cl) on the
   disk after open's own repairing truncate (which keeps every byte of a completed batch), with the observations
   of the list-with-cleared-set model; a second open gives the same core and touches nothing; every operation of
   Core.v is blind to the partial flags (it never reads the oplog file), so append / clear / get from a JsInv state
   behave exactly as from the YInv state of the flag-normalised disk, and preserve JsInv. *)
From HC Require Import Base NMap Codec CodecFacts Crypto FlatTree Storage Bitfield Oplog Merkle Core.
From HC Require Import FlatTreeFacts StorageFacts BitfieldFacts OplogFacts TreeRef OffsetFacts CoreFacts Crash Refine.
From HC Require Import ClearRefine Reopen ContigBridge Unified1 Unified2 CrashCore1 CrashCore2 CrashClear1 CrashClear2.
From Coq Require Import FMapPositive ZifyN ZifyNat ZifyBool.
Ltac Zify.zify_post_hook ::= Z.div_mod_to_equations.
Arguments N.add : simpl never.
Arguments N.sub : simpl never.
Arguments N.mul : simpl never.
Arguments N.div : simpl never.
Arguments N.modulo : simpl never.
Arguments N.pow : simpl never.
Arguments N.eqb : simpl never.
Arguments N.ltb : simpl never.
Arguments N.leb : simpl never.
Arguments N.max : simpl never.
Arguments N.min : simpl never.
Arguments N.of_nat : simpl never.
Arguments N.to_nat : simpl never.

(* ====================================================================================== *)
(* A. The entries that count: up to and including the last non-partial one                 *)
(* ====================================================================================== *)

(* what the layout rules keep of a scanned list of (entry, partial flag): everything up to and including the
   last entry whose partial flag is clear.  This is Crash.kept (= what Oplog.drop_trailing_partials leaves). *)
Definition js_kept (l : list (entry * bool)) : list (entry * bool) := kept l.

Lemma drop_tp_all_partial rl : forallb (fun x : entry * bool => snd x) rl = true -> drop_tp rl = [].
Proof.
  induction rl as [|[e p] rl IH]; [reflexivity|]. cbn [forallb snd]. intros H.
  apply andb_prop in H as [-> H]. cbn [drop_tp]. apply IH, H.
Qed.

Lemma drop_tp_app_partial r1 r2 :
  forallb (fun x : entry * bool => snd x) r1 = true -> drop_tp (r1 ++ r2) = drop_tp r2.
Proof.
  induction r1 as [|[e p] r1 IH]; [reflexivity|]. cbn [forallb snd app]. intros H.
  apply andb_prop in H as [-> H]. cbn [drop_tp]. apply IH, H.
Qed.

(* the defining equalities *)
Lemma js_kept_all_partial l : forallb (fun x : entry * bool => snd x) l = true -> js_kept l = [].
Proof.
  intros H. unfold js_kept, kept. rewrite drop_tp_all_partial; [reflexivity|]. rewrite forallb_rev. exact H.
Qed.

Lemma js_kept_last l1 e l2 :
  forallb (fun x : entry * bool => snd x) l2 = true -> js_kept (l1 ++ (e, false) :: l2) = l1 ++ [(e, false)].
Proof.
  intros H. unfold js_kept, kept. rewrite rev_app_distr. cbn [rev]. rewrite <- app_assoc.
  rewrite drop_tp_app_partial by (rewrite forallb_rev; exact H).
  cbn [app drop_tp]. change ((e, false) :: rev l1) with ([(e, false)] ++ rev l1).
  rewrite rev_app_distr, rev_involutive. reflexivity.
Qed.

Lemma drop_tp_split rl : exists removed,
  rl = removed ++ drop_tp rl /\ forallb (fun x : entry * bool => snd x) removed = true /\
  (drop_tp rl = [] \/ exists e r, drop_tp rl = (e, false) :: r).
Proof.
  induction rl as [|[e p] rl IH].
  - exists []. split; [reflexivity|]. split; [reflexivity|left; reflexivity].
  - destruct p.
    + destruct IH as (rm & H1 & H2 & H3). exists ((e, true) :: rm). cbn [drop_tp app forallb snd].
      split; [f_equal; exact H1|]. split; [exact H2|exact H3].
    + exists []. split; [reflexivity|]. split; [reflexivity|]. right. exists e, rl. reflexivity.
Qed.

(* every list splits into the kept part and an unfinished batch *)
Lemma js_kept_split l : exists dropped,
  l = js_kept l ++ dropped /\ forallb (fun x : entry * bool => snd x) dropped = true /\
  (js_kept l = [] \/ exists k e, js_kept l = k ++ [(e, false)]).
Proof.
  destruct (drop_tp_split (rev l)) as (rm & H1 & H2 & H3).
  exists (rev rm). unfold js_kept, kept. split; [|split].
  - rewrite <- rev_app_distr, <- H1. symmetry. apply rev_involutive.
  - rewrite forallb_rev. exact H2.
  - destruct H3 as [->|(e & r & ->)]; [left; reflexivity|]. right. exists (rev r), e. reflexivity.
Qed.

Lemma js_kept_idem l : js_kept (js_kept l) = js_kept l.
Proof.
  destruct (js_kept_split l) as (dr & _ & _ & [E|(k & e & E)]); rewrite E.
  - reflexivity.
  - rewrite (js_kept_last k e []) by reflexivity. reflexivity.
Qed.

Lemma js_kept_tag l : js_kept (tag l) = tag l.
Proof. apply kept_tag. Qed.

Lemma js_kept_snoc l e : js_kept (l ++ [(e, false)]) = l ++ [(e, false)].
Proof. apply (js_kept_last l e []). reflexivity. Qed.

(* ---------- frames of a split list, frames under other flags ---------- *)

Lemma frames_app_inv cr bit l1 : forall l2 b,
  frames cr bit (l1 ++ l2) = Ok b ->
  exists b1 b2, frames cr bit l1 = Ok b1 /\ frames cr bit l2 = Ok b2 /\ b = b1 ++ b2.
Proof.
  induction l1 as [|[e p] l1 IH]; intros l2 b H.
  - exists [], b. split; [reflexivity|]. split; [exact H|reflexivity].
  - cbn [app frames] in H. apply bind_ok in H as (payload & Hp & H).
    apply bind_ok in H as (fr & Hf & H). apply bind_ok in H as (b' & Hb & H). injection H as <-.
    destruct (IH l2 b' Hb) as (b1 & b2 & E1 & E2 & ->).
    exists (fr ++ b1), b2. split; [|split; [exact E2|apply app_assoc]].
    cbn [frames]. rewrite Hp. cbn [bind]. rewrite Hf. cbn [bind]. rewrite E1. reflexivity.
Qed.

(* whether a payload can be framed does not depend on the flags, and neither does the size of the frame *)
Lemma frame_reflag cr bit p p' payload fr :
  frame cr bit p payload = Ok fr -> exists fr', frame cr bit p' payload = Ok fr' /\ len fr' = len fr.
Proof.
  intros H. pose proof (frame_length _ _ _ _ _ H) as L. unfold frame in *.
  destruct (1073741824 <=? len payload); [discriminate H|].
  eexists. split; [reflexivity|]. rewrite !len_app, !len_le_bytes. rewrite L. lia.
Qed.

Lemma frames_reflag cr bit l : forall l' b,
  frames cr bit l = Ok b -> map fst l' = map fst l -> exists b', frames cr bit l' = Ok b' /\ len b' = len b.
Proof.
  induction l as [|[e p] l IH]; intros l' b H E.
  - destruct l'; [|discriminate E]. injection H as <-. exists []. split; reflexivity.
  - destruct l' as [|[e' p'] l']; [discriminate E|]. cbn [map fst] in E. injection E as -> E.
    cbn [frames] in H. apply bind_ok in H as (payload & Hp & H).
    apply bind_ok in H as (fr & Hf & H). apply bind_ok in H as (b0 & Hb & H). injection H as <-.
    destruct (frame_reflag cr bit p p' payload fr Hf) as (fr' & Hf' & Lf).
    destruct (IH l' b0 Hb E) as (b1 & Hb1 & L1).
    exists (fr' ++ b1). split.
    + cbn [frames]. rewrite Hp. cbn [bind]. rewrite Hf'. cbn [bind]. rewrite Hb1. reflexivity.
    + rewrite !len_app, Lf, L1. reflexivity.
Qed.

Lemma frames_size_fst l l' : map fst l' = map fst l -> frames_size l' = frames_size l.
Proof.
  intros E. unfold frames_size.
  rewrite <- (map_map (@fst entry bool) entry_size l'), <- (map_map (@fst entry bool) entry_size l), E. reflexivity.
Qed.

Lemma tag_fst_fst (l : list (entry * bool)) : map fst (tag (map fst l)) = map fst l.
Proof. apply tag_fst. Qed.

Lemma frames_size_tag (l : list (entry * bool)) : frames_size (tag (map fst l)) = frames_size l.
Proof. apply frames_size_fst, tag_fst. Qed.

Lemma entries_size_fst (l : list (entry * bool)) : entries_size (map fst l) = frames_size l.
Proof. apply frames_size_tag. Qed.

Lemma forallb_ok_fst (l l' : list (entry * bool)) :
  map fst l' = map fst l ->
  forallb (fun x => entry_ok (fst x)) l' = forallb (fun x => entry_ok (fst x)) l.
Proof.
  revert l'. induction l as [|x l IH]; intros [|x' l'] E; try discriminate E; [reflexivity|].
  cbn [map] in E. injection E as E0 E. cbn [forallb]. rewrite E0, (IH l' E). reflexivity.
Qed.

Lemma forallb_map_fst (l : list (entry * bool)) :
  forallb entry_ok (map fst l) = forallb (fun x => entry_ok (fst x)) l.
Proof. induction l as [|x l IH]; [reflexivity|]. cbn [map forallb]. rewrite IH. reflexivity. Qed.

(* ---------- the byte string of a sequence of frames determines payloads and flags ---------- *)

Lemma frames_same_payloads cr bit : crc_ok cr -> forall l l2 b,
  frames cr bit l = Ok b -> frames cr bit l2 = Ok b ->
  map (fun x => enc_entry (fst x)) l = map (fun x => enc_entry (fst x)) l2 /\ map snd l = map snd l2.
Proof.
  intros Hcrc. induction l as [|[e p] l IH]; intros l2 b H H2.
  - injection H as <-. apply frames_nil_inv in H2 as ->. split; reflexivity.
  - destruct l2 as [|[e2 p2] l2].
    { injection H2 as <-. apply frames_nil_inv in H. discriminate H. }
    cbn [frames] in H, H2.
    apply bind_ok in H as (payload & Hp & H). apply bind_ok in H as (fr & Hf & H).
    apply bind_ok in H as (r & Hr & H). injection H as <-.
    apply bind_ok in H2 as (payload2 & Hp2 & H2). apply bind_ok in H2 as (fr2 & Hf2 & H2).
    apply bind_ok in H2 as (r2 & Hr2 & H2). injection H2 as E.
    pose proof (validate_frame cr bit p payload fr r Hcrc (enc_entry_nonempty _ _ Hp) Hf) as V.
    pose proof (validate_frame cr bit p2 payload2 fr2 r2 Hcrc (enc_entry_nonempty _ _ Hp2) Hf2) as V2.
    rewrite E, V in V2. injection V2 as Ep El Es.
    destruct (app_eq_len payload payload2 r r2 Es) as [-> ->]; [unfold len in El; lia|].
    destruct (IH l2 r2 Hr Hr2) as [A B].
    cbn [map fst snd]. rewrite Hp, Hp2, A, B, Ep. split; reflexivity.
Qed.

Lemma frames_by_payloads cr bit : forall l l2,
  map (fun x => enc_entry (fst x)) l = map (fun x => enc_entry (fst x)) l2 -> map snd l = map snd l2 ->
  frames cr bit l = frames cr bit l2.
Proof.
  induction l as [|[e p] l IH]; intros [|[e2 p2] l2] A B; try discriminate A; [reflexivity|].
  cbn [map fst snd] in A, B. injection A as A0 A. injection B as B0 B.
  cbn [frames]. rewrite A0, B0, (IH l2 A B). reflexivity.
Qed.

Lemma frames_size_payloads (l l2 : list (entry * bool)) :
  map (fun x => enc_entry (fst x)) l = map (fun x => enc_entry (fst x)) l2 -> frames_size l = frames_size l2.
Proof.
  revert l2. induction l as [|x l IH]; intros [|x2 l2] A; try discriminate A; [reflexivity|].
  cbn [map] in A. injection A as A0 A. unfold frames_size in *. cbn [map sumN]. rewrite (IH l2 A).
  unfold entry_size. rewrite A0. reflexivity.
Qed.

(* js_kept l = l says: l is empty or its last flag is clear; it depends on the flags only *)
Lemma drop_tp_length rl : (length (drop_tp rl) <= length rl)%nat.
Proof. induction rl as [|[e p] rl IH]; [cbn; lia|]. destruct p; cbn [drop_tp length]; lia. Qed.

Lemma drop_tp_fix rl : drop_tp rl = rl <-> hd false (map snd rl) = false.
Proof.
  destruct rl as [|[e p] rl]; [split; reflexivity|]. cbn [map snd hd]. destruct p; cbn [drop_tp].
  - split; [|discriminate]. intros H. pose proof (drop_tp_length rl) as L. rewrite H in L. cbn [length] in L. lia.
  - split; reflexivity.
Qed.

Lemma js_kept_fix l : js_kept l = l <-> hd false (map snd (rev l)) = false.
Proof.
  rewrite <- drop_tp_fix. unfold js_kept, kept. split; intros H.
  - apply (f_equal (@rev _)) in H. rewrite rev_involutive in H. exact H.
  - rewrite H. apply rev_involutive.
Qed.

Lemma js_kept_fix_flags (a b : list (entry * bool)) : map snd a = map snd b -> js_kept a = a -> js_kept b = b.
Proof. intros E H. apply js_kept_fix. apply js_kept_fix in H. rewrite map_rev, <- E, <- map_rev. exact H. Qed.

Lemma combine_fst_snd {A B} (l : list A) (f : list B) :
  length l = length f -> map fst (combine l f) = l /\ map snd (combine l f) = f.
Proof.
  revert f. induction l as [|a l IH]; intros [|b f] H; try discriminate H; [split; reflexivity|].
  cbn [length] in H. injection H as H. destruct (IH f H) as [A1 A2]. cbn [combine map fst snd].
  rewrite A1, A2. split; reflexivity.
Qed.

Lemma tag_fst_noflags (l : list (entry * bool)) :
  forallb (fun x => negb (snd x)) l = true -> tag (map fst l) = l.
Proof.
  induction l as [|[e p] l IH]; [reflexivity|]. cbn [forallb snd map fst tag]. intros H.
  apply andb_prop in H as [Hp H]. destruct p; [discriminate Hp|]. f_equal. apply IH, H.
Qed.

(* a file with a given content *)
Definition norm_file (content : bytes) : file := f_write file_empty 0 content.

Lemma norm_file_content c : f_content (norm_file c) = c.
Proof.
  unfold norm_file. rewrite f_content_write. change (f_content file_empty) with (@nil N). apply c_write_empty.
Qed.

Lemma slot_is_length cr s st : slot_is cr s st -> length s = SLOT.
Proof. destruct st; intros H; apply H. Qed.

(* ====================================================================================== *)
(* B. JsDisk, JsInv, flag variants                                                         *)
(* ====================================================================================== *)

Section Js.
  Variable cr : crypto.

  (* (1) a disk laid out per the JavaScript rules for the log (bs, cl), by a writer with key pair kp.
     hf = the header the two slots select (Crash.choose: either slot, the other one valid, older or invalid),
     describing the first kf blocks; l = the entries framed after it with the current header bit, each with
     its partial flag; rest = whatever follows and is no frame of the current epoch (nothing, a torn frame,
     frames of the previous epoch).  The state is the one reached by the entries js_kept l: appends
     (Reopen.edesc) and clears (Unified1.cdesc), in order; l minus js_kept l is an unfinished batch.
     body_holds contains the guards of the format: every entry encodes (entry_ok: u64 fields, 32-byte hashes)
     and every frame fits the 30-bit length field (frames ... = Ok _). *)
  Definition JsDisk (kp : keypair) (d : disk) (bs : list bytes) (cl : N -> bool) : Prop :=
    let n := N.of_nat (length bs) in
    sumN (map len bs) <= u64_max /\ NODE_SIZE * (2 * n) <= u64_max /\
    DataY (d_data d) bs cl /\
    exists s0 s1 body st0 st1 bits hf l rest kf,
      f_content (d_oplog d) = s0 ++ s1 ++ body /\
      slot_is cr s0 st0 /\ slot_is cr s1 st1 /\ choose st0 st1 = Some (bits, hf) /\
      body_holds cr (current_bit bits) l rest body /\
      hdr_desc' kp hf kf /\
      gchain cr bs kf (map fst (js_kept l)) n /\
      lookups cr tE (d_tree d) bs kf /\
      BfY (d_bitfield d) (updates_of (map fst (js_kept l))) (hd_contig hf) n cl.

  (* memory c and disk d between two calls, when the entries pending in the oplog may carry partial flags
     (lp ends with a non-partial entry or is empty).  CrashClear1.YInv is the case lp = tag l. *)
  Definition JsInv (c : core) (d : disk) (bs : list bytes) (cl : N -> bool) : Prop :=
    let n := N.of_nat (length bs) in
    YW cr c d bs cl /\
    exists s0 s1 body st0 st1 hf lp kf,
      f_content (d_oplog d) = s0 ++ s1 ++ body /\
      slot_is cr s0 st0 /\ slot_is cr s1 st1 /\ choose st0 st1 = Some (ol_bits (c_oplog c), hf) /\
      frames cr (current_bit (ol_bits (c_oplog c))) lp = Ok body /\
      forallb (fun x => entry_ok (fst x)) lp = true /\ js_kept lp = lp /\
      ol_entries_len (c_oplog c) = N.of_nat (length lp) /\
      ol_entries_bytes (c_oplog c) = frames_size lp /\
      hdr_desc' (c_keypair c) hf kf /\
      hdr_desc' (c_keypair c) (c_header c) n /\
      gchain cr bs kf (map fst lp) n /\
      lookups cr tE (d_tree d) bs kf /\
      BfY (d_bitfield d) (updates_of (map fst lp)) (hd_contig hf) n cl /\
      BfSync (d_bitfield d) (c_bitfield c).

  (* two oplog file contents that differ only in the partial flags of the entry frames: co has the frames of lp,
     cn the frames of the same entries with every flag clear; o = the oplog state in memory (its header bits
     give the entry bit, its byte count is the size of the frames) *)
  Definition FlagVar (o : oplog) (co cn : bytes) : Prop :=
    exists s0 s1 lp fb fbn,
      length s0 = SLOT /\ length s1 = SLOT /\ co = s0 ++ s1 ++ fb /\ cn = s0 ++ s1 ++ fbn /\
      frames cr (current_bit (ol_bits o)) lp = Ok fb /\
      frames cr (current_bit (ol_bits o)) (tag (map fst lp)) = Ok fbn /\
      js_kept lp = lp /\ ol_entries_bytes o = frames_size lp.

  (* d is a flag variant of dn: same tree, data and bitfield stores, oplog files that are flag variants *)
  Definition FlagRel (o : oplog) (d dn : disk) : Prop :=
    d_tree d = d_tree dn /\ d_data d = d_data dn /\ d_bitfield d = d_bitfield dn /\
    FlagVar o (f_content (d_oplog d)) (f_content (d_oplog dn)).

  Hypothesis Hcrc : crc_ok cr.

  (* ---------- YDisk / YInv / FInv are special cases ---------- *)

  Theorem YDisk_JsDisk kp d bs cl : YDisk cr kp d bs cl -> JsDisk kp d bs cl.
  Proof.
    intros (Hs & Hn & Hd & s0 & s1 & body & st0 & st1 & bits & hf & l & kf & Hcont & HO & Hhf & Hch & Hstore & Hby).
    split; [exact Hs|]. split; [exact Hn|]. split; [exact Hd|].
    destruct HO as [(H0 & H1 & Hc & Hf & Hok)|(-> & H0 & H1 & Hc & cb & l0 & Hcb & Hf)].
    - exists s0, s1, body, st0, st1, bits, hf, (tag l), [], kf.
      split; [exact Hcont|]. split; [exact H0|]. split; [exact H1|]. split; [exact Hc|].
      split.
      { exists body. split; [exact Hf|]. split; [symmetry; apply app_nil_r|]. split; [apply no_frame_nil|].
        rewrite tag_ok. exact Hok. }
      rewrite js_kept_tag, tag_fst.
      split; [exact Hhf|]. split; [exact Hch|]. split; [exact Hstore|exact Hby].
    - exists s0, s1, body, st0, st1, bits, hf, [], body, kf.
      split; [exact Hcont|]. split; [exact H0|]. split; [exact H1|]. split; [exact Hc|].
      split.
      { exists []. split; [reflexivity|]. split; [reflexivity|]. split; [|reflexivity].
        rewrite Hcb. apply (old_body_no_frame cr cb (tag l0) body Hcrc Hf). }
      split; [exact Hhf|]. split; [exact Hch|]. split; [exact Hstore|exact Hby].
  Qed.

  Theorem YInv_JsInv c d bs cl : YInv cr c d bs cl -> JsInv c d bs cl.
  Proof.
    intros (W & s0 & s1 & body & st0 & st1 & hf & l & kf & Hcont & (H0 & H1 & Hc & Hf & Hok) & Hlen & Hbytes & Hhf &
            Hhc & Hch & Hstore & Hby & Hsync).
    split; [exact W|].
    exists s0, s1, body, st0, st1, hf, (tag l), kf.
    split; [exact Hcont|]. split; [exact H0|]. split; [exact H1|]. split; [exact Hc|]. split; [exact Hf|].
    split; [rewrite tag_ok; exact Hok|]. split; [apply js_kept_tag|].
    split; [rewrite tag_length; exact Hlen|]. split; [exact Hbytes|].
    rewrite tag_fst.
    split; [exact Hhf|]. split; [exact Hhc|]. split; [exact Hch|]. split; [exact Hstore|].
    split; [exact Hby|exact Hsync].
  Qed.

  Theorem FInv_JsInv c d bs cl : FInv cr c d bs cl -> JsInv c d bs cl.
  Proof. intros D. apply YInv_JsInv, FInv_YInv, D. Qed.

  (* goal (1): FInv -> JsDisk (all flags clear) *)
  Theorem FInv_JsDisk c d bs cl : FInv cr c d bs cl -> JsDisk (c_keypair c) d bs cl.
  Proof. intros D. apply YDisk_JsDisk, YInv_YDisk, FInv_YInv, D. Qed.

  (* the disk part alone *)
  Theorem JsInv_JsDisk c d bs cl : JsInv c d bs cl -> JsDisk (c_keypair c) d bs cl.
  Proof.
    intros (((HL & HB & HF & HR & Hlook & Hun & Hs & Hn) & Hbf & Hcg & Hd) &
            s0 & s1 & body & st0 & st1 & hf & lp & kf & Hcont & H0 & H1 & Hc & Hf & Hok & Hk & Hlen & Hbytes & Hhf & Hhc &
            Hch & Hstore & Hby & Hsync).
    split; [exact Hs|]. split; [exact Hn|]. split; [exact Hd|].
    exists s0, s1, body, st0, st1, (ol_bits (c_oplog c)), hf, lp, [], kf.
    split; [exact Hcont|]. split; [exact H0|]. split; [exact H1|]. split; [exact Hc|].
    split.
    { exists body. split; [exact Hf|]. split; [symmetry; apply app_nil_r|]. split; [apply no_frame_nil|exact Hok]. }
    rewrite Hk. split; [exact Hhf|]. split; [exact Hch|]. split; [exact Hstore|exact Hby].
  Qed.

  (* ---------- JsInv = "flag variant of a YInv disk" ---------- *)

  Lemma YW_stores c d dn bs cl :
    d_tree d = d_tree dn -> d_data d = d_data dn -> YW cr c dn bs cl -> YW cr c d bs cl.
  Proof. intros Et Ed W. unfold YW, TInv in *. rewrite Et, Ed. exact W. Qed.

  (* the flag-normalised disk *)
  Theorem JsInv_norm c d bs cl :
    JsInv c d bs cl -> exists dn, YInv cr c dn bs cl /\ FlagRel (c_oplog c) d dn.
  Proof.
    intros (W & s0 & s1 & body & st0 & st1 & hf & lp & kf & Hcont & H0 & H1 & Hc & Hf & Hok & Hk & Hlen & Hbytes &
            Hhf & Hhc & Hch & Hstore & Hby & Hsync).
    destruct (frames_reflag cr _ lp (tag (map fst lp)) body Hf (tag_fst_fst lp)) as (fbn & Hfn & Ln).
    set (dn := d_set d Oplog (norm_file (s0 ++ s1 ++ fbn))).
    assert (Et : d_tree dn = d_tree d) by (destruct d; reflexivity).
    assert (Ed : d_data dn = d_data d) by (destruct d; reflexivity).
    assert (Eb : d_bitfield dn = d_bitfield d) by (destruct d; reflexivity).
    assert (Eo : f_content (d_oplog dn) = s0 ++ s1 ++ fbn) by (destruct d; apply norm_file_content).
    exists dn. split.
    - split; [apply (YW_stores c dn d bs cl Et Ed W)|].
      rewrite Et, Eb. exists s0, s1, fbn, st0, st1, hf, (map fst lp), kf.
      split; [exact Eo|].
      split. { split; [exact H0|]. split; [exact H1|]. split; [exact Hc|]. split; [exact Hfn|].
               rewrite forallb_map_fst. exact Hok. }
      split; [rewrite map_length; exact Hlen|]. split; [rewrite entries_size_fst; exact Hbytes|].
      split; [exact Hhf|]. split; [exact Hhc|]. split; [exact Hch|]. split; [exact Hstore|].
      split; [exact Hby|exact Hsync].
    - split; [symmetry; exact Et|]. split; [symmetry; exact Ed|]. split; [symmetry; exact Eb|].
      rewrite Eo, Hcont. exists s0, s1, lp, body, fbn.
      split; [apply (slot_is_length cr s0 st0 H0)|]. split; [apply (slot_is_length cr s1 st1 H1)|].
      split; [reflexivity|]. split; [reflexivity|]. split; [exact Hf|]. split; [exact Hfn|].
      split; [exact Hk|exact Hbytes].
  Qed.

  (* conversely: a flag variant of a YInv disk satisfies JsInv *)
  Theorem norm_JsInv c d dn bs cl :
    YInv cr c dn bs cl -> FlagRel (c_oplog c) d dn -> JsInv c d bs cl.
  Proof.
    intros (W & s0' & s1' & body' & st0 & st1 & hf & l & kf & Hcont & G & Hlen & Hbytes & Hhf & Hhc & Hch & Hstore &
            Hby & Hsync)
           (Et & Ed & Eb & s0 & s1 & lp & fb & fbn & L0 & L1 & Eco & Ecn & Hf & Hfn & Hk & Hsz).
    pose proof G as (H0 & H1 & Hc & Hfl & Hokl).
    (* the two decompositions of the normalised oplog file coincide *)
    rewrite Hcont in Ecn.
    destruct (app_eq_len s0' s0 _ _ Ecn) as [-> Ecn1];
      [rewrite (slot_is_length cr s0' st0 H0), L0; reflexivity|].
    destruct (app_eq_len s1' s1 _ _ Ecn1) as [-> ->];
      [rewrite (slot_is_length cr s1' st1 H1), L1; reflexivity|].
    (* ... so the entries of YInv and of the flag variant have the same encodings: the flagged frames on d are
       those of l with the flags of lp *)
    destruct (frames_same_payloads cr _ Hcrc (tag l) (tag (map fst lp)) fbn Hfl Hfn) as [Pe _].
    unfold tag in Pe. rewrite !map_map in Pe. cbn [fst] in Pe.
    change (map enc_entry l = map (fun x => enc_entry (fst x)) lp) in Pe.
    assert (Ll : length l = length (map snd lp)).
    { apply (f_equal (@length _)) in Pe. rewrite !map_length in Pe. rewrite map_length. exact Pe. }
    destruct (combine_fst_snd l (map snd lp) Ll) as [C1 C2].
    set (lq := combine l (map snd lp)) in *.
    assert (Pq : map (fun x => enc_entry (fst x)) lq = map (fun x => enc_entry (fst x)) lp).
    { rewrite <- (map_map fst enc_entry lq), C1, Pe. reflexivity. }
    assert (Hfq : frames cr (current_bit (ol_bits (c_oplog c))) lq = Ok fb).
    { rewrite (frames_by_payloads cr _ lq lp Pq C2). exact Hf. }
    split; [apply (YW_stores c d dn bs cl Et Ed W)|].
    rewrite Et, Eb. exists s0, s1, fb, st0, st1, hf, lq, kf.
    split; [exact Eco|]. split; [exact H0|]. split; [exact H1|]. split; [exact Hc|]. split; [exact Hfq|].
    split; [rewrite <- forallb_map_fst, C1; exact Hokl|].
    split; [apply (js_kept_fix_flags lp lq); [symmetry; exact C2|exact Hk]|].
    split; [rewrite Hlen; f_equal; rewrite <- (map_length fst lq), C1; reflexivity|].
    split; [rewrite Hsz; symmetry; apply frames_size_payloads, Pq|].
    rewrite C1.
    split; [exact Hhf|]. split; [exact Hhc|]. split; [exact Hch|]. split; [exact Hstore|].
    split; [exact Hby|exact Hsync].
  Qed.

  (* when no flag is set the flag variant is the disk itself, up to the representation of the oplog file *)
  Lemma YInv_content_ext c d dn bs cl :
    d_tree d = d_tree dn -> d_data d = d_data dn -> d_bitfield d = d_bitfield dn ->
    f_content (d_oplog d) = f_content (d_oplog dn) -> YInv cr c dn bs cl -> YInv cr c d bs cl.
  Proof.
    intros Et Ed Eb Eo (W & R). split; [apply (YW_stores c d dn bs cl Et Ed W)|].
    rewrite Et, Eb, Eo. exact R.
  Qed.

  (* ---------- the observations of a JsInv state: the list-with-cleared-set model ---------- *)

  Theorem JsInv_observations c d bs cl : JsInv c d bs cl -> obs_cleared c d bs cl.
  Proof.
    intros [W _]. split; [apply (Y_info cr c d bs cl W)|]. split.
    - intros i. apply (Y_has cr c d bs cl i W).
    - intros i j ev. apply (Y_get cr c d bs cl j ev i W).
  Qed.

  (* ==================================================================================== *)
  (* C. core_open on a JsDisk                                                             *)
  (* ==================================================================================== *)

  Hypothesis Hhash32 : forall x, length (cr_hash cr x) = 32%nat.
  Hypothesis Hnonblank : forall x, all_zero (cr_hash cr x) = false.
  Hypothesis Hhashbytes : forall x, bytes_ok (cr_hash cr x) = true.

  Lemma open_tail_ext d1 d2 oo :
    d_tree d1 = d_tree d2 -> d_bitfield d1 = d_bitfield d2 -> open_tail cr d1 oo = open_tail cr d2 oo.
  Proof. intros E1 E2. unfold open_tail. rewrite E1, E2. reflexivity. Qed.

  Lemma open_tail_ops d o h ops ops' es :
    open_tail cr d (mkOpenOutcome o h ops es) = open_tail cr d (mkOpenOutcome o h ops' es).
  Proof. reflexivity. Qed.

  Lemma open_tail_oplog d oo c : open_tail cr d oo = Ok c -> c_oplog c = oo_oplog oo.
  Proof.
    unfold open_tail. intros H. apply bind_ok in H as (t & _ & H).
    apply bind_ok in H as ([[t' b'] h'] & _ & H). injection H as <-. reflexivity.
  Qed.

  (* the open of a disk given by its components.  The storage operations issued are: nothing when the file
     ends with the last kept entry, else ONE truncate at the end of the last kept entry — counting every
     byte of the partial-flagged entries of completed batches. *)
  Lemma open_js_core kp d bs cl s0 s1 body st0 st1 bits hf l rest kf :
    let n := N.of_nat (length bs) in
    sumN (map len bs) <= u64_max -> NODE_SIZE * (2 * n) <= u64_max ->
    DataY (d_data d) bs cl ->
    f_content (d_oplog d) = s0 ++ s1 ++ body ->
    slot_is cr s0 st0 -> slot_is cr s1 st1 -> choose st0 st1 = Some (bits, hf) ->
    body_holds cr (current_bit bits) l rest body ->
    hdr_desc' kp hf kf ->
    gchain cr bs kf (map fst (js_kept l)) n ->
    lookups cr tE (d_tree d) bs kf ->
    BfY (d_bitfield d) (updates_of (map fst (js_kept l))) (hd_contig hf) n cl ->
    let used := frames_size (js_kept l) in
    let ops := if ENTRIES_OFFSET + used <? ENTRIES_OFFSET + len body
               then [ST Oplog (ENTRIES_OFFSET + used)] else [] in
    exists c' d' dn fbk,
      core_open cr None true d = (d', ops, Ok c') /\ apply_sops d ops = Some d' /\
      frames cr (current_bit bits) (js_kept l) = Ok fbk /\
      f_content (d_oplog d') = s0 ++ s1 ++ fbk /\
      d_tree d' = d_tree d /\ d_data d' = d_data d /\ d_bitfield d' = d_bitfield d /\
      YInv cr c' dn bs cl /\ FlagRel (c_oplog c') d' dn /\
      c_keypair c' = kp /\ c_skip c' = 0 /\
      c_oplog c' = mkOplog bits (N.of_nat (length (js_kept l))) used /\
      open_tail cr d' (mkOpenOutcome (c_oplog c') hf [] (map fst (js_kept l))) = Ok c' /\
      (* when no kept entry carries the flag (only an unfinished batch / foreign bytes were cut), the result is
         literally the invariant of CrashClear1 *)
      (forallb (fun x => negb (snd x)) (js_kept l) = true -> YInv cr c' d' bs cl).
  Proof.
    intros n Hs Hn Hd Hcont H0 H1 Hc Hbody Hhf Hch Hstore Hby used ops.
    pose proof Hbody as (fb & Hfb & Eb & Hrest & Hok).
    pose proof (slot_is_length cr s0 st0 H0) as L0. pose proof (slot_is_length cr s1 st1 H1) as L1.
    (* the kept part and its frames *)
    remember (js_kept l) as k eqn:Ek.
    assert (Ekk : kept l = k) by (rewrite Ek; reflexivity).
    destruct (js_kept_split l) as (dr & El & Hdr & _). rewrite <- Ek in El.
    pose proof Hfb as Hfb2. rewrite El in Hfb2.
    destruct (frames_app_inv cr _ k dr fb Hfb2) as (fbk & fbd & Hfbk & Hfbd & Efb).
    pose proof (frames_len cr _ k fbk Hfbk) as Lk. fold used in Lk.
    assert (Hokk : forallb (fun x => entry_ok (fst x)) k = true).
    { rewrite El, forallb_app in Hok. apply andb_prop in Hok as [A _]. exact A. }
    (* the oplog stage *)
    assert (Hopen : oplog_open cr None (f_content (d_oplog d)) =
                    Ok (mkOpenOutcome (mkOplog bits (N.of_nat (length k)) used) hf ops (map fst k))).
    { rewrite Hcont, (open_slots cr Hcrc s0 s1 body st0 st1 bits hf l rest H0 H1 Hc Hbody).
      unfold open_result. rewrite Ekk. reflexivity. }
    (* the disk after the repairing truncate *)
    assert (Hd' : exists d', apply_sops d ops = Some d' /\ f_content (d_oplog d') = s0 ++ s1 ++ fbk /\
                             d_tree d' = d_tree d /\ d_data d' = d_data d /\ d_bitfield d' = d_bitfield d).
    { unfold ops. destruct (N.ltb_spec (ENTRIES_OFFSET + used) (ENTRIES_OFFSET + len body)) as [Lt|Ge].
      - exists (d_set d Oplog (f_truncate (d_oplog d) (ENTRIES_OFFSET + used))).
        split; [reflexivity|].
        split; [|destruct d; repeat split; reflexivity].
        replace (d_oplog (d_set d Oplog (f_truncate (d_oplog d) (ENTRIES_OFFSET + used))))
          with (f_truncate (d_oplog d) (ENTRIES_OFFSET + used)) by (destruct d; reflexivity).
        rewrite f_content_truncate, Hcont, c_truncate_entries by (assumption || lia).
        do 2 f_equal. rewrite Eb, Efb, <- app_assoc. apply firstn_app_exact. unfold len in Lk. lia.
      - exists d. split; [reflexivity|]. split; [|repeat split; reflexivity].
        rewrite Hcont. do 2 f_equal.
        rewrite Eb, Efb, !len_app in Ge.
        assert (fbd = []) as -> by (apply len_zero_nil; lia).
        assert (rest = []) as -> by (apply len_zero_nil; lia).
        rewrite Eb, Efb, !app_nil_r. reflexivity. }
    destruct Hd' as (d' & Ha & Hcont' & Et' & Ed' & Eb').
    pose proof (core_open_eq cr d _ d' Hopen Ha) as Hco. cbn [oo_ops] in Hco.
    (* the flag-normalised disk *)
    destruct (frames_reflag cr _ k (tag (map fst k)) fbk Hfbk (tag_fst_fst k)) as (fbn & Hfbn & Ln).
    set (dn := d_set d' Oplog (norm_file (s0 ++ s1 ++ fbn))).
    assert (Etn : d_tree dn = d_tree d') by (destruct d'; reflexivity).
    assert (Edn : d_data dn = d_data d') by (destruct d'; reflexivity).
    assert (Ebn : d_bitfield dn = d_bitfield d') by (destruct d'; reflexivity).
    assert (Eon : f_content (d_oplog dn) = s0 ++ s1 ++ fbn) by (destruct d'; apply norm_file_content).
    assert (G : good cr s0 s1 fbn st0 st1 bits hf (map fst k)).
    { split; [exact H0|]. split; [exact H1|]. split; [exact Hc|]. split; [exact Hfbn|].
      rewrite forallb_map_fst. exact Hokk. }
    destruct (open_tail_Y cr Hhash32 Hnonblank Hhashbytes kp dn bs cl s0 s1 fbn st0 st1 bits hf (map fst k) kf ops
                Hs Hn) as (c' & E & X & K & Sk);
      try (rewrite ?Etn, ?Edn, ?Ebn, ?Et', ?Ed', ?Eb'; assumption).
    rewrite map_length, entries_size_fst in E. fold used in E.
    rewrite (open_tail_ext dn d' _ Etn Ebn) in E.
    pose proof (open_tail_oplog d' _ c' E) as Eol. cbn [oo_oplog] in Eol.
    exists c', d', dn, fbk.
    split; [rewrite Hco, E; reflexivity|]. split; [exact Ha|]. split; [exact Hfbk|]. split; [exact Hcont'|].
    split; [exact Et'|]. split; [exact Ed'|]. split; [exact Eb'|]. split; [exact X|].
    split.
    { split; [symmetry; exact Etn|]. split; [symmetry; exact Edn|]. split; [symmetry; exact Ebn|].
      rewrite Hcont', Eon, Eol. cbn [ol_bits ol_entries_bytes].
      exists s0, s1, k, fbk, fbn.
      split; [exact L0|]. split; [exact L1|]. split; [reflexivity|]. split; [reflexivity|].
      split; [exact Hfbk|]. split; [exact Hfbn|].
      split; [rewrite Ek; apply js_kept_idem|reflexivity]. }
    split; [exact K|]. split; [exact Sk|]. split; [exact Eol|].
    split; [rewrite Eol; rewrite <- E; apply open_tail_ops|].
    intros Hnf. rewrite (tag_fst_noflags k Hnf), Hfbk in Hfbn. injection Hfbn as <-.
    apply (YInv_content_ext c' d' dn bs cl); try (symmetry; assumption); [|exact X].
    rewrite Hcont', Eon. reflexivity.
  Qed.

  (* (2) core_open on a disk laid out per the JavaScript rules: it succeeds; the new core satisfies JsInv for the
     same (bs, cl) on the disk AFTER open's own operation; its observations are those of the list-with-cleared-set
     model; the tree, data and bitfield stores are untouched; at most one truncate of the oplog store is issued
     (cutting an unfinished batch / foreign bytes, never a byte of a completed batch: JsInv holds afterwards); and a
     SECOND open, with no write in between, issues nothing and returns the same core. *)
  Theorem open_JsDisk kp d bs cl :
    JsDisk kp d bs cl ->
    exists c' d' ops,
      core_open cr None true d = (d', ops, Ok c') /\
      JsInv c' d' bs cl /\ obs_cleared c' d' bs cl /\
      c_keypair c' = kp /\ c_skip c' = 0 /\
      d_tree d' = d_tree d /\ d_data d' = d_data d /\ d_bitfield d' = d_bitfield d /\
      (ops = [] /\ d' = d \/
       exists m, ops = [ST Oplog m] /\ ENTRIES_OFFSET <= m < f_len (d_oplog d) /\ apply_sops d ops = Some d') /\
      core_open cr None true d' = (d', [], Ok c').
  Proof.
    intros (Hs & Hn & Hd & s0 & s1 & body & st0 & st1 & bits & hf & l & rest & kf & Hcont & H0 & H1 & Hc & Hbody &
            Hhf & Hch & Hstore & Hby).
    destruct (open_js_core kp d bs cl s0 s1 body st0 st1 bits hf l rest kf Hs Hn Hd Hcont H0 H1 Hc Hbody Hhf Hch
                Hstore Hby)
      as (c' & d' & dn & fbk & Eo & Ha & Hfbk & Hcont' & Et & Ed & Eb & X & R & K & Sk & Eol & Etail & _).
    pose proof (norm_JsInv c' d' dn bs cl X R) as J.
    exists c', d'. eexists. split; [exact Eo|]. split; [exact J|]. split; [apply JsInv_observations, J|].
    split; [exact K|]. split; [exact Sk|]. split; [exact Et|]. split; [exact Ed|]. split; [exact Eb|].
    split.
    { pose proof (slot_is_length cr s0 st0 H0) as L0. pose proof (slot_is_length cr s1 st1 H1) as L1.
      destruct (N.ltb_spec (ENTRIES_OFFSET + frames_size (js_kept l)) (ENTRIES_OFFSET + len body)) as [Lt|Ge].
      - right. eexists. split; [reflexivity|]. split; [|exact Ha].
        assert (Lf : f_len (d_oplog d) = ENTRIES_OFFSET + len body).
        { rewrite <- (len_two_slots s0 s1 body L0 L1), <- Hcont. unfold len. rewrite length_f_content. lia. }
        rewrite Lf. lia.
      - left. split; [reflexivity|]. cbn [apply_sops] in Ha. injection Ha as <-. reflexivity. }
    (* the second open: the file now ends with the last kept entry *)
    assert (Hopen2 : oplog_open cr None (f_content (d_oplog d')) =
                     Ok (mkOpenOutcome (c_oplog c') hf [] (map fst (js_kept l)))).
    { rewrite Hcont'.
      rewrite <- (app_nil_r fbk).
      rewrite (open_slots cr Hcrc s0 s1 (fbk ++ []) st0 st1 bits hf (js_kept l) [] H0 H1 Hc).
      2:{ exists fbk. split; [exact Hfbk|]. split; [reflexivity|]. split; [apply no_frame_nil|].
          destruct Hbody as (fb & _ & _ & _ & Hok). destruct (js_kept_split l) as (dr & El & _).
          rewrite El, forallb_app in Hok. apply andb_prop in Hok as [A _]. exact A. }
      unfold open_result. fold (js_kept (js_kept l)). rewrite js_kept_idem, Eol.
      rewrite app_nil_r, (frames_len cr _ _ _ Hfbk).
      destruct (N.ltb_spec (ENTRIES_OFFSET + frames_size (js_kept l)) (ENTRIES_OFFSET + frames_size (js_kept l)));
        [lia|reflexivity]. }
    rewrite (core_open_eq cr d' _ d' Hopen2 eq_refl). cbn [oo_ops]. rewrite Etail. reflexivity.
  Qed.

  (* reopening a running JsInv state (e.g. again after the open above and some appends): nothing is repaired,
     JsInv and the observations are re-established *)
  Theorem reopen_JsInv c d bs cl :
    JsInv c d bs cl ->
    exists c', core_open cr None true d = (d, [], Ok c') /\
      JsInv c' d bs cl /\ obs_cleared c' d bs cl /\ c_keypair c' = c_keypair c /\ c_skip c' = 0.
  Proof.
    intros J.
    pose proof J as (((HL & HB & HF & HR & Hlook & Hun & Hs & Hn) & Hbf & Hcg & Hd) &
            s0 & s1 & body & st0 & st1 & hf & lp & kf & Hcont & H0 & H1 & Hc & Hf & Hok & Hk & Hlen & Hbytes & Hhf & Hhc &
            Hch & Hstore & Hby & Hsync).
    assert (Hbody : body_holds cr (current_bit (ol_bits (c_oplog c))) lp [] body).
    { exists body. split; [exact Hf|]. split; [symmetry; apply app_nil_r|]. split; [apply no_frame_nil|exact Hok]. }
    rewrite <- Hk in Hch, Hby.
    destruct (open_js_core (c_keypair c) d bs cl s0 s1 body st0 st1 _ hf lp [] kf Hs Hn Hd Hcont H0 H1 Hc Hbody Hhf
                Hch Hstore Hby)
      as (c' & d' & dn & fbk & Eo & Ha & Hfbk & Hcont' & Et & Ed & Eb & X & R & K & Sk & Eol & Etail & _).
    rewrite Hk, (frames_len cr _ _ _ Hf) in Eo, Ha.
    destruct (N.ltb_spec (ENTRIES_OFFSET + frames_size lp) (ENTRIES_OFFSET + frames_size lp)) as [Lt|_]; [lia|].
    cbn [apply_sops] in Ha. injection Ha as <-.
    pose proof (norm_JsInv c' d dn bs cl X R) as J'.
    exists c'. split; [exact Eo|]. split; [exact J'|]. split; [apply JsInv_observations, J'|]. split; [exact K|exact Sk].
  Qed.
End Js.

Print Assumptions js_kept_split.
Print Assumptions YDisk_JsDisk.
Print Assumptions FInv_JsDisk.
Print Assumptions YInv_JsInv.
Print Assumptions JsInv_JsDisk.
Print Assumptions JsInv_norm.
Print Assumptions norm_JsInv.
Print Assumptions JsInv_observations.
Print Assumptions open_js_core.
Print Assumptions open_JsDisk.
Print Assumptions reopen_JsInv.

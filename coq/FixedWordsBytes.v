(* FixedWordsBytes.v — refinement of the word-level FixedBitfield model, part b:
   to_bytes (4096 bytes, byte k = bits 8k..8k+7 = Bitfield.bits_byte / page_bytes) and from_data
   (inverse of to_bytes for every data_index and data length; short last page: missing words zero).
   Mirrors src/bitfield/fixed.rs to_bytes / from_data. *)
From HC Require Import Base NMap Storage Bitfield BitfieldFacts FixedWords FixedWordsFacts.
From Coq Require Import List NArith ZArith Lia Bool PeanoNat.
From Coq Require Import ZifyN ZifyNat ZifyBool.
Ltac Zify.zify_post_hook ::= Z.div_mod_to_equations.
#[local] Arguments N.add : simpl never.
#[local] Arguments N.sub : simpl never.
#[local] Arguments N.mul : simpl never.
#[local] Arguments N.div : simpl never.
#[local] Arguments N.modulo : simpl never.
#[local] Arguments N.pow : simpl never.
#[local] Arguments N.eqb : simpl never.
#[local] Arguments N.ltb : simpl never.
#[local] Arguments N.leb : simpl never.
#[local] Arguments N.min : simpl never.
#[local] Arguments N.shiftl : simpl never.
#[local] Arguments N.shiftr : simpl never.
#[local] Arguments N.land : simpl never.
#[local] Arguments N.lor : simpl never.
#[local] Arguments N.lxor : simpl never.
#[local] Arguments N.testbit : simpl never.
#[local] Arguments N.to_nat : simpl never.
#[local] Arguments N.of_nat : simpl never.
#[local] Arguments Nat.mul : simpl never.

(* ------------------------------------------------------------------ *)
(** * 1. to_bytes *)

Lemma le_bytes4 a :
  le_bytes 4 a = [a mod 2 ^ 8; (a / 2 ^ 8) mod 2 ^ 8; (a / 2 ^ 16) mod 2 ^ 8; (a / 2 ^ 24) mod 2 ^ 8].
Proof.
  cbn [le_bytes]. change 256 with (2 ^ 8). rewrite !N.div_div by (apply N.pow_nonzero; lia).
  change (2 ^ 8 * 2 ^ 8) with (2 ^ 16). rewrite !N.div_div by (apply N.pow_nonzero; lia).
  change (2 ^ 16 * 2 ^ 8) with (2 ^ 24). reflexivity.
Qed.

Lemma byte_of_word_bit a n t :
  N.testbit ((a / 2 ^ n) mod 2 ^ 8) t = (t <? 8) && N.testbit a (n + t).
Proof.
  destruct (N.ltb_spec t 8) as [Ht|Ht]; cbn [andb].
  - rewrite N.mod_pow2_bits_low by exact Ht. rewrite N.div_pow2_bits. f_equal. lia.
  - apply N.mod_pow2_bits_high. exact Ht.
Qed.

Lemma length_to_bytes ws : length (flat_map (le_bytes 4) ws) = (4 * length ws)%nat.
Proof.
  induction ws as [|a r IH]; [reflexivity|].
  cbn [flat_map]. rewrite app_length, IH. cbn [le_bytes length]. lia.
Qed.

Lemma to_bytes_bit ws : forall q r t, (r < 4)%nat ->
  N.testbit (nth (4 * q + r) (flat_map (le_bytes 4) ws) 0) t =
  (t <? 8) && N.testbit (nth q ws 0) (8 * N.of_nat r + t).
Proof.
  induction ws as [|a ws IH]; intros q r t Hr.
  - cbn [flat_map]. destruct (4 * q + r)%nat, q; cbn [nth]; rewrite !N.bits_0; now rewrite andb_false_r.
  - cbn [flat_map]. rewrite le_bytes4. destruct q as [|q].
    + replace (4 * 0 + r)%nat with r by lia. cbn [nth].
      destruct r as [|[|[|[|r]]]]; [| | | |lia]; cbn [app nth].
      * replace a with (a / 2 ^ 0) at 1 by (change (2 ^ 0) with 1; apply N.div_1_r).
        rewrite byte_of_word_bit. do 2 f_equal.
      * rewrite byte_of_word_bit. do 2 f_equal.
      * rewrite byte_of_word_bit. do 2 f_equal.
      * rewrite byte_of_word_bit. do 2 f_equal.
    + replace (4 * S q + r)%nat with (S (S (S (S (4 * q + r))))) by lia.
      cbn [app nth]. apply IH. exact Hr.
Qed.

(** byte K of to_bytes holds bits 8K .. 8K+7 (for every K: beyond the page everything is 0) *)
Theorem fw_to_bytes_bit p K t :
  N.testbit (nth (N.to_nat K) (fw_to_bytes p) 0) t = (t <? 8) && fw_bits p (8 * K + t).
Proof.
  unfold fw_to_bytes, fw_bits, wbit.
  replace (N.to_nat K) with (4 * N.to_nat (K / 4) + N.to_nat (K mod 4))%nat by lia.
  rewrite to_bytes_bit by lia.
  destruct (N.ltb_spec t 8) as [Ht|Ht]; cbn [andb]; [|reflexivity].
  replace ((8 * K + t) / 32) with (K / 4) by lia.
  f_equal. lia.
Qed.

Theorem fw_to_bytes_length p : page_wf p -> length (fw_to_bytes p) = N.to_nat 4096.
Proof.
  unfold page_wf, len, fw_to_bytes. intros H. rewrite length_to_bytes. lia.
Qed.

Theorem fw_to_bytes_ok p : bytes_ok (fw_to_bytes p) = true.
Proof.
  unfold fw_to_bytes, bytes_ok. apply forallb_forall. intros x Hx.
  apply in_flat_map in Hx. destruct Hx as (w & _ & Hx). rewrite le_bytes4 in Hx.
  unfold byte_ok. change (2 ^ 8) with 256 in Hx.
  cbn [In] in Hx. destruct Hx as [<-|[<-|[<-|[<-|[]]]]]; lia.
Qed.

(** to_bytes is the abstract model's page image of any set agreeing with the page at page index pi *)
Theorem fw_to_bytes_page_bytes p (m : nmap unit) pi :
  page_wf p ->
  (forall k, k < 32768 -> nm_mem (pi * 32768 + k) m = fw_bits p k) ->
  fw_to_bytes p = page_bytes m pi.
Proof.
  intros Hwf Hm.
  apply (nth_ext _ _ 0 0).
  - rewrite fw_to_bytes_length by exact Hwf. rewrite length_page_bytes. reflexivity.
  - intros n Hn. rewrite fw_to_bytes_length in Hn by exact Hwf.
    unfold page_bytes.
    assert (HP : N.to_nat PAGE_BYTES = N.to_nat 4096) by reflexivity.
    rewrite nth_map_nrange by (rewrite HP; exact Hn).
    apply N.bits_inj. intros t.
    replace n with (N.to_nat (N.of_nat n)) at 1 by lia.
    rewrite fw_to_bytes_bit.
    destruct (N.ltb_spec t 8) as [Ht|Ht]; cbn [andb].
    + rewrite testbit_bits_byte by exact Ht. rewrite <- Hm by lia. f_equal. unfold PAGE_BYTES. lia.
    + symmetry. apply testbit_bits_byte_high. exact Ht.
Qed.

(* ------------------------------------------------------------------ *)
(** * 2. from_data *)

Definition le32 (data : bytes) (i : N) : N :=
  N.lor (N.lor (N.lor (byte_at data i) (N.shiftl (byte_at data (i + 1)) 8))
               (N.shiftl (byte_at data (i + 2)) 16))
        (N.shiftl (byte_at data (i + 3)) 24).

Lemma byte_at_lt data i : bytes_ok data = true -> byte_at data i < 256.
Proof.
  intros H. unfold byte_at. unfold bytes_ok in H. rewrite forallb_forall in H.
  destruct (Nat.lt_ge_cases (N.to_nat i) (length data)) as [Hi|Hi].
  - specialize (H _ (nth_In _ 0 Hi)). unfold byte_ok in H. lia.
  - rewrite nth_overflow by exact Hi. lia.
Qed.

Lemma byte_high b t : b < 256 -> 8 <= t -> N.testbit b t = false.
Proof. intros Hb Ht. apply (bits_lt_pow2 b 8); [exact Hb | exact Ht]. Qed.

Lemma le32_bit data i t :
  bytes_ok data = true ->
  N.testbit (le32 data i) t = (t <? 32) && N.testbit (byte_at data (i + t / 8)) (t mod 8).
Proof.
  intros Hok. unfold le32. rewrite !N.lor_spec.
  pose proof (byte_at_lt data i Hok) as H0. pose proof (byte_at_lt data (i + 1) Hok) as H1.
  pose proof (byte_at_lt data (i + 2) Hok) as H2. pose proof (byte_at_lt data (i + 3) Hok) as H3.
  assert (Hs : forall b n, b < 256 ->
            N.testbit (N.shiftl b n) t = (n <=? t) && (t <? n + 8) && N.testbit b (t - n)).
  { intros b n Hb. destruct (N.leb_spec n t) as [Hn|Hn]; cbn [andb].
    - rewrite N.shiftl_spec_high' by exact Hn.
      destruct (N.ltb_spec t (n + 8)) as [Hn2|Hn2]; cbn [andb]; [reflexivity|].
      apply byte_high; [exact Hb | lia].
    - apply N.shiftl_spec_low. exact Hn. }
  rewrite !Hs by assumption.
  destruct (N.lt_ge_cases t 8) as [C0|C0].
  { replace (t / 8) with 0 by lia. replace (t mod 8) with t by lia. replace (i + 0) with i by lia.
    assert (8 <=? t = false) as -> by lia. assert (16 <=? t = false) as -> by lia.
    assert (24 <=? t = false) as -> by lia. assert (t <? 32 = true) as -> by lia.
    cbn [andb]. now rewrite !orb_false_r. }
  rewrite (byte_high _ t H0 C0). cbn [orb].
  destruct (N.lt_ge_cases t 16) as [C1|C1].
  { replace (t / 8) with 1 by lia. replace (t mod 8) with (t - 8) by lia.
    assert (8 <=? t = true) as -> by lia. assert (t <? 8 + 8 = true) as -> by lia.
    assert (16 <=? t = false) as -> by lia.
    assert (24 <=? t = false) as -> by lia. assert (t <? 32 = true) as -> by lia.
    cbn [andb]. now rewrite !orb_false_r. }
  assert (t <? 8 + 8 = false) as -> by lia. rewrite andb_false_r. cbn [andb orb].
  destruct (N.lt_ge_cases t 24) as [C2|C2].
  { replace (t / 8) with 2 by lia. replace (t mod 8) with (t - 16) by lia.
    assert (16 <=? t = true) as -> by lia. assert (t <? 16 + 8 = true) as -> by lia.
    assert (24 <=? t = false) as -> by lia. assert (t <? 32 = true) as -> by lia.
    cbn [andb]. now rewrite !orb_false_r. }
  assert (t <? 16 + 8 = false) as -> by lia. rewrite andb_false_r. cbn [andb orb].
  destruct (N.lt_ge_cases t 32) as [C3|C3].
  { replace (t / 8) with 3 by lia. replace (t mod 8) with (t - 24) by lia.
    assert (24 <=? t = true) as -> by lia. assert (t <? 24 + 8 = true) as -> by lia.
    assert (t <? 32 = true) as -> by lia. reflexivity. }
  assert (t <? 24 + 8 = false) as -> by lia. assert (t <? 32 = false) as -> by lia.
  rewrite andb_false_r. reflexivity.
Qed.

Lemma le32_w32 data i : bytes_ok data = true -> w32 (le32 data i).
Proof.
  intros Hok. apply w32_bits. intros t Ht. rewrite le32_bit by exact Hok.
  assert (t <? 32 = false) as -> by lia. reflexivity.
Qed.

Lemma fw_from_loop_spec data di limit fuel : forall q ws,
  len ws = 1024 -> limit + 4 <= di + 4096 -> q + N.of_nat fuel = 1024 ->
  let ws' := fw_from_loop fuel data di limit (di + 4 * q) ws in
  len ws' = 1024 /\
  forall n, nth (N.to_nat n) ws' 0 =
            if (q <=? n) && (di + 4 * n <=? limit) then le32 data (di + 4 * n) else nth (N.to_nat n) ws 0.
Proof.
  induction fuel as [|f IH]; intros q ws Hlen Hlim Hq; cbv zeta.
  - cbn [fw_from_loop]. split; [exact Hlen|]. intros n.
    assert ((q <=? n) && (di + 4 * n <=? limit) = false) as -> by lia. reflexivity.
  - cbn [fw_from_loop]. destruct (N.leb_spec (di + 4 * q) limit) as [Hc|Hc].
    + fold (le32 data (di + 4 * q)).
      replace ((di + 4 * q - di) / 4) with q by lia.
      replace (di + 4 * q + 4) with (di + 4 * (q + 1)) by lia.
      destruct (IH (q + 1) (list_upd ws (N.to_nat q) (le32 data (di + 4 * q)))) as [L1 L2];
        [unfold len in *; rewrite length_list_upd; exact Hlen | exact Hlim | lia |].
      split; [exact L1|]. intros n. rewrite L2.
      rewrite nth_list_upd by (unfold len in Hlen; lia).
      destruct (N.eq_dec n q) as [->|Hne].
      * rewrite Nat.eqb_refl.
        assert ((q + 1 <=? q) && (di + 4 * q <=? limit) = false) as -> by lia.
        assert ((q <=? q) && (di + 4 * q <=? limit) = true) as -> by lia. reflexivity.
      * assert ((N.to_nat n =? N.to_nat q)%nat = false) as -> by (apply Nat.eqb_neq; lia).
        assert ((q + 1 <=? n) && (di + 4 * n <=? limit) = (q <=? n) && (di + 4 * n <=? limit)) as -> by lia.
        reflexivity.
    + split; [exact Hlen|]. intros n.
      assert ((q <=? n) && (di + 4 * n <=? limit) = false) as -> by lia. reflexivity.
Qed.

Lemma nth_zero_words n : nth n fw_zero_words 0 = 0.
Proof.
  unfold fw_zero_words. generalize fw_fuel_words as k. intros k. revert n.
  induction k as [|k IH]; intros [|n]; cbn [repeat nth]; auto.
Qed.

Lemma len_zero_words : len fw_zero_words = 1024.
Proof. unfold len, fw_zero_words, fw_fuel_words. rewrite repeat_length. lia. Qed.

(** the words built by from_data: word n is the little-endian 32-bit value at data_index + 4n when
    those four bytes exist (and n < 1024), zero otherwise *)
Theorem fw_from_data_words di data n :
  nth (N.to_nat n) (pg_words (fw_from_data di data)) 0 =
  if (n <? 1024) && (di + 4 * n + 4 <=? len data) then le32 data (di + 4 * n) else 0.
Proof.
  unfold fw_from_data. cbn [pg_words]. destruct (N.leb_spec (di + 4) (len data)) as [Hc|Hc].
  - unfold FW_BYTES.
    pose proof (fw_from_loop_spec data di (N.min (di + 4096) (len data) - 4) fw_fuel_words 0 fw_zero_words
                  len_zero_words) as H.
    cbv zeta in H. replace (di + 4 * 0) with di in H by lia.
    destruct H as [_ H]; [lia | unfold fw_fuel_words; lia |].
    rewrite H, nth_zero_words.
    assert ((0 <=? n) && (di + 4 * n <=? N.min (di + 4096) (len data) - 4) =
            (n <? 1024) && (di + 4 * n + 4 <=? len data)) as -> by lia.
    reflexivity.
  - rewrite nth_zero_words.
    assert ((n <? 1024) && (di + 4 * n + 4 <=? len data) = false) as -> by lia. reflexivity.
Qed.

Theorem fw_from_data_wf di data : page_wf (fw_from_data di data) /\ pg_dirty (fw_from_data di data) = false.
Proof.
  split; [|reflexivity].
  unfold page_wf, fw_from_data. cbn [pg_words]. destruct (di + 4 <=? len data) eqn:E; [|apply len_zero_words].
  unfold FW_BYTES.
  pose proof (fw_from_loop_spec data di (N.min (di + 4096) (len data) - 4) fw_fuel_words 0 fw_zero_words
                len_zero_words) as H.
  cbv zeta in H. replace (di + 4 * 0) with di in H by lia.
  destruct H as [H _]; [lia | unfold fw_fuel_words; lia |]. exact H.
Qed.

Lemma Forall_nth_all (P : N -> Prop) (l : list N) :
  (forall n, P (nth n l 0)) -> Forall P l.
Proof.
  intros H. apply Forall_forall. intros x Hx. destruct (In_nth _ _ 0 Hx) as (n & _ & <-). apply H.
Qed.

Theorem fw_from_data_ok di data : bytes_ok data = true -> page_ok (fw_from_data di data).
Proof.
  intros Hok. split; [apply fw_from_data_wf|].
  apply Forall_nth_all. intros n. replace n with (N.to_nat (N.of_nat n)) by lia.
  rewrite fw_from_data_words. destruct ((N.of_nat n <? 1024) && _); [apply le32_w32; exact Hok | unfold w32; lia].
Qed.

(** bit k of from_data(data_index, data): bit (k mod 8) of byte data_index + k/8, provided the whole
    4-byte word containing it is inside the data (a trailing 1..3 bytes are dropped) *)
Theorem fw_from_data_bits di data k :
  bytes_ok data = true ->
  fw_bits (fw_from_data di data) k =
  (k <? 32768) && (di + 4 * (k / 32) + 4 <=? len data) &&
  N.testbit (byte_at data (di + k / 8)) (k mod 8).
Proof.
  intros Hok. unfold fw_bits, wbit. rewrite fw_from_data_words.
  assert (k / 32 <? 1024 = (k <? 32768)) as -> by lia.
  destruct ((k <? 32768) && (di + 4 * (k / 32) + 4 <=? len data)); cbn [andb]; [|apply N.bits_0].
  rewrite le32_bit by exact Hok.
  assert (k mod 32 <? 32 = true) as -> by lia. cbn [andb].
  f_equal; [f_equal|]; lia.
Qed.

(** from_data inverts to_bytes *)
Theorem fw_from_to_bytes p k :
  page_wf p -> fw_bits (fw_from_data 0 (fw_to_bytes p)) k = fw_bits p k.
Proof.
  intros Hwf. rewrite fw_from_data_bits by apply fw_to_bytes_ok.
  unfold byte_at. replace (0 + k / 8) with (k / 8) by lia. rewrite fw_to_bytes_bit.
  unfold len. rewrite fw_to_bytes_length by exact Hwf.
  replace (8 * (k / 8) + k mod 8) with k by lia.
  destruct (N.ltb_spec k 32768) as [Hk|Hk].
  - assert (0 + 4 * (k / 32) + 4 <=? N.of_nat (N.to_nat 4096) = true) as -> by lia.
    assert (k mod 8 <? 8 = true) as -> by lia. reflexivity.
  - cbn [andb]. symmetry. apply wbit_high. unfold page_wf in Hwf. rewrite Hwf. lia.
Qed.

(** from_data at a page boundary is page pi of the abstract loader (Bitfield.load_bits) of the whole data,
    for every page index and every data length that is a multiple of 4 (what open reads) *)
Theorem fw_from_data_load_bits pi data k :
  bytes_ok data = true -> len data mod 4 = 0 ->
  fw_bits (fw_from_data (pi * 4096) data) k =
  (k <? 32768) && nm_mem (pi * 32768 + k) (load_bits nm_empty 0 data).
Proof.
  intros Hok Hmod. rewrite fw_from_data_bits by exact Hok.
  rewrite load_bits_spec_gen, nm_mem_empty. cbn [orb]. unfold byte_at.
  destruct (N.ltb_spec k 32768) as [Hk|Hk]; cbn [andb]; [|reflexivity].
  assert (8 * 0 <=? pi * 32768 + k = true) as -> by lia. cbn [andb].
  replace ((pi * 32768 + k) / 8 - 0) with (pi * 4096 + k / 8) by lia.
  replace ((pi * 32768 + k) mod 8) with (k mod 8) by lia.
  f_equal. lia.
Qed.

Print Assumptions fw_to_bytes_bit.
Print Assumptions fw_to_bytes_length.
Print Assumptions fw_to_bytes_ok.
Print Assumptions fw_to_bytes_page_bytes.
Print Assumptions fw_from_data_words.
Print Assumptions fw_from_data_ok.
Print Assumptions fw_from_data_bits.
Print Assumptions fw_from_to_bytes.
Print Assumptions fw_from_data_load_bits.

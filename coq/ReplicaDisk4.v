(* ReplicaDisk4.v -- replicas end to end, part 4: CRASH CUTS of proof application (goal 5).
   The journal of an accepted core_apply_proof is [optional data write; entry write; optional flush group
   (bitfield pages, tree nodes, header slot, truncate)].  Every prefix of it leaves a disk satisfying RDisk for
   the state before (held set H, length r) or after (H + block, length after the upgrade); the commit point is
   the entry write.  A data write without its entry leaves bytes of a block that is not held: harmless.  With
   ReplicaDisk2.reopen_RDisk every cut reopens to a state with the observations of before or after. *)
From HC Require Import Base NMap Codec CodecFacts Crypto FlatTree Storage Bitfield Oplog Merkle Core.
From HC Require Import FlatTreeFacts StorageFacts BitfieldFacts OplogFacts TreeRef OffsetFacts CoreFacts Crash Refine.
From HC Require Import ClearRefine Reopen ContigBridge Unified1 Unified2 CrashCore1 CrashCore2 CrashClear1.
From HC Require Import Sound NoPanic Replicate SoundCoreLib SoundCore SoundCoreUp SoundCoreBU.
From HC Require Import ReplicaDisk1 ReplicaDisk2 ReplicaDisk3.
From Coq Require Import FMapPositive ZifyN ZifyNat ZifyBool.
Ltac Zify.zify_post_hook ::= Z.div_mod_to_equations.
Arguments N.add : simpl never.
Arguments N.sub : simpl never.
Arguments N.mul : simpl never.
Arguments N.div : simpl never.
Arguments N.modulo : simpl never.
Arguments N.pow : simpl never.
Arguments N.eqb : simpl never.
Arguments N.ltb : simpl never.
Arguments N.leb : simpl never.
Arguments N.max : simpl never.
Arguments N.min : simpl never.
Arguments N.of_nat : simpl never.
Arguments N.to_nat : simpl never.

(* ====================================================================================== *)
(* A. The tree store of a replica under a partial flush of its unflushed nodes              *)
(* ====================================================================================== *)

Section PartialNodes.
  Variable cr : crypto.
  Hypothesis Hhash32 : forall x, length (cr_hash cr x) = 32%nat.
  Hypothesis Hnonblank : forall x, all_zero (cr_hash cr x) = false.
  Variable bs : list bytes.
  Hypothesis Hfit : sumN (map len bs) <= u64_max.

  (* nodes that are the writer's nodes inside the tree over r blocks *)
  Definition auth_list (r : N) (ws : list node) : Prop := forall v, In v ws -> authentic cr bs r v.

  Lemma auth_list_32 r ws : auth_list r ws -> forall v, In v ws -> length (n_hash v) = 32%nat.
  Proof. intros H v Hv. destruct (H v Hv) as [-> _]. apply (T_hash32 cr Hhash32 bs). Qed.

  Lemma auth_roundtrip r v : authentic cr bs r v -> node_from_bytes (n_index v) (node_to_bytes v) = v.
  Proof.
    intros [E _]. apply node_bytes_roundtrip.
    - rewrite E, (T_hash32 cr Hhash32 bs). reflexivity.
    - rewrite E. pose proof (T_fits cr bs (n_index v) Hfit) as F. unfold u64_max in F.
      change (2 ^ 64) with 18446744073709551616. lia.
  Qed.

  (* the store stays sound *)
  Lemma file_sound_write_nodes tf r ws :
    file_sound cr bs tf r -> auth_list r ws -> file_sound cr bs (write_nodes tf ws) r.
  Proof.
    intros [Hal Hfs] Hws. pose proof (auth_list_32 r ws Hws) as H32.
    destruct (write_nodes_len ws tf Hal H32) as [Hal' Hge].
    split; [exact Hal'|].
    intros k data R B.
    destruct (write_nodes_read ws tf k H32) as [(v & Hin & Hk & Hr)|[Hno Hr]].
    - rewrite Hr in R. injection R as <-. rewrite <- Hk.
      rewrite (auth_roundtrip r v (Hws v Hin)). destruct (Hws v Hin) as [E1 E2]. split; [exact E1|exact E2].
    - destruct (N.le_gt_cases (NODE_SIZE * k + NODE_SIZE) (f_len tf)) as [L|L].
      + rewrite (Hr L) in R. apply (Hfs k data R B).
      + exfalso.
        assert (Hk : f_len tf <= NODE_SIZE * k) by (unfold NODE_SIZE in *; lia).
        pose proof R as R'. apply f_read_spec in R'. destruct R' as (Rb & Rl & Rn).
        assert (Z : forall j, nth j data 0 = 0).
        { intros j. destruct (Nat.lt_ge_cases j (length data)) as [Lj|Lj]; [|apply nth_overflow; lia].
          replace j with (N.to_nat (N.of_nat j)) by lia.
          rewrite (Rn (N.of_nat j)) by (unfold NODE_SIZE in *; lia).
          apply (write_nodes_gap cr bs ws tf k); try assumption.
          - intros i A1 A2 A3. lia.
          - lia.
          - unfold NODE_SIZE in *. lia.
          - unfold NODE_SIZE in *. lia. }
        rewrite (node_from_zero_blank k data Z) in B. discriminate B.
  Qed.

  (* a lookup that gave the writer's node keeps giving it *)
  Lemma lookup_write_nodes t tf r ws j x :
    auth_list r ws -> required_node t tf j = Ok x -> x = ref_at cr bs j ->
    required_node t (write_nodes tf ws) j = Ok x.
  Proof.
    intros Hws H Ex. pose proof (auth_list_32 r ws Hws) as H32.
    unfold required_node, node_get in H |- *.
    destruct (nm_get j (t_unflushed t)) as [n0|]; [exact H|].
    unfold mul64 in H |- *. destruct (fits_u64 (NODE_SIZE * j)); [|discriminate H]. cbn [bind] in H |- *.
    destruct (f_read tf (NODE_SIZE * j) NODE_SIZE) as [data|] eqn:R; [|discriminate H].
    destruct (write_nodes_read ws tf j H32) as [(v & Hin & Hk & Hr)|[_ Hr]].
    - rewrite Hr. rewrite <- Hk. rewrite (auth_roundtrip r v (Hws v Hin)).
      destruct (Hws v Hin) as [Ev _]. rewrite Ev, Hk, (T_nonblank cr Hnonblank bs j). cbn [bind].
      destruct (node_blank (node_from_bytes j data)); [discriminate H|]. cbn [bind] in H.
      injection H as <-. rewrite Ex. reflexivity.
    - rewrite Hr, R; [exact H|]. apply f_read_spec in R. tauto.
  Qed.

  (* the records the header on disk needs stay readable *)
  Lemma store_roots_write_nodes tf kf r ws :
    auth_list r ws -> store_roots cr bs tf kf -> store_roots cr bs (write_nodes tf ws) kf.
  Proof.
    intros Hws Hst x Hx. pose proof (auth_list_32 r ws Hws) as H32.
    destruct (Hst x Hx) as (data & R & Rn).
    destruct (write_nodes_read ws tf (n_index x) H32) as [(v & Hin & Hk & Hr)|[_ Hr]].
    - exists (node_to_bytes v). split; [exact Hr|]. rewrite <- Hk. rewrite (auth_roundtrip r v (Hws v Hin)).
      destruct (Hws v Hin) as [Ev _]. rewrite Ev, Hk. symmetry. apply (in_ref_roots cr bs x kf Hx).
    - exists data. split; [|exact Rn]. rewrite Hr; [exact R|]. apply f_read_spec in R. tauto.
  Qed.

  (* RTree *)
  Lemma RTree_write_nodes t tf df H ws :
    auth_list (t_length t) ws -> RTree cr bs t tf df H -> RTree cr bs t (write_nodes tf ws) df H.
  Proof.
    intros Hws (H1 & H2 & H3 & H4 & H5 & H6 & H7 & H8).
    split; [exact H1|]. split; [exact H2|]. split; [exact H3|]. split; [exact H4|]. split; [exact H5|].
    split; [apply file_sound_write_nodes; assumption|].
    split.
    { intros x Hx. apply (lookup_write_nodes t tf (t_length t) ws _ x Hws (H7 x Hx)).
      rewrite H3 in Hx. apply (in_ref_roots cr bs x _ Hx). }
    intros i Hi. destruct (H8 i Hi) as (A1 & A2 & A3 & A4).
    split; [exact A1|]. split; [|split; [|exact A4]].
    - apply (lookup_write_nodes t tf (t_length t) ws _ _ Hws A2).
      replace (2 * i) with (ft_index (N.of_nat 0) i) by (change (N.of_nat 0) with 0; apply ft_index_leaf).
      symmetry. apply ref_at_index.
    - intros dd o C1 C2 C3. apply (lookup_write_nodes t tf (t_length t) ws _ _ Hws (A3 dd o C1 C2 C3)).
      symmetry. apply ref_at_index.
  Qed.

  (* the entry chain *)
  Lemma rchain_write_nodes pk tf r ws l U a b :
    auth_list r ws -> rchain cr bs pk tf U a l b -> rchain cr bs pk (write_nodes tf ws) U a l b.
  Proof.
    intros Hws. apply rchain_store. intros V j x Hreq Ex.
    apply (lookup_write_nodes (tU V) tf r ws j x Hws Hreq Ex).
  Qed.
End PartialNodes.

(* ====================================================================================== *)
(* B. The flush decision from an RDInv state: result, journal and cuts                      *)
(* ====================================================================================== *)

Section FlushCuts.
  Variable cr : crypto.
  Hypothesis Hcrc : crc_ok cr.
  Hypothesis Hhash32 : forall x, length (cr_hash cr x) = 32%nat.
  Hypothesis Hnonblank : forall x, all_zero (cr_hash cr x) = false.
  Hypothesis Hhashbytes : forall x, bytes_ok (cr_hash cr x) = true.
  Variable bs : list bytes.
  Hypothesis Hw : writer_fits bs.

  Lemma maybe_flush_R f c d j ev H :
    RDInv cr bs c d H ->
    exists c' d' fl,
      maybe_flush cr f c (mkWorld d j ev) = (c', mkWorld d' (rev fl ++ j) ev, Ok tt) /\
      apply_sops d fl = Some d' /\ RDInv cr bs c' d' H /\
      t_length (c_tree c') = t_length (c_tree c) /\ c_keypair c' = c_keypair c /\
      cuts_ok d fl (fun dk => RDisk cr bs (kp_public (c_keypair c)) dk H (t_length (c_tree c))).
  Proof.
    intros X.
    destruct (maybe_flush cr f c (mkWorld d j ev)) as [[c' w'] res] eqn:Hmf.
    pose proof (RDInv_RDisk cr bs c d H X) as XD.
    destruct (RDInv_header cr Hhash32 Hnonblank Hhashbytes bs Hw c d H X) as (Hrep & Hfits).
    pose proof (RDInv_RInv cr bs c d H X) as W.
    pose proof X as (_ & Hb & Hex & Hk & Hs & s0 & s1 & body & st0 & st1 & hf & l & kf &
                     Hcont & G & Hlen & Hbytes & Hhf & Hh & Hch & Hu & Hst & Hbf & Hsync).
    set (pk := kp_public (c_keypair c)) in *. set (r := t_length (c_tree c)) in *.
    destruct Hw as [Hw1 Hw2].
    pose proof Hmf as Hmf0.
    unfold maybe_flush in Hmf. rewrite mbind_get_core in Hmf.
    match type of Hmf with (if ?b then _ else _) _ _ = _ => destruct b end.
    2:{ unfold put_skip in Hmf. injection Hmf as <- <- <-.
        exists (mkCore (c_keypair c) (c_oplog c) (c_tree c) (c_bitfield c) (c_header c) (c_skip c - 1)), d, [].
        split; [reflexivity|]. split; [reflexivity|]. split; [exact X|]. split; [reflexivity|]. split; [reflexivity|].
        apply cuts_nil. exact XD. }
    rewrite mbind_put_skip in Hmf.
    set (c1 := mkCore (c_keypair c) (c_oplog c) (c_tree c) (c_bitfield c) (c_header c) 3) in *.
    assert (Hun : unflushed_ok (c_tree c1)).
    { apply (unfl_sound_ok cr Hhash32 bs (c_tree c) r Hw1). apply W. }
    destruct (flush_all_run cr Hhash32 Hnonblank c1 (mkWorld d j ev) Hun Hfits) as (o' & oops & d3 & OF & A & E).
    cbn [w_disk w_journal w_events c1 c_oplog c_keypair c_header c_bitfield c_tree c_skip] in OF, A, E.
    cbv zeta in A, E. rewrite E in Hmf. injection Hmf as <- <- <-.
    (* the final state *)
    destruct (RDInv_maybe_flush cr Hcrc Hhash32 Hnonblank Hhashbytes bs (conj Hw1 Hw2) f c d j ev H _ _ tt X Hmf0)
      as (Xfin & Elf & Ekf & _).
    cbn [w_disk] in Xfin.
    set (b := c_bitfield c) in *. set (t := c_tree c) in *. set (ws := unflushed_nodes t) in *.
    set (fl := page_ops b (bf_dirty b) ++ map node_write ws ++ oops) in *.
    exists (mkCore (c_keypair c) o' (mkTree (t_roots t) (t_length t) (t_byte_length t) (t_fork t) (t_signature t) nm_empty)
                   (mkBf (bf_bits b) []) (c_header c) 3), d3, fl.
    split; [reflexivity|]. split; [exact A|]. split; [exact Xfin|]. split; [reflexivity|]. split; [reflexivity|].
    (* the oplog step *)
    destruct Hrep as (Hok & Hkp & Hd).
    pose proof G as (H0 & H1 & Hchs & Hf & Hoks).
    unfold oplog_flush in OF. apply bind_ok in OF as ([bits1 ops1] & Hins & OF). injection OF as <- <-.
    destruct (header_write_step cr s0 s1 st0 st1 _ hf (c_header c) 0 false bits1 ops1 H0 H1 Hchs Hok Hfits Hins)
      as (fr & pad & Hfr & Hl & _ & -> & -> & Hwr & st0' & st1' & S0 & S1 & Hch' & Hcb).
    set (bits := ol_bits (c_oplog c)) in *.
    set (s0' := put0 (w_slot bits) (fr ++ pad) s0) in *. set (s1' := put1 (w_slot bits) (fr ++ pad) s1) in *.
    (* the disks *)
    set (fb := write_pages (d_bitfield d) (bf_bits b) (bf_dirty b)).
    set (ft := write_nodes (d_tree d) ws).
    set (fo1 := f_write (d_oplog d) (w_slot bits) (fr ++ pad)).
    set (fo2 := f_truncate fo1 (ENTRIES_OFFSET + 0)).
    assert (Ed3 : d3 = mkDisk ft (d_data d) fb fo2).
    { unfold fl, page_ops in A.
      rewrite CoreFacts.apply_sops_app, apply_page_writes, CoreFacts.apply_sops_app, apply_node_writes in A.
      cbn [apply_sops apply_sop d_get d_set d_tree d_oplog] in A. injection A as <-. reflexivity. }
    (* the unflushed nodes are the writer's *)
    assert (Hws : auth_list cr bs r ws).
    { intros v Hv. pose proof (unflushed_nodes_get t v Hun Hv) as Gv.
      destruct W as (_ & _ & _ & _ & W5 & _). destruct (W5 _ _ Gv) as [E1 E2]. split; assumption. }
    (* disks that still carry the old oplog and data *)
    destruct XD as (t0 & t1 & tbody & tst0 & tst1 & tbits & thf & tl & tkf & Tcont & TO & Thf & Tch & Tst & TT & Tbf).
    assert (Old : forall dk ws' ps, (forall v, In v ws' -> In v ws) ->
                  d_tree dk = write_nodes (d_tree d) ws' -> d_data dk = d_data d -> d_oplog dk = d_oplog d ->
                  d_bitfield dk = write_pages (d_bitfield d) (bf_bits b) ps ->
                  RDisk cr bs pk dk H r).
    { intros dk ws' ps Hsub Et Edd Eo Ebb.
      assert (Hws' : auth_list cr bs r ws') by (intros v Hv; apply Hws, Hsub, Hv).
      exists t0, t1, tbody, tst0, tst1, tbits, thf, tl, tkf. rewrite Et, Edd, Eo, Ebb.
      split; [exact Tcont|]. split; [exact TO|]. split; [exact Thf|].
      split; [apply (rchain_write_nodes cr Hhash32 Hnonblank bs Hw1 pk _ r); assumption|].
      split; [apply (store_roots_write_nodes cr Hhash32 bs Hw1 _ _ r); assumption|].
      split; [apply (RTree_write_nodes cr Hhash32 Hnonblank bs Hw1); assumption|].
      apply BfH_write_pages; [exact Tbf|exact Hb]. }
    (* the stores once everything but the header is flushed *)
    pose proof (RDInv_RInv cr bs _ _ H Xfin) as Wfin. rewrite Ed3 in Wfin.
    assert (Fst : store_roots cr bs ft r).
    { destruct Wfin as (_ & _ & V3 & _ & _ & _ & V7 & _). cbn [c_tree t_roots t_length d_tree] in V3, V7.
      intros x Hx. fold r in V3. rewrite <- V3 in Hx. specialize (V7 x Hx).
      apply required_node_store_inv in V7; [exact V7|reflexivity]. }
    assert (FT : RTree cr bs (rtree cr bs r None []) ft (d_data d) H).
    { apply RInv_RTree in Wfin. cbn [c_tree c_bitfield d_tree d_data] in Wfin.
      refine (RTree_ext cr bs _ _ _ _ _ H _ _ _ _ _ _ Wfin); cbn [rtree t_roots t_length t_byte_length t_fork t_unflushed];
        try reflexivity.
      - destruct W as (_ & _ & W3 & _). symmetry. exact W3.
      - destruct W as (_ & _ & _ & W4 & _). symmetry. exact W4.
      - destruct W as (_ & W2 & _). symmetry. exact W2.
      - intros i. unfold bf_get. cbn [bf_bits]. symmetry. apply Hb. }
    assert (Fb : BfH fb [] (hd_contig (c_header c)) H).
    { apply BfH_exact; [apply len_write_pages, Hbf| |exact Hex].
      intros i. unfold fb. rewrite (BfSync_flush _ _ Hsync). apply Hb. }
    (* the disk after the slot write: new header, the entries of the previous epoch still there *)
    assert (Mid : RDisk cr bs pk (mkDisk ft (d_data d) fb fo1) H r).
    { exists s0', s1', body, st0', st1', (w_bits bits), (c_header c), [], r.
      cbn [d_data d_oplog d_tree d_bitfield flat_map updates_of].
      split; [unfold fo1; rewrite f_content_write, Hcont; apply Hwr|].
      split. { right. split; [reflexivity|]. split; [exact S0|]. split; [exact S1|]. split; [exact Hch'|].
               exists (current_bit bits), l. split; [exact Hcb|exact Hf]. }
      split; [split; [exact Hok|split; [exact Hkp|exact Hd]]|]. split; [reflexivity|].
      split; [exact Fst|]. split; [exact FT|exact Fb]. }
    (* the cuts *)
    unfold fl.
    apply (cuts_app d _ _ _ (d_set d Bitfield fb)).
    { intros k. unfold page_ops. rewrite firstn_map, apply_page_writes. eexists. split; [reflexivity|].
      apply (Old _ [] (firstn k (bf_dirty b))); try (destruct d as [f1 f2 f3 f4]; reflexivity). intros v []. }
    { unfold page_ops. apply apply_page_writes. }
    apply (cuts_app _ _ _ _ (d_set (d_set d Bitfield fb) Tree ft)).
    { intros k. rewrite firstn_map, apply_node_writes. eexists. split; [reflexivity|].
      apply (Old _ (firstn k ws) (bf_dirty b)); try (destruct d as [f1 f2 f3 f4]; reflexivity).
      intros v Hv. eapply in_firstn. exact Hv. }
    { apply apply_node_writes. }
    intros k. destruct k as [|[|k]].
    - eexists. split; [reflexivity|].
      apply (Old _ ws (bf_dirty b)); try (destruct d as [f1 f2 f3 f4]; reflexivity). intros v Hv. exact Hv.
    - eexists. split; [reflexivity|]. destruct d as [f1 f2 f3 f4]. exact Mid.
    - cbn [firstn]. rewrite firstn_nil. eexists. split; [reflexivity|].
      pose proof (RDInv_RDisk cr bs _ _ H Xfin) as XDf. cbn [c_keypair c_tree t_length] in XDf.
      rewrite Ed3 in XDf. destruct d as [f1 f2 f3 f4]. exact XDf.
  Qed.
End FlushCuts.

(* ====================================================================================== *)
(* C. GOAL 5: the journal of an accepted proof application, cut anywhere                    *)
(* ====================================================================================== *)

(* the number of storage operations before the commit point (the entry write) *)
Definition commit_point (pf : proof) : nat := match p_block pf with Some _ => 1%nat | None => 0%nat end.

Section ApplyCuts.
  Variable cr : crypto.
  Hypothesis Hcrc : crc_ok cr.
  Hypothesis Hhash32 : forall x, length (cr_hash cr x) = 32%nat.
  Hypothesis Hnonblank : forall x, all_zero (cr_hash cr x) = false.
  Hypothesis Hhashbytes : forall x, bytes_ok (cr_hash cr x) = true.
  Variable bs : list bytes.
  Hypothesis Hw : writer_fits bs.

  Lemma RDisk_ext pk d H H' r : (forall i, H' i = H i) -> RDisk cr bs pk d H r -> RDisk cr bs pk d H' r.
  Proof.
    intros E (s0 & s1 & body & st0 & st1 & bits & hf & l & kf & Hcont & HO & Hhf & Hch & Hst & HT & Hbf).
    exists s0, s1, body, st0, st1, bits, hf, l, kf. repeat (split; [assumption|]).
    split; [apply (RTree_ext cr bs (rtree cr bs r None (flat_map e_nodes l)) _ _ _ H H'); try reflexivity; assumption|].
    apply (BfH_ext _ _ _ H); assumption.
  Qed.

  (* only the data store differs, and every held block is still readable *)
  Lemma RDisk_data pk d d1 H r :
    RDisk cr bs pk d H r ->
    d_tree d1 = d_tree d -> d_oplog d1 = d_oplog d -> d_bitfield d1 = d_bitfield d ->
    (forall i, H i = true -> len (blk bs i) <> 0 ->
               f_read (d_data d1) (prefix_size bs i) (len (blk bs i)) = Some (blk bs i)) ->
    RDisk cr bs pk d1 H r.
  Proof.
    intros (s0 & s1 & body & st0 & st1 & bits & hf & l & kf & Hcont & HO & Hhf & Hch & Hst & HT & Hbf) Et Eo Eb Hd.
    exists s0, s1, body, st0, st1, bits, hf, l, kf. rewrite Et, Eo, Eb.
    repeat (split; [assumption|]). split; [|exact Hbf].
    destruct HT as (H1 & H2 & H3 & H4 & H5 & H6 & H7 & H8).
    repeat (split; [assumption|]).
    intros i Hi. destruct (H8 i Hi) as (A1 & A2 & A3 & _).
    split; [exact A1|]. split; [exact A2|]. split; [exact A3|]. apply Hd, Hi.
  Qed.

  Lemma block_part_run pf c0 d0 cs c w c1 w1 bu :
    block_part pf c0 d0 cs c w = (c1, w1, Ok bu) ->
    match p_block pf with
    | Some b => exists off,
        w1 = mkWorld (d_set (w_disk w) Data (f_write (d_data (w_disk w)) off (db_value b)))
                     (SW Data off (db_value b) :: w_journal w) (w_events w)
    | None => w1 = w
    end.
  Proof.
    unfold block_part. destruct (p_block pf) as [b|].
    - rewrite mbind_lift.
      destruct (byte_offset_in_changeset (c_tree c0) (d_tree d0) (db_index b) cs) as [off| | |]; try discriminate.
      rewrite mbind_emit_SW. unfold ret. intros E. injection E as _ <- _. exists off. reflexivity.
    - unfold ret. intros E. injection E as _ <- _. reflexivity.
  Qed.

  Lemma apply_tail_inv_j f pf c0 d0 cs c w c' w' b :
    apply_tail cr f pf c0 d0 cs c w = (c', w', Ok b) ->
    exists bu c1 w1 c2 w2 w3,
      block_part pf c0 d0 cs c w = (c1, w1, Ok bu) /\
      log_and_commit cr cs bu c1 w1 = (c2, w2, Ok tt) /\
      maybe_flush cr f c2 w2 = (c', w3, Ok tt) /\ w_disk w' = w_disk w3 /\ w_journal w' = w_journal w3.
  Proof.
    unfold apply_tail. fold (block_part pf c0 d0 cs). intros H.
    mstep_ok H H1 c1 w1 bu. mstep_ok H H2 c2 w2 u2. mstep_ok H H3 c3 w3 u3.
    mstep_ok H H4 c4 w4 u4. mstep_ok H H5 c5 w5 u5.
    inversion H; subst.
    apply (send_opt_inv (p_upgrade pf) (fun _ => EvUpgrade)) in H4. destruct H4 as (-> & D4 & J4 & _).
    apply (send_opt_inv bu (fun u => EvHave (bu_start u) (bu_length u) false)) in H5.
    destruct H5 as (-> & D5 & J5 & _).
    destruct u2, u3.
    exists bu, c1, w1, c2, w2, w3. repeat split; try assumption; congruence.
  Qed.

  Theorem apply_crash_cuts f pf c d j ev H c' w' :
    RDInv cr bs c d H -> rd_proof_ok pf ->
    core_apply_proof cr f pf c (mkWorld d j ev) = (c', w', Ok true) ->
    (let pk := kp_public (c_keypair c) in
     let H' := hold H (p_block pf) in
     exists pre off fr fl,
       (* the journal: optional data write, entry write, flush group *)
       w_journal w' = rev (pre ++ SW Oplog off fr :: fl) ++ j /\
       length pre = commit_point pf /\ (forall o, In o pre -> sop_store o = Data) /\
       apply_sops d (pre ++ SW Oplog off fr :: fl) = Some (w_disk w') /\
       RDInv cr bs c' (w_disk w') H' /\
       (* every cut: before the entry write the old state, from the entry write on the new state *)
       forall k, exists dk,
         apply_sops d (firstn k (pre ++ SW Oplog off fr :: fl)) = Some dk /\
         if (k <=? commit_point pf)%nat then RDisk cr bs pk dk H (t_length (c_tree c))
         else RDisk cr bs pk dk H' (t_length (c_tree c'))) \/
    some_collision cr \/ forged_signature cr bs (kp_public (c_keypair c)).
  Proof.
    intros X [Hok Hsb] Happ.
    pose proof (RDInv_RInv cr bs c d H X) as W.
    pose proof (RDInv_RDisk cr bs c d H X) as XD.
    destruct (accepted_gates cr _ _ _ _ _ _ Happ) as (cs & Ef & V & Cm & Ht).
    apply apply_tail_inv_j in Ht. destruct Ht as (bu & c1 & w1 & c2 & w2 & w3 & Hbu & Hlc & Hmf & Hd3 & Hj3).
    cbn [w_disk] in Hbu.
    pose proof V as V0. unfold verifier_says in V0. cbn [w_disk] in V0.
    destruct (accepted_changeset_nodes cr Hhash32 Hnonblank bs Hw c d pf cs W Hok V0)
      as [(Hrm & Hmn & Hauth & Hanc)|[C|F]]; [|right; left; exact C|right; right; exact F].
    destruct (apply_without_flush cr pf c _ cs bu c1 w1 c2 w2 Ef V Cm Hbu Hlc) as (w2' & Hrun & Ed2).
    destruct (apply_keeps_replica_consistent_block_upgrade cr Hhash32 Hnonblank bs Hw (Some false) pf c d j ev _ w2'
                W Hok Hrun) as [W2|[C|F]]; [|right; left; exact C|right; right; exact F].
    rewrite Ed2 in W2.
    assert (W2' : SoundCore.RInv cr bs c2 (w_disk w2))
      by (apply (RInv_ext cr bs _ c2 _ (w_disk w2)) in W2; try reflexivity; exact W2).
    pose proof (block_part_run pf c d cs c _ c1 w1 bu Hbu) as Hw1run.
    destruct (block_part_inv pf c _ cs c _ c1 w1 bu Hbu) as (-> & Et1 & Eo1 & Eb1 & Ebu & _).
    cbn [w_disk] in Et1, Eo1, Eb1.
    assert (Hsig : cs_upgraded cs = true ->
                   exists sg, cs_signature cs = Some sg /\ length sg = 64%nat /\ bytes_ok sg = true /\
                     cs_hash cs = Some (tree_hash cr (cs_roots cs)) /\
                     cr_verify cr (kp_public (c_keypair c))
                       (signable (tree_hash cr (cs_roots cs)) (cs_length cs) (cs_fork cs)) sg = true).
    { intros Up. destruct Hok as (Hh & Hs & _).
      destruct (p_upgrade pf) as [u|] eqn:Eu.
      - destruct (verify_proof_upgrade_sig cr _ _ pf _ cs u Eu V0) as (L & S & Hh' & Hv & _).
        exists (du_signature u). repeat split; assumption.
      - rewrite (verify_proof_no_upgrade cr _ _ pf _ cs Eu Hh Hs V0) in Up. discriminate Up. }
    assert (Hbus : match bu with Some u => bu_drop u = false /\ bu_length u = 1 | None => True end).
    { rewrite Ebu. destruct (p_block pf); [split; reflexivity|exact I]. }
    destruct w1 as [d1 j1 ev1]. cbn [w_disk] in Et1, Eo1, Eb1.
    destruct (RDInv_commit cr Hcrc Hhash32 Hnonblank Hhashbytes bs Hw c d d1 H cs bu j1 ev1 c2 w2 tt
                X Et1 Eo1 Eb1 Hlc W2' Hrm Hmn Hauth Hanc Hsig Hbus) as (X2 & Em & Ek2 & Et2 & Eb2 & Ed2').
    destruct (log_and_commit_full cr cs bu c _ c2 w2 tt Hlc) as (e & h1 & o' & fr & t' & _ & _ & _ & _ & Ew2).
    cbn [w_disk w_journal w_events] in Ew2.
    set (off := ENTRIES_OFFSET + ol_entries_bytes (c_oplog c)) in *.
    destruct w2 as [d2 j2 ev2]. injection Ew2 as Ed2e Ej2 Eev2. cbn [w_disk] in X2, Et2, Eb2, Ed2', W2'.
    destruct (maybe_flush_R cr Hcrc Hhash32 Hnonblank Hhashbytes bs Hw f c2 d2 j2 ev2 _ X2)
      as (c3 & d3 & fl & Emf & Afl & X3 & El3 & Ek3 & Cfl).
    rewrite Emf in Hmf. injection Hmf as Ec3 Ew3. subst c3 w3.
    cbn [w_disk w_journal] in Hd3, Hj3.
    (* the held set *)
    assert (EH : forall i, hold H (p_block pf) i = held_after H bu i).
    { intros i. unfold hold, held_after. rewrite Ebu. destruct (p_block pf) as [b|]; [|reflexivity].
      unfold upd_fun. cbn [bu_start bu_length bu_drop negb].
      destruct (N.eqb_spec i (db_index b)) as [->|Ne].
      - destruct (N.leb_spec (db_index b) (db_index b)) as [_|L]; [|lia].
        destruct (N.ltb_spec (db_index b) (db_index b + 1)) as [_|L]; [reflexivity|lia].
      - destruct ((db_index b <=? i) && (i <? db_index b + 1)) eqn:E; [lia|reflexivity]. }
    assert (Xfin : RDInv cr bs c' d3 (hold H (p_block pf))) by (apply (RDInv_ext cr bs c' d3 _ _ EH), X3).
    (* the disk after the entry write, and the flush cuts, for the new state *)
    assert (After : forall k, exists dk, apply_sops d2 (firstn k fl) = Some dk /\
                     RDisk cr bs (kp_public (c_keypair c)) dk (hold H (p_block pf)) (t_length (c_tree c'))).
    { intros k. destruct (Cfl k) as (dk & Ak & Pk). exists dk. split; [exact Ak|].
      rewrite El3, <- Ek2. apply (RDisk_ext _ dk _ _ _ EH), Pk. }
    (* the disk after a data write alone: still the old state *)
    assert (Before1 : RDisk cr bs (kp_public (c_keypair c)) d1 H (t_length (c_tree c))).
    { apply (RDisk_data _ d d1 H _ XD Et1 Eo1 Eb1).
      intros i Hi Hlen.
      destruct W2' as (_ & _ & _ & _ & _ & _ & _ & V8).
      assert (Hi2 : bf_get (c_bitfield c2) i = true).
      { destruct X2 as (_ & Hb2 & _). rewrite Hb2. unfold held_after. destruct bu as [u|]; [|exact Hi].
        unfold upd_fun. destruct Hbus as [-> _]. cbn [negb].
        destruct ((bu_start u <=? i) && (i <? bu_start u + bu_length u)); [reflexivity|exact Hi]. }
      destruct (V8 i Hi2) as (_ & _ & _ & A4). rewrite <- Ed2'. apply A4, Hlen. }
    left. cbv zeta.
    unfold commit_point. destruct (p_block pf) as [b|] eqn:Epb.
    - (* with a block: data write, entry write, flush group *)
      destruct Hw1run as (off0 & Ew1). injection Ew1 as Ed1 Ej1 _.
      exists [SW Data off0 (db_value b)], off, fr, fl.
      split. { rewrite Hj3, Ej2, Ej1. cbn [app rev]. rewrite <- !app_assoc. reflexivity. }
      split; [reflexivity|]. split; [intros o [<-|[]]; reflexivity|].
      assert (A1 : apply_sop d (SW Data off0 (db_value b)) = Some d1) by (cbn [apply_sop d_get]; rewrite Ed1; reflexivity).
      assert (A2 : apply_sop d1 (SW Oplog off fr) = Some d2) by (cbn [apply_sop d_get]; rewrite Ed2e; reflexivity).
      split. { cbn [app apply_sops]. rewrite A1, A2, Hd3. exact Afl. }
      split; [rewrite Hd3; exact Xfin|].
      intros [|[|k]].
      + exists d. split; [reflexivity|exact XD].
      + exists d1. split; [cbn [app firstn apply_sops]; rewrite A1; reflexivity|exact Before1].
      + destruct (After k) as (dk & Ak & Pk). exists dk.
        split; [cbn [app firstn apply_sops]; rewrite A1, A2; exact Ak|exact Pk].
    - (* without a block: entry write, flush group *)
      injection Hw1run as Ed1 Ej1 _. subst d1 j1.
      exists [], off, fr, fl.
      split. { rewrite Hj3, Ej2. cbn [app rev]. rewrite <- !app_assoc. reflexivity. }
      split; [reflexivity|]. split; [intros o []|].
      assert (A2 : apply_sop d (SW Oplog off fr) = Some d2) by (cbn [apply_sop d_get]; rewrite Ed2e; reflexivity).
      split. { cbn [app apply_sops]. rewrite A2, Hd3. exact Afl. }
      split; [rewrite Hd3; exact Xfin|].
      intros [|k].
      + exists d. split; [reflexivity|exact XD].
      + destruct (After k) as (dk & Ak & Pk). exists dk.
        split; [cbn [app firstn apply_sops]; rewrite A2; exact Ak|exact Pk].
  Qed.
End ApplyCuts.

(* ====================================================================================== *)
(* D. Every cut reopens to the state before or after                                       *)
(* ====================================================================================== *)

Section Recover.
  Variable cr : crypto.
  Hypothesis Hcrc : crc_ok cr.
  Hypothesis Hhash32 : forall x, length (cr_hash cr x) = 32%nat.
  Hypothesis Hnonblank : forall x, all_zero (cr_hash cr x) = false.
  Hypothesis Hhashbytes : forall x, bytes_ok (cr_hash cr x) = true.
  Variable bs : list bytes.
  Hypothesis Hw : writer_fits bs.

  (* opening a replica disk (also one left by a crash): the invariant and the observations of (H, r) *)
  Theorem reopen_RDisk_observations pk d H r :
    RDisk cr bs pk d H r ->
    exists c' d' ops, core_open cr None true d = (d', ops, Ok c') /\
      RDInv cr bs c' d' H /\ obs_replica bs c' d' H r /\ c_keypair c' = mkKeypair pk None /\
      t_length (c_tree c') = r.
  Proof.
    intros XD. destruct (reopen_RDisk cr Hcrc Hhash32 Hnonblank Hhashbytes bs Hw pk d H r XD)
      as (c' & d' & ops & E & X & L & K & _).
    exists c', d', ops. split; [exact E|]. split; [exact X|]. split; [|split; [exact K|exact L]].
    rewrite <- L. apply (RD_observations cr bs Hw c' d' H X).
  Qed.

  (* GOAL 5: a crash between any two storage operations of an accepted proof application recovers to the
     state before (cuts up to the commit point) or after (from the entry write on) *)
  Theorem apply_crash_recovers f pf c d j ev H c' w' :
    RDInv cr bs c d H -> rd_proof_ok pf ->
    core_apply_proof cr f pf c (mkWorld d j ev) = (c', w', Ok true) ->
    (exists ops,
       w_journal w' = rev ops ++ j /\ apply_sops d ops = Some (w_disk w') /\
       forall k, exists dk,
         apply_sops d (firstn k ops) = Some dk /\
         exists c'' d'' rops, core_open cr None true dk = (d'', rops, Ok c'') /\
           c_keypair c'' = c_keypair c /\
           if (k <=? commit_point pf)%nat
           then RDInv cr bs c'' d'' H /\ obs_replica bs c'' d'' H (t_length (c_tree c)) /\
                t_length (c_tree c'') = t_length (c_tree c)
           else RDInv cr bs c'' d'' (hold H (p_block pf)) /\
                obs_replica bs c'' d'' (hold H (p_block pf)) (t_length (c_tree c')) /\
                t_length (c_tree c'') = t_length (c_tree c')) \/
    some_collision cr \/ forged_signature cr bs (kp_public (c_keypair c)).
  Proof.
    intros X Hrd Happ. pose proof (RDInv_keypair cr bs c d H X) as Kc.
    destruct (apply_crash_cuts cr Hcrc Hhash32 Hnonblank Hhashbytes bs Hw f pf c d j ev H c' w' X Hrd Happ)
      as [Hc|[C|F]]; [left|right; left; exact C|right; right; exact F].
    cbv zeta in Hc. destruct Hc as (pre & off & fr & fl & Hj & _ & _ & Ha & _ & Hcuts).
    exists (pre ++ SW Oplog off fr :: fl). split; [exact Hj|]. split; [exact Ha|].
    intros k. destruct (Hcuts k) as (dk & Ak & Pk). exists dk. split; [exact Ak|].
    destruct (k <=? commit_point pf)%nat.
    - destruct (reopen_RDisk_observations _ dk _ _ Pk) as (c'' & d'' & rops & E & X'' & O & K & L).
      exists c'', d'', rops. split; [exact E|]. split; [rewrite K; symmetry; exact Kc|]. split; [exact X''|]. split; [exact O|exact L].
    - destruct (reopen_RDisk_observations _ dk _ _ Pk) as (c'' & d'' & rops & E & X'' & O & K & L).
      exists c'', d'', rops. split; [exact E|]. split; [rewrite K; symmetry; exact Kc|]. split; [exact X''|]. split; [exact O|exact L].
  Qed.
End Recover.

Print Assumptions file_sound_write_nodes.
Print Assumptions lookup_write_nodes.
Print Assumptions maybe_flush_R.
Print Assumptions apply_crash_cuts.
Print Assumptions reopen_RDisk_observations.
Print Assumptions apply_crash_recovers.

(* BroadcastEx.v — non-vacuity of BroadcastRefine.v / BroadcastFacts.v: concrete runs of the channel model
   (Broadcast.v) that meet the premises of every main theorem, computed with vm_compute. *)
From HC Require Import Base Broadcast BroadcastLib BroadcastRefine BroadcastFacts BroadcastTrace.
From HC Require Import NMap Codec Crypto FlatTree Storage Bitfield Oplog Merkle Core CoreFacts EventsAvail.

(* ---------- the model itself: capacity 2, two subscribers, a burst longer than the capacity ---------- *)

Definition ex_ops : list (bop N) :=
  [BSend 1;                        (* nobody subscribed: Inactive, not queued *)
   BNew; BSend 2; BSend 3; BSend 4;   (* the third send drops message 2 *)
   BLen; BRecv 0; BRecv 0;            (* Overflowed 1, then message 3 *)
   BNew; BSend 5; BRecv 0; BRecv 1; BLen; BRecv 0; BLen;
   BDrop 1; BLen; BRecv 1; BDrop 0; BSend 9].

Example ex_run :
  run_bc 2 ex_ops =
  [BoInactive; BoNew 0; BoSent None; BoSent None; BoSent (Some 2); BoLen 2 1; BoOverflowed 1; BoMsg 3;
   BoNew 1; BoSent None; BoMsg 4; BoMsg 5; BoLen 1 2; BoMsg 5; BoLen 0 2; BoDropped; BoLen 0 1; BoNoReceiver;
   BoDropped; BoInactive].
Proof. vm_compute. reflexivity. Qed.

(* the abstract reading gives the same answers (instance of run_refines) and no panic site is hit (run_no_panic) *)
Example ex_run_spec : fst (spec_steps (spec_new 2) ex_ops) = run_bc 2 ex_ops.
Proof. vm_compute. reflexivity. Qed.

(* Events::new() with the capacity of the crate *)
Example ex_events_new :
  @events_new N 32 = mkInner [] 32 0 1 1 0 true false false.
Proof. reflexivity. Qed.

(* ---------- (a): three subscribers, different subscription points, interleaved try_recv, one drop ---------- *)

Definition ex_a_ops : list (bop N) :=
  [BNew; BSend 10; BSend 11; BNew; BRecv 0; BSend 12; BRecv 1; BNew; BSend 13; BRecv 0; BRecv 2; BDrop 1; BSend 14;
   BRecv 0].

Definition ex_a_state : spec N := snd (spec_steps (spec_new 3) ex_a_ops).

(* the premises of fanout_exact hold for each of them (reach_ginv gives ginv), and its conclusion computes to what
   one expects: subscriber 0 got 10 11 12 and has 13 14 pending; subscriber 1 (subscribed after 11, dropped) got 12;
   subscriber 2 (subscribed after 12) got 13 and has 14 pending *)
Example ex_a_premises :
  ginv ex_a_state /\
  map (fun r => (sr_live r, sr_sub r, received r, pending ex_a_state r, sent_since ex_a_state r)) (sp_rcv ex_a_state) =
    [(true, 0, [10; 11; 12], [13; 14], [10; 11; 12; 13; 14]);
     (false, 2, [12], [13; 14], [12; 13; 14]);
     (true, 3, [13], [14], [13; 14])] /\
  Forall (fun r => no_overflow (sr_log r)) (sp_rcv ex_a_state).
Proof.
  split; [apply reach_ginv|]. split; [vm_compute; reflexivity|].
  repeat constructor; intros n H; vm_compute in H; repeat (destruct H as [H|H]; [discriminate|]); exact H.
Qed.

(* ---------- (b): capacity 2, the subscriber is 2 + 3 behind ---------- *)

Definition ex_b_state : spec N := snd (spec_steps (spec_new 2) [BNew; BSend 1; BSend 2; BSend 3; BSend 4; BSend 5]).

Example ex_b_premises :
  exists r, nth_error (sp_rcv ex_b_state) (N.to_nat 0) = Some r /\ sr_live r = true /\ 0 < 3 /\
            sp_tail ex_b_state - sr_pos r = sp_cap ex_b_state + 3.
Proof. eexists. vm_compute. repeat split; reflexivity. Qed.

(* ... and what happens: Overflowed 3 (1 2 3 are lost), then 4 and 5 in order, then Empty *)
Example ex_b_run :
  run_bc 2 [BNew; BSend 1; BSend 2; BSend 3; BSend 4; BSend 5; BRecv 0; BRecv 0; BRecv 0; BRecv 0] =
  [BoNew 0; BoSent None; BoSent None; BoSent (Some 1); BoSent (Some 2); BoSent (Some 3);
   BoOverflowed 3; BoMsg 4; BoMsg 5; BoEmpty].
Proof. vm_compute. reflexivity. Qed.

(* the premises of lagging_subscriber for this history (capacity 2, five messages, n = 3); ex_b_run is its conclusion *)
Example ex_b_lagging_premises : 0 < 2 /\ 0 < 3 /\ N.of_nat (length [1; 2; 3; 4; 5]) = 2 + 3.
Proof. repeat split; reflexivity. Qed.

(* ---------- (c): the only subscriber has gone; a send; a new subscriber ---------- *)

Example ex_c_premises :
  0 < 4 /\ nlive (bs_rcv (snd (bsys_steps (bsys_new 4) [BNew; BSend 1; BDrop 0]))) = 0.
Proof. split; reflexivity. Qed.

Example ex_c_run :
  run_bc 4 ([BNew; BSend 1; BDrop 0] ++ BSend 7 :: [BNew; BRecv 1; BSend 8; BRecv 1]) =
  [BoNew 0; BoSent None; BoDropped] ++ BoInactive :: [BoNew 1; BoEmpty; BoSent None; BoMsg 8].
Proof. vm_compute. reflexivity. Qed.

(* ---------- (d): chunks of at most `capacity` events, drained after each ---------- *)

Example ex_d_premises :
  0 < 2 /\ Forall (fun ch : list N => N.of_nat (length ch) <= 2 /\ (length ch <= 2)%nat) [[1; 2]; [3]; []; [4; 5]].
Proof. split; [reflexivity|]. repeat constructor; vm_compute; discriminate. Qed.

Example ex_d_run :
  msgs_of (run_bc 2 (BNew :: feed 0 2 [[1; 2]; [3]; []; [4; 5]])) = [1; 2; 3; 4; 5].
Proof. vm_compute. reflexivity. Qed.

(* the events of the writer history of EventsAvail.toy_writer_history (toy crypto instance of CoreFacts.v), chunked
   per call, through a channel of capacity 32: the premises of core_history_fanout, and its conclusion computed *)
Definition ex_hist : list op :=
  [OAppend (Some false) [[1; 2; 3]; [4]]; OGet 7; OAppend (Some true) [[5; 6]];
   OCreateProof (Some (mkReqBlock 1 0)) None None None; OAppend None []; OMissingNodes 0; OMakeReadOnly].

Definition ex_chunks : list (list event) :=
  [[EvUpgrade; EvHave 0 2 false]; [EvGet 7]; [EvUpgrade; EvHave 2 1 false]; []; []; []; []].

Example ex_core_premises :
  match fresh CoreFacts.toy_kp with
  | Some (c0, w0) =>
      w0 = mkWorld (w_disk w0) [] [] /\
      let '(c', w', oks) := run_ops tc ex_hist c0 w0 in
      concat ex_chunks = rev (w_events w') /\
      forallb (fun ch => Nat.leb (length ch) 32) ex_chunks = true /\
      msgs_of (run_bc 32 (BNew :: feed 0 32 ex_chunks)) = rev (w_events w')
  | None => False
  end.
Proof. vm_compute. repeat split; reflexivity. Qed.

(* ---------- the trace form (fanout_trace): capacity 2; subscriber 1 joins after two sends, falls behind, catches up ---------- *)

Definition ex_t_ops1 : list (bop N) := [BNew; BSend 1; BSend 2; BRecv 0].
Definition ex_t_ops2 : list (bop N) :=
  [BSend 3; BRecv 1; BSend 4; BSend 5; BSend 6; BRecv 0; BRecv 1; BRecv 1; BSend 7; BRecv 1; BDrop 0; BSend 8].

Example ex_t_trace :
  let c1 := snd (bsys_steps (bsys_new 2) ex_t_ops1) in
  let tr2 := combine ex_t_ops2 (fst (bsys_steps (fst (bsys_step c1 BNew)) ex_t_ops2)) in
  snd (bsys_step c1 BNew) = BoNew 1 /\
  tr_sent tr2 = [3; 4; 5; 6; 7; 8] /\
  tr_log 1 tr2 = [BoMsg 3; BoOverflowed 1; BoMsg 5; BoMsg 6] /\
  shape (tr_log 1 tr2) = [Some 3; None; Some 5; Some 6].
Proof. vm_compute. repeat split; reflexivity. Qed.

Print Assumptions ex_run.
Print Assumptions ex_t_trace.
Print Assumptions ex_a_premises.
Print Assumptions ex_b_premises.
Print Assumptions ex_c_run.
Print Assumptions ex_d_run.
Print Assumptions ex_core_premises.

(* HonestFault.v -- C10 (a storage error surfaces and is recoverable) for HONEST proof applications of EVERY request
   class.  The fault semantics is that of CrashClear4.v / FaultReplica.v: the call runs with the failing emitter
   emit_lim (length j + k), i.e. storage operation number k (0-based) of the call fails.
     failed_honest_apply_recovers : operation k of an accepted application of an honest changeset fails: the call
                                    answers Err IOErr, no later operation is issued (journal and disk = the cut at k
                                    of the fault-free journal), no event is sent; dropping the instance and
                                    reopening gives RCInv with the observations of BEFORE (k <= commit point) or
                                    AFTER (the entry write had happened);
     failed_honest_round          : the same for one replication round with the premises of honest_round, for EVERY
                                    k: beyond the end of the journal the call is the fault-free call;
     failed_open_recovers_RC      : a fault during the recovery open itself (core_open_F) on a closed crash disk:
                                    either nothing fails, or the disk is untouched and the next open succeeds;
     honest_fault_histories       : histories over {serve + apply, reopen, crash at cut k + reopen, FAULT at
                                    operation k (+ drop and reopen when the error surfaces)}: every step succeeds,
                                    RCInv at the end, every committed block stays held.
   No escape clause (collision / forged signature). *)
From HC Require Import Base NMap Codec CodecFacts Crypto FlatTree Storage Bitfield Oplog Merkle Core.
From HC Require Import FlatTreeFacts StorageFacts BitfieldFacts OplogFacts Sound NoPanic TreeRef OffsetFacts CoreFacts Crash Refine Replicate Replicate2 Replicate2Z Replicate2D Replicate2E.
From HC Require Import ClearRefine Reopen ContigBridge Unified1 Unified2 CrashCore1 CrashCore2 CrashCore3 Fault CrashClear1 CrashClear2 CrashClear4.
From HC Require Import SoundCoreLib SoundCore SoundCoreUp SoundCoreBU ReplicaDisk1 ReplicaDisk2 ReplicaDisk3 ReplicaDisk4.
From HC Require Import FaultReplica.
From HC Require Import AcceptAll1 AcceptAll2 AcceptAll3 AcceptAll AcceptAllCore1 AcceptAllClo AcceptAllClo2 AcceptAllFlush AcceptAllCore2 AcceptAllCore3 AcceptAllHist.
From HC Require Import HonestApply1 HonestApply2 HonestApply3 HonestApply HonestCrash1 HonestCrash2.
From Coq Require Import FMapPositive ZifyN ZifyNat ZifyBool.
Ltac Zify.zify_post_hook ::= Z.div_mod_to_equations.
Arguments N.add : simpl never.
Arguments N.sub : simpl never.
Arguments N.mul : simpl never.
Arguments N.div : simpl never.
Arguments N.modulo : simpl never.
Arguments N.pow : simpl never.
Arguments N.eqb : simpl never.
Arguments N.ltb : simpl never.
Arguments N.leb : simpl never.
Arguments N.max : simpl never.
Arguments N.min : simpl never.
Arguments N.of_nat : simpl never.
Arguments N.to_nat : simpl never.
Arguments N.log2 : simpl never.

Section FailedHonestApply.
  Variable cr : crypto.
  Hypothesis Hcrc : crc_ok cr.
  Hypothesis Hhash32 : forall x, length (cr_hash cr x) = 32%nat.
  Hypothesis Hnonblank : forall x, all_zero (cr_hash cr x) = false.
  Hypothesis Hhashbytes : forall x, bytes_ok (cr_hash cr x) = true.
  Variable bs : list bytes.
  Hypothesis Hw : writer_fits bs.

  (* FaultReplica.failed_apply_recovers for any proof whose changeset consists of the writer's nodes *)
  Theorem failed_honest_apply_recovers f pf c d j ev H cs c' w' delta k :
    RCInv cr bs c d H ->
    verifier_says cr c (mkWorld d j ev) pf = Ok cs ->
    honest_changeset cr bs c pf cs ->
    core_apply_proof cr f pf c (mkWorld d j ev) = (c', w', Ok true) ->
    w_journal w' = rev delta ++ j -> (k < length delta)%nat ->
    exists ck wk,
      core_apply_proof_E cr (emit_lim (length j + k)) f pf c (mkWorld d j ev) = (ck, wk, Err IOErr) /\
      w_journal wk = rev (firstn k delta) ++ j /\ apply_sops d (firstn k delta) = Some (w_disk wk) /\
      w_events wk = ev /\
      exists c2 d2 rops,
        core_open cr None true (w_disk wk) = (d2, rops, Ok c2) /\
        c_keypair c2 = c_keypair c /\
        if (k <=? commit_point pf)%nat
        then RCInv cr bs c2 d2 H /\ obs_replica bs c2 d2 H (t_length (c_tree c)) /\
             t_length (c_tree c2) = t_length (c_tree c)
        else RCInv cr bs c2 d2 (hold H (p_block pf)) /\
             obs_replica bs c2 d2 (hold H (p_block pf)) (t_length (c_tree c')) /\
             t_length (c_tree c2) = t_length (c_tree c').
  Proof.
    intros RC V Hhon Happ Hj Hk.
    destruct (fault_is_cut _ _ k c d j ev c' w' true delta (core_apply_proof_fsim cr _ f pf) Happ Hj Hk)
      as (ck & wk & Ef & Jk & Dk).
    exists ck, wk. split; [exact Ef|]. split; [exact Jk|]. split; [exact Dk|].
    split.
    { destruct (failed_call_emits_nothing cr (length j + k)) as (_ & _ & Hev & _).
      apply (Hev f pf c (mkWorld d j ev) ck wk (Err IOErr) Ef eq_refl). }
    destruct (honest_apply_crash_recovers cr Hcrc Hhash32 Hnonblank Hhashbytes bs Hw f pf c d j ev H cs c' w' RC V Hhon Happ)
      as (ops & Hj' & _ & Hcuts).
    assert (Eops : ops = delta) by (rewrite Hj' in Hj; apply (journal_unique _ _ j Hj)).
    subst ops.
    destruct (Hcuts k) as (dk & Ak & c2 & d2 & rops & Eo & K & Hcase).
    rewrite Dk in Ak. injection Ak as <-.
    exists c2, d2, rops. split; [exact Eo|]. split; [exact K|exact Hcase].
  Qed.

  (* GOAL 3: one replication round of any request class with a fault at storage operation number k of the
     application, for EVERY k.  ops = the storage operations of the fault-free application. *)
  Theorem failed_honest_round f cw dw bw sg jw evw c d j ev H rq k :
    let w := N.of_nat (length bw) in
    let pk := kp_public (c_keypair c) in
    writer_at cr bs cw dw bw pk sg ->
    RCInv cr bs c d H ->
    t_length (c_tree c) <= w ->
    wf_request bs (c_tree c) (d_tree d) w rq ->
    (forall vp, create_valueless_proof (c_tree cw) (d_tree dw) (rq_block rq) (rq_hash rq) (rq_seek rq) (rq_upgrade rq) = Ok vp ->
                frame_guard cr c d (vp_to_proof vp (rq_value bs rq))) ->
    let H' := held_rq H rq in
    let r' := match rq_upgrade rq with Some _ => w | None => t_length (c_tree c) end in
    exists pf c' w' ops,
      core_create_proof (rq_block rq) (rq_hash rq) (rq_seek rq) (rq_upgrade rq) cw (mkWorld dw jw evw)
        = (cw, mkWorld dw jw evw, Ok (Some pf)) /\
      (* the fault-free application *)
      core_apply_proof cr f pf c (mkWorld d j ev) = (c', w', Ok true) /\
      w_journal w' = rev ops ++ j /\ (rq_commit_point rq < length ops)%nat /\
      RCInv cr bs c' (w_disk w') H' /\ t_length (c_tree c') = r' /\ c_keypair c' = c_keypair c /\
      (* the fault position is not reached: the call is the fault-free call *)
      ((length ops <= k)%nat ->
       core_apply_proof_E cr (emit_lim (length j + k)) f pf c (mkWorld d j ev) = (c', w', Ok true)) /\
      (* operation k fails: I/O error, nothing issued after it, nothing sent, and the cut reopens *)
      ((k < length ops)%nat ->
       exists ck wk,
         core_apply_proof_E cr (emit_lim (length j + k)) f pf c (mkWorld d j ev) = (ck, wk, Err IOErr) /\
         w_journal wk = rev (firstn k ops) ++ j /\ apply_sops d (firstn k ops) = Some (w_disk wk) /\
         w_events wk = ev /\
         exists c2 d2 rops,
           core_open cr None true (w_disk wk) = (d2, rops, Ok c2) /\
           c_keypair c2 = c_keypair c /\
           if (k <=? rq_commit_point rq)%nat
           then RCInv cr bs c2 d2 H /\ obs_replica bs c2 d2 H (t_length (c_tree c)) /\
                t_length (c_tree c2) = t_length (c_tree c)
           else RCInv cr bs c2 d2 H' /\ obs_replica bs c2 d2 H' r' /\ t_length (c_tree c2) = r').
  Proof.
    intros w pk Hwa RC Hrw Hwf Hfr H' r'.
    destruct (honest_round_crash_cuts cr Hcrc Hhash32 Hnonblank Hhashbytes bs Hw f cw dw bw sg jw evw c d j ev H rq
                Hwa RC Hrw Hwf Hfr)
      as (pf & c' & w' & pre & off & fr & fl & Hcreate & Happ & Hj & Hpre & _ & _ & RC' & El & Ek & _).
    destruct (honest_round_crash_recovers cr Hcrc Hhash32 Hnonblank Hhashbytes bs Hw f cw dw bw sg jw evw c d j ev H rq
                Hwa RC Hrw Hwf Hfr)
      as (pf2 & c2' & w2' & ops & Hcreate2 & Happ2 & Hj2 & _ & _ & _ & Hcuts).
    rewrite Hcreate in Hcreate2. injection Hcreate2 as <-.
    rewrite Happ in Happ2. injection Happ2 as <- <-.
    assert (Eops : ops = pre ++ SW Oplog off fr :: fl) by (rewrite Hj in Hj2; symmetry; apply (journal_unique _ _ j Hj2)).
    exists pf, c', w', ops.
    split; [exact Hcreate|]. split; [exact Happ|]. split; [exact Hj2|].
    split; [rewrite Eops, app_length, Hpre; cbn [length]; lia|].
    split; [exact RC'|]. split; [exact El|]. split; [exact Ek|]. split.
    - intros Hk.
      exact (fault_beyond_end _ _ k c d j ev c' w' true ops (core_apply_proof_fsim cr _ f pf) Happ Hj2 Hk).
    - intros Hk.
      destruct (fault_is_cut _ _ k c d j ev c' w' true ops (core_apply_proof_fsim cr _ f pf) Happ Hj2 Hk)
        as (ck & wk & Ef & Jk & Dk).
      exists ck, wk. split; [exact Ef|]. split; [exact Jk|]. split; [exact Dk|].
      split.
      { destruct (failed_call_emits_nothing cr (length j + k)) as (_ & _ & Hev & _).
        apply (Hev f pf c (mkWorld d j ev) ck wk (Err IOErr) Ef eq_refl). }
      destruct (Hcuts k) as (dk & Ak & c2 & d2 & rops & Eo & K & Hcase).
      rewrite Dk in Ak. injection Ak as <-.
      exists c2, d2, rops. split; [exact Eo|]. split; [exact K|exact Hcase].
  Qed.

  (* a fault during the recovery open itself: the open issues at most the truncate that removes stale entries.
     Either nothing fails and the open is the fault-free one; or that truncate fails: the I/O error is answered, the
     disk is UNTOUCHED, so the next open is the very call that would have happened anyway, and it succeeds *)
  Theorem failed_open_recovers_RC pk d H r k :
    RCDisk cr bs pk d H r ->
    exists c' d' ops,
      core_open cr None true d = (d', ops, Ok c') /\ RCInv cr bs c' d' H /\ obs_replica bs c' d' H r /\
      t_length (c_tree c') = r /\ c_keypair c' = mkKeypair pk None /\
      (((length ops <= k)%nat /\ core_open_F cr k None true d = (d', ops, Ok c')) \/
       ((k < length ops)%nat /\ core_open_F cr k None true d = (d, [], Err IOErr))).
  Proof.
    intros XD.
    destruct (reopen_RCDisk cr Hcrc Hhash32 Hnonblank Hhashbytes bs Hw pk d H r XD)
      as (c' & d' & ops & Eo & X & O & L & K & _ & _ & _ & _ & Hops).
    exists c', d', ops. split; [exact Eo|]. split; [exact X|]. split; [exact O|]. split; [exact L|]. split; [exact K|].
    destruct (le_lt_dec (length ops) k) as [Lk|Lk].
    - left. split; [exact Lk|]. apply (core_open_F_beyond cr k _ _ _ _ _ _ Eo Lk). right. exists c'. reflexivity.
    - right. split; [exact Lk|].
      destruct (core_open_F_cut cr k _ _ _ _ _ _ Eo Lk) as (dk & Ak & Ef & _).
      destruct Hops as [(-> & _)| ->]; [cbn [length] in Lk; lia|].
      destruct k as [|k]; [|cbn [length] in Lk; lia].
      cbn [firstn apply_sops] in Ak, Ef. injection Ak as <-. exact Ef.
  Qed.
End FailedHonestApply.

(* ====================================================================================== *)
(* Histories with crashes and faults                                                       *)
(* ====================================================================================== *)

(* HonestCrash2.cevent extended with a storage fault: the writer serves rq, the replica applies the proof, storage
   operation number k of the application fails; when the error surfaces the instance is dropped and the storage
   opened again (when k lies beyond the journal of the call nothing fails and the replica simply goes on) *)
Inductive fevent :=
| FC (e : cevent)
| FFault (f : option bool) (rq : request) (cw : core) (dw : disk) (jw : list sop) (evw : list event)
         (bw : list bytes) (sg : bytes) (k : nat).

Section FaultHistories.
  Variable cr : crypto.
  Hypothesis Hcrc : crc_ok cr.
  Hypothesis Hhash32 : forall x, length (cr_hash cr x) = 32%nat.
  Hypothesis Hnonblank : forall x, all_zero (cr_hash cr x) = false.
  Hypothesis Hhashbytes : forall x, bytes_ok (cr_hash cr x) = true.
  Variable bs : list bytes.
  Hypothesis Hw : writer_fits bs.

  Definition fexec (c : core) (w : world) (e : fevent) : option (core * world) :=
    match e with
    | FC e => cexec cr c w e
    | FFault f rq cw dw jw evw bw sg k =>
        match core_create_proof (rq_block rq) (rq_hash rq) (rq_seek rq) (rq_upgrade rq) cw (mkWorld dw jw evw) with
        | (_, _, Ok (Some pf)) =>
            match core_apply_proof_E cr (emit_lim (length (w_journal w) + k)) f pf c w with
            | (c', w', Ok true) => Some (c', w')                 (* the fault position was not reached *)
            | (_, wk, Err IOErr) =>                               (* the error surfaces: drop and reopen *)
                match core_open cr None true (w_disk wk) with
                | (d'', rops, Ok c'') => Some (c'', mkWorld d'' (rev rops ++ w_journal wk) (w_events wk))
                | _ => None
                end
            | _ => None
            end
        | _ => None
        end
    end.

  Fixpoint frun (es : list fevent) (c : core) (w : world) : option (core * world) :=
    match es with
    | [] => Some (c, w)
    | e :: rest => match fexec c w e with Some (c', w') => frun rest c' w' | None => None end
    end.

  (* a fault at operation k has the spec of a crash at cut k: committed iff the entry write happened *)
  Definition as_crash (e : fevent) : cevent :=
    match e with
    | FC e => e
    | FFault f rq cw dw jw evw bw sg k => CCrash f rq cw dw jw evw bw sg k
    end.

  Definition fpre (c : core) (d : disk) (e : fevent) : Prop := cpre cr bs c d (as_crash e).

  Fixpoint fhist (es : list fevent) (c : core) (w : world) : Prop :=
    match es with
    | [] => True
    | e :: rest => fpre c (w_disk w) e /\ forall c' w', fexec c w e = Some (c', w') -> fhist rest c' w'
    end.

  Definition fheld_all (H : N -> bool) (es : list fevent) : N -> bool := cheld_all H (map as_crash es).
  Definition flen_all (r : N) (es : list fevent) : N := clen_all r (map as_crash es).
  Definition fcommitted (es : list fevent) (i : N) : Prop := ccommitted (map as_crash es) i.

  (* one event *)
  Lemma fault_event_step c d j ev H e :
    RCInv cr bs c d H -> fpre c d e ->
    exists c' w', fexec c (mkWorld d j ev) e = Some (c', w') /\ RCInv cr bs c' (w_disk w') (cheld1 H (as_crash e)) /\
                  c_keypair c' = c_keypair c /\ t_length (c_tree c') = clen1 (t_length (c_tree c)) (as_crash e) /\
                  t_length (c_tree c) <= t_length (c_tree c').
  Proof.
    intros RC Hpre. destruct e as [e|f rq cw dw jw evw bw sg k]; cbn [fexec as_crash] in *.
    - apply (crash_event_step cr Hcrc Hhash32 Hnonblank Hhashbytes bs Hw c d j ev H e RC Hpre).
    - unfold fpre in Hpre. cbn [as_crash cpre] in Hpre. destruct Hpre as (Hwa & Hrw & Hwf & Hfr). cbv zeta in *.
      destruct (failed_honest_round cr Hcrc Hhash32 Hnonblank Hhashbytes bs Hw f cw dw bw sg jw evw c d j ev H rq k
                  Hwa RC Hrw Hwf Hfr) as (pf & c' & w' & ops & Hcreate & Happ & Hj & Hlen & RC' & El & Ek & Hbeyond & Hfault).
      rewrite Hcreate. cbn [w_journal w_disk w_events cheld1 clen1]. unfold committed.
      destruct (le_lt_dec (length ops) k) as [Lk|Lk].
      + rewrite (Hbeyond Lk). exists c', w'. split; [reflexivity|].
        destruct (Nat.leb_spec k (rq_commit_point rq)) as [L|L]; [lia|]. cbn [negb].
        split; [exact RC'|]. split; [exact Ek|]. split; [exact El|]. rewrite El. destruct (rq_upgrade rq); lia.
      + destruct (Hfault Lk) as (ck & wk & Ef & Jk & _ & Evk & c2 & d2 & rops & Eo & K & Hcase).
        rewrite Ef, Eo. eexists c2, _. split; [reflexivity|]. cbn [w_disk].
        destruct (k <=? rq_commit_point rq)%nat; cbn [negb].
        * destruct Hcase as (RC2 & _ & L2). split; [exact RC2|]. split; [exact K|]. split; [exact L2|lia].
        * destruct Hcase as (RC2 & _ & L2). split; [exact RC2|]. split; [exact K|]. split; [exact L2|].
          rewrite L2. destruct (rq_upgrade rq); lia.
  Qed.

  Theorem honest_fault_histories es : forall c d j ev H,
    RCInv cr bs c d H -> fhist es c (mkWorld d j ev) ->
    exists c' w',
      frun es c (mkWorld d j ev) = Some (c', w') /\
      RCInv cr bs c' (w_disk w') (fheld_all H es) /\
      c_keypair c' = c_keypair c /\
      t_length (c_tree c') = flen_all (t_length (c_tree c)) es /\
      t_byte_length (c_tree c') = prefix_size bs (t_length (c_tree c')) /\
      t_length (c_tree c) <= t_length (c_tree c') /\
      (* every committed block -- in particular every block of an acknowledged application -- stays held *)
      (forall i, fcommitted es i -> core_has c' i = true) /\
      (forall i, H i = true -> core_has c' i = true) /\
      (forall i, core_has c' i = fheld_all H es i) /\
      (forall i j2 ev2, core_has c' i = true ->
         core_get i c' (mkWorld (w_disk w') j2 ev2) = (c', mkWorld (w_disk w') j2 ev2, Ok (Some (blk bs i)))).
  Proof.
    unfold fheld_all, flen_all, fcommitted.
    induction es as [|e es IH]; intros c d j ev H RC Hh.
    - exists c, (mkWorld d j ev). cbn [frun map cheld_all clen_all fold_left w_disk].
      split; [reflexivity|]. split; [exact RC|]. split; [reflexivity|]. split; [reflexivity|].
      destruct RC as [X _]. split; [apply (RDInv_RInv cr bs c d H X)|]. split; [lia|].
      split; [intros i []|]. split; [|split].
      + intros i Hi. rewrite (RD_has cr bs c d H i X). exact Hi.
      + intros i. apply (RD_has cr bs c d H i X).
      + intros i j2 ev2 Hi. rewrite (RD_has cr bs c d H i X) in Hi.
        rewrite (RD_get cr bs Hw c d H j2 ev2 i X), Hi. reflexivity.
    - cbn [fhist] in Hh. destruct Hh as [Hpre Hrest]. cbn [w_disk] in Hpre.
      destruct (fault_event_step c d j ev H e RC Hpre) as (c1 & w1 & Hex & RC1 & Hk1 & Hl1 & Hm1).
      destruct w1 as [d1 j1 ev1]. cbn [w_disk] in RC1.
      destruct (IH c1 d1 j1 ev1 (cheld1 H (as_crash e)) RC1 (Hrest _ _ Hex))
        as (c' & w' & Hrun & RC' & Hk & Hl & Hb & Hm & Hreq & Hmono & Hexact & Hget).
      exists c', w'. cbn [frun]. rewrite Hex. split; [exact Hrun|]. cbn [map cheld_all clen_all fold_left].
      split; [exact RC'|]. split; [congruence|]. split; [rewrite Hl, Hl1; reflexivity|]. split; [exact Hb|].
      split; [lia|]. split; [|split; [|split; [exact Hexact|exact Hget]]].
      + intros i Hr. destruct RC' as [X' _]. rewrite (RD_has cr bs c' (w_disk w') _ i X').
        apply (cheld_committed (as_crash e :: map as_crash es) H i Hr).
      + intros i Hi. apply Hmono. apply cheld1_mono, Hi.
  Qed.
End FaultHistories.

Print Assumptions failed_honest_apply_recovers.
Print Assumptions failed_honest_round.
Print Assumptions failed_open_recovers_RC.
Print Assumptions honest_fault_histories.

(* AcceptAllCore3.v -- C03 at the core level, part 3: one replication round.
   The writer (WInv over a prefix bw of the log bs, signature of its tree verifying under the replica's key) serves a
   well-formed request with a block and / or a full upgrade through core_create_proof; the replica (RDInv over bs, its
   stored nodes closed) applies the proof with core_apply_proof, for every flush decision: the result is Ok true, the
   replica invariant holds afterwards with the block held and the length moved to the writer's, the stored nodes are
   closed again -- or a hash collision / a signature on a message the writer never signed is exhibited (the clause of
   ReplicaDisk3.apply_keeps_RDInv, whose soundness lemmas are used for the state after the commit). *)
From HC Require Import Base NMap Codec CodecFacts Crypto FlatTree Storage Bitfield Oplog Merkle Core.
From HC Require Import FlatTreeFacts Sound NoPanic TreeRef OffsetFacts CoreFacts Refine Replicate Replicate2 Replicate2Z Replicate2D Replicate2E.
From HC Require Import Unified1 SoundCoreLib SoundCore SoundCoreUp SoundCoreBU ReplicaDisk1 ReplicaDisk2 ReplicaDisk3 ReplicaDisk4.
From HC Require Import AcceptAll1 AcceptAll2 AcceptAll3 AcceptAll AcceptAllCore1 AcceptAllClo AcceptAllClo2 AcceptAllFlush AcceptAllCore2.
From Coq Require Import FMapPositive ZifyN ZifyNat ZifyBool.
Ltac Zify.zify_post_hook ::= Z.div_mod_to_equations.
Arguments N.add : simpl never.
Arguments N.sub : simpl never.
Arguments N.mul : simpl never.
Arguments N.div : simpl never.
Arguments N.modulo : simpl never.
Arguments N.pow : simpl never.
Arguments N.eqb : simpl never.
Arguments N.ltb : simpl never.
Arguments N.leb : simpl never.
Arguments N.of_nat : simpl never.
Arguments N.to_nat : simpl never.
Arguments N.log2 : simpl never.

Section Round.
  Variable cr : crypto.
  Hypothesis Hcrc : OplogFacts.crc_ok cr.
  Hypothesis Hhash32 : forall x, length (cr_hash cr x) = 32%nat.
  Hypothesis Hnonblank : forall x, all_zero (cr_hash cr x) = false.
  Hypothesis Hhashbytes : forall x, bytes_ok (cr_hash cr x) = true.
  Variable bs : list bytes.               (* the writer's whole log *)
  Hypothesis Hw : writer_fits bs.

  (* the writer when its log is the prefix bw of bs; sg is the signature of its tree, valid under the key pk *)
  Definition writer_at (cw : core) (dw : disk) (bw : list bytes) (pk sg : bytes) : Prop :=
    (exists rest, bs = bw ++ rest) /\
    WInv cr cw dw bw /\
    t_signature (c_tree cw) = Some sg /\ length sg = 64%nat /\ bytes_ok sg = true /\
    cr_verify cr pk (signable (tree_hash cr (ref_roots cr bs (N.of_nat (length bw)))) (N.of_nat (length bw)) 0) sg = true.

  (* the replica between two calls: memory + disk invariant, stored nodes closed *)
  Definition RCInv (c : core) (d : disk) (H : N -> bool) : Prop :=
    RDInv cr bs c d H /\ ClosedR (c_tree c) (d_tree d).

  (* the frame guard of the oplog: the entry logged for the accepted changeset stays below 2^30 bytes *)
  Definition frame_guard (c : core) (d : disk) (pf : proof) : Prop :=
    forall cs, verify_proof cr (c_tree c) (d_tree d) pf (kp_public (c_keypair c)) = Ok cs ->
    forall e h b,
      entry_of_changeset cs (match p_block pf with Some bl => Some (mkBfUpdate false (db_index bl) 1) | None => None end)
                         (c_header c) = Ok (e, h) ->
      enc_entry e = Ok b -> len b < 1073741824.

  Lemma is_ref_T x : is_ref cr bs x -> x = ref_at cr bs (n_index x).
  Proof. intros H. exact H. Qed.

  (* ---------- the writer's side ---------- *)

  Lemma writer_serves cw dw bw jw evw rq vp :
    WInv cr cw dw bw ->
    create_valueless_proof (c_tree cw) (d_tree dw) (rq_block rq) (rq_hash rq) (rq_seek rq) (rq_upgrade rq) = Ok vp ->
    block_shape rq vp ->
    (forall b, rq_block rq = Some b -> rb_index b < N.of_nat (length bw)) ->
    core_create_proof (rq_block rq) (rq_hash rq) (rq_seek rq) (rq_upgrade rq) cw (mkWorld dw jw evw)
    = (cw, mkWorld dw jw evw, Ok (Some (vp_to_proof vp (rq_value bw rq)))).
  Proof.
    intros W Hc Hshape Hlt. unfold core_create_proof.
    rewrite mbind_get_core, mbind_get_disk. cbn [w_disk]. rewrite mbind_lift, Hc.
    unfold block_shape, rq_value, vp_to_proof in *. destruct (rq_block rq) as [[i k]|].
    - destruct Hshape as (ns & E). rewrite E. cbn [dh_index dh_nodes rb_index].
      unfold mbind at 1. rewrite (get_correct cr cw dw bw jw evw i W).
      specialize (Hlt _ eq_refl). cbn [rb_index] in Hlt.
      destruct (N.ltb_spec i (N.of_nat (length bw))) as [_|L]; [|lia].
      unfold ret. reflexivity.
    - rewrite Hshape. unfold ret. reflexivity.
  Qed.

  (* ---------- the replica's side: the tail of core_apply_proof ---------- *)

  Lemma replica_sound c d H :
    RDInv cr bs c d H ->
    forall j n, required_node (c_tree c) (d_tree d) j = Ok n -> n = ref_at cr bs j /\ in_len (t_length (c_tree c)) j.
  Proof.
    intros X j n Hn. pose proof (RDInv_RInv cr bs c d H X) as (_ & _ & _ & _ & Hu & Hf & _).
    apply (required_node_sound cr bs _ _ _ j n Hu Hf Hn).
  Qed.

  Lemma replica_rep c d H :
    RDInv cr bs c d H ->
    forall j n, optional_node (c_tree c) (d_tree d) j = Ok (Some n) -> n_hash n = n_hash (ref_at cr bs j).
  Proof.
    intros X j n Hn. apply optional_required in Hn. destruct (replica_sound c d H X j n Hn) as [-> _]. reflexivity.
  Qed.

  Theorem apply_tail_total f pf c d j ev H cs :
    RCInv c d H -> rd_proof_ok pf ->
    p_fork pf = t_fork (c_tree c) ->
    verifier_says cr c (mkWorld d j ev) pf = Ok cs ->
    commitable (c_tree c) cs = true ->
    Forall (is_ref cr bs) (cs_nodes cs) ->
    (forall b, p_block pf = Some b -> In (ref_node cr bs 0 (db_index b)) (cs_nodes cs) /\ db_index b * 2 <= u64_max) ->
    (cs_upgraded cs = true -> cs_ancestors cs = t_length (c_tree c)) ->
    (p_upgrade pf = None -> cs_upgraded cs = false) ->
    frame_guard c d pf ->
    (exists c' w',
       core_apply_proof cr f pf c (mkWorld d j ev) = (c', w', Ok true) /\
       RCInv c' (w_disk w') (hold H (p_block pf)) /\
       t_length (c_tree c') = (if cs_upgraded cs then cs_length cs else t_length (c_tree c)) /\
       c_keypair c' = c_keypair c) \/
    some_collision cr \/ forged_signature cr bs (kp_public (c_keypair c)).
  Proof.
    intros [X Hclo] Hrd Ef V Cm Href Hblk Hanc Hnoup Hframe.
    pose proof Hrd as [Hok Hsb].
    pose proof (RDInv_RInv cr bs c d H X) as W.
    pose proof W as (Wr & Wf & Wroots & Wbl & Wu & Wfs & Wrl & Wheld).
    pose proof V as V0. unfold verifier_says in V0. cbn [w_disk] in V0.
    pose proof Hw as [Hw1 Hw2].
    assert (H64r : 2 * t_length (c_tree c) <= u64_max) by (unfold NODE_SIZE in Hw2; lia).
    (* 1. the block part *)
    assert (Hbp : exists c1 w1 bu, block_part pf c d cs c (mkWorld d j ev) = (c1, w1, Ok bu)).
    { unfold block_part. destruct (p_block pf) as [b|] eqn:Eb.
      - destruct (Hblk b eq_refl) as [Hleaf Hb64].
        destruct (offset_total cr bs (c_tree c) (d_tree d) (t_length (c_tree c)) Hclo Wroots
                    (replica_sound c d H X) H64r (db_index b) cs Hb64 Href Hleaf
                    (verify_proof_parent_later cr _ _ pf _ cs V0)) as (off & Hoff).
        rewrite mbind_lift, Hoff. rewrite mbind_emit_SW. unfold ret. eexists _, _, _. reflexivity.
      - unfold ret. eexists _, _, _. reflexivity. }
    destruct Hbp as (c1 & w1 & bu & Hbu).
    destruct (block_part_inv pf c d cs c _ c1 w1 bu Hbu) as (-> & Et1 & Eo1 & Eb1 & Ebu & Hw1').
    cbn [w_disk] in Et1, Eo1, Eb1.
    (* the signature of an upgraded changeset *)
    assert (Hsig : cs_upgraded cs = true ->
                   exists sg, cs_signature cs = Some sg /\ length sg = 64%nat /\ bytes_ok sg = true /\
                     cs_hash cs = Some (tree_hash cr (cs_roots cs)) /\
                     cr_verify cr (kp_public (c_keypair c))
                       (signable (tree_hash cr (cs_roots cs)) (cs_length cs) (cs_fork cs)) sg = true).
    { intros Up. destruct (p_upgrade pf) as [u|] eqn:Eu.
      - destruct (verify_proof_upgrade_sig cr _ _ pf _ cs u Eu V0) as (L & S & Hh' & Hv & _).
        exists (du_signature u). repeat split; assumption.
      - rewrite (Hnoup eq_refl) in Up. discriminate Up. }
    (* 2. log_and_commit *)
    assert (H32 : forall x, In x (cs_nodes cs) -> length (n_hash x) = 32%nat).
    { intros x Hx. rewrite Forall_forall in Href. rewrite (is_ref_T x (Href x Hx)). apply (T_hash32 cr Hhash32 bs). }
    assert (Hol : cs_upgraded cs = true -> cs_orig_length cs <= cs_ancestors cs).
    { intros Up. rewrite (Hanc Up). unfold commitable in Cm. rewrite Up in Cm.
      apply andb_true_iff in Cm. destruct Cm as [_ Cm]. lia. }
    destruct (log_and_commit_total cr Hhash32 Hnonblank cs bu c w1) as (c2 & w2 & Hlc);
      [intros Up; destruct (Hsig Up) as (sg & S1 & _ & _ & S2 & _); eauto|exact H32|exact Cm|exact Hol| |].
    { intros e h b He Hb. rewrite Ebu in He. apply (Hframe cs V0 e h b He Hb). }
    (* 3. the run without a flush, and the soundness of the state after the commit *)
    destruct (apply_without_flush cr pf c _ cs bu c w1 c2 w2 Ef V Cm Hbu Hlc) as (w2' & Hrun & Ed2).
    destruct (apply_keeps_replica_consistent_block_upgrade cr Hhash32 Hnonblank bs Hw (Some false) pf c d j ev _ w2'
                W Hok Hrun) as [W2|[C|F]]; [|right; left; exact C|right; right; exact F].
    rewrite Ed2 in W2.
    assert (W2' : SoundCore.RInv cr bs c2 (w_disk w2))
      by (apply (RInv_ext cr bs _ c2 _ (w_disk w2)) in W2; try reflexivity; exact W2).
    destruct (accepted_changeset_nodes cr Hhash32 Hnonblank bs Hw c d pf cs W Hok V0)
      as [(Hrm & Hmn & Hauth & Hanc')|[C|F]]; [|right; left; exact C|right; right; exact F].
    assert (Hbus : match bu with Some u => bu_drop u = false /\ bu_length u = 1 | None => True end).
    { rewrite Ebu. destruct (p_block pf); [split; reflexivity|exact I]. }
    destruct w1 as [d1 j1 ev1]. cbn [w_disk] in Et1, Eo1, Eb1.
    destruct (RDInv_commit cr Hcrc Hhash32 Hnonblank Hhashbytes bs Hw c d d1 H cs bu j1 ev1 c2 w2 tt
                X Et1 Eo1 Eb1 Hlc W2' Hrm Hmn Hauth Hanc' Hsig Hbus) as (X2 & Em & Ek2 & Et2 & _).
    (* 4. the flush decision *)
    destruct w2 as [d2 j2 ev2]. cbn [w_disk] in *.
    destruct (maybe_flush_R cr Hcrc Hhash32 Hnonblank Hhashbytes bs Hw f c2 d2 j2 ev2 _ X2)
      as (c' & d' & fl & Hmf & _ & X3 & El3 & Ek3 & _).
    destruct (sends_tail pf bu c' (mkWorld d' (rev fl ++ j2) ev2)) as (w' & Hsend & Edw).
    left. exists c', w'. split.
    { rewrite (apply_gates_pass cr f pf c _ cs Ef V Cm). unfold apply_tail.
      fold (block_part pf c (w_disk (mkWorld d j ev)) cs). cbn [w_disk].
      rewrite (mbind_eq _ _ _ _ _ _ _ Hbu), (mbind_eq _ _ _ _ _ _ _ Hlc), (mbind_eq _ _ _ _ _ _ _ Hmf).
      exact Hsend. }
    rewrite Edw. cbn [w_disk]. split; [split|].
    - apply (RDInv_ext cr bs c' d' (held_after H bu)); [|exact X3].
      intros i. unfold hold, held_after. rewrite Ebu. destruct (p_block pf) as [b|]; [|reflexivity].
      unfold upd_fun. cbn [bu_start bu_length bu_drop negb].
      destruct (N.eqb_spec i (db_index b)) as [->|Ne].
      + destruct (N.leb_spec (db_index b) (db_index b)) as [_|L]; [|lia].
        destruct (N.ltb_spec (db_index b) (db_index b + 1)) as [_|L]; [reflexivity|lia].
      + destruct ((db_index b <=? i) && (i <? db_index b + 1)) eqn:E; [lia|reflexivity].
    - (* the stored nodes are closed again *)
      destruct (log_and_commit_full cr cs bu c (mkWorld d1 j1 ev1) c2 _ tt Hlc) as (e & h1 & o' & fr & t' & _ & _ & TC & Ec2 & _).
      assert (Hnb : forall x, In x (cs_nodes cs) -> node_blank x = false).
      { intros x Hx. rewrite Forall_forall in Href. rewrite (is_ref_T x (Href x Hx)). apply (T_nonblank cr Hnonblank bs). }
      destruct (verify_commit_closed_gen cr (c_tree c) (d_tree d) pf _ cs t' Hclo
                  ltac:(intros x Hx; exists x; apply Wrl, Hx) V0 Hnb TC) as (Hclo2 & _ & _).
      assert (Et' : c_tree c2 = t') by (rewrite Ec2; reflexivity).
      rewrite <- Et', <- Et2 in Hclo2.
      pose proof (RDInv_RInv cr bs c2 d2 _ X2) as W2''.
      pose proof (maybe_flush_navail cr Hhash32 Hnonblank bs Hw f c2 d2 j2 ev2 c' _ tt W2'' Hmf) as Hnav.
      cbn [w_disk] in Hnav.
      destruct W2'' as (_ & _ & _ & _ & Hu2 & Hf2 & _).
      destruct (maybe_flush_inv cr Hhash32 Hnonblank bs Hw f c2 _ c' _ tt _ Hmf Hu2 Hf2) as (_ & _ & Hr3 & _).
      apply (ClosedR_ext (c_tree c2) (d_tree d2) (c_tree c') (d_tree d') Hr3 Hnav Hclo2).
    - split; [rewrite El3; exact Em|]. rewrite Ek3. exact Ek2.
  Qed.

  (* ---------- one replication round ---------- *)

  Lemma upgrade_none_not_upgraded t tf pf pk cs :
    verify_proof cr t tf pf pk = Ok cs -> p_upgrade pf = None -> cs_upgraded cs = false.
  Proof.
    destruct pf as [fk ob oh os ou]. cbn [p_upgrade]. intros Hv ->.
    apply (verify_proof_commitable_block_only cr t tf fk ob oh os pk cs Hv).
  Qed.

  Theorem replication_round f cw dw bw sg jw evw c d j ev H rq :
    let w := N.of_nat (length bw) in
    let pk := kp_public (c_keypair c) in
    writer_at cw dw bw pk sg ->
    RCInv c d H ->
    t_length (c_tree c) <= w ->
    wf_request bs (c_tree c) (d_tree d) w rq -> core_scope w rq ->
    (forall vp, create_valueless_proof (c_tree cw) (d_tree dw) (rq_block rq) (rq_hash rq) (rq_seek rq) (rq_upgrade rq) = Ok vp ->
                frame_guard c d (vp_to_proof vp (rq_value bs rq))) ->
    exists pf,
      core_create_proof (rq_block rq) (rq_hash rq) (rq_seek rq) (rq_upgrade rq) cw (mkWorld dw jw evw)
        = (cw, mkWorld dw jw evw, Ok (Some pf)) /\
      (forall i, hold H (p_block pf) i = match rq_block rq with Some b => (i =? rb_index b) || H i | None => H i end) /\
      ((exists c' w',
          core_apply_proof cr f pf c (mkWorld d j ev) = (c', w', Ok true) /\
          RCInv c' (w_disk w') (hold H (p_block pf)) /\
          t_length (c_tree c') = rq_target (c_tree c) (rq_upgrade rq) /\
          c_keypair c' = c_keypair c) \/
       some_collision cr \/ forged_signature cr bs pk).
  Proof.
    intros w pk ((rest & Ebs) & Ww & Hsg & Hs64 & Hsgb & Hver) RC Hrw Hwf Hscope Hfr.
    pose proof RC as [X Hclo].
    pose proof Ww as (HL & HB & HF & HR & Hlookw & Hun & Hbf & Hcg & Hdat & Hs & Hn). fold w in HL, HR, Hlookw.
    pose proof Hw as [Hw1 Hw2].
    assert (Hwl : w <= N.of_nat (length bs)) by (unfold w; rewrite Ebs, app_length; lia).
    assert (H64 : 2 * w <= u64_max) by (unfold NODE_SIZE in Hw2; lia).
    assert (Hlook : lookups cr (c_tree cw) (d_tree dw) bs w).
    { intros d0 o0 Hd. rewrite (Hlookw d0 o0 Hd), Ebs. f_equal. symmetry. apply ref_node_app. exact Hd. }
    assert (Hroots : t_roots (c_tree cw) = ref_roots cr bs w).
    { rewrite HR, Ebs. symmetry. apply ref_roots_app. unfold w. lia. }
    assert (Hver' : cr_verify cr pk (signable (tree_hash cr (ref_roots cr bs w)) w (t_fork (c_tree cw))) sg = true)
      by (rewrite HF; exact Hver).
    pose proof (RDInv_RInv cr bs c d H X) as W.
    pose proof W as (Wr & Wf & Wroots & Wbl & Wu & Wfs & Wrl & Wheld).
    (* the tree-level statement *)
    destruct (wellformed_request_accepted cr bs Hw1 (c_tree cw) (d_tree dw) w sg Hlook HL Hroots Hsg H64
                (c_tree c) (d_tree d) (t_length (c_tree c)) Wroots eq_refl Wbl Hrw (replica_rep c d H X)
                pk Hs64 Hver' rq Hwf) as (vp & cs & Hc & Vf & Bsh & Hv & Hcm & Href & Hout & Hdel).
    pose proof (scope_proof_ok cr Hhash32 Hhashbytes bs Hw (c_tree cw) (d_tree dw) w sg Hlook HL Hsg Hwl Hsgb
                  (c_tree c) (d_tree d) (t_length (c_tree c)) Wroots eq_refl Wbl Hrw (replica_rep c d H X)
                  pk Hs64 Hver' rq vp Hwf Hscope Hc) as Hrd.
    (* the requested block exists on the writer *)
    assert (Hblt : forall b, rq_block rq = Some b -> rb_index b < w).
    { intros [i k] Eb. destruct Hwf as [Hup Hnode]. rewrite Eb in Hnode.
      destruct Hscope as (Eh & _ & _). rewrite Eh in Hnode. cbn [rb_index rb_nodes] in Hnode |- *.
      destruct Hnode as [Hhi _]. rewrite p2_0 in Hhi.
      unfold rq_target in Hhi. unfold wf_upgrade in Hup. destruct (rq_upgrade rq) as [[s l]|]; cbn [ru_start ru_length] in *; lia. }
    assert (Eval : rq_value bw rq = rq_value bs rq).
    { unfold rq_value. destruct (rq_block rq) as [b|] eqn:Eb; [|reflexivity]. f_equal. rewrite Ebs. symmetry.
      apply blk_app_l. apply (Hblt b eq_refl). }
    set (pf := vp_to_proof vp (rq_value bs rq)).
    exists pf. split.
    { rewrite (writer_serves cw dw bw jw evw rq vp Ww Hc Bsh Hblt), Eval. reflexivity. }
    assert (Hpb : match rq_block rq with
                  | Some b => exists ns, p_block pf = Some (mkDataBlock (rb_index b) (blk bs (rb_index b)) ns)
                  | None => p_block pf = None
                  end).
    { unfold pf, vp_to_proof, rq_value, block_shape in *. cbn [p_block].
      destruct (rq_block rq) as [b|]; [destruct Bsh as (ns & ->); eauto|rewrite Bsh; reflexivity]. }
    split.
    { intros i. unfold hold. destruct (rq_block rq) as [b|]; [destruct Hpb as (ns & ->); reflexivity|rewrite Hpb; reflexivity]. }
    destruct (apply_tail_total f pf c d j ev H cs RC Hrd) as [(c' & w' & Hrun & RC' & Hlen & Hk)|Esc].
    - unfold pf, vp_to_proof. cbn [p_fork]. rewrite Vf, HF, Wf. reflexivity.
    - exact Hv.
    - exact Hcm.
    - exact Href.
    - intros b Eb. unfold delivered in Hdel. destruct (rq_block rq) as [rb|] eqn:Erb.
      + destruct Hpb as (ns & Epb). rewrite Epb in Eb. injection Eb as <-. cbn [db_index].
        split; [exact Hdel|]. pose proof (Hblt rb eq_refl). lia.
      + rewrite Hpb in Eb. discriminate Eb.
    - intros Up. unfold outcome in Hout. destruct (rq_upgrade rq); [tauto|]. destruct Hout as [U _]. congruence.
    - apply (upgrade_none_not_upgraded _ _ pf _ cs Hv).
    - apply (Hfr vp Hc).
    - left. exists c', w'. split; [exact Hrun|]. split; [exact RC'|]. split; [|exact Hk].
      rewrite Hlen. unfold outcome in Hout. unfold rq_target. destruct Hscope as (_ & _ & Hfull).
      destruct (rq_upgrade rq) as [u|].
      + destruct Hout as (U & _ & L & _). rewrite U, L. symmetry. exact Hfull.
      + destruct Hout as [U _]. rewrite U. reflexivity.
    - right. exact Esc.
  Qed.
End Round.

Print Assumptions apply_tail_total.
Print Assumptions replication_round.

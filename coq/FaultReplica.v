(* FaultReplica.v -- C10 (a storage error surfaces and is recoverable) for proof application on replicas and for
   make_read_only; C13 "a failed call emits nothing" in the fault semantics; a failing storage operation during
   the open itself.
   A. core_apply_proof and core_make_read_only with the storage emitter as an argument (as core_append_E of
      CrashClear4.v); fsim for them, so CrashClear4.fault_is_cut / fault_beyond_end apply.
   B. C13 for the _E variants of append / clear / apply_proof / make_read_only: with ANY emitter that sends no event
      (in particular emit_lim limit for every limit, i.e. a fault at every storage operation) the events of a call are
      exactly those of CoreFacts.append_events / apply_events: nothing unless the call answers Ok.
   C. failed_apply_recovers (with ReplicaDisk4.apply_crash_recovers), failed_make_read_only_recovers (writers,
      ReadOnlyClear.v), failed_replica_make_read_only_recovers (replicas, ReplicaMiscB.v).
   D. the open with a failing storage operation (core_open_F): repair open of a writer / replica disk, creation.
   E. fsimA: the fault simulation for EVERY fault-free outcome; an injected fault surfaces as Err IOErr or not at all. *)
From HC Require Import Base NMap Codec CodecFacts Crypto FlatTree Storage Bitfield Oplog Merkle Core.
From HC Require Import FlatTreeFacts StorageFacts BitfieldFacts OplogFacts TreeRef OffsetFacts CoreFacts Crash Refine.
From HC Require Import ClearRefine Reopen ContigBridge Unified1 Unified2 CrashCore1 CrashCore2 CrashCore3 Fault.
From HC Require Import CrashClear1 CrashClear2 CrashClear4.
From HC Require Import Sound NoPanic Replicate SoundCoreLib SoundCore SoundCoreUp SoundCoreBU.
From HC Require Import ReplicaDisk1 ReplicaDisk2 ReplicaDisk3 ReplicaDisk4 ReplicaDisk5 ReplicaDisk6 ReplicaDisk7.
From HC Require Import ReadOnly ReadOnlyClear ReplicaMiscB.
From HC Require EventsAvail.
From Coq Require Import FMapPositive ZifyN ZifyNat ZifyBool.
Ltac Zify.zify_post_hook ::= Z.div_mod_to_equations.
Arguments N.add : simpl never.
Arguments N.sub : simpl never.
Arguments N.mul : simpl never.
Arguments N.div : simpl never.
Arguments N.modulo : simpl never.
Arguments N.pow : simpl never.
Arguments N.eqb : simpl never.
Arguments N.ltb : simpl never.
Arguments N.leb : simpl never.
Arguments N.max : simpl never.
Arguments N.min : simpl never.
Arguments N.of_nat : simpl never.
Arguments N.to_nat : simpl never.

(* ====================================================================================== *)
(* A. The two operations with the storage emitter as an argument                            *)
(* ====================================================================================== *)

(* Core.core_apply_proof / core_make_read_only with [emit] replaced by an argument E; with E := emit they are the
   definitions of Core.v (lemmas *_E_emit, by reflexivity) *)
Section WithEmitter.
  Variable cr : crypto.
  Variable E : list sop -> M unit.

  Definition core_apply_proof_E (forced : option bool) (pf : proof) : M bool :=
    c <-- get_core ;;;
    if negb (p_fork pf =? t_fork (c_tree c)) then ret false
    else
      d <-- get_disk ;;;
      cs <-- lift (verify_proof cr (c_tree c) (d_tree d) pf (kp_public (c_keypair c))) ;;;
      if negb (commitable (c_tree c) cs) then ret false
      else
        bu <-- (match p_block pf with
                | Some b =>
                    off <-- lift (byte_offset_in_changeset (c_tree c) (d_tree d) (db_index b) cs) ;;;
                    E [SW Data off (db_value b)] ;;;
                    ret (Some (mkBfUpdate false (db_index b) 1))
                | None => ret None
                end) ;;;
        log_and_commit_E cr E cs bu ;;;
        maybe_flush_E cr E forced ;;;
        (match p_upgrade pf with Some _ => send EvUpgrade | None => ret tt end) ;;;
        (match bu with Some u => send (EvHave (bu_start u) (bu_length u) false) | None => ret tt end) ;;;
        ret true.

  Definition core_make_read_only_E : M bool :=
    c <-- get_core ;;;
    let changed := match kp_secret (c_keypair c) with Some _ => true | None => false end in
    put_keypair (mkKeypair (kp_public (c_keypair c)) None) ;;;
    put_header (set_keypair (c_header c) (mkKeypair (kp_public (hd_keypair (c_header c))) None)) ;;;
    flush_all_E cr E true ;;;
    ret changed.
End WithEmitter.

Lemma core_apply_proof_E_emit cr f pf : core_apply_proof_E cr emit f pf = core_apply_proof cr f pf.
Proof. reflexivity. Qed.
Lemma core_make_read_only_E_emit cr : core_make_read_only_E cr emit = core_make_read_only cr.
Proof. reflexivity. Qed.

Lemma fsim_put_keypair limit k : fsim limit (put_keypair k) (put_keypair k).
Proof. apply fsim_same. intros c w c' w' r H. now prim_inv H. Qed.

Ltac fsim_tac2 :=
  repeat first [ fsim_prim | apply fsim_put_keypair | hyp | apply fsim_bind; [|intros ?] | fsim_case ].

Section FaultyOps.
  Variable cr : crypto.
  Variable limit : nat.

  Lemma core_apply_proof_fsim f pf :
    fsim limit (core_apply_proof cr f pf) (core_apply_proof_E cr (emit_lim limit) f pf).
  Proof.
    pose proof (maybe_flush_fsim cr limit). pose proof (log_and_commit_fsim cr limit).
    unfold core_apply_proof, core_apply_proof_E. fsim_tac2.
  Qed.

  Lemma core_make_read_only_fsim :
    fsim limit (core_make_read_only cr) (core_make_read_only_E cr (emit_lim limit)).
  Proof.
    pose proof (flush_all_fsim cr limit).
    unfold core_make_read_only, core_make_read_only_E. fsim_tac2.
  Qed.
End FaultyOps.


(* ====================================================================================== *)
(* B. C13 in the fault semantics: a call that does not answer Ok sends no event            *)
(* ====================================================================================== *)

(* the failing emitter sends no event, whatever the position of the fault *)
Lemma silent_emit_lim limit ops : silent (emit_lim limit ops).
Proof.
  induction ops as [|o ops IH]; intros c w c' w' r H.
  - cbn [emit_lim] in H. now prim_inv H.
  - cbn [emit_lim] in H. destruct (length (w_journal w) =? limit)%nat.
    + now inversion H.
    + destruct (apply_sop (w_disk w) o) as [d'|]; [|now inversion H].
      apply IH in H. exact H.
Qed.

Lemma silent_emit_fail k ops : silent (emit_fail k ops).
Proof.
  revert k. induction ops as [|o ops IH]; intros k c w c' w' r H.
  - destruct k; cbn [emit_fail] in H; now prim_inv H.
  - destruct k as [|k]; cbn [emit_fail] in H.
    + now prim_inv H.
    + destruct (apply_sop (w_disk w) o) as [d'|]; [|now inversion H].
      apply IH in H. exact H.
Qed.

Section EventsE.
  Variable cr : crypto.
  Variable E : list sop -> M unit.
  Hypothesis HE : forall ops, silent (E ops).

  Lemma flush_all_E_silent ct : silent (flush_all_E cr E ct).
  Proof. unfold flush_all_E. silent_tac. Qed.
  Lemma maybe_flush_E_silent f : silent (maybe_flush_E cr E f).
  Proof. pose proof flush_all_E_silent. unfold maybe_flush_E. silent_tac. Qed.
  Lemma log_and_commit_E_silent cs bu : silent (log_and_commit_E cr E cs bu).
  Proof. unfold log_and_commit_E. silent_tac. Qed.

  (* clear and make_read_only never send an event, failing or not *)
  Theorem clear_E_events f s e : silent (core_clear_E cr E f s e).
  Proof. pose proof maybe_flush_E_silent. unfold core_clear_E. silent_tac. Qed.

  Theorem make_read_only_E_events : silent (core_make_read_only_E cr E).
  Proof. pose proof flush_all_E_silent. unfold core_make_read_only_E. silent_tac. Qed.

  (* append: the statement of CoreFacts.append_events, for every silent emitter *)
  Theorem append_E_events f batch c w c' w' r :
    core_append_E cr E f batch c w = (c', w', r) ->
    w_events w' = (match r, batch with
                   | Ok _, _ :: _ => [EvHave (t_length (c_tree c)) (N.of_nat (length batch)) false; EvUpgrade]
                   | _, _ => []
                   end) ++ w_events w.
  Proof.
    pose proof maybe_flush_E_silent as S1. pose proof log_and_commit_E_silent as S2.
    unfold core_append_E. rewrite mbind_get_core. intros H.
    destruct (kp_secret (c_keypair c)) as [sk|].
    2:{ prim_inv H. reflexivity. }
    destruct batch as [|d batch].
    { rewrite mbind_ret, mbind_get_core in H. prim_inv H. reflexivity. }
    set (B := d :: batch) in *.
    match type of H with
    | ?m c w = _ =>
        assert (Em : emits m (fun _ => [EvHave (t_length (c_tree c)) (N.of_nat (length B)) false; EvUpgrade]))
    end.
    { eapply emits_then_sender with (E2 := []); [ | | intros; reflexivity ].
      2:{ intros _ c1 w1. do 3 eexists. split; reflexivity. }
      apply emits_bind_post with
        (Q := fun cs => cs_ancestors cs = t_length (c_tree c) /\ cs_batch_length cs = N.of_nat (length B)).
      - silent_tac.
      - intros c1 w1 c2 w2 cs Hl. apply (f_equal snd) in Hl. cbn [snd lift] in Hl.
        apply cs_append_all_fields in Hl.
        cbn [tree_changeset cs_ancestors cs_batch_length] in Hl. now rewrite N.add_0_l in Hl.
      - intros cs [HA HB].
        apply emits_bind; [apply HE | intros _].
        apply emits_bind; [apply S2 | intros _].
        apply emits_bind; [apply S1 | intros _].
        eapply sender_emits; [ | intros; reflexivity ].
        intros c1 w1. do 3 eexists. split; [reflexivity|].
        cbn [w_events bu_start bu_length cs_hash_and_sign cs_set_hash_sig cs_ancestors cs_batch_length app].
        now rewrite HA, HB. }
    apply Em in H. rewrite H. now destruct r.
  Qed.

  (* apply_proof: the statement of CoreFacts.apply_events, for every silent emitter *)
  Theorem apply_E_events f pf c w c' w' r :
    core_apply_proof_E cr E f pf c w = (c', w', r) ->
    w_events w' = (match r with
                   | Ok true => (match p_block pf with Some b => [EvHave (db_index b) 1 false] | None => [] end)
                                ++ (match p_upgrade pf with Some _ => [EvUpgrade] | None => [] end)
                   | _ => []
                   end) ++ w_events w.
  Proof.
    pose proof maybe_flush_E_silent as S1. pose proof log_and_commit_E_silent as S2.
    set (X := (match p_block pf with Some b => [EvHave (db_index b) 1 false] | None => [] end)
              ++ (match p_upgrade pf with Some _ => [EvUpgrade] | None => [] end)).
    assert (Em : emits (core_apply_proof_E cr E f pf) (fun b : bool => if b then X else [])).
    { unfold core_apply_proof_E.
      apply emits_bind; [silent_tac | intros c0].
      destruct (negb (p_fork pf =? t_fork (c_tree c0))); [now apply emits_ret|].
      apply emits_bind; [silent_tac | intros d].
      apply emits_bind; [silent_tac | intros cs].
      destruct (negb (commitable (c_tree c0) cs)); [now apply emits_ret|].
      apply emits_bind_post with
        (Q := fun bu => bu = match p_block pf with
                             | Some b => Some (mkBfUpdate false (db_index b) 1)
                             | None => None
                             end).
      - silent_tac.
      - intros c1 w1 c2 w2 bu Hb. destruct (p_block pf) as [b|].
        + mstep Hb. mstep Hb. now prim_inv Hb.
        + now prim_inv Hb.
      - intros bu ->.
        apply emits_bind; [apply S2 | intros _].
        apply emits_bind; [apply S1 | intros _].
        apply sender_val_emits with (b := true) (E0 := X); [|reflexivity].
        intros c1 w1. subst X.
        destruct (p_upgrade pf) as [u|], (p_block pf) as [b|]; do 2 eexists; split; reflexivity. }
    intros H. apply Em in H. rewrite H. destruct r as [[|]| | |]; reflexivity.
  Qed.

  (* C13, the clause about failures, in one statement: whichever of the four calls, if the answer is not Ok the
     events are those of before the call *)
  Corollary failed_call_E_emits_nothing :
    (forall f batch c w c' w' r,
       core_append_E cr E f batch c w = (c', w', r) -> Base.is_ok r = false -> w_events w' = w_events w) /\
    (forall f s e c w c' w' r,
       core_clear_E cr E f s e c w = (c', w', r) -> w_events w' = w_events w) /\
    (forall f pf c w c' w' r,
       core_apply_proof_E cr E f pf c w = (c', w', r) -> Base.is_ok r = false -> w_events w' = w_events w) /\
    (forall c w c' w' r,
       core_make_read_only_E cr E c w = (c', w', r) -> w_events w' = w_events w).
  Proof.
    split; [|split; [|split]].
    - intros f batch c w c' w' r H Hr. apply append_E_events in H. rewrite H.
      destruct r; [discriminate Hr|reflexivity..].
    - intros f s e c w c' w' r H. apply (clear_E_events f s e) in H. exact H.
    - intros f pf c w c' w' r H Hr. apply apply_E_events in H. rewrite H.
      destruct r; [discriminate Hr|reflexivity..].
    - intros c w c' w' r H. apply make_read_only_E_events in H. exact H.
  Qed.
End EventsE.

(* C13 for a fault at storage operation number k of the call, EVERY k (also k beyond the end of the journal, where
   nothing fails): a call that does not answer Ok has sent nothing *)
Theorem failed_call_emits_nothing cr limit :
  (forall f batch c w c' w' r,
     core_append_E cr (emit_lim limit) f batch c w = (c', w', r) -> Base.is_ok r = false -> w_events w' = w_events w) /\
  (forall f s e c w c' w' r,
     core_clear_E cr (emit_lim limit) f s e c w = (c', w', r) -> w_events w' = w_events w) /\
  (forall f pf c w c' w' r,
     core_apply_proof_E cr (emit_lim limit) f pf c w = (c', w', r) -> Base.is_ok r = false -> w_events w' = w_events w) /\
  (forall c w c' w' r,
     core_make_read_only_E cr (emit_lim limit) c w = (c', w', r) -> w_events w' = w_events w).
Proof. apply failed_call_E_emits_nothing. intros ops. apply silent_emit_lim. Qed.

(* a fault position beyond the journal of the call: the call runs as without faults, so in particular it sends
   exactly the fault-free events (the whole outcome is the fault-free one) *)
Theorem beyond_end_same_events cr :
  (forall f batch k c d j ev c' w' x delta,
     core_append cr f batch c (mkWorld d j ev) = (c', w', Ok x) -> w_journal w' = rev delta ++ j ->
     (length delta <= k)%nat ->
     core_append_E cr (emit_lim (length j + k)) f batch c (mkWorld d j ev) = (c', w', Ok x)) /\
  (forall f s e k c d j ev c' w' x delta,
     core_clear cr f s e c (mkWorld d j ev) = (c', w', Ok x) -> w_journal w' = rev delta ++ j ->
     (length delta <= k)%nat ->
     core_clear_E cr (emit_lim (length j + k)) f s e c (mkWorld d j ev) = (c', w', Ok x)) /\
  (forall f pf k c d j ev c' w' x delta,
     core_apply_proof cr f pf c (mkWorld d j ev) = (c', w', Ok x) -> w_journal w' = rev delta ++ j ->
     (length delta <= k)%nat ->
     core_apply_proof_E cr (emit_lim (length j + k)) f pf c (mkWorld d j ev) = (c', w', Ok x)) /\
  (forall k c d j ev c' w' x delta,
     core_make_read_only cr c (mkWorld d j ev) = (c', w', Ok x) -> w_journal w' = rev delta ++ j ->
     (length delta <= k)%nat ->
     core_make_read_only_E cr (emit_lim (length j + k)) c (mkWorld d j ev) = (c', w', Ok x)).
Proof.
  split; [|split; [|split]].
  - intros f batch k c d j ev c' w' x delta H Hj Hk.
    exact (fault_beyond_end _ _ k c d j ev c' w' x delta (core_append_fsim cr _ f batch) H Hj Hk).
  - intros f s e k c d j ev c' w' x delta H Hj Hk.
    exact (fault_beyond_end _ _ k c d j ev c' w' x delta (core_clear_fsim cr _ f s e) H Hj Hk).
  - intros f pf k c d j ev c' w' x delta H Hj Hk.
    exact (fault_beyond_end _ _ k c d j ev c' w' x delta (core_apply_proof_fsim cr _ f pf) H Hj Hk).
  - intros k c d j ev c' w' x delta H Hj Hk.
    exact (fault_beyond_end _ _ k c d j ev c' w' x delta (core_make_read_only_fsim cr _) H Hj Hk).
Qed.

(* ====================================================================================== *)
(* C. C10: the failed call answers the error, leaves a cut, and the cut reopens             *)
(* ====================================================================================== *)

(* ---------- C1. proof application on a replica ---------- *)

Section FailedApply.
  Variable cr : crypto.
  Hypothesis Hcrc : crc_ok cr.
  Hypothesis Hhash32 : forall x, length (cr_hash cr x) = 32%nat.
  Hypothesis Hnonblank : forall x, all_zero (cr_hash cr x) = false.
  Hypothesis Hhashbytes : forall x, bytes_ok (cr_hash cr x) = true.
  Variable bs : list bytes.
  Hypothesis Hw : writer_fits bs.

  (* storage operation number k (0-based) of an accepted proof application fails: the call answers the I/O error and
     has sent no event; journal and disk are the cut of the fault-free journal at k; dropping the instance and
     reopening succeeds and gives -- unless the hash collides or the signature is forged -- a replica with the
     invariant and the observations of BEFORE the call (k <= commit_point: at most the data write had happened) or
     of AFTER it (the entry write had happened), with the old key pair *)
  Theorem failed_apply_recovers f pf c d j ev H c' w' delta k :
    RDInv cr bs c d H -> rd_proof_ok pf ->
    core_apply_proof cr f pf c (mkWorld d j ev) = (c', w', Ok true) ->
    w_journal w' = rev delta ++ j -> (k < length delta)%nat ->
    exists ck wk,
      core_apply_proof_E cr (emit_lim (length j + k)) f pf c (mkWorld d j ev) = (ck, wk, Err IOErr) /\
      w_journal wk = rev (firstn k delta) ++ j /\ apply_sops d (firstn k delta) = Some (w_disk wk) /\
      w_events wk = ev /\
      ((exists c2 d2 rops,
          core_open cr None true (w_disk wk) = (d2, rops, Ok c2) /\
          c_keypair c2 = c_keypair c /\
          if (k <=? commit_point pf)%nat
          then RDInv cr bs c2 d2 H /\ obs_replica bs c2 d2 H (t_length (c_tree c)) /\
               t_length (c_tree c2) = t_length (c_tree c)
          else RDInv cr bs c2 d2 (hold H (p_block pf)) /\
               obs_replica bs c2 d2 (hold H (p_block pf)) (t_length (c_tree c')) /\
               t_length (c_tree c2) = t_length (c_tree c')) \/
       some_collision cr \/ forged_signature cr bs (kp_public (c_keypair c))).
  Proof.
    intros X Hrd Happ Hj Hk.
    destruct (fault_is_cut _ _ k c d j ev c' w' true delta (core_apply_proof_fsim cr _ f pf) Happ Hj Hk)
      as (ck & wk & Ef & Jk & Dk).
    exists ck, wk. split; [exact Ef|]. split; [exact Jk|]. split; [exact Dk|].
    split.
    { destruct (failed_call_emits_nothing cr (length j + k)) as (_ & _ & Hev & _).
      apply (Hev f pf c (mkWorld d j ev) ck wk (Err IOErr) Ef eq_refl). }
    destruct (apply_crash_recovers cr Hcrc Hhash32 Hnonblank Hhashbytes bs Hw f pf c d j ev H c' w' X Hrd Happ)
      as [(ops & Hj' & _ & Hcuts)|[C|F]]; [left|right; left; exact C|right; right; exact F].
    assert (Eops : ops = delta) by (rewrite Hj' in Hj; apply (journal_unique _ _ j Hj)).
    subst ops.
    destruct (Hcuts k) as (dk & Ak & c2 & d2 & rops & Eo & K & Hcase).
    rewrite Dk in Ak. injection Ak as <-.
    exists c2, d2, rops. split; [exact Eo|]. split; [exact K|exact Hcase].
  Qed.

  (* a refused proof (Ok false) issues no storage operation: with a fault at any position the call is the
     fault-free call (which changes nothing at all: EventsAvail.apply_refused) *)
  Theorem refused_apply_no_fault f pf c d j ev c' w' k :
    core_apply_proof cr f pf c (mkWorld d j ev) = (c', w', Ok false) ->
    core_apply_proof_E cr (emit_lim (length j + k)) f pf c (mkWorld d j ev) = (c, mkWorld d j ev, Ok false).
  Proof.
    intros Happ.
    destruct (EventsAvail.apply_refused cr f pf c (mkWorld d j ev) c' w' Happ) as [-> ->].
    apply (fault_beyond_end _ _ k c d j ev c (mkWorld d j ev) false [] (core_apply_proof_fsim cr _ f pf) Happ);
      [reflexivity|cbn [length]; lia].
  Qed.
End FailedApply.

(* ---------- C2. make_read_only on a writer (or any core satisfying YInv) ---------- *)

Section FailedReadOnlyY.
  Variable cr : crypto.
  Hypothesis Hcrc : crc_ok cr.
  Hypothesis Hhash32 : forall x, length (cr_hash cr x) = 32%nat.
  Hypothesis Hnonblank : forall x, all_zero (cr_hash cr x) = false.
  Hypothesis Hhashbytes : forall x, bytes_ok (cr_hash cr x) = true.

  (* the journal of the call is ro_ops cr c (pages, nodes, slot, truncate, slot, truncate).  Its storage operation
     number k fails: the call answers the I/O error, no event; the disk is the cut at k; the reopen succeeds with
     the invariant for the same blocks and the same cleared set and every read as before the call; the recovered
     core has the key pair of BEFORE the call (k <= ro_np c: no header slot had been written) or is read-only as
     AFTER the call (a header slot had been written); and a second call on the recovered core completes and leaves
     no secret in either header slot *)
  Theorem failed_make_read_only_recovers c d j ev bs cl k :
    YInv cr c d bs cl -> (k < length (ro_ops cr c))%nat ->
    exists ck wk,
      core_make_read_only_E cr (emit_lim (length j + k)) c (mkWorld d j ev) = (ck, wk, Err IOErr) /\
      w_journal wk = rev (firstn k (ro_ops cr c)) ++ j /\
      apply_sops d (firstn k (ro_ops cr c)) = Some (w_disk wk) /\
      w_events wk = ev /\
      exists d2 rops c2,
        core_open cr None true (w_disk wk) = (d2, rops, Ok c2) /\
        (rops = [] /\ d2 = w_disk wk \/ rops = [ST Oplog ENTRIES_OFFSET]) /\
        YInv cr c2 d2 bs cl /\ obs_cleared c2 d2 bs cl /\ same_reads c d c2 d2 /\
        kp_public (c_keypair c2) = kp_public (c_keypair c) /\
        ((k <= ro_np c)%nat ->
           c_keypair c2 = c_keypair c /\ i_writeable (core_info c2) = i_writeable (core_info c)) /\
        ((ro_np c < k)%nat ->
           c_keypair c2 = mkKeypair (kp_public (c_keypair c)) None /\ i_writeable (core_info c2) = false) /\
        forall j2 ev2, exists c3 d3,
          core_make_read_only cr c2 (mkWorld d2 j2 ev2) =
            (c3, mkWorld d3 (rev (ro_ops cr c2) ++ j2) ev2, Ok (i_writeable (core_info c2))) /\
          f_content (d_oplog d3) = ro_oplog_file cr c2 /\
          YInv cr c3 d3 bs cl /\ same_reads c d c3 d3 /\
          kp_secret (c_keypair c3) = None /\ kp_secret (hd_keypair (c_header c3)) = None.
  Proof.
    intros X Hk.
    destruct (make_read_only_Y cr Hhash32 Hnonblank Hhashbytes c d j ev bs cl X) as (d' & Erun & _).
    destruct (fault_is_cut _ _ k c d j ev _ _ _ (ro_ops cr c) (core_make_read_only_fsim cr _) Erun eq_refl Hk)
      as (ck & wk & Ef & Jk & Dk).
    exists ck, wk. split; [exact Ef|]. split; [exact Jk|]. split; [exact Dk|].
    split.
    { destruct (failed_call_emits_nothing cr (length j + k)) as (_ & _ & _ & Hev).
      apply (Hev c (mkWorld d j ev) ck wk (Err IOErr) Ef). }
    destruct (make_read_only_crash_Y cr Hcrc Hhash32 Hnonblank Hhashbytes c d bs cl k X)
      as (dk & Ak & d2 & rops & c2 & Eo & _ & _ & _ & Hops & X2 & O2 & SR & _ & Kp & K1 & K2).
    rewrite Dk in Ak. injection Ak as <-.
    exists d2, rops, c2. split; [exact Eo|]. split; [exact Hops|]. split; [exact X2|]. split; [exact O2|].
    split; [exact SR|]. split; [exact Kp|]. split; [exact K1|]. split; [exact K2|].
    intros j2 ev2.
    destruct (make_read_only_Y cr Hhash32 Hnonblank Hhashbytes c2 d2 j2 ev2 bs cl X2)
      as (d3 & E3 & _ & X3 & _ & Hc3 & _).
    exists (ro_core c2), d3. split; [exact E3|]. split; [exact Hc3|]. split; [exact X3|].
    split.
    { apply (obs_cleared_same_reads _ _ _ _ bs cl); [apply (YInv_observations cr c d bs cl X)|].
      apply (YInv_observations cr _ d3 bs cl X3). }
    split; reflexivity.
  Qed.
End FailedReadOnlyY.

(* ---------- C3. make_read_only on a replica ---------- *)

Section FailedReadOnlyR.
  Variable cr : crypto.
  Hypothesis Hcrc : crc_ok cr.
  Hypothesis Hhash32 : forall x, length (cr_hash cr x) = 32%nat.
  Hypothesis Hnonblank : forall x, all_zero (cr_hash cr x) = false.
  Hypothesis Hhashbytes : forall x, bytes_ok (cr_hash cr x) = true.
  Variable bs : list bytes.
  Hypothesis Hw : writer_fits bs.

  (* on a replica the call changes no observation, so "before" and "after" coincide: the reopened replica has the
     invariant for the same held set, the same key pair, the same length and the same reads *)
  Theorem failed_replica_make_read_only_recovers c d j ev H k :
    RDInv cr bs c d H -> (k < length (ro_ops cr c))%nat ->
    exists ck wk,
      core_make_read_only_E cr (emit_lim (length j + k)) c (mkWorld d j ev) = (ck, wk, Err IOErr) /\
      w_journal wk = rev (firstn k (ro_ops cr c)) ++ j /\
      apply_sops d (firstn k (ro_ops cr c)) = Some (w_disk wk) /\
      w_events wk = ev /\
      exists c2 d2 rops,
        core_open cr None true (w_disk wk) = (d2, rops, Ok c2) /\
        RDInv cr bs c2 d2 H /\ obs_replica bs c2 d2 H (t_length (c_tree c)) /\
        c_keypair c2 = c_keypair c /\ t_length (c_tree c2) = t_length (c_tree c) /\
        core_info c2 = core_info c /\
        (forall i, core_has c2 i = core_has c i) /\
        (forall i j' ev', snd (core_get i c2 (mkWorld d2 j' ev')) = snd (core_get i c (mkWorld d j' ev'))).
  Proof.
    intros X Hk.
    destruct (replica_make_read_only_crash_recovers cr Hcrc Hhash32 Hnonblank Hhashbytes bs Hw c d j ev H X)
      as (ops & d' & Erun & -> & _ & Hcuts).
    destruct (fault_is_cut _ _ k c d j ev _ _ _ (ro_ops cr c) (core_make_read_only_fsim cr _) Erun eq_refl Hk)
      as (ck & wk & Ef & Jk & Dk).
    exists ck, wk. split; [exact Ef|]. split; [exact Jk|]. split; [exact Dk|].
    split.
    { destruct (failed_call_emits_nothing cr (length j + k)) as (_ & _ & _ & Hev).
      apply (Hev c (mkWorld d j ev) ck wk (Err IOErr) Ef). }
    destruct (Hcuts k) as (dk & Ak & _ & c2 & d2 & rops & Eo & X2 & O2 & K2 & L2 & I1 & I2 & I3 & _).
    rewrite Dk in Ak. injection Ak as <-.
    exists c2, d2, rops. repeat (split; [assumption|]). exact I3.
  Qed.
End FailedReadOnlyR.

(* ====================================================================================== *)
(* D. A storage operation that fails during the open itself                                 *)
(* ====================================================================================== *)

(* Hypercore::new issues its repair / creation writes (Oplog::open's infos_to_flush) through the same
   Storage::flush_infos.  core_open_F k is core_open with an I/O error at storage operation number k of these: when
   the open has more than k operations to issue, the first k are applied, the error is answered and no core is
   built; otherwise it is core_open.  (core_open reads its stores through total functions of the disk value -- the
   model has no failing READ; a failing read leaves the disk at a cut of the same journal, because reads write
   nothing, so the disks it can leave are the ones covered here and by the cut theorems.) *)
Definition core_open_F (cr : crypto) (k : nat) (kp : option keypair) (open_flag : bool) (d : disk)
  : disk * list sop * res core :=
  match (if open_flag then match kp with Some _ => Err BadArgument | None => Ok None end else Ok kp) with
  | Err e => (d, [], Err e)
  | Panic s => (d, [], Panic s)
  | OutOfFuel => (d, [], OutOfFuel)
  | Ok key_pair =>
      match oplog_open cr key_pair (f_content (d_oplog d)) with
      | Ok oo =>
          if (k <? length (oo_ops oo))%nat then
            match apply_sops d (firstn k (oo_ops oo)) with
            | Some dk => (dk, firstn k (oo_ops oo), Err IOErr)
            | None => (d, [], Err InvalidOperation)
            end
          else core_open cr kp open_flag d
      | _ => core_open cr kp open_flag d
      end
  end.

(* the tie to the fault semantics of the calls: what core_open_F does with the operations of the open is what
   Fault.emit_fail (Storage::flush_infos with an error at operation k) does with them *)
Lemma emit_fail_firstn ops : forall k c d j ev dk,
  (k < length ops)%nat -> apply_sops d (firstn k ops) = Some dk ->
  emit_fail k ops c (mkWorld d j ev) = (c, mkWorld dk (rev (firstn k ops) ++ j) ev, Err IOErr).
Proof.
  induction ops as [|o ops IH]; intros k c d j ev dk Hk Ha; [cbn [length] in Hk; lia|].
  destruct k as [|k].
  - cbn [firstn apply_sops] in Ha. injection Ha as <-. reflexivity.
  - cbn [firstn apply_sops] in Ha. cbn [emit_fail w_disk w_journal w_events].
    destruct (apply_sop d o) as [d1|]; [|discriminate Ha].
    cbn [length] in Hk. rewrite (IH k c d1 (o :: j) ev dk ltac:(lia) Ha).
    cbn [firstn rev]. rewrite <- app_assoc. reflexivity.
Qed.

Section OpenFault.
  Variable cr : crypto.

  (* the fault position is beyond the operations of the open: nothing fails *)
  Theorem core_open_F_beyond k kp flag d d' ops r :
    core_open cr kp flag d = (d', ops, r) -> (length ops <= k)%nat -> (ops <> [] \/ exists c, r = Ok c) ->
    core_open_F cr k kp flag d = (d', ops, r).
  Proof.
    intros H Hk Hr. unfold core_open_F. rewrite H. unfold core_open in H.
    destruct (if flag then match kp with Some _ => Err BadArgument | None => Ok None end else Ok kp) as [key| | |];
      try exact H.
    destruct (oplog_open cr key (f_content (d_oplog d))) as [oo| | |]; try reflexivity.
    destruct (apply_sops d (oo_ops oo)) as [d1|] eqn:Ea.
    - injection H as _ <- _.
      destruct (Nat.ltb_spec k (length (oo_ops oo))) as [L|L]; [lia|reflexivity].
    - injection H as _ <- <-. exfalso. destruct Hr as [Hr|[c Hr]]; [apply Hr; reflexivity|discriminate Hr].
  Qed.

  (* storage operation number k of the open fails: the error is answered, the disk is the cut at k of the operations
     the fault-free open reports *)
  Theorem core_open_F_cut k kp flag d d' ops r :
    core_open cr kp flag d = (d', ops, r) -> (k < length ops)%nat ->
    exists dk, apply_sops d (firstn k ops) = Some dk /\
               core_open_F cr k kp flag d = (dk, firstn k ops, Err IOErr) /\
               forall c j ev, emit_fail k ops c (mkWorld d j ev) =
                              (c, mkWorld dk (rev (firstn k ops) ++ j) ev, Err IOErr).
  Proof.
    intros H Hk. unfold core_open_F. unfold core_open in H.
    destruct (if flag then match kp with Some _ => Err BadArgument | None => Ok None end else Ok kp) as [key| | |];
      try (injection H as _ <- _; cbn [length] in Hk; lia).
    destruct (oplog_open cr key (f_content (d_oplog d))) as [oo| | |];
      try (injection H as _ <- _; cbn [length] in Hk; lia).
    destruct (apply_sops d (oo_ops oo)) as [d1|] eqn:Ea; [|injection H as _ <- _; cbn [length] in Hk; lia].
    injection H as _ <- _.
    destruct (Fault.apply_sops_prefix d (oo_ops oo) d1 k Ea) as (dk & Ak & _).
    exists dk. split; [exact Ak|].
    destruct (Nat.ltb_spec k (length (oo_ops oo))) as [L|L]; [|lia].
    rewrite Ak. split; [reflexivity|].
    intros c j ev. apply emit_fail_firstn; assumption.
  Qed.

  Hypothesis Hcrc : crc_ok cr.
  Hypothesis Hhash32 : forall x, length (cr_hash cr x) = 32%nat.
  Hypothesis Hnonblank : forall x, all_zero (cr_hash cr x) = false.
  Hypothesis Hhashbytes : forall x, bytes_ok (cr_hash cr x) = true.

  (* opening what a writer (appends, clears, crashes) left, with a fault at the open's storage operation number k.
     The open issues at most the truncate that removes stale entries.  Either nothing fails and the open is the
     fault-free one; or that truncate fails: the I/O error is answered, the disk is UNTOUCHED, so the next open is
     the very call that would have happened had the first open not been made, and it succeeds with the invariant *)
  Theorem failed_open_recovers_Y kp d bs cl k :
    YDisk cr kp d bs cl ->
    exists c' d' ops,
      core_open cr None true d = (d', ops, Ok c') /\ YInv cr c' d' bs cl /\ c_keypair c' = kp /\
      (((length ops <= k)%nat /\ core_open_F cr k None true d = (d', ops, Ok c')) \/
       ((k < length ops)%nat /\ core_open_F cr k None true d = (d, [], Err IOErr))).
  Proof.
    intros XD.
    destruct (reopen_Y cr Hcrc Hhash32 Hnonblank Hhashbytes kp d bs cl XD)
      as (c' & d' & ops & Eo & X & K & _ & _ & _ & _ & Hops).
    exists c', d', ops. split; [exact Eo|]. split; [exact X|]. split; [exact K|].
    destruct (le_lt_dec (length ops) k) as [L|L].
    - left. split; [exact L|]. apply (core_open_F_beyond k _ _ _ _ _ _ Eo L). right. exists c'. reflexivity.
    - right. split; [exact L|].
      destruct (core_open_F_cut k _ _ _ _ _ _ Eo L) as (dk & Ak & Ef & _).
      destruct Hops as [(-> & _)| ->]; [cbn [length] in L; lia|].
      destruct k as [|k]; [|cbn [length] in L; lia].
      cbn [firstn apply_sops] in Ak, Ef. injection Ak as <-. exact Ef.
  Qed.

  (* the same for what a replica left *)
  Theorem failed_open_recovers_R bs pk d H r k :
    writer_fits bs -> RDisk cr bs pk d H r ->
    exists c' d' ops,
      core_open cr None true d = (d', ops, Ok c') /\ RDInv cr bs c' d' H /\ t_length (c_tree c') = r /\
      c_keypair c' = mkKeypair pk None /\
      (((length ops <= k)%nat /\ core_open_F cr k None true d = (d', ops, Ok c')) \/
       ((k < length ops)%nat /\ core_open_F cr k None true d = (d, [], Err IOErr))).
  Proof.
    intros Hw XD.
    destruct (reopen_RDisk cr Hcrc Hhash32 Hnonblank Hhashbytes bs Hw pk d H r XD)
      as (c' & d' & ops & Eo & X & L & K & _ & _ & _ & _ & Hops).
    exists c', d', ops. split; [exact Eo|]. split; [exact X|]. split; [exact L|]. split; [exact K|].
    destruct (le_lt_dec (length ops) k) as [Lk|Lk].
    - left. split; [exact Lk|]. apply (core_open_F_beyond k _ _ _ _ _ _ Eo Lk). right. exists c'. reflexivity.
    - right. split; [exact Lk|].
      destruct (core_open_F_cut k _ _ _ _ _ _ Eo Lk) as (dk & Ak & Ef & _).
      destruct Hops as [(-> & _)| ->]; [cbn [length] in Lk; lia|].
      destruct k as [|k]; [|cbn [length] in Lk; lia].
      cbn [firstn apply_sops] in Ak, Ef. injection Ak as <-. exact Ef.
  Qed.

  (* the creating open (two operations: header slot write, extending truncate) with a fault at operation k < 2: the
     error is answered and the disk left is blank -- a later open without key pair answers "empty storage" with the
     disk untouched, and a later creation (with any valid key pair) succeeds with the empty core: the state before
     the failed creation *)
  Theorem failed_create_recovers kp kp' k :
    keypair_ok kp = true -> keypair_ok kp' = true -> (k < 2)%nat ->
    exists d' J c,
      core_open cr (Some kp) false disk_empty = (d', J, Ok c) /\ length J = 2%nat /\
      exists dk,
        core_open_F cr k (Some kp) false disk_empty = (dk, firstn k J, Err IOErr) /\
        apply_sops disk_empty (firstn k J) = Some dk /\ blank_disk dk /\
        core_open cr None true dk = (dk, [], Err EmptyStorage) /\
        exists d2 J2 c2, core_open cr (Some kp') false dk = (d2, J2, Ok c2) /\
                         FInv cr c2 d2 [] (fun _ => false) /\ c_keypair c2 = kp'.
  Proof.
    intros Hkp Hkp' Hk.
    destruct (creation_cuts cr Hcrc Hhash32 Hnonblank Hhashbytes kp Hkp)
      as (d' & buf & c & Eo & _ & _ & _ & B0 & B1 & _).
    exists d', [SW Oplog 0 buf; ST Oplog (ENTRIES_OFFSET + 0)], c. split; [exact Eo|]. split; [reflexivity|].
    destruct (core_open_F_cut k _ _ _ _ _ _ Eo ltac:(cbn [length]; lia)) as (dk & Ak & Ef & _).
    exists dk. split; [exact Ef|]. split; [exact Ak|].
    assert (Bk : blank_disk dk).
    { destruct k as [|[|k]]; [| |lia].
      - cbn [firstn apply_sops] in Ak. injection Ak as <-. exact B0.
      - destruct (B1 (length buf)) as (d1 & A1 & Bd). rewrite firstn_all in A1.
        cbn [firstn] in Ak. rewrite A1 in Ak. injection Ak as <-. exact Bd. }
    split; [exact Bk|]. split; [apply (open_blank cr dk Bk)|].
    destruct (create_on_blank cr Hcrc Hhash32 Hnonblank Hhashbytes kp' dk Hkp' Bk) as (d2 & buf2 & c2 & E2 & D2 & K2 & _).
    exists d2. eexists. exists c2. split; [exact E2|]. split; [exact D2|exact K2].
  Qed.
End OpenFault.

(* ====================================================================================== *)
(* E. Whatever the fault-free call answers                                                 *)
(* ====================================================================================== *)

(* CrashClear4.fsim speaks about fault-free runs that answer Ok.  fsimA is the same simulation for EVERY fault-free
   outcome (Ok, Err, Panic, OutOfFuel): with the failing emitter the call either does exactly what the fault-free
   call does (the failing position is not reached), or it answers the I/O error in a world on the path of the
   fault-free run.  So an injected storage fault can only surface as Err IOErr: it never turns into another error,
   a panic, or an Ok answer, and the disk it leaves is always a cut of the journal of the fault-free call. *)
Definition fsimA {A} (limit : nat) (m mf : M A) : Prop :=
  journaled m /\
  forall c w c1 w1 r, (length (w_journal w) <= limit)%nat -> m c w = (c1, w1, r) ->
    ((length (w_journal w1) <= limit)%nat /\ mf c w = (c1, w1, r)) \/
    (exists ck wk, mf c w = (ck, wk, Err IOErr) /\ on_path limit w w1 wk).

Lemma fsimA_same {A} limit (m : M A) :
  (forall c w c' w' r, m c w = (c', w', r) -> w_disk w' = w_disk w /\ w_journal w' = w_journal w) ->
  fsimA limit m m.
Proof.
  intros Hq. split; [apply journaled_same, Hq|].
  intros c w c1 w1 a Hle H. left. split; [|exact H]. apply Hq in H as [_ ->]. exact Hle.
Qed.

Lemma fsimA_ret {A} limit (a : A) : fsimA limit (ret a) (ret a).
Proof. apply fsimA_same. intros c w c' w' r H. now prim_inv H. Qed.
Lemma fsimA_lift {A} limit (x : res A) : fsimA limit (lift x) (lift x).
Proof. apply fsimA_same. intros c w c' w' r H. now prim_inv H. Qed.
Lemma fsimA_get_core limit : fsimA limit get_core get_core.
Proof. apply fsimA_same. intros c w c' w' r H. now prim_inv H. Qed.
Lemma fsimA_get_disk limit : fsimA limit get_disk get_disk.
Proof. apply fsimA_same. intros c w c' w' r H. now prim_inv H. Qed.
Lemma fsimA_send limit e : fsimA limit (send e) (send e).
Proof. apply fsimA_same. intros c w c' w' r H. now prim_inv H. Qed.
Lemma fsimA_put_header limit h : fsimA limit (put_header h) (put_header h).
Proof. apply fsimA_same. intros c w c' w' r H. now prim_inv H. Qed.
Lemma fsimA_put_oplog limit o : fsimA limit (put_oplog o) (put_oplog o).
Proof. apply fsimA_same. intros c w c' w' r H. now prim_inv H. Qed.
Lemma fsimA_put_tree limit t : fsimA limit (put_tree t) (put_tree t).
Proof. apply fsimA_same. intros c w c' w' r H. now prim_inv H. Qed.
Lemma fsimA_put_bitfield limit b : fsimA limit (put_bitfield b) (put_bitfield b).
Proof. apply fsimA_same. intros c w c' w' r H. now prim_inv H. Qed.
Lemma fsimA_put_skip limit s : fsimA limit (put_skip s) (put_skip s).
Proof. apply fsimA_same. intros c w c' w' r H. now prim_inv H. Qed.
Lemma fsimA_put_keypair limit k : fsimA limit (put_keypair k) (put_keypair k).
Proof. apply fsimA_same. intros c w c' w' r H. now prim_inv H. Qed.

Lemma fsimA_emit limit ops : fsimA limit (emit ops) (emit_lim limit ops).
Proof.
  split; [apply journaled_emit|].
  induction ops as [|o ops IH]; intros c w c1 w1 r Hle H.
  - left. cbn [emit emit_lim] in *. unfold ret in H. injection H as <- <- <-. split; [exact Hle|reflexivity].
  - pose proof (emit_inv _ _ _ _ _ _ H) as (_ & _ & done & Hj & Hd & _).
    cbn [emit] in H. cbn [emit_lim].
    destruct (Nat.eqb_spec (length (w_journal w)) limit) as [Eq|Ne].
    + right. exists c, w. split; [reflexivity|]. split; [exact Eq|].
      exists [], done. split; [reflexivity|]. split; [reflexivity|]. split; [exact Hj|exact Hd].
    + destruct (apply_sop (w_disk w) o) as [d'|] eqn:Ea.
      * destruct (IH c (mkWorld d' (o :: w_journal w) (w_events w)) c1 w1 r) as [[L E]|(ck & wk & E & P)];
          [cbn [w_journal length]; lia|exact H| |].
        -- left. split; [exact L|exact E].
        -- right. exists ck, wk. split; [exact E|].
           destruct P as (Len & opsk & rest & J1 & D1 & J2 & D2). cbn [w_journal w_disk] in J1, D1.
           split; [exact Len|]. exists (o :: opsk), rest.
           split; [rewrite J1; cbn [rev]; rewrite <- app_assoc; reflexivity|].
           split; [cbn [apply_sops]; rewrite Ea; exact D1|]. split; [exact J2|exact D2].
      * left. injection H as <- <- <-. split; [exact Hle|reflexivity].
Qed.

Lemma fsimA_bind {A B} limit (m mf : M A) (f ff : A -> M B) :
  fsimA limit m mf -> (forall a, fsimA limit (f a) (ff a)) -> fsimA limit (mbind m f) (mbind mf ff).
Proof.
  intros [Jm Hm] Hf. split; [apply journaled_bind; [exact Jm|intros a; apply Hf]|].
  intros c w c2 w2 r Hle H.
  apply mbind_inv in H as (c1 & w1 & r1 & Hm0 & H).
  destruct (Jm _ _ _ _ _ Hm0) as (o1 & Jo1 & Do1).
  destruct (Hm c w c1 w1 r1 Hle Hm0) as [[L1 E1]|(ck & wk & E1 & P)].
  - destruct r1 as [a|e|s|].
    + destruct (Hf a) as [Jf Hfa]. 
      destruct (Hfa c1 w1 c2 w2 r L1 H) as [[L2 E2]|(ck & wk & E2 & P)].
      * left. split; [exact L2|]. unfold mbind. rewrite E1. exact E2.
      * right. exists ck, wk. split; [unfold mbind; rewrite E1; exact E2|].
        destruct P as (Len & opsk & rest & J1 & D1 & J2 & D2).
        split; [exact Len|]. exists (rev o1 ++ opsk), rest.
        split; [rewrite J1, Jo1, rev_app_distr, rev_involutive, <- app_assoc; reflexivity|].
        split; [rewrite CoreFacts.apply_sops_app, Do1; exact D1|]. split; [exact J2|exact D2].
    + destruct H as (-> & -> & ->). left. split; [exact L1|]. unfold mbind. rewrite E1. reflexivity.
    + destruct H as (-> & -> & ->). left. split; [exact L1|]. unfold mbind. rewrite E1. reflexivity.
    + destruct H as (-> & -> & ->). left. split; [exact L1|]. unfold mbind. rewrite E1. reflexivity.
  - right. exists ck, wk. split; [unfold mbind; rewrite E1; reflexivity|].
    destruct P as (Len & opsk & rest & J1 & D1 & J2 & D2).
    assert (Tail : exists o2, w_journal w2 = o2 ++ w_journal w1 /\ apply_sops (w_disk w1) (rev o2) = Some (w_disk w2)).
    { destruct r1 as [a|e|s|].
      - destruct (Hf a) as [Jf _]. apply (Jf _ _ _ _ _ H).
      - destruct H as (_ & -> & _). exists []. split; reflexivity.
      - destruct H as (_ & -> & _). exists []. split; reflexivity.
      - destruct H as (_ & -> & _). exists []. split; reflexivity. }
    destruct Tail as (o2 & Jo2 & Do2).
    split; [exact Len|]. exists opsk, (rest ++ rev o2).
    split; [exact J1|]. split; [exact D1|].
    split; [rewrite Jo2, J2, rev_app_distr, rev_involutive, <- app_assoc; reflexivity|].
    rewrite CoreFacts.apply_sops_app, D2. exact Do2.
Qed.

Ltac fsimA_prim :=
  first [ apply fsimA_ret | apply fsimA_lift | apply fsimA_get_core | apply fsimA_get_disk | apply fsimA_send
        | apply fsimA_put_header | apply fsimA_put_oplog | apply fsimA_put_tree | apply fsimA_put_bitfield
        | apply fsimA_put_skip | apply fsimA_put_keypair | apply fsimA_emit ].
Ltac fsimA_case :=
  match goal with
  | |- fsimA _ (match ?x with _ => _ end) _ => destruct x
  end.
Ltac fsimA_tac :=
  repeat first [ fsimA_prim | hyp | apply fsimA_bind; [|intros ?] | fsimA_case ].

Section FaultyOpsA.
  Variable cr : crypto.
  Variable limit : nat.

  Lemma flush_all_fsimA ct : fsimA limit (flush_all cr ct) (flush_all_E cr (emit_lim limit) ct).
  Proof. unfold flush_all, flush_all_E. fsimA_tac. Qed.
  Lemma maybe_flush_fsimA f : fsimA limit (maybe_flush cr f) (maybe_flush_E cr (emit_lim limit) f).
  Proof. pose proof flush_all_fsimA. unfold maybe_flush, maybe_flush_E. fsimA_tac. Qed.
  Lemma log_and_commit_fsimA cs bu :
    fsimA limit (log_and_commit cr cs bu) (log_and_commit_E cr (emit_lim limit) cs bu).
  Proof. unfold log_and_commit, log_and_commit_E. fsimA_tac. Qed.
  Lemma core_append_fsimA f batch :
    fsimA limit (core_append cr f batch) (core_append_E cr (emit_lim limit) f batch).
  Proof.
    pose proof maybe_flush_fsimA. pose proof log_and_commit_fsimA.
    unfold core_append, core_append_E. fsimA_tac.
  Qed.
  Lemma core_clear_fsimA f s e :
    fsimA limit (core_clear cr f s e) (core_clear_E cr (emit_lim limit) f s e).
  Proof. pose proof maybe_flush_fsimA. unfold core_clear, core_clear_E. fsimA_tac. Qed.
  Lemma core_apply_proof_fsimA f pf :
    fsimA limit (core_apply_proof cr f pf) (core_apply_proof_E cr (emit_lim limit) f pf).
  Proof.
    pose proof maybe_flush_fsimA. pose proof log_and_commit_fsimA.
    unfold core_apply_proof, core_apply_proof_E. fsimA_tac.
  Qed.
  Lemma core_make_read_only_fsimA :
    fsimA limit (core_make_read_only cr) (core_make_read_only_E cr (emit_lim limit)).
  Proof. pose proof flush_all_fsimA. unfold core_make_read_only, core_make_read_only_E. fsimA_tac. Qed.
End FaultyOpsA.

(* the general statement: whatever the fault-free call answers (r) and whatever it journalled (delta): with a fault
   at its storage operation number k the call either is the fault-free call (then k is not inside delta), or it
   answers the I/O error with journal and disk the cut at k *)
Theorem fault_any_outcome {A} (m mf : M A) k c d j ev c' w' (r : res A) delta :
  fsimA (length j + k) m mf ->
  m c (mkWorld d j ev) = (c', w', r) -> w_journal w' = rev delta ++ j ->
  ((length delta <= k)%nat /\ mf c (mkWorld d j ev) = (c', w', r)) \/
  ((k <= length delta)%nat /\
   exists ck wk, mf c (mkWorld d j ev) = (ck, wk, Err IOErr) /\
                 w_journal wk = rev (firstn k delta) ++ j /\
                 apply_sops d (firstn k delta) = Some (w_disk wk)).
Proof.
  intros [_ Hs] H Hj.
  destruct (Hs c (mkWorld d j ev) c' w' r ltac:(cbn [w_journal]; lia) H) as [[L E]|(ck & wk & E & P)].
  - left. split; [|exact E]. rewrite Hj, app_length, rev_length in L. lia.
  - right. destruct P as (Len & opsk & rest & J1 & D1 & J2 & D2). cbn [w_journal w_disk] in *.
    assert (Lk : length opsk = k) by (rewrite J1, app_length, rev_length in Len; lia).
    assert (Ed : delta = opsk ++ rest).
    { rewrite J2, J1, app_assoc, <- rev_app_distr in Hj. symmetry. apply (journal_unique _ _ j Hj). }
    assert (Ef : firstn k delta = opsk)
      by (rewrite Ed, <- Lk, firstn_app, firstn_all, Nat.sub_diag; cbn [firstn]; apply app_nil_r).
    split; [rewrite Ed, app_length; lia|].
    exists ck, wk. split; [exact E|]. rewrite Ef. split; [exact J1|exact D1].
Qed.

(* C10 "the error surfaces", for the four calls and every fault position: the answer of the faulty call is the
   fault-free answer or Err IOErr -- nothing else *)
Theorem fault_surfaces_as_io_error cr k :
  (forall f batch c d j ev c' w' r,
     core_append cr f batch c (mkWorld d j ev) = (c', w', r) ->
     let r' := snd (core_append_E cr (emit_lim (length j + k)) f batch c (mkWorld d j ev)) in
     r' = r \/ r' = Err IOErr) /\
  (forall f s e c d j ev c' w' r,
     core_clear cr f s e c (mkWorld d j ev) = (c', w', r) ->
     let r' := snd (core_clear_E cr (emit_lim (length j + k)) f s e c (mkWorld d j ev)) in
     r' = r \/ r' = Err IOErr) /\
  (forall f pf c d j ev c' w' r,
     core_apply_proof cr f pf c (mkWorld d j ev) = (c', w', r) ->
     let r' := snd (core_apply_proof_E cr (emit_lim (length j + k)) f pf c (mkWorld d j ev)) in
     r' = r \/ r' = Err IOErr) /\
  (forall c d j ev c' w' r,
     core_make_read_only cr c (mkWorld d j ev) = (c', w', r) ->
     let r' := snd (core_make_read_only_E cr (emit_lim (length j + k)) c (mkWorld d j ev)) in
     r' = r \/ r' = Err IOErr).
Proof.
  assert (G : forall A (m mf : M A) c d j ev c' w' r,
             fsimA (length j + k) m mf -> m c (mkWorld d j ev) = (c', w', r) ->
             snd (mf c (mkWorld d j ev)) = r \/ snd (mf c (mkWorld d j ev)) = Err IOErr).
  { intros A m mf c d j ev c' w' r [_ Hs] H.
    destruct (Hs c (mkWorld d j ev) c' w' r ltac:(cbn [w_journal]; lia) H) as [[_ E]|(ck & wk & E & _)];
      rewrite E; [left|right]; reflexivity. }
  split; [|split; [|split]].
  - intros f batch c d j ev c' w' r H. apply (G _ _ _ _ _ _ _ _ _ _ (core_append_fsimA cr _ f batch) H).
  - intros f s e c d j ev c' w' r H. apply (G _ _ _ _ _ _ _ _ _ _ (core_clear_fsimA cr _ f s e) H).
  - intros f pf c d j ev c' w' r H. apply (G _ _ _ _ _ _ _ _ _ _ (core_apply_proof_fsimA cr _ f pf) H).
  - intros c d j ev c' w' r H. apply (G _ _ _ _ _ _ _ _ _ _ (core_make_read_only_fsimA cr _) H).
Qed.

Print Assumptions core_apply_proof_fsim.
Print Assumptions core_make_read_only_fsim.
Print Assumptions silent_emit_lim.
Print Assumptions silent_emit_fail.
Print Assumptions clear_E_events.
Print Assumptions make_read_only_E_events.
Print Assumptions append_E_events.
Print Assumptions apply_E_events.
Print Assumptions failed_call_E_emits_nothing.
Print Assumptions failed_call_emits_nothing.
Print Assumptions beyond_end_same_events.
Print Assumptions failed_apply_recovers.
Print Assumptions refused_apply_no_fault.
Print Assumptions failed_make_read_only_recovers.
Print Assumptions failed_replica_make_read_only_recovers.
Print Assumptions emit_fail_firstn.
Print Assumptions core_open_F_beyond.
Print Assumptions core_open_F_cut.
Print Assumptions failed_open_recovers_Y.
Print Assumptions failed_open_recovers_R.
Print Assumptions failed_create_recovers.
Print Assumptions fsimA_emit.
Print Assumptions fsimA_bind.
Print Assumptions core_append_fsimA.
Print Assumptions core_clear_fsimA.
Print Assumptions core_apply_proof_fsimA.
Print Assumptions core_make_read_only_fsimA.
Print Assumptions fault_any_outcome.
Print Assumptions fault_surfaces_as_io_error.

(* ClearBeyondEx.v — non-vacuity of ClearBeyond.v on the toy crypto instance: concrete histories with clears at
   and beyond the length (failing and succeeding ones, pending at a reopen, flushed, with end_ = u64_max, on the
   empty core), concrete states meeting the premises of every main theorem, and an FInv state on which the
   succeeding out-of-range clear does issue its data delete. *)
From HC Require Import Base NMap Codec CodecFacts Crypto FlatTree Storage Bitfield Oplog Merkle Core.
From HC Require Import FlatTreeFacts StorageFacts BitfieldFacts OplogFacts TreeRef OffsetFacts CoreFacts Crash Refine.
From HC Require Import ClearRefine Reopen ContigBridge Unified1 Unified2 Unified3 ClearBeyond.
From Coq Require Import FMapPositive ZifyN ZifyNat ZifyBool.
Ltac Zify.zify_post_hook ::= Z.div_mod_to_equations.
Arguments N.add : simpl never.
Arguments N.sub : simpl never.
Arguments N.mul : simpl never.
Arguments N.div : simpl never.
Arguments N.modulo : simpl never.
Arguments N.pow : simpl never.
Arguments N.eqb : simpl never.
Arguments N.ltb : simpl never.
Arguments N.leb : simpl never.
Arguments N.max : simpl never.
Arguments N.min : simpl never.
Arguments N.of_nat : simpl never.
Arguments N.to_nat : simpl never.

(* ---------- what the runs return ---------- *)

(* empty core: BadArgument; last block held: BadArgument (the history goes on: the block is still there, also
   after the reopen that replays the logged drop); last block cleared: Ok; reversed range: Ok *)
Example toy_clear_beyond_reads :
  match core_open toy_cr (Some toy_keypair) false disk_empty with
  | (d0, _, Ok c0) =>
      arun toy_cr [UClear (Some false) 0 1; UAppend (Some false) [[1; 2; 3]; [4]]; UClear (Some false) 2 3;
                   UHas 1; UReopen; UHas 1; UGet 1; UInfo; UClear (Some false) 1 2; UClear (Some false) 2 3;
                   UClear None 7 70000; UClear None 9 4; UReopen; UGet 0; UGet 1; UGet 2; UInfo]
           c0 (mkWorld d0 [] []) =
      [UOClear (Err BadArgument); UOAppend (Ok (2, 4)); UOClear (Err BadArgument);
       UOHas true; UOReopen (Ok tt); UOHas true; UOGet (Ok (Some [4])); UOInfo (mkInfo 2 4 2 0 true);
       UOClear (Ok tt); UOClear (Ok tt); UOClear (Ok tt); UOClear (Ok tt); UOReopen (Ok tt);
       UOGet (Ok (Some [1; 2; 3])); UOGet (Ok None); UOGet (Ok None); UOInfo (mkInfo 2 4 1 0 true)]
  | _ => False
  end.
Proof. vm_compute. reflexivity. Qed.

(* the run function of Unified3 stops at the failing clear *)
Example toy_urun_stops :
  match core_open toy_cr (Some toy_keypair) false disk_empty with
  | (d0, _, Ok c0) =>
      urun toy_cr [UAppend (Some false) [[1; 2; 3]; [4]]; UClear (Some false) 2 3; UHas 1]
           c0 (mkWorld d0 [] []) =
      [UOAppend (Ok (2, 4)); UOClear (Err BadArgument)]
  | _ => False
  end.
Proof. vm_compute. reflexivity. Qed.

(* ---------- a history for the theorem ---------- *)

Definition toy_any_ops : list uop :=
  [UClear (Some false) 0 1; UClear None 5 2; UReopen; UInfo] ++
  [UAppend (Some false) [[1; 2; 3]; []; [4]; [5; 6]]; UClear (Some false) 4 9; UReopen] ++ obs_all 5 ++
  [UClear (Some true) 7 8; UClear None 4 100000] ++ obs_all 5 ++
  [UClear (Some false) 2 4; UClear (Some false) 4 5; UReopen] ++ obs_all 5 ++
  [UClear (Some true) 100 70000; UClear None 9 3; UAppend (Some false) [[7]]; UClear (Some false) 5 6;
   UAppend None [[8; 9]]; UReopen] ++ obs_all 7 ++
  [UClear (Some false) 5 100; UClear None 6 7; UClear None 6 6; UReopen] ++ obs_all 7.

Example toy_history_with_any_clear :
  keypair_ok toy_keypair = true /\ wf_a toy_any_ops /\ ~ wf_u toy_any_ops 0 /\
  In (UOClear (Err BadArgument)) (aspec toy_any_ops [] (fun _ => false)) /\
  match core_open toy_cr (Some toy_keypair) false disk_empty with
  | (d0, _, Ok c0) => arun toy_cr toy_any_ops c0 (mkWorld d0 [] []) = aspec toy_any_ops [] (fun _ => false)
  | _ => False
  end.
Proof.
  split; [reflexivity|].
  split; [cbn [wf_a toy_any_ops obs_all app flat_map map seq length]; unfold u64_max; lia|].
  split; [cbn [wf_u toy_any_ops app]; lia|].
  split; [left; reflexivity|].
  vm_compute. reflexivity.
Qed.

(* the instance of the theorem for the toy crypto *)
Example toy_instance_any_clear ops sk :
  kp_secret toy_keypair = Some sk -> wf_a ops ->
  sumN (map len (uappended ops)) <= u64_max ->
  NODE_SIZE * (2 * N.of_nat (length (uappended ops))) <= u64_max ->
  exists d0 ops0 c0,
    core_open toy_cr (Some toy_keypair) false disk_empty = (d0, ops0, Ok c0) /\
    (arun toy_cr ops c0 (mkWorld d0 [] []) = aspec ops [] (fun _ => false) \/
     exists k, arun toy_cr ops c0 (mkWorld d0 [] []) =
               firstn k (aspec ops [] (fun _ => false)) ++ [UOAppend (Panic frame_msg)]).
Proof.
  apply (fresh_history_with_any_clear toy_cr toy_crc_ok' toy_hash32 toy_nonblank toy_hashbytes
           toy_sig64 toy_sigbytes toy_keypair sk ops). reflexivity.
Qed.

(* ---------- concrete states meeting the premises ---------- *)

(* the empty core after creation; the core after the toy append (last block held): on both the out-of-range clear
   fails, leaves an FInv state behind with one pending drop entry, and the reopen replays it;
   the core after clearing the last block: the out-of-range clear succeeds *)
Example toy_clear_beyond_hypotheses :
  exists d0 ops0 c0 c0' w0' c1 w1 c2 w2 c3 w3 c4 w4 c5,
    core_open toy_cr (Some toy_keypair) false disk_empty = (d0, ops0, Ok c0) /\
    FInv toy_cr c0 d0 [] (fun _ => false) /\
    (* empty core *)
    core_clear toy_cr (Some false) 0 1 c0 (mkWorld d0 [] []) = (c0', w0', Err BadArgument) /\
    FInv toy_cr c0' (w_disk w0') [] (fun _ => false) /\
    length (w_journal w0') = 1%nat /\ ol_entries_len (c_oplog c0') = 1 /\
    (* last block held *)
    core_append toy_cr (Some false) toy_blocks c0 (mkWorld d0 [] []) = (c1, w1, Ok (3, 4)) /\
    FInv toy_cr c1 (w_disk w1) toy_blocks (cl_mask (fun _ => false) 0) /\
    N.of_nat (length toy_blocks) <= 3 /\ 3 < 5 /\ 5 <= u64_max /\
    held 3 (cl_mask (fun _ => false) 0) 2 = true /\
    core_clear toy_cr (Some false) 3 5 c1 w1 = (c2, w2, Err BadArgument) /\
    FInv toy_cr c2 (w_disk w2) toy_blocks (cl_mask (fun _ => false) 0) /\
    ol_entries_len (c_oplog c2) = 2 /\ c_skip c2 = c_skip c1 /\
    (* last block cleared *)
    core_clear toy_cr (Some false) 2 3 c2 w2 = (c3, w3, Ok tt) /\
    FInv toy_cr c3 (w_disk w3) toy_blocks (cl_clear (cl_mask (fun _ => false) 0) 2 3) /\
    held 3 (cl_clear (cl_mask (fun _ => false) 0) 2 3) 2 = false /\
    core_clear toy_cr (Some false) 3 5 c3 w3 = (c4, w4, Ok tt) /\
    FInv toy_cr c4 (w_disk w4) toy_blocks (cl_clear (cl_mask (fun _ => false) 0) 2 3) /\
    ol_entries_len (c_oplog c4) = 4 /\
    (* the reopen with four pending entries, two of them drops beyond the length *)
    core_open toy_cr None true (w_disk w4) = (w_disk w4, [], Ok c5) /\
    FInv toy_cr c5 (w_disk w4) toy_blocks (cl_clear (cl_mask (fun _ => false) 0) 2 3) /\
    core_has c5 0 = true /\ core_has c5 2 = false /\ core_has c5 3 = false /\ core_has c5 4 = false.
Proof.
  destruct (FInv_init toy_cr toy_crc_ok' toy_hash32 toy_nonblank toy_hashbytes toy_keypair eq_refl)
    as (d0 & ops0 & c0 & Ho & D0 & K).
  pose proof Ho as Ho'. vm_compute in Ho'. injection Ho' as Ed0 Eops0 Ec0.
  assert (Hu5 : 5 <= u64_max) by (unfold u64_max; lia).
  assert (Hu1 : 1 <= u64_max) by (unfold u64_max; lia).
  (* empty core *)
  destruct (core_clear toy_cr (Some false) 0 1 c0 (mkWorld d0 [] [])) as [[c0' w0'] r0] eqn:E0.
  destruct (clear_beyond_FInv toy_cr toy_crc_ok' toy_hash32 toy_nonblank toy_hashbytes (Some false) c0 d0 [] [] []
              (fun _ => false) 0 1 c0' w0' r0 D0 ltac:(cbn [length]; lia) ltac:(lia) Hu1 E0) as (R0 & D0' & _).
  change (beyond_result [] (fun _ => false)) with (@Err unit BadArgument) in R0. subst r0.
  assert (J0 : length (w_journal w0') = 1%nat /\ ol_entries_len (c_oplog c0') = 1).
  { rewrite <- Ed0, <- Ec0 in E0. vm_compute in E0. injection E0 as <- <-. split; reflexivity. }
  (* append *)
  destruct (core_append toy_cr (Some false) toy_blocks c0 (mkWorld d0 [] [])) as [[c1 w1] r1] eqn:E1.
  assert (Hr1 : r1 = Ok (3, 4)).
  { rewrite <- Ed0, <- Ec0 in E1. vm_compute in E1. injection E1 as _ _ <-. reflexivity. }
  subst r1.
  assert (Hsk : kp_secret (c_keypair c0) = Some (repeat 2 32%nat)) by (rewrite K; reflexivity).
  destruct (append_FInv toy_cr toy_crc_ok' toy_hash32 toy_nonblank toy_hashbytes toy_sig64 toy_sigbytes
              (Some false) toy_blocks c0 d0 [] [] [] (fun _ => false) _ c1 w1 _
              D0 Hsk ltac:(vm_compute; discriminate) ltac:(vm_compute; discriminate) E1)
    as [Hp|(_ & D1 & K1)]; [discriminate Hp|].
  cbn [app length] in D1. change (N.of_nat 0) with 0 in D1.
  destruct w1 as [d1 j1 ev1]. cbn [w_disk] in *.
  set (cl1 := cl_mask (fun _ => false) 0) in *.
  assert (L3 : N.of_nat (length toy_blocks) <= 3) by (cbn [toy_blocks length]; lia).
  (* failing clear *)
  destruct (core_clear toy_cr (Some false) 3 5 c1 (mkWorld d1 j1 ev1)) as [[c2 w2] r2] eqn:E2.
  destruct (clear_beyond_FInv toy_cr toy_crc_ok' toy_hash32 toy_nonblank toy_hashbytes (Some false) c1 d1 j1 ev1
              toy_blocks cl1 3 5 c2 w2 r2 D1 L3 ltac:(lia) Hu5 E2) as (R2 & D2 & _).
  change (beyond_result toy_blocks cl1) with (@Err unit BadArgument) in R2. subst r2.
  assert (J2 : ol_entries_len (c_oplog c2) = 2 /\ c_skip c2 = c_skip c1).
  { rewrite <- Ed0, <- Ec0 in E1. vm_compute in E1. injection E1 as <- <- <- <-.
    vm_compute in E2. injection E2 as <- _. split; reflexivity. }
  (* clear of the last block *)
  destruct w2 as [d2 j2 ev2]. cbn [w_disk] in *.
  destruct (core_clear toy_cr (Some false) 2 3 c2 (mkWorld d2 j2 ev2)) as [[c3 w3] r3] eqn:E3.
  destruct (clear_FInv toy_cr toy_crc_ok' toy_hash32 toy_nonblank toy_hashbytes (Some false) c2 d2 j2 ev2 toy_blocks cl1
              2 3 c3 w3 r3 D2 ltac:(cbn [toy_blocks length]; lia) ltac:(lia) ltac:(unfold u64_max; lia) E3)
    as (-> & D3 & _).
  destruct w3 as [d3 j3 ev3]. cbn [w_disk] in *.
  set (cl3 := cl_clear cl1 2 3) in *.
  (* succeeding clear beyond the length *)
  destruct (core_clear toy_cr (Some false) 3 5 c3 (mkWorld d3 j3 ev3)) as [[c4 w4] r4] eqn:E4.
  destruct (clear_beyond_FInv toy_cr toy_crc_ok' toy_hash32 toy_nonblank toy_hashbytes (Some false) c3 d3 j3 ev3
              toy_blocks cl3 3 5 c4 w4 r4 D3 L3 ltac:(lia) Hu5 E4) as (R4 & D4 & _).
  change (beyond_result toy_blocks cl3) with (@Ok unit tt) in R4. subst r4.
  assert (J4 : ol_entries_len (c_oplog c4) = 4).
  { rewrite <- Ed0, <- Ec0 in E1. vm_compute in E1. injection E1 as <- <- <- <-.
    vm_compute in E2. injection E2 as <- <- <- <-. vm_compute in E3. injection E3 as <- <- <- <-.
    vm_compute in E4. injection E4 as <- _. reflexivity. }
  destruct (reopen_FInv toy_cr toy_crc_ok' toy_hash32 toy_nonblank toy_hashbytes c4 (w_disk w4) toy_blocks _ D4)
    as (c5 & E5 & D5 & _).
  exists d0, ops0, c0, c0', w0', c1, (mkWorld d1 j1 ev1), c2, (mkWorld d2 j2 ev2), c3, (mkWorld d3 j3 ev3), c4, w4, c5.
  cbn [w_disk].
  split; [exact Ho|]. split; [exact D0|]. split; [exact E0|]. split; [exact D0'|].
  split; [exact (proj1 J0)|]. split; [exact (proj2 J0)|].
  split; [exact E1|]. split; [exact D1|]. split; [exact L3|]. split; [lia|]. split; [exact Hu5|].
  split; [reflexivity|]. split; [exact E2|]. split; [exact D2|]. split; [exact (proj1 J2)|]. split; [exact (proj2 J2)|].
  split; [exact E3|]. split; [exact D3|]. split; [reflexivity|]. split; [exact E4|]. split; [exact D4|].
  split; [exact J4|]. split; [exact E5|]. split; [exact D5|].
  rewrite !(has_correct_U toy_cr c5 (w_disk w4) toy_blocks _ _ D5). repeat split; reflexivity.
Qed.

Print Assumptions toy_clear_beyond_reads.
Print Assumptions toy_urun_stops.
Print Assumptions toy_history_with_any_clear.
Print Assumptions toy_instance_any_clear.
Print Assumptions toy_clear_beyond_hypotheses.

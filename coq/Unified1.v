(* Unified1.v — C01 in full, part 1: one invariant FInv for append + clear + reopen.
   FInv (core, disk, list of all blocks appended, characteristic function of the cleared indices) is
   ClearRefine.CInv plus a generalisation of the disk part of Reopen.DInv:
   - the entries pending in the oplog are append entries (Reopen.edesc) or clear entries (cdesc);
   - the bitfield store holds an arbitrary bit function (the bitfield at the last flush) in whole pages; the
     bitfield in memory is the replay of the pending entries' updates over it, and every page on which the two
     differ is dirty;
   - the contiguous-length hint of the header written by the last flush is exact for the bitfield store.
   This file: definitions, FInv -> CInv, DInv -> FInv, creation, and REOPEN (core_open re-establishes FInv with
   the same blocks and cleared set, leaves the disk untouched and changes no observation). *)
From HC Require Import Base NMap Codec CodecFacts Crypto FlatTree Storage Bitfield Oplog Merkle Core.
From HC Require Import FlatTreeFacts StorageFacts BitfieldFacts OplogFacts TreeRef OffsetFacts CoreFacts Crash Refine.
From HC Require Import ClearRefine Reopen ContigBridge.
From Coq Require Import FMapPositive ZifyN ZifyNat ZifyBool.
Ltac Zify.zify_post_hook ::= Z.div_mod_to_equations.
Arguments N.add : simpl never.
Arguments N.sub : simpl never.
Arguments N.mul : simpl never.
Arguments N.div : simpl never.
Arguments N.modulo : simpl never.
Arguments N.pow : simpl never.
Arguments N.eqb : simpl never.
Arguments N.ltb : simpl never.
Arguments N.leb : simpl never.
Arguments N.max : simpl never.
Arguments N.min : simpl never.
Arguments N.of_nat : simpl never.
Arguments N.to_nat : simpl never.

(* ====================================================================================== *)
(* A. Bit functions and bitfield updates                                                   *)
(* ====================================================================================== *)

(* the effect of one bitfield update on a membership function (this is BitfieldFacts.bf_get_apply) *)
Definition upd_fun (g : N -> bool) (u : bf_update) : N -> bool :=
  fun i => if (bu_start u <=? i) && (i <? bu_start u + bu_length u) then negb (bu_drop u) else g i.

Definition upds_fun (g : N -> bool) (us : list bf_update) : N -> bool := fold_left upd_fun us g.

(* k is the smallest index at which g is false *)
Definition fexact (g : N -> bool) (k : N) : Prop := (forall i, i < k -> g i = true) /\ g k = false.

Lemma upds_fun_app g us vs : upds_fun g (us ++ vs) = upds_fun (upds_fun g us) vs.
Proof. unfold upds_fun. apply fold_left_app. Qed.

Lemma upd_fun_ext g g' u : (forall i, g i = g' i) -> forall i, upd_fun g u i = upd_fun g' u i.
Proof. intros E i. unfold upd_fun. rewrite E. reflexivity. Qed.

Lemma upds_fun_ext us : forall g g', (forall i, g i = g' i) -> forall i, upds_fun g us i = upds_fun g' us i.
Proof.
  induction us as [|u us IH]; intros g g' E i; [apply E|].
  unfold upds_fun. cbn [fold_left]. apply (IH (upd_fun g u) (upd_fun g' u)). apply upd_fun_ext, E.
Qed.

Lemma updates_of_app l1 l2 : updates_of (l1 ++ l2) = updates_of l1 ++ updates_of l2.
Proof. unfold updates_of. apply flat_map_app. Qed.

Lemma bf_get_apply_fun b u i : bf_get (bf_apply b u) i = upd_fun (bf_get b) u i.
Proof. unfold upd_fun. apply bf_get_apply. Qed.

Lemma exact_contig_fexact b k : exact_contig b k <-> fexact (bf_get b) k.
Proof. reflexivity. Qed.

Lemma fexact_ext g g' k : (forall i, g i = g' i) -> fexact g k -> fexact g' k.
Proof. intros E [H1 H2]. split; [intros i Hi; rewrite <- E; apply H1, Hi|rewrite <- E; exact H2]. Qed.

(* a field whose members lie below a has its first gap at or below a *)
Lemma fexact_le g k a : (forall i, g i = true -> i < a) -> fexact g k -> k <= a.
Proof.
  intros Hb [H1 _]. destruct (N.le_gt_cases k a) as [L|L]; [exact L|].
  specialize (Hb a (H1 a L)). lia.
Qed.

(* applying an update in memory: membership follows upd_fun, and every page on which the memory field
   differs from the field b0 of the store stays / becomes dirty *)
Lemma dirty_apply (b : bitfield) (u : bf_update) (g b0 : N -> bool) :
  (forall i, bf_get b i = g i) ->
  (forall i, g i <> b0 i -> In (i / PAGE_BITS) (bf_dirty b)) ->
  (forall i, bf_get (bf_apply b u) i = upd_fun g u i) /\
  (forall i, upd_fun g u i <> b0 i -> In (i / PAGE_BITS) (bf_dirty (bf_apply b u))).
Proof.
  intros Hg Hd.
  assert (G : forall i, bf_get (bf_apply b u) i = upd_fun g u i).
  { intros i. rewrite bf_get_apply_fun. apply upd_fun_ext, Hg. }
  split; [exact G|].
  intros i Hi. unfold bf_apply.
  destruct (bool_dec (upd_fun g u i) (g i)) as [E|E].
  - apply bf_dirty_set_range_mono. apply Hd. rewrite <- E. exact Hi.
  - apply bf_dirty_set_range_sound. fold (bf_apply b u). rewrite G, Hg. exact E.
Qed.

(* ====================================================================================== *)
(* B. Headers and entries                                                                  *)
(* ====================================================================================== *)

(* Reopen.hdr_desc without the clause hd_contig h = n: with clears the hint is any value *)
Definition hdr_desc' (kp : keypair) (h : header) (n : N) : Prop :=
  header_ok h = true /\ hd_keypair h = kp /\ ht_fork (hd_tree h) = 0 /\ ht_length (hd_tree h) = n /\
  len (ht_root_hash (hd_tree h)) <= 32 /\
  (ht_signature (hd_tree h) = [] \/ length (ht_signature (hd_tree h)) = 64%nat).

Lemma hdr_desc_desc' kp h n : hdr_desc kp h n -> hdr_desc' kp h n.
Proof. intros (A & B & C & D & _ & E & F). repeat split; assumption. Qed.

Lemma fits_u64_intro v : v <= u64_max -> fits_u64 v = true.
Proof. intros H. unfold fits_u64. lia. Qed.

Lemma header_ok_set_contig h cg : header_ok h = true -> cg <= u64_max -> header_ok (set_contig h cg) = true.
Proof.
  intros H Hc. unfold header_ok in *. cbn [set_contig hd_key hd_ns hd_mpk hd_keypair hd_tree hd_contig].
  apply andb_prop in H as [H _]. rewrite H. cbn [andb]. apply fits_u64_intro, Hc.
Qed.

Lemma hdr_desc'_contig kp h n cg : hdr_desc' kp h n -> cg <= u64_max -> hdr_desc' kp (set_contig h cg) n.
Proof.
  intros (A & B & C & D & E & F) Hc. split; [apply header_ok_set_contig; assumption|].
  cbn [set_contig hd_keypair hd_tree]. repeat split; assumption.
Qed.

Lemma hdr_desc'_upd kp h a h' m hash sg :
  hdr_desc' kp h a ->
  hd_key h' = hd_key h -> hd_ns h' = hd_ns h -> hd_mpk h' = hd_mpk h -> hd_keypair h' = hd_keypair h ->
  hd_tree h' = mkHeaderTree 0 m hash sg -> hd_contig h' <= u64_max ->
  m <= u64_max -> length hash = 32%nat -> bytes_ok hash = true ->
  length sg = 64%nat -> bytes_ok sg = true ->
  hdr_desc' kp h' m.
Proof.
  intros (H & Hkp & _) E1 E2 E3 E4 E5 Hc Hm Hh Hhb Hs Hsb.
  unfold hdr_desc'. rewrite E4, E5. cbn [ht_fork ht_length ht_root_hash ht_signature].
  split.
  - unfold header_ok in *. split_ok H.
    rewrite E1, E2, E3, E4, E5. cbn [ht_fork ht_length ht_root_hash ht_signature].
    rewrite H, Hok6, Hok5, Hok4. cbn [andb].
    rewrite (buffer_ok_intro hash), (buffer_ok_intro sg); try assumption;
      try (unfold len, u64_max; lia).
    rewrite (fits_u64_intro 0) by (unfold u64_max; lia).
    rewrite (fits_u64_intro m) by exact Hm. cbn [andb]. apply fits_u64_intro, Hc.
  - split; [exact Hkp|]. split; [reflexivity|]. split; [reflexivity|].
    split; [unfold len; lia|]. right. exact Hs.
Qed.

(* the entry logged by a clear: no nodes, no upgrade, a non-empty drop with u64 fields *)
Definition cdesc (e : entry) : Prop :=
  exists s k, e = mkEntry [] None (Some (mkBfUpdate true s k)) /\ 0 < k /\ s <= u64_max /\ k <= u64_max.

Lemma cdesc_entry_ok e : cdesc e -> entry_ok e = true.
Proof.
  intros (s & k & -> & _ & Hs & Hk). unfold entry_ok. cbn [e_nodes e_upgrade e_bitfield bu_start bu_length].
  rewrite (fits_u64_intro s Hs), (fits_u64_intro k Hk). reflexivity.
Qed.

Section Chain.
  Variable cr : crypto.

  (* the entries logged since the last flush: appends (taking the tree from a to m blocks) and clears *)
  Fixpoint gchain (bs : list bytes) (a : N) (l : list entry) (b : N) : Prop :=
    match l with
    | [] => a = b
    | e :: r => (exists m, edesc cr bs a e m /\ gchain bs m r b) \/ (cdesc e /\ gchain bs a r b)
    end.

  Lemma gchain_le bs l : forall a b, gchain bs a l b -> a <= b.
  Proof.
    induction l as [|e l IH]; intros a b H; cbn [gchain] in H.
    - lia.
    - destruct H as [(m & (Hlt & _) & H)|(_ & H)]; apply IH in H; lia.
  Qed.

  Lemma gchain_snoc_append bs l : forall a m e b,
    gchain bs a l m -> edesc cr bs m e b -> gchain bs a (l ++ [e]) b.
  Proof.
    induction l as [|e0 l IH]; intros a m e b H He; cbn [gchain app] in *.
    - subst. left. exists b. split; [exact He|reflexivity].
    - destruct H as [(m0 & H0 & H)|(H0 & H)].
      + left. exists m0. split; [exact H0|]. eapply IH; eassumption.
      + right. split; [exact H0|]. eapply IH; eassumption.
  Qed.

  Lemma gchain_snoc_clear bs l : forall a m e,
    gchain bs a l m -> cdesc e -> gchain bs a (l ++ [e]) m.
  Proof.
    induction l as [|e0 l IH]; intros a m e H He; cbn [gchain app] in *.
    - subst. right. split; [exact He|reflexivity].
    - destruct H as [(m0 & H0 & H)|(H0 & H)].
      + left. exists m0. split; [exact H0|]. apply IH; assumption.
      + right. split; [exact H0|]. apply IH; assumption.
  Qed.

  Lemma gchain_app bs batch l : forall a b,
    b <= N.of_nat (length bs) -> gchain bs a l b -> gchain (bs ++ batch) a l b.
  Proof.
    induction l as [|e l IH]; intros a b Hb H; cbn [gchain] in *.
    - exact H.
    - destruct H as [(m & He & H)|(He & H)].
      + left. exists m. pose proof (gchain_le _ _ _ _ H).
        split; [apply edesc_app; [lia|exact He]|apply IH; assumption].
      + right. split; [exact He|apply IH; assumption].
  Qed.

  Lemma echain_gchain bs l : forall a b, echain cr bs a l b -> gchain bs a l b.
  Proof.
    induction l as [|e l IH]; intros a b H; cbn [echain gchain] in *.
    - exact H.
    - destruct H as (m & He & H). left. exists m. split; [exact He|apply IH, H].
  Qed.

  (* replaying the updates of an append-only chain over the field [0, a) gives the field [0, b) *)
  Lemma echain_updates bs l : forall a b i,
    echain cr bs a l b -> upds_fun (fun j => j <? a) (updates_of l) i = (i <? b).
  Proof.
    induction l as [|e l IH]; intros a b i H; cbn [echain] in H.
    - subst. reflexivity.
    - destruct H as (m & (Hlt & _ & Hbu & _) & H).
      unfold updates_of. cbn [flat_map]. rewrite Hbu. fold (updates_of l).
      rewrite upds_fun_app. rewrite <- (IH m b i H). apply upds_fun_ext. intros j.
      unfold upds_fun, upd_fun. cbn [fold_left bu_start bu_length bu_drop negb].
      destruct (N.leb_spec a j), (N.ltb_spec j (a + (m - a))), (N.ltb_spec j a), (N.ltb_spec j m);
        cbn [andb]; try reflexivity; lia.
  Qed.
End Chain.

(* ====================================================================================== *)
(* C. The unified invariant                                                                *)
(* ====================================================================================== *)

Section Unified.
  Variable cr : crypto.
  Hypothesis Hcrc : crc_ok cr.
  Hypothesis Hhash32 : forall x, length (cr_hash cr x) = 32%nat.
  Hypothesis Hnonblank : forall x, all_zero (cr_hash cr x) = false.
  Hypothesis Hhashbytes : forall x, bytes_ok (cr_hash cr x) = true.

  (* memory c, disk d, list of all blocks bs, cleared indices cl.  hf = the header written by the last
     flush (or by creation), describing the first kf blocks; l = the entries logged since; the bitfield
     store holds the field fbit (d_bitfield d) = the bitfield at the last flush. *)
  Definition FInv (c : core) (d : disk) (bs : list bytes) (cl : N -> bool) : Prop :=
    let n := N.of_nat (length bs) in
    CInv cr c d bs cl /\
    exists s0 s1 body st0 st1 hf l kf,
      f_content (d_oplog d) = s0 ++ s1 ++ body /\
      good cr s0 s1 body st0 st1 (ol_bits (c_oplog c)) hf l /\
      ol_entries_len (c_oplog c) = N.of_nat (length l) /\
      ol_entries_bytes (c_oplog c) = entries_size l /\
      hdr_desc' (c_keypair c) hf kf /\
      hdr_desc' (c_keypair c) (c_header c) n /\
      gchain cr bs kf l n /\
      lookups cr tE (d_tree d) bs kf /\
      (* the bitfield store: whole pages, members below kf, the header's hint is its first gap *)
      f_len (d_bitfield d) mod PAGE_BYTES = 0 /\
      (forall i, fbit (d_bitfield d) i = true -> i < kf) /\
      fexact (fbit (d_bitfield d)) (hd_contig hf) /\
      (* memory = replay of the pending updates over the store; differing pages are dirty *)
      (forall i, upds_fun (fbit (d_bitfield d)) (updates_of l) i = held n cl i) /\
      (forall i, held n cl i <> fbit (d_bitfield d) i -> In (i / PAGE_BITS) (bf_dirty (c_bitfield c))).

  Theorem FInv_CInv c d bs cl : FInv c d bs cl -> CInv cr c d bs cl.
  Proof. intros [W _]. exact W. Qed.

  (* only the values of cl below the length matter *)
  Lemma FInv_cl_ext c d bs cl cl' :
    (forall i, i < N.of_nat (length bs) -> cl' i = cl i) -> FInv c d bs cl -> FInv c d bs cl'.
  Proof.
    intros E (W & s0 & s1 & body & st0 & st1 & hf & l & kf & H1 & H2 & H3 & H4 & H5 & H6 & H7 & H8 & H9 & H10 &
              H11 & H12 & H13).
    pose proof (held_ext _ cl cl' E) as HE.
    split; [apply (CInv_cl_ext cr c d bs cl cl' E W)|].
    exists s0, s1, body, st0, st1, hf, l, kf. repeat (split; [assumption|]).
    split; [intros i; rewrite HE; apply H12|]. intros i. rewrite HE. apply H13.
  Qed.

  (* ---------- the append-only invariant of Reopen.v is the special case cl = nothing ---------- *)

  Theorem DInv_FInv c d bs : DInv cr c d bs -> FInv c d bs (fun _ => false).
  Proof.
    intros (W & s0 & s1 & body & st0 & st1 & hf & l & kf & Hcont & G & Hlen & Hbytes & Hhf & Hhc & Hch &
            Hstore & [Hbm Hbb] & Hdirty).
    set (n := N.of_nat (length bs)) in *.
    assert (Hheld : forall i, held n (fun _ => false) i = (i <? n)).
    { intros i. unfold held. cbn [negb]. apply andb_true_r. }
    split; [apply WInv_CInv, W|].
    exists s0, s1, body, st0, st1, hf, l, kf.
    split; [exact Hcont|]. split; [exact G|]. split; [exact Hlen|]. split; [exact Hbytes|].
    split; [apply hdr_desc_desc', Hhf|]. split; [apply hdr_desc_desc', Hhc|].
    split; [apply echain_gchain, Hch|]. split; [exact Hstore|]. split; [exact Hbm|].
    split; [intros i Hi; rewrite Hbb in Hi; lia|].
    split.
    { destruct Hhf as (_ & _ & _ & _ & -> & _). split; [intros i Hi; rewrite Hbb; lia|rewrite Hbb; lia]. }
    split.
    { intros i. fold n. rewrite Hheld. rewrite <- (echain_updates cr bs l kf n i Hch).
      apply upds_fun_ext. intros j. apply Hbb. }
    intros i Hi. fold n in Hi. rewrite Hheld, Hbb in Hi. pose proof (echain_le cr bs l kf n Hch) as Hle.
    assert (kf <= i /\ i < n) as [A B].
    { revert Hi. destruct (N.ltb_spec i n), (N.ltb_spec i kf); intros Hi; try lia; exfalso; apply Hi; reflexivity. }
    apply Hdirty; assumption.
  Qed.

  (* ---------- creation ---------- *)

  Theorem FInv_init kp :
    keypair_ok kp = true ->
    exists d' ops c,
      core_open cr (Some kp) false disk_empty = (d', ops, Ok c) /\
      FInv c d' [] (fun _ => false) /\ c_keypair c = kp.
  Proof.
    intros Hkp. destruct (DInv_init cr Hcrc Hhash32 Hnonblank Hhashbytes kp Hkp) as (d' & ops & c & E & D & K).
    exists d', ops, c. split; [exact E|]. split; [apply DInv_FInv, D|exact K].
  Qed.
End Unified.

(* ====================================================================================== *)
(* D. Replaying append and clear entries                                                   *)
(* ====================================================================================== *)

Section ReplayU.
  Variable cr : crypto.
  Hypothesis Hhash32 : forall x, length (cr_hash cr x) = 32%nat.
  Hypothesis Hnonblank : forall x, all_zero (cr_hash cr x) = false.
  Hypothesis Hhashbytes : forall x, bytes_ok (cr_hash cr x) = true.

  (* the state of a replay that has reached length a and membership function g; b0 = the field of the
     bitfield store the replay started from *)
  Definition RInvU (bs : list bytes) (tf : file) (kp : keypair) (b0 : N -> bool)
             (st : mtree * bitfield * header) (a : N) (g : N -> bool) : Prop :=
    let '(t, b, h) := st in
    t_length t = a /\ t_byte_length t = prefix_size bs a /\ t_fork t = 0 /\
    t_roots t = ref_roots cr bs a /\ lookups cr t tf bs a /\ unflushed_ok t /\
    (forall i, bf_get b i = g i) /\
    (forall i, g i = true -> i < a) /\
    (forall i, g i <> b0 i -> In (i / PAGE_BITS) (bf_dirty b)) /\
    hdr_desc' kp h a /\ fexact g (hd_contig h).

  Lemma replay_append_ok bs tf kp b0 t b h e a m g :
    sumN (map len bs) <= u64_max -> m <= u64_max ->
    RInvU bs tf kp b0 (t, b, h) a g -> edesc cr bs a e m ->
    exists t' b' h', replay_entry cr tf (t, b, h) e = Ok (t', b', h') /\
                     RInvU bs tf kp b0 (t', b', h') m (upds_fun g (updates_of [e])).
  Proof.
    intros Hfit Hm (HL & HB & HF & HR & Hlook & Hun & Hbf & Hbound & Hdirty & Hh & Hex)
           (Hlt & (sg & Hup & Hsg & Hsgb) & Hbu & Hsound & Hcompl).
    assert (Sound : forall x, In x (e_nodes e) -> x = ref_at cr bs (n_index x)).
    { intros x Hx. destruct (Hsound x Hx) as (j & q & -> & _). apply ref_node_is_ref. }
    unfold updates_of. cbn [flat_map]. rewrite Hbu. cbn [app]. unfold upds_fun. cbn [fold_left].
    unfold replay_entry. rewrite fold_add_node, Hbu, Hup.
    cbn [tu_length tu_fork tu_signature tu_ancestors].
    set (t1 := mkTree (t_roots t) (t_length t) (t_byte_length t) (t_fork t) (t_signature t)
                      (add_nodes (t_unflushed t) (e_nodes e))).
    set (u := mkBfUpdate false a (m - a)).
    assert (L1 : lookups cr t1 tf bs m).
    { apply (lookups_add cr Hnonblank bs t t1 tf (e_nodes e) a m Sound Hcompl); [reflexivity|exact Hlook]. }
    rewrite (tree_truncate_ref cr Hnonblank bs t1 tf m 0).
    2:{ intros x Hx. unfold t1 in Hx. cbn [t_roots] in Hx. rewrite HR in Hx. eapply in_ref_roots. exact Hx. }
    2:{ exact L1. }
    cbn [bind]. unfold parse_signature. rewrite Hsg. cbn [Nat.eqb bind].
    cbn [cs_length cs_byte_length cs_batch_length cs_fork cs_roots cs_rnodes cs_orig_length cs_orig_fork].
    unfold tree_commit, commitable.
    cbn [cs_orig_fork cs_upgraded cs_orig_length cs_ancestors cs_roots cs_length cs_byte_length cs_fork
         cs_signature cs_nodes cs_rnodes rev_append].
    rewrite !N.eqb_refl. cbn [andb negb].
    assert ((a <? t_length t1) = false) as ->.
    { unfold t1. cbn [t_length]. rewrite HL. apply N.ltb_irrefl. }
    cbn [bind]. do 3 eexists. split; [reflexivity|].
    unfold RInvU. cbn [t_length t_byte_length t_fork t_roots].
    split; [reflexivity|]. split; [reflexivity|]. split; [reflexivity|]. split; [reflexivity|].
    split.
    { intros d o Hfull. rewrite <- (L1 d o Hfull). apply required_node_same_unflushed. reflexivity. }
    split.
    { apply (commit_unflushed_ok cr Hhash32 bs t _ (e_nodes e) Hfit Sound); [reflexivity|exact Hun]. }
    destruct (dirty_apply b u g b0 Hbf Hdirty) as [G1 G2].
    split; [exact G1|].
    assert (Hbound' : forall i, upd_fun g u i = true -> i < m).
    { intros i. unfold upd_fun, u. cbn [bu_start bu_length bu_drop negb].
      destruct ((a <=? i) && (i <? a + (m - a))) eqn:E; [lia|]. intros Hi. specialize (Hbound i Hi). lia. }
    split; [exact Hbound'|]. split; [exact G2|].
    assert (Hex' : fexact (upd_fun g u) (update_contig (hd_contig h) (bf_apply b u) u)).
    { apply (fexact_ext (bf_get (bf_apply b u))); [exact G1|]. apply exact_contig_fexact.
      apply update_contig_exact; [|unfold u; cbn [bu_length]; lia].
      apply exact_contig_fexact. apply (fexact_ext g); [intros i; symmetry; apply Hbf|exact Hex]. }
    split; [|exact Hex'].
    destruct Hh as (Hok & Hkp & Hfk & Hln & Hrh & Hsgn).
    apply (hdr_desc'_upd kp h a _ m (tree_hash cr (ref_roots cr bs m)) sg);
      try reflexivity; try assumption.
    - repeat split; assumption.
    - cbn [set_tree set_contig hd_tree hd_contig ht_fork]. rewrite Hfk. reflexivity.
    - cbn [set_tree set_contig hd_contig]. pose proof (fexact_le _ _ m Hbound' Hex'). lia.
    - apply Hhash32.
    - apply Hhashbytes.
  Qed.

  Lemma replay_clear_ok bs tf kp b0 t b h e a g :
    a <= u64_max -> RInvU bs tf kp b0 (t, b, h) a g -> cdesc e ->
    exists b' h', replay_entry cr tf (t, b, h) e = Ok (t, b', h') /\
                  RInvU bs tf kp b0 (t, b', h') a (upds_fun g (updates_of [e])).
  Proof.
    intros Ha (HL & HB & HF & HR & Hlook & Hun & Hbf & Hbound & Hdirty & Hh & Hex) (s & k & -> & Hk & _ & _).
    set (u := mkBfUpdate true s k).
    unfold updates_of. cbn [flat_map e_bitfield app]. unfold upds_fun. cbn [fold_left].
    unfold replay_entry. cbn [e_nodes e_bitfield e_upgrade fold_left]. fold u.
    do 2 eexists. split; [reflexivity|].
    unfold RInvU.
    split; [exact HL|]. split; [exact HB|]. split; [exact HF|]. split; [exact HR|]. split; [exact Hlook|].
    split; [exact Hun|].
    destruct (dirty_apply b u g b0 Hbf Hdirty) as [G1 G2].
    split; [exact G1|].
    assert (Hbound' : forall i, upd_fun g u i = true -> i < a).
    { intros i. unfold upd_fun, u. cbn [bu_start bu_length bu_drop negb].
      destruct ((s <=? i) && (i <? s + k)); [discriminate|]. apply Hbound. }
    split; [exact Hbound'|]. split; [exact G2|].
    assert (Hex' : fexact (upd_fun g u) (update_contig (hd_contig h) (bf_apply b u) u)).
    { apply (fexact_ext (bf_get (bf_apply b u))); [exact G1|]. apply exact_contig_fexact.
      apply update_contig_exact; [|exact Hk].
      apply exact_contig_fexact. apply (fexact_ext g); [intros i; symmetry; apply Hbf|exact Hex]. }
    split; [|exact Hex'].
    apply hdr_desc'_contig; [exact Hh|]. pose proof (fexact_le _ _ a Hbound' Hex'). lia.
  Qed.

  Lemma replay_entries_okU bs tf kp b0 (l : list entry) : forall t b h a n g,
    sumN (map len bs) <= u64_max -> n <= u64_max ->
    RInvU bs tf kp b0 (t, b, h) a g -> gchain cr bs a l n ->
    exists t' b' h', replay_entries cr tf (t, b, h) l = Ok (t', b', h') /\
                     RInvU bs tf kp b0 (t', b', h') n (upds_fun g (updates_of l)).
  Proof.
    induction l as [|e l IH]; intros t b h a n g Hfit Hn R C; cbn [gchain replay_entries] in *.
    - subst. do 3 eexists. split; [reflexivity|exact R].
    - change (e :: l) with ([e] ++ l). rewrite updates_of_app, upds_fun_app.
      destruct C as [(m & He & C)|(He & C)]; pose proof (gchain_le _ _ _ _ _ C) as Le.
      + destruct (replay_append_ok bs tf kp b0 t b h e a m g Hfit ltac:(lia) R He) as (t1 & b1 & h1 & E1 & R1).
        rewrite E1. cbn [bind]. apply (IH t1 b1 h1 m n _ Hfit Hn R1 C).
      + destruct (replay_clear_ok bs tf kp b0 t b h e a g ltac:(lia) R He) as (b1 & h1 & E1 & R1).
        rewrite E1. cbn [bind]. apply (IH t b1 h1 a n _ Hfit Hn R1 C).
  Qed.
End ReplayU.

(* ====================================================================================== *)
(* E. Reopen                                                                               *)
(* ====================================================================================== *)

Section ReopenU.
  Variable cr : crypto.
  Hypothesis Hcrc : crc_ok cr.
  Hypothesis Hhash32 : forall x, length (cr_hash cr x) = 32%nat.
  Hypothesis Hnonblank : forall x, all_zero (cr_hash cr x) = false.
  Hypothesis Hhashbytes : forall x, bytes_ok (cr_hash cr x) = true.

  (* Dropping the writer and opening the same storage again: the open succeeds, issues no storage
     operation, and the new core satisfies the invariant for the same blocks and the same cleared set. *)
  Theorem reopen_FInv c d bs cl :
    FInv cr c d bs cl ->
    exists c', core_open cr None true d = (d, [], Ok c') /\
               FInv cr c' d bs cl /\ c_keypair c' = c_keypair c.
  Proof.
    intros (W & s0 & s1 & body & st0 & st1 & hf & l & kf & Hcont & G & Hlen & Hbytes & Hhf & Hhc & Hch &
            Hstore & Hbm & Hbnd & Hbex & Hrep & Hdirty).
    pose proof W as ((HL & HB & HF & HR & Hlook & Hun & Hs & Hn) & Hbf & Hcg & Hd & Hdl).
    set (n := N.of_nat (length bs)) in *.
    unfold core_open. cbv iota. rewrite Hcont.
    rewrite (good_open cr Hcrc _ _ _ _ _ _ _ _ G).
    cbn [stable_result oo_ops oo_header oo_entries oo_oplog apply_sops].
    pose proof Hhf as (Hok & Hkp & Hfk & Hln & Hrh & Hsg).
    destruct (tree_open_ref cr Hnonblank bs (d_tree d) (hd_tree hf) kf Hstore Hln Hsg) as [sg0 Hto].
    rewrite Hto. cbn [bind]. rewrite Hfk.
    set (t0 := mkTree (ref_roots cr bs kf) kf (prefix_size bs kf) 0 sg0 nm_empty).
    set (b0 := fbit (d_bitfield d)) in *.
    assert (R0 : RInvU cr bs (d_tree d) (c_keypair c) b0 (t0, bf_open (d_bitfield d), hf) kf b0).
    { unfold RInvU, t0. cbn [t_length t_byte_length t_fork t_roots].
      split; [reflexivity|]. split; [reflexivity|]. split; [reflexivity|]. split; [reflexivity|].
      split. { intros dd o Hfull. rewrite <- (Hstore dd o Hfull). apply required_node_same_unflushed. reflexivity. }
      split. { intros i x H. cbn [t_unflushed] in H. rewrite nm_get_empty in H. discriminate H. }
      split. { intros i. apply bf_open_get, Hbm. }
      split; [exact Hbnd|].
      split. { intros i H. exfalso. apply H. reflexivity. }
      split; [exact Hhf|exact Hbex]. }
    assert (Hn64 : n <= u64_max) by (unfold NODE_SIZE in Hn; lia).
    destruct (replay_entries_okU cr Hhash32 Hnonblank Hhashbytes bs (d_tree d) (c_keypair c) b0 l
                t0 (bf_open (d_bitfield d)) hf kf n b0 Hs Hn64 R0 Hch) as (t' & b' & h' & Hrepl & R').
    rewrite Hrepl. cbn [bind].
    destruct R' as (HL' & HB' & HF' & HR' & Hlook' & Hun' & Hbf' & Hbnd' & Hdirty' & Hh' & Hex').
    pose proof Hh' as (Hok' & Hkp' & _).
    eexists. split; [reflexivity|].
    assert (Hg : forall i, bf_get b' i = held n cl i) by (intros i; rewrite Hbf'; apply Hrep).
    split; [|cbn [c_keypair]; exact Hkp'].
    split.
    { unfold CInv, TInv. cbv zeta. cbn [c_tree c_bitfield c_header]. fold n.
      split.
      { split; [exact HL'|]. split; [rewrite HB'; unfold n; apply prefix_size_all|].
        split; [exact HF'|]. split; [exact HR'|]. split; [exact Hlook'|]. split; [exact Hun'|].
        split; [exact Hs|exact Hn]. }
      split; [exact Hg|].
      split. { apply exact_contig_fexact. apply (fexact_ext (upds_fun b0 (updates_of l))); [|exact Hex'].
               intros i. symmetry. apply Hbf'. }
      split; [exact Hd|exact Hdl]. }
    cbn [c_oplog c_keypair c_header c_bitfield ol_bits ol_entries_len ol_entries_bytes].
    fold n. rewrite Hkp'.
    exists s0, s1, body, st0, st1, hf, l, kf.
    split; [exact Hcont|]. split; [exact G|]. split; [reflexivity|]. split; [reflexivity|].
    split; [exact Hhf|]. split; [exact Hh'|]. split; [exact Hch|].
    split; [exact Hstore|]. split; [exact Hbm|]. split; [exact Hbnd|]. split; [exact Hbex|].
    split; [exact Hrep|].
    intros i Hi. apply Hdirty'. fold b0 in Hi. rewrite Hrep. exact Hi.
  Qed.

  (* all observations at once: info, has, and get (result, events, disk and journal) *)
  Theorem reopen_observations_U c d bs cl :
    FInv cr c d bs cl ->
    exists c', core_open cr None true d = (d, [], Ok c') /\ FInv cr c' d bs cl /\
      c_keypair c' = c_keypair c /\
      core_info c' = core_info c /\ (forall i, core_has c' i = core_has c i) /\
      (forall i j ev, snd (core_get i c' (mkWorld d j ev)) = snd (core_get i c (mkWorld d j ev)) /\
                      snd (fst (core_get i c' (mkWorld d j ev))) = snd (fst (core_get i c (mkWorld d j ev)))).
  Proof.
    intros D. destruct (reopen_FInv c d bs cl D) as (c' & E & D' & K).
    pose proof (FInv_CInv cr c d bs cl D) as W. pose proof (FInv_CInv cr c' d bs cl D') as W'.
    exists c'. split; [exact E|]. split; [exact D'|]. split; [exact K|].
    split.
    { rewrite (proj1 (info_correct_c cr c' d bs cl W')), (proj1 (info_correct_c cr c d bs cl W)), K. reflexivity. }
    split.
    { intros i. rewrite (has_correct_c cr c' d bs cl i W'), (has_correct_c cr c d bs cl i W). reflexivity. }
    intros i j ev.
    rewrite (get_correct_c cr c' d bs cl j ev i W'), (get_correct_c cr c d bs cl j ev i W).
    destruct (held (N.of_nat (length bs)) cl i); split; reflexivity.
  Qed.
End ReopenU.

Print Assumptions FInv_CInv.
Print Assumptions FInv_cl_ext.
Print Assumptions DInv_FInv.
Print Assumptions FInv_init.
Print Assumptions replay_entries_okU.
Print Assumptions reopen_FInv.
Print Assumptions reopen_observations_U.

(* LivenessEx.v -- the toy instance of SoundCore.v / AcceptAllEx.v (sc_cr, sc_blocks: a writer with the six blocks
   [1;2;3] [] [4] [5;6;7;8] [9;10] [11], a replica created from the public key alone) for Liveness.v.

   A. liveness_fails_after_size_carveout: the clause "after any accepted proof honest replication can still complete"
      is FALSE for proofs with a hash section whose unauthenticated sizes were altered (the size carve-out).  The
      replica (invariant RCInv, synced to length 6 by an honest round) is handed the writer's own hash-section proof
      for node 4 with the sizes of the sibling leaves 4 and 6 shifted (1 -> 2, 4 -> 3: the sum the parent hash binds
      is kept).  It is ACCEPTED.  Afterwards the honest history "fetch block 3, fetch block 2" (requests well formed
      for the replica: hist_all_ng, the hypothesis of C03_honest_replicas_converge_without_frame_premise) runs, every
      proof is accepted, block 3 is held -- and reads back [0;5;6;7] where the writer's block is [5;6;7;8].  Hence
      Liveness.completes fails for every held set.
   B. non-vacuity of Liveness.C04_history_then_complete: an interleaving of honest rounds with an unsolicited block
      proof (accepted), a tampered block proof (refused with Err), a replayed upgrade proof (accepted), a reopen;
      then a further honest history. *)
From HC Require Import Base NMap Codec CodecFacts Crypto FlatTree Storage Bitfield Oplog Merkle Core.
From HC Require Import FlatTreeFacts Sound NoPanic TreeRef OffsetFacts CoreFacts Refine Replicate Replicate2 Replicate2Z Replicate2D Replicate2E.
From HC Require Import Unified1 SoundCoreLib SoundCore SoundCoreUp SoundCoreBU ReplicaDisk1 ReplicaDisk2 ReplicaDisk3 ReplicaDisk4 ReplicaDisk6.
From HC Require Import AcceptAll1 AcceptAll2 AcceptAll3 AcceptAll AcceptAllCore1 AcceptAllClo AcceptAllClo2 AcceptAllFlush AcceptAllCore2 AcceptAllCore3 AcceptAllHist AcceptAllEx.
From HC Require Import HonestApply1 HonestApply2 HonestApply3 HonestApply FrameGuard Liveness.
From Coq Require Import ZifyN ZifyNat ZifyBool Lia.

Ltac lx_arith := first [exact I | reflexivity | (vm_compute; reflexivity) | (vm_compute; discriminate)].

Definition lx_ev (f : option bool) (rq : request) : revent :=
  EServe f rq scW_c (w_disk scW_w) (w_journal scW_w) (w_events scW_w) sc_blocks sc_sg.

(* a block request (index i, node count k) is well formed for the replica (c, w) *)
Lemma lx_pre_block f i k c w :
  kp_public (c_keypair c) = sc_key ->
  t_length (c_tree c) = 6 -> i < 6 ->
  missing_nodes (c_tree c) (d_tree (w_disk w)) (ft_index (N.of_nat 0) i) = Ok k ->
  (i / p2 (N.to_nat k) + 1) * p2 (0 + N.to_nat k) <= 6 ->
  pre_all_ng sc_cr sc_blocks c (w_disk w) (lx_ev f (mkRequest (Some (mkReqBlock i k)) None None None)).
Proof.
  intros Hk Hl Hi Hm Hspan. unfold pre_all_ng, lx_ev. cbv zeta. rewrite Hk.
  split; [exact sc_writer_at|]. split; [rewrite Hl; vm_compute; discriminate|]. split; [exact I|].
  cbn [rq_block rq_hash rq_seek rq_upgrade rb_index rb_nodes rq_target].
  unfold wf_node. cbv zeta. rewrite Hl. change (p2 0) with 1.
  split; [lia|]. left. split; [lia|]. split; [exact Hm|]. split; [exact Hspan|exact I].
Qed.

(* ====================================================================================== *)
(* A. the size carve-out                                                                    *)
(* ====================================================================================== *)

(* 0. the honest round that syncs the fresh replica to the writer's length 6 *)
Definition lx_rqU : request := mkRequest None None None (Some (mkReqUpgrade 0 6)).
Definition lx_eU := lx_ev (Some false) lx_rqU.
Definition lx_s1 : option (core * world) := Eval vm_compute in exec sc_cr scR_c scR_w lx_eU.
Definition lx1_c : core := Eval vm_compute in match lx_s1 with Some (c, _) => c | None => dummy_core end.
Definition lx1_w : world := Eval vm_compute in match lx_s1 with Some (_, w) => w | None => dummy_world end.
Lemma lx_exec1 : exec sc_cr scR_c scR_w lx_eU = Some (lx1_c, lx1_w).
Proof. vm_compute. reflexivity. Qed.

Lemma lx_preU : pre_all_ng sc_cr sc_blocks scR_c (w_disk scR_w) lx_eU.
Proof.
  unfold pre_all_ng, lx_eU, lx_ev. cbv zeta.
  change (kp_public (c_keypair scR_c)) with sc_key.
  split; [exact sc_writer_at|]. split; [lx_arith|].
  split; [cbn; repeat split; lx_arith|]. cbn. lx_arith.
Qed.

Lemma lx1_RCInv : exists H, RCInv sc_cr sc_blocks lx1_c (w_disk lx1_w) H.
Proof.
  destruct scR_w as [d0 j0 ev0] eqn:Ew.
  pose proof sc_R0_RCInv as RC. pose proof lx_preU as Hp. pose proof lx_exec1 as Hx. rewrite Ew in RC, Hp, Hx.
  cbn [w_disk] in RC, Hp.
  assert (Hh : hist_all_ng sc_cr sc_blocks [lx_eU] scR_c (mkWorld d0 j0 ev0)).
  { cbn [hist_all_ng w_disk]. split; [exact Hp|]. intros c' w' _. exact I. }
  destruct (honest_replicas_converge_no_guard sc_cr sc_crc_ok sc_hash32 sc_nonblank sc_hashbytes sc_blocks sc_writer_fits
              [lx_eU] scR_c d0 j0 ev0 (fun _ => false) RC Hh) as (c' & w' & Hrun & RC' & _).
  cbn [run] in Hrun. rewrite Hx in Hrun. injection Hrun as <- <-. eexists. exact RC'.
Qed.

(* 1. the writer's hash-section proof for node 4 (two nodes up), with the sizes of nodes 4 and 6 shifted by +1 / -1 *)
Definition lx_resize (x : node) (l : N) : node := mkNode (n_index x) l (n_hash x).

Definition lx_alter (pf : proof) : option proof :=
  match p_hash pf with
  | Some h =>
      match dh_nodes h with
      | n4 :: n6 :: rest =>
          Some (mkProof (p_fork pf) None
                  (Some (mkDataHash (dh_index h)
                           (lx_resize n4 (n_length n4 + 1) :: lx_resize n6 (n_length n6 - 1) :: rest)))
                  None None)
      | _ => None
      end
  | None => None
  end.

Definition lx_honest_hash_proof : option proof :=
  match core_create_proof None (Some (mkReqBlock 4 2)) None None scW_c scW_w with
  | (_, _, Ok (Some pf)) => Some pf
  | _ => None
  end.

Definition lx_pf : proof :=
  Eval vm_compute in match lx_honest_hash_proof with
                     | Some pf0 => match lx_alter pf0 with Some pf => pf | None => mkProof 9 None None None None end
                     | None => mkProof 9 None None None None
                     end.

(* the altered proof is the writer's proof with exactly these two size fields changed *)
Example lx_pf_origin :
  exists pf0, lx_honest_hash_proof = Some pf0 /\ lx_alter pf0 = Some lx_pf /\
    option_map (fun h => map (fun n => (n_index n, n_length n)) (dh_nodes h)) (p_hash pf0) = Some [(4, 1); (6, 4); (1, 3)] /\
    option_map (fun h => map (fun n => (n_index n, n_length n)) (dh_nodes h)) (p_hash lx_pf) = Some [(4, 2); (6, 3); (1, 3)].
Proof. eexists. split; [vm_compute; reflexivity|]. vm_compute. repeat split. Qed.

Definition lx_s2 : core * world * res bool := Eval vm_compute in core_apply_proof sc_cr (Some false) lx_pf lx1_c lx1_w.
Definition lx2_c : core := Eval vm_compute in fst (fst lx_s2).
Definition lx2_w : world := Eval vm_compute in snd (fst lx_s2).
Lemma lx_apply2 : core_apply_proof sc_cr (Some false) lx_pf lx1_c lx1_w = (lx2_c, lx2_w, Ok true).
Proof. vm_compute. reflexivity. Qed.

(* 2., 3. the honest rounds: block 3, then block 2, each with the replica's own node count *)
Definition lx_e3 := lx_ev (Some false) (mkRequest (Some (mkReqBlock 3 0)) None None None).
Definition lx_s3 : option (core * world) := Eval vm_compute in exec sc_cr lx2_c lx2_w lx_e3.
Definition lx3_c : core := Eval vm_compute in match lx_s3 with Some (c, _) => c | None => dummy_core end.
Definition lx3_w : world := Eval vm_compute in match lx_s3 with Some (_, w) => w | None => dummy_world end.
Lemma lx_exec3 : exec sc_cr lx2_c lx2_w lx_e3 = Some (lx3_c, lx3_w).
Proof. vm_compute. reflexivity. Qed.

Definition lx_e4 := lx_ev (Some false) (mkRequest (Some (mkReqBlock 2 0)) None None None).
Definition lx_s4 : option (core * world) := Eval vm_compute in exec sc_cr lx3_c lx3_w lx_e4.
Definition lx4_c : core := Eval vm_compute in match lx_s4 with Some (c, _) => c | None => dummy_core end.
Definition lx4_w : world := Eval vm_compute in match lx_s4 with Some (_, w) => w | None => dummy_world end.
Lemma lx_exec4 : exec sc_cr lx3_c lx3_w lx_e4 = Some (lx4_c, lx4_w).
Proof. vm_compute. reflexivity. Qed.

Definition lx_es : list revent := [lx_e3; lx_e4].

Lemma lx_hist : hist_all_ng sc_cr sc_blocks lx_es lx2_c lx2_w.
Proof.
  unfold lx_es. cbn [hist_all_ng]. split.
  { apply lx_pre_block; lx_arith. }
  intros c3 w3 E3. rewrite lx_exec3 in E3. injection E3 as <- <-. split.
  { apply lx_pre_block; lx_arith. }
  intros c4 w4 _. exact I.
Qed.

Lemma lx_run : run sc_cr lx_es lx2_c lx2_w = Some (lx4_c, lx4_w).
Proof. unfold lx_es. cbn [run]. rewrite lx_exec3, lx_exec4. reflexivity. Qed.

Theorem liveness_fails_after_size_carveout :
  exists (c : core) (w : world) (H : N -> bool) (f : option bool) (pf : proof) (c' : core) (w' : world),
    (* a replica satisfying the invariant the C03 / C04 theorems start from *)
    RCInv sc_cr sc_blocks c (w_disk w) H /\
    (* a proof with a hash section only: the shape excluded by rd_proof_ok / block_upgrade_ok *)
    (p_block pf = None /\ p_seek pf = None /\ p_upgrade pf = None /\ exists h, p_hash pf = Some h) /\
    (* it is accepted *)
    core_apply_proof sc_cr f pf c w = (c', w', Ok true) /\
    (* an honest history afterwards: well formed, it runs, block 3 was requested and is held ... *)
    (exists es c2 w2,
       hist_all_ng sc_cr sc_blocks es c' w' /\
       run sc_cr es c' w' = Some (c2, w2) /\
       requested es 3 /\ core_has c2 3 = true /\
       (* ... and is NOT the writer's block *)
       snd (core_get 3 c2 w2) = Ok (Some [0; 5; 6; 7]) /\ blk sc_blocks 3 = [5; 6; 7; 8]) /\
    (* so honest replication does not complete, whatever the held set *)
    (forall H', ~ completes sc_cr sc_blocks c' w' H').
Proof.
  destruct lx1_RCInv as (H & RC).
  exists lx1_c, lx1_w, H, (Some false), lx_pf, lx2_c, lx2_w.
  split; [exact RC|]. split; [repeat split; eexists; reflexivity|]. split; [exact lx_apply2|]. split.
  - exists lx_es, lx4_c, lx4_w. split; [exact lx_hist|]. split; [exact lx_run|].
    split; [cbn; left; eexists; split; reflexivity|]. split; [vm_compute; reflexivity|].
    split; vm_compute; reflexivity.
  - intros H' Hc. destruct (Hc lx_es lx_hist) as (c2 & w2 & Hrun & _ & _ & _ & _ & _ & _ & Hget).
    rewrite lx_run in Hrun. injection Hrun as <- <-.
    specialize (Hget 3 (w_journal lx4_w) (w_events lx4_w) ltac:(vm_compute; reflexivity)).
    apply (f_equal snd) in Hget. vm_compute in Hget. discriminate Hget.
Qed.

(* ====================================================================================== *)
(* B. non-vacuity of C04_then_complete / C04_history_then_complete                          *)
(* ====================================================================================== *)

Definition ly_getpf (x : core * world * res (option proof)) : proof :=
  match x with (_, _, Ok (Some pf)) => pf | _ => mkProof 9 None None None None end.

(* an unsolicited block proof (block 3 with two nodes: the replica would have asked for another count) *)
Definition ly_pfB : proof :=
  Eval vm_compute in ly_getpf (core_create_proof (Some (mkReqBlock 3 2)) None None None scW_c scW_w).
(* a tampered block proof: the writer's proof for block 2 with the value replaced *)
Definition ly_pfBad : proof :=
  Eval vm_compute in
    match p_block (ly_getpf (core_create_proof (Some (mkReqBlock 2 2)) None None None scW_c scW_w)) with
    | Some b => mkProof 0 (Some (mkDataBlock (db_index b) [7] (db_nodes b))) None None None
    | None => mkProof 9 None None None None
    end.
(* a replayed upgrade proof 0..6 *)
Definition ly_pfUp : proof :=
  Eval vm_compute in ly_getpf (core_create_proof None None None (Some (mkReqUpgrade 0 6)) scW_c scW_w).

Lemma ly_pfB_ok : rd_proof_ok ly_pfB.
Proof. split; [split; [reflexivity|split; [reflexivity|exact I]]|exact I]. Qed.
Lemma ly_pfBad_ok : rd_proof_ok ly_pfBad.
Proof. split; [split; [reflexivity|split; [reflexivity|exact I]]|exact I]. Qed.
Lemma ly_pfUp_ok : rd_proof_ok ly_pfUp.
Proof.
  split; [split; [reflexivity|split; [reflexivity|]]|vm_compute; reflexivity].
  cbn [ly_pfUp p_upgrade p_block du_additional du_nodes].
  split; [reflexivity|]. split; [vm_compute; reflexivity|]. split; [|exact I].
  intros x y Hx Hy. cbn [In] in Hx, Hy.
  destruct Hx as [<-|[<-|[]]]; destruct Hy as [<-|[<-|[]]]; vm_compute; discriminate.
Qed.

Definition ly_s0 : lev := LHon lx_eU.
Definition ly_s1 : lev := LAdv (Some false) ly_pfB.
Definition ly_s2 : lev := LAdv None ly_pfBad.
Definition ly_s3 : lev := LAdv (Some true) ly_pfUp.
Definition ly_s4 : lev := LHon EReopen.
Definition ly_ss : list lev := [ly_s0; ly_s1; ly_s2; ly_s3; ly_s4].

Definition ly_r1 : option (core * world) := Eval vm_compute in lexec sc_cr lx1_c lx1_w ly_s1.
Definition ly1_c : core := Eval vm_compute in match ly_r1 with Some (c, _) => c | None => dummy_core end.
Definition ly1_w : world := Eval vm_compute in match ly_r1 with Some (_, w) => w | None => dummy_world end.
Lemma ly_exec0 : lexec sc_cr scR_c scR_w ly_s0 = Some (lx1_c, lx1_w).
Proof. exact lx_exec1. Qed.
Lemma ly_exec1 : lexec sc_cr lx1_c lx1_w ly_s1 = Some (ly1_c, ly1_w).
Proof. vm_compute. reflexivity. Qed.
Definition ly_r2 : option (core * world) := Eval vm_compute in lexec sc_cr ly1_c ly1_w ly_s2.
Definition ly2_c : core := Eval vm_compute in match ly_r2 with Some (c, _) => c | None => dummy_core end.
Definition ly2_w : world := Eval vm_compute in match ly_r2 with Some (_, w) => w | None => dummy_world end.
Lemma ly_exec2 : lexec sc_cr ly1_c ly1_w ly_s2 = Some (ly2_c, ly2_w).
Proof. vm_compute. reflexivity. Qed.
Definition ly_r3 : option (core * world) := Eval vm_compute in lexec sc_cr ly2_c ly2_w ly_s3.
Definition ly3_c : core := Eval vm_compute in match ly_r3 with Some (c, _) => c | None => dummy_core end.
Definition ly3_w : world := Eval vm_compute in match ly_r3 with Some (_, w) => w | None => dummy_world end.
Lemma ly_exec3 : lexec sc_cr ly2_c ly2_w ly_s3 = Some (ly3_c, ly3_w).
Proof. vm_compute. reflexivity. Qed.
Definition ly_r4 : option (core * world) := Eval vm_compute in lexec sc_cr ly3_c ly3_w ly_s4.
Definition ly4_c : core := Eval vm_compute in match ly_r4 with Some (c, _) => c | None => dummy_core end.
Definition ly4_w : world := Eval vm_compute in match ly_r4 with Some (_, w) => w | None => dummy_world end.
Lemma ly_exec4 : lexec sc_cr ly3_c ly3_w ly_s4 = Some (ly4_c, ly4_w).
Proof. vm_compute. reflexivity. Qed.

(* what the adversary's proofs were answered: accepted, refused with an error (state unchanged), accepted *)
Example ly_outcomes :
  snd (core_apply_proof sc_cr (Some false) ly_pfB lx1_c lx1_w) = Ok true /\
  core_apply_proof sc_cr None ly_pfBad ly1_c ly1_w = (ly1_c, ly1_w, Err InvalidChecksum) /\
  snd (core_apply_proof sc_cr (Some true) ly_pfUp ly2_c ly2_w) = Ok true /\
  core_has ly4_c 3 = true /\ snd (core_get 3 ly4_c ly4_w) = Ok (Some [5; 6; 7; 8]).
Proof. vm_compute. repeat split. Qed.

Lemma ly_hist : lhist sc_cr sc_blocks ly_ss scR_c scR_w.
Proof.
  unfold ly_ss. cbn [lhist]. split; [exact lx_preU|].
  intros c1 w1 E. rewrite ly_exec0 in E. injection E as <- <-. split; [exact ly_pfB_ok|].
  intros c2 w2 E. rewrite ly_exec1 in E. injection E as <- <-. split; [exact ly_pfBad_ok|].
  intros c3 w3 E. rewrite ly_exec2 in E. injection E as <- <-. split; [exact ly_pfUp_ok|].
  intros c4 w4 E. rewrite ly_exec3 in E. injection E as <- <-. split; [exact I|].
  intros c5 w5 _. exact I.
Qed.

Lemma ly_run : lrun sc_cr ly_ss scR_c scR_w = Some (ly4_c, ly4_w).
Proof. unfold ly_ss. cbn [lrun]. rewrite ly_exec0, ly_exec1, ly_exec2, ly_exec3, ly_exec4. reflexivity. Qed.

(* a further honest history from the state reached: block 5 (one node), then block 2 (none) *)
Definition ly_e5 := lx_ev None (mkRequest (Some (mkReqBlock 5 1)) None None None).
Definition ly_r5 : option (core * world) := Eval vm_compute in exec sc_cr ly4_c ly4_w ly_e5.
Definition ly5_c : core := Eval vm_compute in match ly_r5 with Some (c, _) => c | None => dummy_core end.
Definition ly5_w : world := Eval vm_compute in match ly_r5 with Some (_, w) => w | None => dummy_world end.
Lemma ly_exec5 : exec sc_cr ly4_c ly4_w ly_e5 = Some (ly5_c, ly5_w).
Proof. vm_compute. reflexivity. Qed.
Definition ly_e6 := lx_ev (Some true) (mkRequest (Some (mkReqBlock 2 0)) None None None).
Definition ly_es : list revent := [ly_e5; ly_e6].

Lemma ly_hist2 : hist_all_ng sc_cr sc_blocks ly_es ly4_c ly4_w.
Proof.
  unfold ly_es. cbn [hist_all_ng]. split.
  { apply lx_pre_block; lx_arith. }
  intros c5 w5 E. rewrite ly_exec5 in E. injection E as <- <-. split.
  { apply lx_pre_block; lx_arith. }
  intros c6 w6 _. exact I.
Qed.

(* the history theorem applies: all its hypotheses hold on the instance, and its conclusion gives (unless the toy
   hash collides / the toy signature is forged) the convergence of the further honest history *)
Example ly_history_then_complete_applies :
  RCInv sc_cr sc_blocks scR_c (w_disk scR_w) (fun _ => false) /\
  lhist sc_cr sc_blocks ly_ss scR_c scR_w /\
  lrun sc_cr ly_ss scR_c scR_w = Some (ly4_c, ly4_w) /\
  hist_all_ng sc_cr sc_blocks ly_es ly4_c ly4_w /\
  ((core_has ly4_c 3 = true /\
    (forall i j2 ev2, core_has ly4_c i = true ->
       core_get i ly4_c (mkWorld (w_disk ly4_w) j2 ev2) = (ly4_c, mkWorld (w_disk ly4_w) j2 ev2, Ok (Some (blk sc_blocks i)))) /\
    exists c2 w2,
      run sc_cr ly_es ly4_c ly4_w = Some (c2, w2) /\
      core_has c2 5 = true /\ core_has c2 2 = true /\ core_has c2 3 = true /\
      (forall i j2 ev2, core_has c2 i = true ->
         core_get i c2 (mkWorld (w_disk w2) j2 ev2) = (c2, mkWorld (w_disk w2) j2 ev2, Ok (Some (blk sc_blocks i))))) \/
   some_collision sc_cr \/ forged_signature sc_cr sc_blocks (kp_public (c_keypair scR_c))).
Proof.
  split; [exact sc_R0_RCInv|]. split; [exact ly_hist|]. split; [exact ly_run|]. split; [exact ly_hist2|].
  destruct scR_w as [d0 j0 ev0] eqn:Ew.
  pose proof sc_R0_RCInv as RC. pose proof ly_hist as Hh. pose proof ly_run as Hr. rewrite Ew in RC, Hh, Hr.
  cbn [w_disk] in RC.
  destruct (C04_history_then_complete sc_cr sc_crc_ok sc_hash32 sc_nonblank sc_hashbytes sc_blocks sc_writer_fits
              ly_ss scR_c d0 j0 ev0 (fun _ => false) ly4_c ly4_w RC Hh Hr)
    as [(H' & _ & _ & Hhas & Hget & _ & _ & _ & Hc)|Esc]; [left|right; exact Esc].
  split; [vm_compute; reflexivity|]. split; [exact Hget|].
  destruct (Hc ly_es ly_hist2) as (c2 & w2 & Hrun & _ & _ & _ & _ & Hreq & Hmono & Hget2).
  exists c2, w2. split; [exact Hrun|].
  split; [apply Hreq; cbn; left; eexists; split; reflexivity|].
  split; [apply Hreq; cbn; right; left; eexists; split; reflexivity|].
  split; [apply Hmono; rewrite <- Hhas; vm_compute; reflexivity|exact Hget2].
Qed.

(* the one-step theorem applies to the accepted unsolicited proof and to the refused tampered proof *)
Example ly_then_complete_applies :
  (exists H, RCInv sc_cr sc_blocks lx1_c (w_disk lx1_w) H) /\ rd_proof_ok ly_pfB /\
  core_apply_proof sc_cr (Some false) ly_pfB lx1_c lx1_w = (ly1_c, ly1_w, Ok true) /\ answered (Ok true) /\
  rd_proof_ok ly_pfBad /\
  core_apply_proof sc_cr None ly_pfBad ly1_c ly1_w = (ly1_c, ly1_w, Err InvalidChecksum) /\ answered (Err InvalidChecksum).
Proof.
  split; [exact lx1_RCInv|]. split; [exact ly_pfB_ok|]. split; [vm_compute; reflexivity|]. split; [exact I|].
  split; [exact ly_pfBad_ok|]. split; [vm_compute; reflexivity|exact I].
Qed.

(* ====================================================================================== *)
(* C. the other excluded shape: an upgrade section WITH additional nodes                     *)
(* ====================================================================================== *)

(* The fresh replica is handed the writer's own proof for the partial upgrade 0..3 (nodes [1;4], additional nodes
   [6;9]) with the size of the upgrade node 4 shifted 1 -> 2 and of the additional node 6 shifted 4 -> 3 (siblings:
   the sum is kept).  Accepted; the replica is at length 6.  The same honest history (block 3, block 2) then leaves
   block 3 held with the bytes [0;5;6;7]. *)
Definition lz_honest : proof :=
  Eval vm_compute in ly_getpf (core_create_proof None None None (Some (mkReqUpgrade 0 3)) scW_c scW_w).

Definition lz_alter (pf : proof) : option proof :=
  match p_upgrade pf with
  | Some u =>
      match du_nodes u, du_additional u with
      | [n1; n4], n6 :: rest =>
          Some (mkProof (p_fork pf) None None None
                  (Some (mkDataUpgrade (du_start u) (du_length u)
                           [n1; lx_resize n4 (n_length n4 + 1)]
                           (lx_resize n6 (n_length n6 - 1) :: rest) (du_signature u))))
      | _, _ => None
      end
  | None => None
  end.

Definition lz_pf : proof :=
  Eval vm_compute in match lz_alter lz_honest with Some pf => pf | None => mkProof 9 None None None None end.

Definition lz_sizes (pf : proof) :=
  option_map (fun u => (map (fun n => (n_index n, n_length n)) (du_nodes u),
                        map (fun n => (n_index n, n_length n)) (du_additional u))) (p_upgrade pf).

Example lz_pf_origin :
  core_create_proof None None None (Some (mkReqUpgrade 0 3)) scW_c scW_w = (scW_c, scW_w, Ok (Some lz_honest)) /\
  lz_alter lz_honest = Some lz_pf /\
  lz_sizes lz_honest = Some ([(1, 3); (4, 1)], [(6, 4); (9, 3)]) /\
  lz_sizes lz_pf = Some ([(1, 3); (4, 2)], [(6, 3); (9, 3)]).
Proof. vm_compute. repeat split. Qed.

Definition lz_s1 : core * world * res bool := Eval vm_compute in core_apply_proof sc_cr (Some false) lz_pf scR_c scR_w.
Definition lz1_c : core := Eval vm_compute in fst (fst lz_s1).
Definition lz1_w : world := Eval vm_compute in snd (fst lz_s1).
Lemma lz_apply1 : core_apply_proof sc_cr (Some false) lz_pf scR_c scR_w = (lz1_c, lz1_w, Ok true).
Proof. vm_compute. reflexivity. Qed.

Definition lz_s3 : option (core * world) := Eval vm_compute in exec sc_cr lz1_c lz1_w lx_e3.
Definition lz3_c : core := Eval vm_compute in match lz_s3 with Some (c, _) => c | None => dummy_core end.
Definition lz3_w : world := Eval vm_compute in match lz_s3 with Some (_, w) => w | None => dummy_world end.
Lemma lz_exec3 : exec sc_cr lz1_c lz1_w lx_e3 = Some (lz3_c, lz3_w).
Proof. vm_compute. reflexivity. Qed.
Definition lz_s4 : option (core * world) := Eval vm_compute in exec sc_cr lz3_c lz3_w lx_e4.
Definition lz4_c : core := Eval vm_compute in match lz_s4 with Some (c, _) => c | None => dummy_core end.
Definition lz4_w : world := Eval vm_compute in match lz_s4 with Some (_, w) => w | None => dummy_world end.
Lemma lz_exec4 : exec sc_cr lz3_c lz3_w lx_e4 = Some (lz4_c, lz4_w).
Proof. vm_compute. reflexivity. Qed.

Lemma lz_hist : hist_all_ng sc_cr sc_blocks lx_es lz1_c lz1_w.
Proof.
  unfold lx_es. cbn [hist_all_ng]. split.
  { apply lx_pre_block; lx_arith. }
  intros c3 w3 E3. rewrite lz_exec3 in E3. injection E3 as <- <-. split.
  { apply lx_pre_block; lx_arith. }
  intros c4 w4 _. exact I.
Qed.

Lemma lz_run : run sc_cr lx_es lz1_c lz1_w = Some (lz4_c, lz4_w).
Proof. unfold lx_es. cbn [run]. rewrite lz_exec3, lz_exec4. reflexivity. Qed.

Theorem liveness_fails_after_additional_nodes_carveout :
  exists (c : core) (w : world) (f : option bool) (pf : proof) (u : data_upgrade) (c' : core) (w' : world),
    (* the replica created from the public key alone *)
    (exists ops, core_open sc_cr (Some (mkKeypair sc_key None)) false disk_empty = (w_disk w, ops, Ok c)) /\
    RCInv sc_cr sc_blocks c (w_disk w) (fun _ => false) /\
    (* an upgrade section only, but with additional nodes: excluded by rd_proof_ok / block_upgrade_ok *)
    (p_block pf = None /\ p_hash pf = None /\ p_seek pf = None /\ p_upgrade pf = Some u /\ du_additional u <> []) /\
    core_apply_proof sc_cr f pf c w = (c', w', Ok true) /\
    (exists es c2 w2,
       hist_all_ng sc_cr sc_blocks es c' w' /\
       run sc_cr es c' w' = Some (c2, w2) /\
       requested es 3 /\ core_has c2 3 = true /\
       snd (core_get 3 c2 w2) = Ok (Some [0; 5; 6; 7]) /\ blk sc_blocks 3 = [5; 6; 7; 8]) /\
    (forall H', ~ completes sc_cr sc_blocks c' w' H').
Proof.
  exists scR_c, scR_w, (Some false), lz_pf.
  destruct (p_upgrade lz_pf) as [u|] eqn:Eu; [|discriminate Eu].
  exists u, lz1_c, lz1_w.
  split; [eexists; vm_compute; reflexivity|]. split; [exact sc_R0_RCInv|]. split.
  { repeat split; try reflexivity. vm_compute in Eu. injection Eu as <-. discriminate. }
  split; [exact lz_apply1|]. split.
  - exists lx_es, lz4_c, lz4_w. split; [exact lz_hist|]. split; [exact lz_run|].
    split; [cbn; left; eexists; split; reflexivity|]. split; [vm_compute; reflexivity|].
    split; vm_compute; reflexivity.
  - intros H' Hc. destruct (Hc lx_es lz_hist) as (c2 & w2 & Hrun & _ & _ & _ & _ & _ & _ & Hget).
    rewrite lz_run in Hrun. injection Hrun as <- <-.
    specialize (Hget 3 (w_journal lz4_w) (w_events lz4_w) ltac:(vm_compute; reflexivity)).
    apply (f_equal snd) in Hget. vm_compute in Hget. discriminate Hget.
Qed.

(* ====================================================================================== *)
(* D. the scope of the history semantics: an adversarial proof can end in a panic            *)
(* ====================================================================================== *)

(* the unsolicited block proof with the sizes of its sibling nodes set to 2^64 - 1: the verifier's size addition
   overflows (panic site "left.length + right.length", DESIGN appendix C).  The state is unchanged, the process is
   dead: lexec = None.  This is the only way such a history stops (lrun_progress); its hypotheses hold here. *)
Definition ly_pfP : proof :=
  Eval vm_compute in
    match p_block ly_pfB with
    | Some b => mkProof 0 (Some (mkDataBlock (db_index b) (db_value b)
                                   (map (fun n => lx_resize n 18446744073709551615) (db_nodes b)))) None None None
    | None => mkProof 9 None None None None
    end.

Example ly_progress_applies :
  RCInv sc_cr sc_blocks scR_c (w_disk scR_w) (fun _ => false) /\
  rd_proof_ok ly_pfP /\
  core_apply_proof sc_cr None ly_pfP lx1_c lx1_w = (lx1_c, lx1_w, Panic "left.length + right.length") /\
  lhist sc_cr sc_blocks [ly_s0; LAdv None ly_pfP; ly_s4] scR_c scR_w /\
  lrun sc_cr [ly_s0; LAdv None ly_pfP; ly_s4] scR_c scR_w = None.
Proof.
  split; [exact sc_R0_RCInv|].
  assert (Hok : rd_proof_ok ly_pfP) by (split; [split; [reflexivity|split; [reflexivity|exact I]]|exact I]).
  split; [exact Hok|]. split; [vm_compute; reflexivity|]. split.
  - cbn [lhist]. split; [exact lx_preU|].
    intros c1 w1 E. rewrite ly_exec0 in E. injection E as <- <-. split; [exact Hok|].
    intros c2 w2 E. vm_compute in E. discriminate E.
  - cbn [lrun]. rewrite ly_exec0. vm_compute. reflexivity.
Qed.

Print Assumptions liveness_fails_after_size_carveout.
Print Assumptions liveness_fails_after_additional_nodes_carveout.
Print Assumptions lz_pf_origin.
Print Assumptions lx_pf_origin.
Print Assumptions ly_outcomes.
Print Assumptions ly_history_then_complete_applies.
Print Assumptions ly_then_complete_applies.
Print Assumptions ly_progress_applies.

(* TornCore.v — C07 over all four stores, part C: histories with crashes whose last write may be torn.
   Operations: append/batch, get, has, info, reopen, CRASH k (CrashCore3: the next append is cut after k
   whole operations of its journal, then the storage is opened) and TORN k t: the next append is cut after
   k whole operations and the first t bytes of the k-th one (when that one is a write of more than t
   bytes; otherwise the step is CRASH k), then the storage is opened.  Every observation is the list
   model's, where the crashed append took effect completely (k >= 2: its oplog entry reached the store)
   or not at all (k = 0, 1: a torn entry write is ignored).
   Escape clauses, exactly those of Crash.header_write_torn: a torn HEADER SLOT write may exhibit a CRC-32
   collision; a tear of at most 4 bytes (inside the CRC field) over a slot that was already invalid
   needs that slot to be dead — [trun_safe] states this on the run; [tears_ok] is a syntactic sufficient
   condition: a torn crash is unconditional when it is the first one of the history or the first one since
   an append with a forced flush completed; the others need t > 4. *)
From HC Require Import Base NMap Codec CodecFacts Crypto FlatTree Storage Bitfield Oplog Merkle Core.
From HC Require Import FlatTreeFacts StorageFacts BitfieldFacts OplogFacts TreeRef OffsetFacts CoreFacts Crash Refine Reopen.
From HC Require Import ContigBridge CrashCore1 CrashCore2 CrashCore3 TornCoreA TornCoreB.
From Coq Require Import FMapPositive ZifyN ZifyNat ZifyBool.
Ltac Zify.zify_post_hook ::= Z.div_mod_to_equations.
Arguments N.add : simpl never.
Arguments N.sub : simpl never.
Arguments N.mul : simpl never.
Arguments N.div : simpl never.
Arguments N.modulo : simpl never.
Arguments N.pow : simpl never.
Arguments N.eqb : simpl never.
Arguments N.ltb : simpl never.
Arguments N.leb : simpl never.
Arguments N.of_nat : simpl never.
Arguments N.to_nat : simpl never.

Inductive top :=
| TAppend (f : option bool) (batch : list bytes)
| TGet (i : N)
| THas (i : N)
| TInfo
| TReopen
| TCrash (f : option bool) (batch : list bytes) (k : nat)
| TTorn (f : option bool) (batch : list bytes) (k t : nat).
    (* the process dies during this append, after k operations of its journal and the first t bytes of
       the next one; then the storage is opened *)

(* the list model; observations as in CrashCore3 (XOCrash = the result of the open after a crash) *)
Fixpoint tspec_obs (ops : list top) (bs : list bytes) : list xobs :=
  match ops with
  | [] => []
  | TAppend _ batch :: rest =>
      XOAppend (Ok (N.of_nat (length (bs ++ batch)), sumN (map len (bs ++ batch)))) :: tspec_obs rest (bs ++ batch)
  | TGet i :: rest =>
      XOGet (Ok (if i <? N.of_nat (length bs) then Some (nth (N.to_nat i) bs []) else None)) :: tspec_obs rest bs
  | THas i :: rest => XOHas (i <? N.of_nat (length bs)) :: tspec_obs rest bs
  | TInfo :: rest =>
      XOInfo (mkInfo (N.of_nat (length bs)) (sumN (map len bs)) (N.of_nat (length bs)) 0 true) :: tspec_obs rest bs
  | TReopen :: rest => XOReopen (Ok tt) :: tspec_obs rest bs
  | TCrash _ batch k :: rest =>
      XOCrash (Ok tt) :: tspec_obs rest (if took_effect k then bs ++ batch else bs)
  | TTorn _ batch k _ :: rest =>
      XOCrash (Ok tt) :: tspec_obs rest (if took_effect k then bs ++ batch else bs)
  end.

Fixpoint tappended (ops : list top) : list bytes :=
  match ops with
  | [] => []
  | TAppend _ batch :: rest => batch ++ tappended rest
  | TCrash _ batch _ :: rest => batch ++ tappended rest
  | TTorn _ batch _ _ :: rest => batch ++ tappended rest
  | _ :: rest => tappended rest
  end.

(* the operations that reached the store before the crash: k whole ones, then (ot = Some t, and the k-th
   operation is a write of more than t bytes) that write cut to t bytes *)
Definition crash_ops (delta : list sop) (k : nat) (ot : option nat) : list sop :=
  firstn k delta ++
  match ot, nth_error delta k with
  | Some t, Some o => if (t <? wlen o)%nat then [tear o t] else []
  | _, _ => []
  end.

(* the side condition of the torn write, on the disk before it *)
Definition crash_safe (cr : crypto) (d : disk) (delta : list sop) (k : nat) (ot : option nat) : Prop :=
  match ot, nth_error delta k, apply_sops d (firstn k delta) with
  | Some t, Some o, Some dk => (t < wlen o)%nat -> tear_safe cr dk o t
  | _, _, _ => True
  end.

Section TornRun.
  Variable cr : crypto.

  (* a crashing append: run it to find its journal, apply the part that reached the store to the old
     disk, lose memory and events, open *)
  Definition crash_run (f : option bool) (batch : list bytes) (k : nat) (ot : option nat)
             (K : core -> world -> list xobs) (c : core) (w : world) : list xobs :=
    let '(c', w', r) := core_append cr f batch c w in
    match r with
    | Ok _ =>
        let cut := crash_ops (journal_delta (w_journal w) (w_journal w')) k ot in
        match apply_sops (w_disk w) cut with
        | Some dk =>
            let '(d', sops, ro) := core_open cr None true dk in
            XOCrash (res_unit ro) ::
            (match ro with
             | Ok c'' => K c'' (mkWorld d' (rev sops ++ rev cut ++ w_journal w) (w_events w))
             | _ => []
             end)
        | None => [XOCrash (Err InvalidOperation)]
        end
    | _ => [XOAppend r]     (* the append fails by itself (30-bit frame limit): as for TAppend *)
    end.

  Fixpoint trun_obs (ops : list top) (c : core) (w : world) : list xobs :=
    match ops with
    | [] => []
    | op :: rest =>
        match op with
        | TAppend f batch =>
            let '(c', w', r) := core_append cr f batch c w in
            XOAppend r :: (match r with Ok _ => trun_obs rest c' w' | _ => [] end)
        | TGet i => let '(c', w', r) := core_get i c w in XOGet r :: trun_obs rest c' w'
        | THas i => XOHas (core_has c i) :: trun_obs rest c w
        | TInfo => XOInfo (core_info c) :: trun_obs rest c w
        | TReopen =>
            let '(d', sops, r) := core_open cr None true (w_disk w) in
            XOReopen (res_unit r) ::
            (match r with
             | Ok c' => trun_obs rest c' (mkWorld d' (rev sops ++ w_journal w) (w_events w))
             | _ => []
             end)
        | TCrash f batch k => crash_run f batch k None (trun_obs rest) c w
        | TTorn f batch k t => crash_run f batch k (Some t) (trun_obs rest) c w
        end
    end.

  (* the side conditions of the torn writes of a run *)
  Definition crash_side (f : option bool) (batch : list bytes) (k : nat) (ot : option nat)
             (K : core -> world -> Prop) (c : core) (w : world) : Prop :=
    let '(c', w', r) := core_append cr f batch c w in
    match r with
    | Ok _ =>
        let delta := journal_delta (w_journal w) (w_journal w') in
        let cut := crash_ops delta k ot in
        crash_safe cr (w_disk w) delta k ot /\
        match apply_sops (w_disk w) cut with
        | Some dk =>
            let '(d', sops, ro) := core_open cr None true dk in
            match ro with
            | Ok c'' => K c'' (mkWorld d' (rev sops ++ rev cut ++ w_journal w) (w_events w))
            | _ => True
            end
        | None => True
        end
    | _ => True
    end.

  Fixpoint trun_safe (ops : list top) (c : core) (w : world) : Prop :=
    match ops with
    | [] => True
    | op :: rest =>
        match op with
        | TAppend f batch =>
            let '(c', w', r) := core_append cr f batch c w in
            match r with Ok _ => trun_safe rest c' w' | _ => True end
        | TGet i => let '(c', w', r) := core_get i c w in trun_safe rest c' w'
        | THas i => trun_safe rest c w
        | TInfo => trun_safe rest c w
        | TReopen =>
            let '(d', sops, r) := core_open cr None true (w_disk w) in
            match r with
            | Ok c' => trun_safe rest c' (mkWorld d' (rev sops ++ w_journal w) (w_events w))
            | _ => True
            end
        | TCrash f batch k => crash_side f batch k None (trun_safe rest) c w
        | TTorn f batch k t => crash_side f batch k (Some t) (trun_safe rest) c w
        end
    end.
End TornRun.

(* a syntactic sufficient condition for trun_safe from creation.  seen = a torn crash happened and no
   append with a forced flush completed since (such an append rewrites the slot a torn header write may
   have damaged).  A torn crash is free when seen = false; otherwise it must tear after the CRC field *)
Fixpoint tears_ok (seen : bool) (ops : list top) : Prop :=
  match ops with
  | [] => True
  | TTorn _ _ _ t :: rest => (seen = false \/ (4 < t)%nat) /\ tears_ok true rest
  | TAppend (Some true) (_ :: _) :: rest => tears_ok false rest
  | _ :: rest => tears_ok seen rest
  end.

Section HistoryTorn.
  Variable cr : crypto.
  Hypothesis Hcrc : crc_ok cr.
  Hypothesis Hhash32 : forall x, length (cr_hash cr x) = 32%nat.
  Hypothesis Hnonblank : forall x, all_zero (cr_hash cr x) = false.
  Hypothesis Hhashbytes : forall x, bytes_ok (cr_hash cr x) = true.
  Hypothesis Hsig64 : forall sk m, length (cr_sign cr sk m) = 64%nat.
  Hypothesis Hsigbytes : forall sk m, bytes_ok (cr_sign cr sk m) = true.

  (* the disk a crash leaves, from the clean and torn cuts of append_Y *)
  Lemma crash_outcome kp d delta bs B k ot :
    (forall k, exists dk, apply_sops d (firstn k delta) = Some dk /\
        YDisk cr kp dk (if (k <? 2)%nat then bs else B) /\
        (hyg cr (f_content (d_oplog d)) -> hyg cr (f_content (d_oplog dk)))) ->
    (forall k o t, nth_error delta k = Some o -> (t < wlen o)%nat ->
        exists dk dkt, apply_sops d (firstn k delta) = Some dk /\ apply_sop dk (tear o t) = Some dkt /\
          QA cr kp (if (k <? 2)%nat then bs else B) dk o t dkt) ->
    exists dc, apply_sops d (crash_ops delta k ot) = Some dc /\
      (crash_safe cr d delta k ot ->
         recovers cr kp dc (if (k <? 2)%nat then bs else B) \/ exists t, collision cr t) /\
      (hyg cr (f_content (d_oplog d)) -> crash_safe cr d delta k ot) /\
      (ot = None -> hyg cr (f_content (d_oplog d)) -> hyg cr (f_content (d_oplog dc))).
  Proof.
    intros C1 T1.
    assert (Clean : exists dc, apply_sops d (firstn k delta ++ []) = Some dc /\
              recovers cr kp dc (if (k <? 2)%nat then bs else B) /\
              (hyg cr (f_content (d_oplog d)) -> hyg cr (f_content (d_oplog dc)))).
    { destruct (C1 k) as (dk & Ak & Yk & Hk). exists dk. rewrite app_nil_r. split; [exact Ak|].
      split; [apply (YDisk_recovers cr Hcrc Hhash32 Hnonblank Hhashbytes), Yk|exact Hk]. }
    unfold crash_ops, crash_safe.
    destruct ot as [t|].
    - destruct (nth_error delta k) as [o|] eqn:En.
      + destruct (Nat.ltb_spec t (wlen o)) as [Lt|Ge].
        * destruct (T1 k o t En Lt) as (dk & dkt & Ak & At & Q). exists dkt.
          split. { rewrite CoreFacts.apply_sops_app, Ak. cbn [apply_sops]. rewrite At. reflexivity. }
          rewrite Ak. split.
          { intros Hs. destruct (Q (Hs Lt)) as [R|[_ Cl]]; [left; exact R|right; exists t; exact Cl]. }
          split; [|intros E; discriminate E].
          intros Hh _. apply hyg_tear_safe.
          destruct (C1 k) as (dk' & Ak' & _ & Hk'). rewrite Ak in Ak'. injection Ak' as <-. apply Hk', Hh.
        * destruct Clean as (dc & Ac & Rc & Hc). exists dc. split; [exact Ac|].
          split; [intros _; left; exact Rc|].
          split; [|intros _; exact Hc].
          intros _. destruct (apply_sops d (firstn k delta)); [|exact I]. intros Hlt. lia.
      + destruct Clean as (dc & Ac & Rc & Hc). exists dc. split; [exact Ac|].
        split; [intros _; left; exact Rc|]. split; [intros _; exact I|intros _; exact Hc].
    - destruct Clean as (dc & Ac & Rc & Hc). exists dc. split; [exact Ac|].
      split; [intros _; left; exact Rc|]. split; [intros _; exact I|intros _; exact Hc].
  Qed.

  Notation panic_obs := (XOAppend (Panic frame_msg)).

  (* one crashing append, for any continuation *)
  Lemma crash_step f batch k ot (KO : core -> world -> list xobs) (KS : core -> world -> Prop)
        (rest_spec : list bytes -> list xobs) c d j ev bs sk :
    YInv cr c d bs -> kp_secret (c_keypair c) = Some sk ->
    sumN (map len (bs ++ batch)) <= u64_max ->
    NODE_SIZE * (2 * N.of_nat (length (bs ++ batch))) <= u64_max ->
    (forall c' d' j' bs', YInv cr c' d' bs' -> kp_secret (c_keypair c') = Some sk ->
       bs' = bs \/ bs' = bs ++ batch -> KS c' (mkWorld d' j' ev) ->
       KO c' (mkWorld d' j' ev) = rest_spec bs' \/
       (exists k0, KO c' (mkWorld d' j' ev) = firstn k0 (rest_spec bs') ++ [panic_obs]) \/
       exists t, collision cr t) ->
    crash_side cr f batch k ot KS c (mkWorld d j ev) ->
    let spec := XOCrash (Ok tt) :: rest_spec (if took_effect k then bs ++ batch else bs) in
    crash_run cr f batch k ot KO c (mkWorld d j ev) = spec \/
    (exists k0, crash_run cr f batch k ot KO c (mkWorld d j ev) = firstn k0 spec ++ [panic_obs]) \/
    exists t, collision cr t.
  Proof.
    intros X Hsk Hfit Hidx IH Hside spec. unfold crash_run, crash_side in *.
    destruct (append_Y cr Hcrc Hhash32 Hnonblank Hhashbytes Hsig64 Hsigbytes f batch c d j ev bs sk X Hsk Hfit Hidx)
      as [(d1 & E & _)|(c1 & d1 & delta & ev1 & E & A & X1 & K1 & _ & C1 & T1)]; rewrite E in *.
    - right. left. exists 0%nat. reflexivity.
    - cbn [w_journal w_disk w_events] in *. rewrite journal_delta_spec in *.
      destruct (crash_outcome (c_keypair c) d delta bs (bs ++ batch) k ot C1 T1) as (dc & Ac & R & _ & _).
      rewrite Ac in *. destruct Hside as [Hsafe Hrest].
      destruct (R Hsafe) as [(ck & dk' & ops1 & Eo & Xk & Kk & _)|Cl]; [|right; right; exact Cl].
      rewrite Eo in *. cbn [res_unit]. rewrite <- Kk in Hsk.
      assert (Hb : (if (k <? 2)%nat then bs else bs ++ batch) = bs \/ (if (k <? 2)%nat then bs else bs ++ batch) = bs ++ batch)
        by (destruct (k <? 2)%nat; [left|right]; reflexivity).
      destruct (IH ck dk' (rev ops1 ++ rev (crash_ops delta k ot) ++ j) _ Xk Hsk Hb Hrest) as [E1|[[k0 E1]|Cl]].
      + left. rewrite E1. unfold spec, took_effect. destruct (k <? 2)%nat; reflexivity.
      + right. left. exists (S k0). rewrite E1. unfold spec, took_effect. destruct (k <? 2)%nat; reflexivity.
      + right. right. exact Cl.
  Qed.

  (* histories with clean and torn crashes, from any YInv state, under the side conditions of the run *)
  Theorem torn_history_correct (ops : list top) : forall c d j ev bs sk,
    YInv cr c d bs -> kp_secret (c_keypair c) = Some sk ->
    sumN (map len (bs ++ tappended ops)) <= u64_max ->
    NODE_SIZE * (2 * N.of_nat (length (bs ++ tappended ops))) <= u64_max ->
    trun_safe cr ops c (mkWorld d j ev) ->
    trun_obs cr ops c (mkWorld d j ev) = tspec_obs ops bs \/
    (exists k, trun_obs cr ops c (mkWorld d j ev) = firstn k (tspec_obs ops bs) ++ [panic_obs]) \/
    exists t, collision cr t.
  Proof.
    induction ops as [|op ops IH]; intros c d j ev bs sk X Hsk Hfit Hidx Hsafe.
    - left. reflexivity.
    - pose proof (YInv_XW cr c d bs X) as W.
      assert (Fin : forall (o : xobs) r s,
                (r = s \/ (exists k0, r = firstn k0 s ++ [panic_obs]) \/ exists t, collision cr t) ->
                o :: r = o :: s \/ (exists k0, o :: r = firstn k0 (o :: s) ++ [panic_obs]) \/ exists t, collision cr t).
      { intros o r s [->|[[k0 ->]|Cl]]; [left; reflexivity|right; left; exists (S k0); reflexivity|right; right; exact Cl]. }
      assert (Crash : forall f batch k ot,
                sumN (map len (bs ++ batch ++ tappended ops)) <= u64_max ->
                NODE_SIZE * (2 * N.of_nat (length (bs ++ batch ++ tappended ops))) <= u64_max ->
                crash_side cr f batch k ot (trun_safe cr ops) c (mkWorld d j ev) ->
                let spec := XOCrash (Ok tt) :: tspec_obs ops (if took_effect k then bs ++ batch else bs) in
                crash_run cr f batch k ot (trun_obs cr ops) c (mkWorld d j ev) = spec \/
                (exists k0, crash_run cr f batch k ot (trun_obs cr ops) c (mkWorld d j ev) = firstn k0 spec ++ [panic_obs]) \/
                exists t, collision cr t).
      { intros f batch k ot Hfit' Hidx' Hside.
        assert (Hfit1 : sumN (map len (bs ++ batch)) <= u64_max).
        { rewrite app_assoc, map_app, TreeRef.sumN_app in Hfit'. lia. }
        assert (Hidx1 : NODE_SIZE * (2 * N.of_nat (length (bs ++ batch))) <= u64_max).
        { rewrite app_assoc, (app_length (bs ++ batch)) in Hidx'. unfold NODE_SIZE in *. lia. }
        apply (crash_step f batch k ot (trun_obs cr ops) (trun_safe cr ops) (tspec_obs ops) c d j ev bs sk X Hsk Hfit1 Hidx1);
          [|exact Hside].
        intros c' d' j' bs' X' Hsk' Hbs' Hs'.
        apply (IH c' d' j' ev bs' sk X' Hsk'); [| |exact Hs'].
        - destruct Hbs' as [-> | ->]; [|rewrite <- app_assoc; exact Hfit'].
          pose proof (sum_app3 bs batch (tappended ops)). lia.
        - destruct Hbs' as [-> | ->]; [|rewrite <- app_assoc; exact Hidx'].
          pose proof (length_app3 bs batch (tappended ops)). unfold NODE_SIZE in *. lia. }
      destruct op as [f batch|i|i| | |f batch k|f batch k t]; cbn [trun_obs tspec_obs tappended trun_safe] in *.
      + rewrite app_assoc in Hfit, Hidx.
        assert (Hfit1 : sumN (map len (bs ++ batch)) <= u64_max).
        { rewrite map_app, TreeRef.sumN_app in Hfit. lia. }
        assert (Hidx1 : NODE_SIZE * (2 * N.of_nat (length (bs ++ batch))) <= u64_max).
        { rewrite (app_length (bs ++ batch)) in Hidx. unfold NODE_SIZE in *. lia. }
        destruct (append_Y cr Hcrc Hhash32 Hnonblank Hhashbytes Hsig64 Hsigbytes f batch c d j ev bs sk X Hsk Hfit1 Hidx1)
          as [(d1 & E & _)|(c1 & d1 & delta & ev1 & E & A & X1 & K1 & _)]; rewrite E in *.
        * right. left. exists 0%nat. reflexivity.
        * rewrite <- K1 in Hsk. apply Fin.
          apply (IH c1 d1 (rev delta ++ j) ev1 (bs ++ batch) sk X1 Hsk Hfit Hidx Hsafe).
      + rewrite (X_get cr Hhash32 Hnonblank c d bs j ev i W) in *.
        destruct (i <? N.of_nat (length bs)); apply Fin.
        * apply (IH c d j ev bs sk X Hsk Hfit Hidx Hsafe).
        * apply (IH c d j (EvGet i :: ev) bs sk X Hsk Hfit Hidx Hsafe).
      + rewrite (X_has cr c d bs i W). apply Fin, (IH c d j ev bs sk X Hsk Hfit Hidx Hsafe).
      + rewrite (X_info cr c d bs W), Hsk. apply Fin, (IH c d j ev bs sk X Hsk Hfit Hidx Hsafe).
      + destruct (reopen_YInv cr Hcrc Hhash32 Hnonblank Hhashbytes c d bs X) as (c1 & d1 & ops1 & E & X1 & K1 & -> & ->).
        cbn [w_disk w_journal w_events] in *. rewrite E in *. cbn [res_unit rev app] in *. rewrite <- K1 in Hsk.
        apply Fin, (IH c1 d j ev bs sk X1 Hsk Hfit Hidx Hsafe).
      + apply (Crash f batch k None Hfit Hidx Hsafe).
      + apply (Crash f batch k (Some t) Hfit Hidx Hsafe).
  Qed.
End HistoryTorn.

(* ====================================================================================== *)
(* The side conditions hold along a history whose header slots start hygienic              *)
(* ====================================================================================== *)

Section TearsOk.
  Variable cr : crypto.
  Hypothesis Hcrc : crc_ok cr.
  Hypothesis Hhash32 : forall x, length (cr_hash cr x) = 32%nat.
  Hypothesis Hnonblank : forall x, all_zero (cr_hash cr x) = false.
  Hypothesis Hhashbytes : forall x, bytes_ok (cr_hash cr x) = true.
  Hypothesis Hsig64 : forall sk m, length (cr_sign cr sk m) = 64%nat.
  Hypothesis Hsigbytes : forall sk m, bytes_ok (cr_sign cr sk m) = true.

  Lemma crash_side_step f batch k ot (KS : core -> world -> Prop) c d j ev bs sk (seen : bool) :
    YInv cr c d bs -> kp_secret (c_keypair c) = Some sk ->
    sumN (map len (bs ++ batch)) <= u64_max ->
    NODE_SIZE * (2 * N.of_nat (length (bs ++ batch))) <= u64_max ->
    (seen = false -> hyg cr (f_content (d_oplog d))) ->
    (ot = None \/ seen = false \/ exists t, ot = Some t /\ (4 < t)%nat) ->
    (forall c' d' j' bs', YInv cr c' d' bs' -> kp_secret (c_keypair c') = Some sk ->
       bs' = bs \/ bs' = bs ++ batch ->
       ((match ot with None => seen | Some _ => true end) = false -> hyg cr (f_content (d_oplog d'))) ->
       KS c' (mkWorld d' j' ev) \/ exists t, collision cr t) ->
    crash_side cr f batch k ot KS c (mkWorld d j ev) \/ exists t, collision cr t.
  Proof.
    intros X Hsk Hfit Hidx Hh Hot IH. unfold crash_side.
    destruct (append_Y cr Hcrc Hhash32 Hnonblank Hhashbytes Hsig64 Hsigbytes f batch c d j ev bs sk X Hsk Hfit Hidx)
      as [(d1 & E & _)|(c1 & d1 & delta & ev1 & E & A & X1 & K1 & _ & C1 & T1)]; rewrite E.
    - left. exact I.
    - cbn [w_journal w_disk w_events]. rewrite journal_delta_spec.
      destruct (crash_outcome cr Hcrc Hhash32 Hnonblank Hhashbytes (c_keypair c) d delta bs (bs ++ batch) k ot C1 T1)
        as (dc & Ac & R & S & Hc).
      rewrite Ac.
      assert (Hsafe : crash_safe cr d delta k ot).
      { destruct Hot as [-> |[-> |(t & -> & Ht)]].
        - unfold crash_safe. exact I.
        - apply S, Hh. reflexivity.
        - unfold crash_safe. destruct (nth_error delta k); [|exact I].
          destruct (apply_sops d (firstn k delta)); [|exact I]. intros _. apply late_tear_safe, Ht. }
      destruct (R Hsafe) as [(ck & dk' & ops1 & Eo & Xk & Kk & _ & _ & _ & _ & Hhyg)|Cl]; [|right; exact Cl].
      rewrite Eo. rewrite <- Kk in Hsk.
      assert (Hb : (if (k <? 2)%nat then bs else bs ++ batch) = bs \/ (if (k <? 2)%nat then bs else bs ++ batch) = bs ++ batch)
        by (destruct (k <? 2)%nat; [left|right]; reflexivity).
      destruct (IH ck dk' (rev ops1 ++ rev (crash_ops delta k ot) ++ j) _ Xk Hsk Hb) as [Hk|Cl].
      + intros Hseen. apply Hhyg. destruct ot as [t|]; [discriminate Hseen|]. apply (Hc eq_refl), Hh, Hseen.
      + left. split; [exact Hsafe|exact Hk].
      + right. exact Cl.
  Qed.

  (* tears_ok seen ops, the slots hygienic unless a torn crash was seen: the side conditions of the run
     hold (or a collision is exhibited by a torn header slot write on the way) *)
  Theorem tears_ok_safe (ops : list top) : forall seen c d j ev bs sk,
    tears_ok seen ops ->
    YInv cr c d bs -> kp_secret (c_keypair c) = Some sk ->
    sumN (map len (bs ++ tappended ops)) <= u64_max ->
    NODE_SIZE * (2 * N.of_nat (length (bs ++ tappended ops))) <= u64_max ->
    (seen = false -> hyg cr (f_content (d_oplog d))) ->
    trun_safe cr ops c (mkWorld d j ev) \/ exists t, collision cr t.
  Proof.
    induction ops as [|op ops IH]; intros seen c d j ev bs sk Hok X Hsk Hfit Hidx Hh.
    - left. exact I.
    - pose proof (YInv_XW cr c d bs X) as W.
      assert (Crash : forall f batch k ot,
                sumN (map len (bs ++ batch ++ tappended ops)) <= u64_max ->
                NODE_SIZE * (2 * N.of_nat (length (bs ++ batch ++ tappended ops))) <= u64_max ->
                (ot = None \/ seen = false \/ exists t, ot = Some t /\ (4 < t)%nat) ->
                tears_ok (match ot with None => seen | Some _ => true end) ops ->
                crash_side cr f batch k ot (trun_safe cr ops) c (mkWorld d j ev) \/ exists t, collision cr t).
      { intros f batch k ot Hfit' Hidx' Hot Hok'.
        assert (Hfit1 : sumN (map len (bs ++ batch)) <= u64_max).
        { rewrite app_assoc, map_app, TreeRef.sumN_app in Hfit'. lia. }
        assert (Hidx1 : NODE_SIZE * (2 * N.of_nat (length (bs ++ batch))) <= u64_max).
        { rewrite app_assoc, (app_length (bs ++ batch)) in Hidx'. unfold NODE_SIZE in *. lia. }
        apply (crash_side_step f batch k ot (trun_safe cr ops) c d j ev bs sk seen X Hsk Hfit1 Hidx1 Hh Hot).
        intros c' d' j' bs' X' Hsk' Hbs' Hh'.
        apply (IH _ c' d' j' ev bs' sk Hok' X' Hsk'); [| |exact Hh'].
        - destruct Hbs' as [-> | ->]; [|rewrite <- app_assoc; exact Hfit'].
          pose proof (sum_app3 bs batch (tappended ops)). lia.
        - destruct Hbs' as [-> | ->]; [|rewrite <- app_assoc; exact Hidx'].
          pose proof (length_app3 bs batch (tappended ops)). unfold NODE_SIZE in *. lia. }
      destruct op as [f batch|i|i| | |f batch k|f batch k t]; cbn [trun_safe tappended tears_ok] in *.
      + rewrite app_assoc in Hfit, Hidx.
        assert (Hfit1 : sumN (map len (bs ++ batch)) <= u64_max).
        { rewrite map_app, TreeRef.sumN_app in Hfit. lia. }
        assert (Hidx1 : NODE_SIZE * (2 * N.of_nat (length (bs ++ batch))) <= u64_max).
        { rewrite (app_length (bs ++ batch)) in Hidx. unfold NODE_SIZE in *. lia. }
        destruct (append_Y cr Hcrc Hhash32 Hnonblank Hhashbytes Hsig64 Hsigbytes f batch c d j ev bs sk X Hsk Hfit1 Hidx1)
          as [(d1 & E & _)|(c1 & d1 & delta & ev1 & E & A & X1 & K1 & Hh1 & C1 & _)]; rewrite E.
        * left. exact I.
        * rewrite <- K1 in Hsk.
          assert (Keep : seen = false -> hyg cr (f_content (d_oplog d1))).
          { intros Hs. destruct (C1 (length delta)) as (dk & Ak & _ & Hk). rewrite firstn_all, A in Ak.
            injection Ak as <-. apply Hk, Hh, Hs. }
          destruct f as [[|]|]; [destruct batch as [|b0 rb]|..];
            try (apply (IH seen c1 d1 (rev delta ++ j) ev1 _ sk Hok X1 Hsk Hfit Hidx Keep)).
          apply (IH false c1 d1 (rev delta ++ j) ev1 _ sk Hok X1 Hsk Hfit Hidx).
          intros _. apply Hh1; [reflexivity|discriminate].
      + rewrite (X_get cr Hhash32 Hnonblank c d bs j ev i W).
        destruct (i <? N.of_nat (length bs)).
        * apply (IH seen c d j ev bs sk Hok X Hsk Hfit Hidx Hh).
        * apply (IH seen c d j (EvGet i :: ev) bs sk Hok X Hsk Hfit Hidx Hh).
      + apply (IH seen c d j ev bs sk Hok X Hsk Hfit Hidx Hh).
      + apply (IH seen c d j ev bs sk Hok X Hsk Hfit Hidx Hh).
      + destruct (reopen_YInv cr Hcrc Hhash32 Hnonblank Hhashbytes c d bs X) as (c1 & d1 & ops1 & E & X1 & K1 & -> & ->).
        cbn [w_disk w_journal w_events]. rewrite E. cbn [rev app]. rewrite <- K1 in Hsk.
        apply (IH seen c1 d j ev bs sk Hok X1 Hsk Hfit Hidx Hh).
      + apply (Crash f batch k None Hfit Hidx); [left; reflexivity|exact Hok].
      + destruct Hok as [Ht Hok]. apply (Crash f batch k (Some t) Hfit Hidx); [|exact Hok].
        destruct Ht as [Hs|Ht]; [right; left; exact Hs|right; right; exists t; split; [reflexivity|exact Ht]].
  Qed.

  (* ---------- creation ---------- *)

  Theorem YInv_init kp :
    keypair_ok kp = true ->
    exists d0 ops0 c0,
      core_open cr (Some kp) false disk_empty = (d0, ops0, Ok c0) /\
      YInv cr c0 d0 [] /\ c_keypair c0 = kp /\ hyg cr (f_content (d_oplog d0)).
  Proof.
    intros Hkp.
    destruct (DInv_init cr Hcrc Hhash32 Hnonblank Hhashbytes kp Hkp) as (d0 & ops0 & c0 & Ho & D & K).
    exists d0, ops0, c0. split; [exact Ho|].
    destruct (oplog_fresh_then_open cr Hcrc kp Hkp) as (buf & s0 & Hf & _ & _ & Hca & G & Hdead & _).
    unfold core_open in Ho. cbv iota in Ho.
    change (f_content (d_oplog disk_empty)) with (@nil N) in Ho.
    rewrite (oplog_open_empty cr kp _ _ _ Hf) in Ho. cbn [oo_ops oo_header oo_entries oo_oplog] in Ho.
    destruct (apply_sops disk_empty [SW Oplog 0 buf; ST Oplog (ENTRIES_OFFSET + 0)]) as [d1|] eqn:Ea;
      [|cbn in Ea; discriminate Ea].
    assert (Hcontent : f_content (d_oplog d1) = s0 ++ zeros (N.to_nat HEADER_SIZE) ++ []).
    { apply (c_apply_all_sound [SW Oplog 0 buf; ST Oplog (ENTRIES_OFFSET + 0)] disk_empty d1);
        [repeat constructor|exact Ea|exact Hca]. }
    assert (Ht : d_tree d1 = file_empty) by (cbn in Ea; injection Ea as <-; reflexivity).
    injection Ho as <- _ _.
    split; [|split; [exact K|]].
    - apply XInv_YInv; [apply DInv_XInv, D|]. rewrite Ht. apply TreeOk_empty.
    - rewrite Hcontent. destruct (good_slot_lengths cr _ _ _ _ _ _ _ _ G) as [L0 L1].
      apply (hyg_slots cr s0 _ [] L0 L1). split; [|intros _; exact Hdead].
      intros E. exfalso. destruct G as ((_ & Hs) & _).
      destruct (slot_holds_leader cr _ _ _ Hcrc Hs) as [tail Hv]. rewrite Hv in E. discriminate E.
  Qed.

  Notation panic_obs := (XOAppend (Panic frame_msg)).

  (* from creation, under the side conditions of the run *)
  Theorem fresh_torn_history_safe kp sk ops :
    keypair_ok kp = true -> kp_secret kp = Some sk ->
    sumN (map len (tappended ops)) <= u64_max ->
    NODE_SIZE * (2 * N.of_nat (length (tappended ops))) <= u64_max ->
    exists d0 ops0 c0,
      core_open cr (Some kp) false disk_empty = (d0, ops0, Ok c0) /\
      (trun_safe cr ops c0 (mkWorld d0 [] []) ->
       trun_obs cr ops c0 (mkWorld d0 [] []) = tspec_obs ops [] \/
       (exists k, trun_obs cr ops c0 (mkWorld d0 [] []) = firstn k (tspec_obs ops []) ++ [panic_obs]) \/
       exists t, collision cr t).
  Proof.
    intros Hkp Hsk Hfit Hidx.
    destruct (YInv_init kp Hkp) as (d0 & ops0 & c0 & Ho & Y & K & _).
    exists d0, ops0, c0. split; [exact Ho|]. intros Hsafe.
    apply (torn_history_correct cr Hcrc Hhash32 Hnonblank Hhashbytes Hsig64 Hsigbytes ops c0 d0 [] [] [] sk);
      [exact Y|rewrite K; exact Hsk|exact Hfit|exact Hidx|exact Hsafe].
  Qed.

  (* from creation, for histories whose torn crashes after the first one tear after the CRC field: every
     observation is the list model's, up to the 30-bit frame panic and an exhibited CRC-32 collision *)
  Theorem fresh_torn_history_correct kp sk ops :
    keypair_ok kp = true -> kp_secret kp = Some sk ->
    sumN (map len (tappended ops)) <= u64_max ->
    NODE_SIZE * (2 * N.of_nat (length (tappended ops))) <= u64_max ->
    tears_ok false ops ->
    exists d0 ops0 c0,
      core_open cr (Some kp) false disk_empty = (d0, ops0, Ok c0) /\
      (trun_obs cr ops c0 (mkWorld d0 [] []) = tspec_obs ops [] \/
       (exists k, trun_obs cr ops c0 (mkWorld d0 [] []) = firstn k (tspec_obs ops []) ++ [panic_obs]) \/
       exists t, collision cr t).
  Proof.
    intros Hkp Hsk Hfit Hidx Hok.
    destruct (YInv_init kp Hkp) as (d0 & ops0 & c0 & Ho & Y & K & Hh).
    exists d0, ops0, c0. split; [exact Ho|].
    assert (Hsk0 : kp_secret (c_keypair c0) = Some sk) by (rewrite K; exact Hsk).
    destruct (tears_ok_safe ops false c0 d0 [] [] [] sk Hok Y Hsk0 Hfit Hidx (fun _ => Hh)) as [Hsafe|Cl];
      [|right; right; exact Cl].
    apply (torn_history_correct cr Hcrc Hhash32 Hnonblank Hhashbytes Hsig64 Hsigbytes ops c0 d0 [] [] [] sk);
      assumption.
  Qed.
End TearsOk.

(* ====================================================================================== *)
(* Non-vacuity: a crypto instance with a real CRC-32                                       *)
(* ====================================================================================== *)

(* CRC-32 (IEEE, reflected, polynomial 0xEDB88320); check value of "123456789" = 0xCBF43926 *)
Definition crc_step (c : N) : N := if N.testbit c 0 then N.lxor (c / 2) 3988292384 else c / 2.
Fixpoint crc_iter (n : nat) (c : N) : N := match n with O => c | S k => crc_iter k (crc_step c) end.
Definition crc_byte (c b : N) : N := crc_iter 8 (N.lxor c (b mod 256)).
Definition crc32 (bs : bytes) : N := (N.lxor (fold_left crc_byte bs 4294967295) 4294967295) mod 4294967296.

Example crc32_check : crc32 [49; 50; 51; 52; 53; 54; 55; 56; 57] = 3421780262.
Proof. vm_compute. reflexivity. Qed.

(* hash and signatures as in Refine.toy_cr, the checksum a real CRC-32: with Refine.toy_cr (checksum
   constantly 0) every torn header slot write falls under the collision clause *)
Definition crc_cr : crypto :=
  mkCrypto (fun _ => repeat 7 32%nat) crc32 (fun _ _ => repeat 1 64%nat) (fun _ _ _ => true).

Lemma crc_cr_crc_ok : crc_ok crc_cr.
Proof. intros b. cbn [cr_crc crc_cr]. unfold crc32. apply N.mod_lt. discriminate. Qed.
Lemma crc_cr_hash32 : forall x, length (cr_hash crc_cr x) = 32%nat.
Proof. reflexivity. Qed.
Lemma crc_cr_nonblank : forall x, all_zero (cr_hash crc_cr x) = false.
Proof. reflexivity. Qed.
Lemma crc_cr_hashbytes : forall x, bytes_ok (cr_hash crc_cr x) = true.
Proof. reflexivity. Qed.
Lemma crc_cr_sig64 : forall sk m, length (cr_sign crc_cr sk m) = 64%nat.
Proof. reflexivity. Qed.
Lemma crc_cr_sigbytes : forall sk m, bytes_ok (cr_sign crc_cr sk m) = true.
Proof. reflexivity. Qed.

(* A history from creation with torn crashes of every kind:
   - TTorn .. 4 3: the FIRST flush, header slot write (operation 4 of a 6-operation journal) torn after 3
     bytes, inside the CRC field, over the never written slot 1: the old header stays, the entry is replayed;
   - TTorn .. 2 5: a bitfield page write torn at byte 5: the bitfield store is 5 bytes long afterwards;
   - TTorn .. 0 5: the data write torn (5 of 7 bytes stay as junk after the blocks): not appended;
   - TTorn .. 1 50: the oplog entry write torn (50 of 183 bytes): open cuts it off, not appended;
   - TTorn .. 4 17: a tree node write torn inside its hash;
   - TTorn .. 11 300: a header slot write (operation 11 of 13) torn inside the header;
   - a clean crash, a complete flushing append, reopen. *)
Definition toy_tops : list top :=
  [TTorn (Some true) [[1; 2; 3]] 4 3;
   TInfo; TGet 0; THas 0; THas 1;
   TTorn (Some true) [[4]; []] 2 5;
   TInfo; TGet 1; TGet 2;
   TTorn (Some false) [[5; 6; 7; 8; 9; 10; 11]] 0 5;
   TInfo; TGet 3;
   TTorn (Some false) [[5; 6]] 1 50;
   TInfo; TGet 2; TGet 3;
   TTorn (Some true) [[7]] 4 17;
   TInfo; TGet 3;
   TReopen;
   TTorn (Some true) [[8; 9]] 11 300;
   TInfo; TGet 4;
   TCrash (Some true) [[10]] 3;
   TAppend (Some true) [[11]]; TReopen; TInfo; TGet 6; TGet 0; TGet 5].

Example toy_torn_history :
  keypair_ok toy_keypair = true /\
  match core_open crc_cr (Some toy_keypair) false disk_empty with
  | (d0, _, Ok c0) => trun_obs crc_cr toy_tops c0 (mkWorld d0 [] []) = tspec_obs toy_tops []
  | _ => False
  end.
Proof. split; vm_compute; reflexivity. Qed.

(* the hypothesis of fresh_torn_history_correct on the history: the first tear is free, the others tear
   after the CRC field *)
Example toy_tops_tears_ok : tears_ok false toy_tops.
Proof. cbn [tears_ok toy_tops]. repeat split; try (left; reflexivity); right; lia. Qed.

(* the instance of the history theorem for crc_cr *)
Example crc_torn_instance ops sk :
  kp_secret toy_keypair = Some sk ->
  sumN (map len (tappended ops)) <= u64_max ->
  NODE_SIZE * (2 * N.of_nat (length (tappended ops))) <= u64_max ->
  tears_ok false ops ->
  exists d0 ops0 c0,
    core_open crc_cr (Some toy_keypair) false disk_empty = (d0, ops0, Ok c0) /\
    (trun_obs crc_cr ops c0 (mkWorld d0 [] []) = tspec_obs ops [] \/
     (exists k, trun_obs crc_cr ops c0 (mkWorld d0 [] []) =
                firstn k (tspec_obs ops []) ++ [XOAppend (Panic frame_msg)]) \/
     exists t, collision crc_cr t).
Proof.
  apply (fresh_torn_history_correct crc_cr crc_cr_crc_ok crc_cr_hash32 crc_cr_nonblank crc_cr_hashbytes
           crc_cr_sig64 crc_cr_sigbytes toy_keypair sk ops). reflexivity.
Qed.

(* two tears INSIDE the CRC field of header slot writes (t = 3 and t = 2), separated by an append with a
   forced flush that completes: tears_ok holds (the completed flush makes both slots valid again) *)
Definition toy_tops2 : list top :=
  [TTorn (Some true) [[1; 2; 3]] 4 3; TInfo;
   TAppend (Some true) [[4]];
   TTorn (Some true) [[5]] 4 2; TInfo; TGet 2; TGet 1;
   TCrash (Some true) [[6]] 5; TInfo].

Example toy_torn_history2 :
  tears_ok false toy_tops2 /\
  match core_open crc_cr (Some toy_keypair) false disk_empty with
  | (d0, _, Ok c0) => trun_obs crc_cr toy_tops2 c0 (mkWorld d0 [] []) = tspec_obs toy_tops2 []
  | _ => False
  end.
Proof.
  split; [cbn [tears_ok toy_tops2]; repeat split; left; reflexivity|]. vm_compute. reflexivity.
Qed.

(* One flushing append looked at tear by tear (the state and the append of CrashCore3: 4 blocks appended
   without a flush, then one block with a flush; 13 operations: data write, oplog entry write, one
   bitfield page, eight tree nodes, header slot write, truncate).  After EVERY torn cut (k, t) — every t
   below the length of the write, for the 4096-byte page the tears listed in page_tears — the storage
   reopens; the observations are those of the 4-block list for k = 0, 1 and those of the 5-block list
   for k >= 2, also for all 614 tears of the header slot write (no collision occurs). *)
Definition tprobes : list top :=
  [TInfo; TGet 0; TGet 1; TGet 2; TGet 3; TGet 4; TGet 5; THas 3; THas 4; THas 5].

Definition page_tears : list nat := seq 0 70 ++ [100; 1000; 2047; 2048; 4095]%nat.

Definition obs_after_torn (d : disk) (delta : list sop) (k t : nat) : option (list xobs) :=
  match apply_sops d (crash_ops delta k (Some t)) with
  | Some dk =>
      match core_open crc_cr None true dk with
      | (dk', ops, Ok ck) => Some (trun_obs crc_cr tprobes ck (mkWorld dk' [] []))
      | _ => None
      end
  | None => None
  end.

Example toy_every_tear_of_a_flushing_append :
  match core_open crc_cr (Some toy_keypair) false disk_empty with
  | (d0, _, Ok c0) =>
      match core_append crc_cr (Some false) toy_bs c0 (mkWorld d0 [] []) with
      | (c1, w1, Ok _) =>
          match core_append crc_cr (Some true) toy_batch c1 w1 with
          | (c2, w2, Ok _) =>
              let delta := journal_delta (w_journal w1) (w_journal w2) in
              map sop_store delta =
                [Data; Oplog; Bitfield; Tree; Tree; Tree; Tree; Tree; Tree; Tree; Tree; Oplog; Oplog] /\
              map wlen delta = [3; 115; 4096; 40; 40; 40; 40; 40; 40; 40; 40; 614; 0]%nat /\
              map (fun k => let ts := if (k =? 2)%nat then page_tears else seq 0 (wlen (nth k delta (ST Data 0))) in
                            map (obs_after_torn (w_disk w1) delta k) ts) (seq 0 13) =
              map (fun k => let ts := if (k =? 2)%nat then page_tears else seq 0 (wlen (nth k delta (ST Data 0))) in
                            map (fun _ => Some (tspec_obs tprobes (if (k <? 2)%nat then toy_bs else toy_bs ++ toy_batch))) ts)
                  (seq 0 13)
          | _ => False
          end
      | _ => False
      end
  | _ => False
  end.
Proof. vm_compute. repeat split; reflexivity. Qed.

(* The brief's scenario: "append 1 block; crash during the first flush with the page write torn at byte 5".
   The bitfield store is 5 bytes long afterwards: not whole pages, not even whole words.  bf_open — as
   DynamicBitfield::open and FixedBitfield::from_data of the crate — reads the first 4 bytes, replay of the
   logged entry sets the bit again; the storage reopens with the block.
   Hence the statement "the torn disk reopens to CrashCore1.XInv" is FALSE (XInv demands whole pages);
   the true statement is for YInv.  The partial page persists: the reopened state is a YInv state that
   is no XInv state, and it stays 5 bytes long until the page is dirtied and flushed again. *)
Definition torn_page_disk : option (disk * disk * list xobs) :=
  match core_open crc_cr (Some toy_keypair) false disk_empty with
  | (d0, _, Ok c0) =>
      match core_append crc_cr (Some true) [[1; 2; 3]] c0 (mkWorld d0 [] []) with
      | (c1, w1, Ok _) =>
          match apply_sops d0 (crash_ops (journal_delta [] (w_journal w1)) 2 (Some 5%nat)) with
          | Some dt =>
              match core_open crc_cr None true dt with
              | (dt', _, Ok ck) => Some (dt, dt', trun_obs crc_cr [TInfo; TGet 0; THas 0; THas 1] ck (mkWorld dt' [] []))
              | _ => None
              end
          | None => None
          end
      | _ => None
      end
  | _ => None
  end.

Example torn_page_partial :
  option_map (fun x => (f_len (d_bitfield (fst (fst x))), f_len (d_bitfield (snd (fst x))), snd x)) torn_page_disk =
  Some (5, 5, tspec_obs [TInfo; TGet 0; THas 0; THas 1] [[1; 2; 3]]).
Proof. vm_compute. reflexivity. Qed.

(* the requested form of the goal, refuted on this disk *)
Example reopen_to_XInv_refuted :
  forall dt dt' o, torn_page_disk = Some (dt, dt', o) -> forall c bs, ~ XInv crc_cr c dt' bs.
Proof.
  intros dt dt' o E c bs X. pose proof torn_page_partial as H. rewrite E in H. cbn [option_map fst snd] in H.
  injection H as _ H _.
  destruct X as (_ & s0 & s1 & body & st0 & st1 & hf & l & kf & _ & _ & _ & _ & _ & _ & _ & _ & (Hm & _) & _).
  rewrite H in Hm. vm_compute in Hm. discriminate Hm.
Qed.

(* the hypotheses of append_Y / append_torn_recovers / torn_history_correct are met by a concrete
   non-trivial state: the writer after appending four blocks without a flush (one pending entry, unflushed
   nodes, a dirty page), about to append a fifth block with a flush; the 13 operations of that append
   include a 4096-byte page write (operation 2), 40-byte node writes (3..10) and the 614-byte header slot
   write (operation 11) *)
Example crc_YInv_state_met :
  exists c d sk c' w' x delta,
    YInv crc_cr c d toy_bs /\ kp_secret (c_keypair c) = Some sk /\
    sumN (map len (toy_bs ++ toy_batch)) <= u64_max /\
    NODE_SIZE * (2 * N.of_nat (length (toy_bs ++ toy_batch))) <= u64_max /\
    core_append crc_cr (Some true) toy_batch c (mkWorld d [] []) = (c', w', Ok x) /\
    w_journal w' = rev delta ++ [] /\
    map (fun o => (sop_store o, wlen o)) delta =
      [(Data, 3); (Oplog, 115); (Bitfield, 4096); (Tree, 40); (Tree, 40); (Tree, 40); (Tree, 40); (Tree, 40);
       (Tree, 40); (Tree, 40); (Tree, 40); (Oplog, 614); (Oplog, 0)]%nat /\
    hyg crc_cr (f_content (d_oplog d)).
Proof.
  destruct (YInv_init crc_cr crc_cr_crc_ok crc_cr_hash32 crc_cr_nonblank crc_cr_hashbytes toy_keypair eq_refl)
    as (d0 & ops0 & c0 & Ho & Y & K & Hh).
  assert (Hcomp : match core_open crc_cr (Some toy_keypair) false disk_empty with
     | (d0, _, Ok c0) =>
         match core_append crc_cr (Some false) toy_bs c0 (mkWorld d0 [] []) with
         | (c1, w1, Ok _) =>
             match core_append crc_cr (Some true) toy_batch c1 (mkWorld (w_disk w1) [] []) with
             | (c2, w2, Ok _) =>
                 map (fun o => (sop_store o, wlen o)) (rev (w_journal w2)) =
                 [(Data, 3); (Oplog, 115); (Bitfield, 4096); (Tree, 40); (Tree, 40); (Tree, 40); (Tree, 40); (Tree, 40);
                  (Tree, 40); (Tree, 40); (Tree, 40); (Oplog, 614); (Oplog, 0)]%nat
             | _ => False
             end
         | _ => False
         end
     | _ => False
     end) by (vm_compute; reflexivity).
  rewrite Ho in Hcomp.
  assert (Hsk0 : kp_secret (c_keypair c0) = Some (repeat 2 32%nat)) by (rewrite K; reflexivity).
  destruct (append_Y crc_cr crc_cr_crc_ok crc_cr_hash32 crc_cr_nonblank crc_cr_hashbytes crc_cr_sig64 crc_cr_sigbytes
              (Some false) toy_bs c0 d0 [] [] [] (repeat 2 32%nat) Y Hsk0)
    as [(dp & E1 & _)|(c1 & d1 & delta1 & ev1 & E1 & A1 & X1 & K1 & _ & C1 & _)];
    [vm_compute; discriminate|vm_compute; discriminate|rewrite E1 in Hcomp; contradiction|].
  rewrite E1 in Hcomp. cbn [w_disk] in Hcomp.
  assert (Hh1 : hyg crc_cr (f_content (d_oplog d1))).
  { destruct (C1 (length delta1)) as (dk & Ak & _ & Hk). rewrite firstn_all, A1 in Ak. injection Ak as <-. apply Hk, Hh. }
  destruct (core_append crc_cr (Some true) toy_batch c1 (mkWorld d1 [] [])) as [[c2 w2] r2] eqn:E2.
  destruct r2 as [x2| | |]; try contradiction.
  exists c1, d1, (repeat 2 32%nat), c2, w2, x2, (rev (w_journal w2)).
  split; [exact X1|]. split; [rewrite K1; exact Hsk0|].
  split; [vm_compute; discriminate|]. split; [vm_compute; discriminate|].
  split; [exact E2|]. split; [rewrite rev_involutive, app_nil_r; reflexivity|].
  split; [exact Hcomp|exact Hh1].
Qed.

Print Assumptions crash_outcome.
Print Assumptions crash_step.
Print Assumptions torn_history_correct.
Print Assumptions crash_side_step.
Print Assumptions tears_ok_safe.
Print Assumptions YInv_init.
Print Assumptions fresh_torn_history_safe.
Print Assumptions fresh_torn_history_correct.
Print Assumptions crc32_check.
Print Assumptions toy_torn_history.
Print Assumptions toy_tops_tears_ok.
Print Assumptions toy_torn_history2.
Print Assumptions crc_torn_instance.
Print Assumptions toy_every_tear_of_a_flushing_append.
Print Assumptions torn_page_partial.
Print Assumptions reopen_to_XInv_refuted.
Print Assumptions crc_YInv_state_met.

(* AnyProofEx.v -- non-vacuity of AnyProof.v on the toy instances (sc_cr of SoundCore.v, ex_cr of
   Replicate.v), and the counterexamples that delimit it. *)
From HC Require Import Base NMap Codec CodecFacts Crypto FlatTree Storage Bitfield Oplog Merkle Core.
From HC Require Import FlatTreeFacts StorageFacts BitfieldFacts OplogFacts TreeRef OffsetFacts CoreFacts
                       Sound NoPanic Refine Replicate SoundCoreLib SoundCore SoundCoreUp SoundCoreBU
                       AnyProofLib AnyProofUp AnyProof.
From Coq Require Import FMapPositive ZifyN ZifyNat ZifyBool.
Ltac Zify.zify_post_hook ::= Z.div_mod_to_equations.
Arguments N.add : simpl never.
Arguments N.sub : simpl never.
Arguments N.mul : simpl never.
Arguments N.div : simpl never.
Arguments N.modulo : simpl never.
Arguments N.pow : simpl never.
Arguments N.eqb : simpl never.
Arguments N.ltb : simpl never.
Arguments N.leb : simpl never.
Arguments N.of_nat : simpl never.
Arguments N.to_nat : simpl never.

(* a decidable form of proof_wire *)
Definition proof_okb (pf : proof) : bool :=
  (match p_block pf with Some b => data_block_ok b | None => true end) &&
  (match p_hash pf with Some h => data_hash_ok h | None => true end) &&
  (match p_seek pf with Some s => data_seek_ok s | None => true end) &&
  (match p_upgrade pf with Some u => data_upgrade_ok u | None => true end).

Lemma proof_okb_wire pf : proof_okb pf = true -> proof_wire pf.
Proof.
  unfold proof_okb. intros H. apply andb_prop in H as [H H4]. apply andb_prop in H as [H H3].
  apply andb_prop in H as [H1 H2].
  apply proof_ok_wire.
  - intros b E. rewrite E in H1. exact H1.
  - intros h E. rewrite E in H2. exact H2.
  - intros s E. rewrite E in H3. exact H3.
  - intros u E. rewrite E in H4. exact H4.
Qed.

(* ====================================================================================== *)
(* 1. A proof of a shape no earlier theorem covers, with four wrong sizes: MAIN applies      *)
(* ====================================================================================== *)

(* the writer's proof "hash section for flat index 4 + upgrade 0..5" carries the hash nodes [4; 6; 1], the
   upgrade node [8] and the ADDITIONAL node [10]; the root 3 of the hash section is taken over by the
   upgrade.  Sizes shifted inside the sibling pair (4, 6) of the hash section and inside the sibling pair
   (8, 10) made of an upgrade node and an additional node. *)
Definition any_proof : option proof :=
  match snd (ex_run sc_W (core_create_proof None (Some (mkReqBlock 4 0)) None (Some (mkReqUpgrade 0 5)))) with
  | Some (Ok (Some pf)) =>
      match p_hash pf, p_upgrade pf with
      | Some h, Some u =>
          match dh_nodes h, du_nodes u, du_additional u with
          | n4 :: n6 :: rest, [n8], [n10] =>
              Some (mkProof (p_fork pf) None
                      (Some (mkDataHash (dh_index h)
                               (co_resize n4 (n_length n4 + 1) :: co_resize n6 (n_length n6 - 1) :: rest)))
                      None
                      (Some (mkDataUpgrade (du_start u) (du_length u) [co_resize n8 (n_length n8 - 1)]
                               [co_resize n10 (n_length n10 + 1)] (du_signature u))))
          | _, _, _ => None
          end
      | _, _ => None
      end
  | _ => None
  end.

Definition stored_sizes (c : core) : list (N * N) :=
  map (fun kv => (fst kv, n_length (snd kv))) (nm_elements (t_unflushed (c_tree c))).

Example any_shape_applies :
  match sc_R0, any_proof with
  | Some (c, w), Some pf =>
      exists h u c' w',
        p_block pf = None /\ p_hash pf = Some h /\ p_seek pf = None /\ p_upgrade pf = Some u /\
        map n_index (dh_nodes h) = [4; 6; 1] /\ map n_index (du_nodes u) = [8] /\
        map n_index (du_additional u) = [10] /\
        (* the hypotheses of MAIN *)
        HInv sc_cr sc_blocks c (w_disk w) /\ proof_wire pf /\ tree_root_fits sc_cr pf (c_tree c) /\
        core_apply_proof sc_cr (Some false) pf c w = (c', w', Ok true) /\
        (* four stored sizes are NOT the writer's (flat 4, 6, 8, 10), the root 9 and the totals are *)
        stored_sizes c' = [(3, 8); (1, 3); (9, 3); (5, 5); (8, 1); (4, 2); (10, 2); (6, 3)] /\
        map (fun j => n_length (ref_at sc_cr sc_blocks j)) [3; 1; 9; 5; 8; 4; 10; 6] = [8; 3; 3; 5; 2; 1; 1; 4] /\
        (* the conclusion of MAIN *)
        ((HInv sc_cr sc_blocks c' (w_disk w') /\
          t_length (c_tree c) <= t_length (c_tree c') /\
          (forall b, p_block pf = Some b ->
             db_value b = blk sc_blocks (db_index b) /\ db_index b < t_length (c_tree c')) /\
          signed_by_writer sc_cr sc_blocks
            (signable (tree_hash sc_cr (t_roots (c_tree c'))) (t_length (c_tree c')) 0) /\
          i_byte_length (core_info c') = prefix_size sc_blocks (i_length (core_info c')))
         \/ some_collision sc_cr \/ forged_signature sc_cr sc_blocks (kp_public (c_keypair c)))
  | _, _ => False
  end.
Proof.
  assert (Hsmall : len (enc_header (header_new (mkKeypair sc_key None))) < 1073741824)
    by (vm_compute; reflexivity).
  destruct (RInv_fresh sc_cr sc_hash32 sc_nonblank sc_blocks _ Hsmall) as (d0 & ops & c & Hopen & HR & _).
  unfold sc_R0, sc_open. rewrite Hopen.
  destruct any_proof as [pf|] eqn:Ep; [|vm_compute in Ep; discriminate Ep].
  destruct (core_apply_proof sc_cr (Some false) pf c (mkWorld d0 [] [])) as [[c' w'] r] eqn:Ea.
  pose proof (RInv_HInv sc_cr sc_blocks sc_writer_fits c d0 HR) as HH.
  assert (Hshape : exists h u,
            p_block pf = None /\ p_hash pf = Some h /\ p_seek pf = None /\ p_upgrade pf = Some u /\
            map n_index (dh_nodes h) = [4; 6; 1] /\ map n_index (du_nodes u) = [8] /\
            map n_index (du_additional u) = [10] /\ proof_okb pf = true /\
            tree_root_fits sc_cr pf (c_tree c) /\ r = Ok true /\
            stored_sizes c' = [(3, 8); (1, 3); (9, 3); (5, 5); (8, 1); (4, 2); (10, 2); (6, 3)]).
  { vm_compute in Hopen. injection Hopen as <- _ <-.
    vm_compute in Ep. injection Ep as <-. vm_compute in Ea. injection Ea as <- _ <-.
    eexists. eexists. do 8 (split; [reflexivity|]).
    split; [|split; reflexivity].
    intros u0 root c1 _ Hv. vm_compute in Hv. injection Hv as <- _. vm_compute. discriminate. }
  destruct Hshape as (h & u & S1 & S2 & S3 & S4 & S5 & S6 & S7 & Hok & Hfits & -> & Hsz).
  exists h, u, c', w'. do 7 (split; [assumption|]).
  split; [exact HH|]. split; [apply proof_okb_wire, Hok|]. split; [exact Hfits|]. split; [reflexivity|].
  split; [exact Hsz|]. split; [vm_compute; reflexivity|].
  apply (apply_any_proof sc_cr sc_hash32 sc_nonblank sc_blocks sc_writer_fits (Some false) pf c d0 [] [] c' w'
           HH (proof_okb_wire pf Hok) Hfits Ea).
Qed.

(* ====================================================================================== *)
(* 2. An honest block + seek proof (the seek root is the extra node of the block's climb)    *)
(* ====================================================================================== *)

Definition block_seek_proof : option proof :=
  match snd (ex_run sc_W (core_create_proof (Some (mkReqBlock 1 2)) None (Some (mkReqSeek 5)) None)) with
  | Some (Ok (Some pf)) => Some pf
  | _ => None
  end.

Example block_seek_applies :
  match fst sc_R1, block_seek_proof with
  | Some (c, w), Some pf =>
      exists b s c' w',
        p_block pf = Some b /\ p_hash pf = None /\ p_seek pf = Some s /\ p_upgrade pf = None /\
        db_index b = 1 /\ map n_index (db_nodes b) = [0] /\ map n_index (ds_nodes s) = [6; 4] /\
        HInv sc_cr sc_blocks c (w_disk w) /\ proof_wire pf /\ tree_root_fits sc_cr pf (c_tree c) /\
        core_apply_proof sc_cr (Some false) pf c w = (c', w', Ok true) /\
        ((HInv sc_cr sc_blocks c' (w_disk w') /\
          t_length (c_tree c) <= t_length (c_tree c') /\
          (forall b, p_block pf = Some b ->
             db_value b = blk sc_blocks (db_index b) /\ db_index b < t_length (c_tree c')) /\
          signed_by_writer sc_cr sc_blocks
            (signable (tree_hash sc_cr (t_roots (c_tree c'))) (t_length (c_tree c')) 0) /\
          i_byte_length (core_info c') = prefix_size sc_blocks (i_length (core_info c')))
         \/ some_collision sc_cr \/ forged_signature sc_cr sc_blocks (kp_public (c_keypair c)))
  | _, _ => False
  end.
Proof.
  pose proof sc_RInv_synced as HR.
  destruct (fst sc_R1) as [[c w]|] eqn:E; [|destruct HR].
  destruct HR as [HR _].
  destruct block_seek_proof as [pf|] eqn:Ep; [|vm_compute in Ep; discriminate Ep].
  destruct (core_apply_proof sc_cr (Some false) pf c w) as [[c' w'] r] eqn:Ea.
  pose proof (RInv_HInv sc_cr sc_blocks sc_writer_fits c (w_disk w) HR) as HH.
  assert (Hshape : exists b s,
            p_block pf = Some b /\ p_hash pf = None /\ p_seek pf = Some s /\ p_upgrade pf = None /\
            db_index b = 1 /\ map n_index (db_nodes b) = [0] /\ map n_index (ds_nodes s) = [6; 4] /\
            proof_okb pf = true /\ r = Ok true).
  { vm_compute in E. injection E as <- <-.
    vm_compute in Ep. injection Ep as <-. vm_compute in Ea. injection Ea as _ _ <-.
    eexists. eexists. repeat split. }
  destruct Hshape as (b & s & S1 & S2 & S3 & S4 & S5 & S6 & S7 & Hok & ->).
  assert (Hfits : tree_root_fits sc_cr pf (c_tree c)).
  { intros u root c1 Eu _. rewrite S4 in Eu. discriminate Eu. }
  exists b, s, c', w'. do 7 (split; [assumption|]).
  split; [exact HH|]. split; [apply proof_okb_wire, Hok|]. split; [exact Hfits|]. split; [reflexivity|].
  destruct w as [d j ev].
  apply (apply_any_proof sc_cr sc_hash32 sc_nonblank sc_blocks sc_writer_fits (Some false) pf c d j ev c' w'
           HH (proof_okb_wire pf Hok) Hfits Ea).
Qed.

(* ====================================================================================== *)
(* 3. The size of a LONE node is not bound at all                                           *)
(* ====================================================================================== *)

(* history (writer = 5 blocks [1;2;3] [] [4] [5;6;7;8] [9;10], replica synced to 5):
     1. the writer's honest block proof for block 3: accepted, get(3) = [5;6;7;8];
     2. a hash section made of ONE node: flat index 6 (the leaf of block 3) with the stored hash and
        size 2 instead of 4: accepted (Ok true) -- verify_proof compares only the hashes of the stored
        node and of the top of the section -- and the node is stored as it came;
     3. get(3) = Some [5;6]: a read returns fewer bytes than the writer's block.
   No sibling pair is involved: the statement "the sizes that are not bound come in sibling pairs" is
   FALSE; the true statement is AnyProof.unbound_sizes_alone_or_in_sibling_pairs.
   /repo/src/tree/merkle_tree.rs (verify_tree pushes the bottom node of a hash / seek section into the
   changeset as it came, verify_proof compares `.hash` only) behaves in the same way. *)
Definition lone_s1 := fst (co_fetch (fst ex_R1) 3).
Definition lone_node (s : option (core * world)) (j : N) : option node :=
  match s with
  | Some (c, w) => match required_node (c_tree c) (d_tree (w_disk w)) j with Ok n => Some n | _ => None end
  | None => None
  end.
Definition lone_proof (s : option (core * world)) (j l : N) : option proof :=
  match lone_node s j with
  | Some n => Some (mkProof 0 None (Some (mkDataHash j [co_resize n l])) None None)
  | None => None
  end.
Definition lone_apply (s : option (core * world)) (f : option bool) (j l : N) :=
  match lone_proof s j l with
  | Some pf => ex_run s (core_apply_proof ex_cr f pf)
  | None => (None, None)
  end.

Example lone_node_size_refuted :
  snd (ex_run lone_s1 (core_get 3)) = Some (Ok (Some [5; 6; 7; 8])) /\
  option_map n_length (lone_node lone_s1 6) = Some 4 /\
  snd (lone_apply lone_s1 (Some false) 6 2) = Some (Ok true) /\
  snd (ex_run (fst (lone_apply lone_s1 (Some false) 6 2)) (core_get 3)) = Some (Ok (Some [5; 6])) /\
  snd (ex_run ex_W (core_get 3)) = Some (Ok (Some [5; 6; 7; 8])).
Proof. vm_compute. repeat split. Qed.

(* ====================================================================================== *)
(* 4. The byte length: right while the replica runs, wrong after a reopen                   *)
(* ====================================================================================== *)

(* While the replica runs, its byte length is the writer's (AnyProof.apply_any_proof, HInv_info): the roots
   kept in memory are covered by the signature, sizes included.  But the STORED copy of a root can be
   overwritten by a one-node hash section (3. above), and MerkleTree::open recomputes the byte length
   from the stored roots:
     1. replica synced to 5 blocks (byte length 10); a hash section made of the one node flat 3 (a root,
        size 8) with the stored hash and size 100: accepted; the replica flushes; info: byte length 10;
     2. the replica is reopened from its own storage: info reports length 5, byte length 102.
   No message signed by the writer has byte length 102: C04's "never ends up with a ... byte length that the
   writer did not sign" fails across a reopen.  /repo/src/tree/merkle_tree.rs open() sums `node.length` of
   the stored roots in the same way. *)
Definition reopen (s : option (core * world)) : option (core * world) :=
  match s with
  | Some (c, w) =>
      match core_open ex_cr (Some (mkKeypair ex_key None)) false (w_disk w) with
      | (d, _, Ok c0) => Some (c0, mkWorld d [] [])
      | _ => None
      end
  | None => None
  end.
Definition info_of (s : option (core * world)) : option (N * N) :=
  match s with Some (c, _) => Some (i_length (core_info c), i_byte_length (core_info c)) | None => None end.

Example byte_length_after_reopen_refuted :
  info_of (fst ex_R1) = Some (5, 10) /\
  option_map n_length (lone_node (fst ex_R1) 3) = Some 8 /\
  snd (lone_apply (fst ex_R1) (Some true) 3 100) = Some (Ok true) /\
  info_of (fst (lone_apply (fst ex_R1) (Some true) 3 100)) = Some (5, 10) /\
  info_of (reopen (fst (lone_apply (fst ex_R1) (Some true) 3 100))) = Some (5, 102) /\
  (* without the rogue proof a reopen reports the writer's byte length *)
  info_of (reopen (fst (ex_run (fst ex_R1) (maybe_flush ex_cr (Some true))))) = Some (5, 10) /\
  info_of ex_W = Some (5, 10).
Proof. vm_compute. repeat split. Qed.

(* ====================================================================================== *)
(* 5. Sizes: the statements of section Sizes on the proof of 1.                             *)
(* ====================================================================================== *)

(* the verifier accepts the proof of 1. and stores nine nodes: 4, 6 (supplied: a sibling pair, sizes 2 + 3
   instead of 1 + 4), 5 (computed: size 5, the writer's), 1 (supplied, merged with the computed 5: bound),
   3 (computed; pushed a second time when the upgrade takes it over), 8, 10 (supplied: a sibling pair made
   of an upgrade node and an additional node, 1 + 2 instead of 2 + 1), 9 (computed: a signed root) *)
Example any_shape_sizes :
  match sc_R0, any_proof with
  | Some (c, w), Some pf =>
      exists cs,
        verify_proof sc_cr (c_tree c) (d_tree (w_disk w)) pf (kp_public (c_keypair c)) = Ok cs /\
        map (fun x => (n_index x, n_length x)) (cs_nodes cs) =
          [(4, 2); (6, 3); (5, 5); (1, 3); (3, 8); (3, 8); (8, 1); (10, 2); (9, 3)] /\
        map n_index (cs_roots cs) = [3; 9] /\
        (((forall x, In x (cs_nodes cs) -> size_bound sc_cr (c_tree c) pf cs x ->
             wsize sc_cr sc_blocks x \/ some_collision sc_cr) /\
          (forall x, In x (cs_nodes cs) ->
             size_bound sc_cr (c_tree c) pf cs x \/
             (proof_supplied pf x /\ stored_check (c_tree c) (d_tree (w_disk w)) x) \/
             (proof_supplied pf x /\ exists s P, proof_supplied pf s /\ In s (cs_nodes cs) /\ In P (cs_nodes cs) /\
                                                 (merged_of sc_cr x s P \/ merged_of sc_cr s x P))) /\
          (forall x s P, (merged_of sc_cr x s P \/ merged_of sc_cr s x P) -> In P (cs_nodes cs) ->
             n_length x + n_length s =
             n_length (ref_at sc_cr sc_blocks (n_index x)) + n_length (ref_at sc_cr sc_blocks (n_index s))
             \/ some_collision sc_cr))
         \/ some_collision sc_cr \/ forged_signature sc_cr sc_blocks (kp_public (c_keypair c)))
  | _, _ => False
  end.
Proof.
  assert (Hsmall : len (enc_header (header_new (mkKeypair sc_key None))) < 1073741824)
    by (vm_compute; reflexivity).
  destruct (RInv_fresh sc_cr sc_hash32 sc_nonblank sc_blocks _ Hsmall) as (d0 & ops & c & Hopen & HR & _).
  unfold sc_R0, sc_open. rewrite Hopen.
  destruct any_proof as [pf|] eqn:Ep; [|vm_compute in Ep; discriminate Ep].
  cbn [w_disk].
  destruct (verify_proof sc_cr (c_tree c) (d_tree d0) pf (kp_public (c_keypair c))) as [cs| | |] eqn:Ev.
  2,3,4: (exfalso; vm_compute in Hopen; injection Hopen as <- _ <-; vm_compute in Ep; injection Ep as <-;
          vm_compute in Ev; discriminate Ev).
  pose proof (RInv_HInv sc_cr sc_blocks sc_writer_fits c d0 HR) as (H1 & H2 & H3 & H4 & H5 & H6).
  assert (Hshape : map (fun x => (n_index x, n_length x)) (cs_nodes cs) =
                     [(4, 2); (6, 3); (5, 5); (1, 3); (3, 8); (3, 8); (8, 1); (10, 2); (9, 3)] /\
                   map n_index (cs_roots cs) = [3; 9] /\ proof_okb pf = true /\
                   tree_root_fits sc_cr pf (c_tree c)).
  { vm_compute in Hopen. injection Hopen as <- _ <-.
    vm_compute in Ep. injection Ep as <-. vm_compute in Ev. injection Ev as <-.
    split; [reflexivity|]. split; [reflexivity|]. split; [reflexivity|].
    intros u0 root c1 _ Hv. vm_compute in Hv. injection Hv as <- _. vm_compute. discriminate. }
  destruct Hshape as (S1 & S2 & Hok & Hfits).
  exists cs. split; [reflexivity|]. split; [exact S1|]. split; [exact S2|].
  apply (accepted_sizes sc_cr sc_hash32 sc_blocks sc_writer_fits (c_tree c) (d_tree d0) pf _ cs
           H1 H3 H4 H5 H6 (proof_okb_wire pf Hok) Hfits Ev).
Qed.

(* ====================================================================================== *)
(* 6. Reads: the read theorem on a replica that holds a block                               *)
(* ====================================================================================== *)

(* the synced replica fetches block 4 (SoundCore.sc_block_theorem_applies); the state reached satisfies
   the size-level invariant -- hence HInv, the size condition and the data condition -- and
   get_under_sizes gives the writer's block *)
Example get_under_sizes_applies :
  match fst (sc_fetch (fst sc_R1) 4) with
  | Some (c, w) =>
      snd (ex_run (Some (c, w)) (core_get 4)) = Some (Ok (Some [9; 10])) /\
      ((HInv sc_cr sc_blocks c (w_disk w) /\ sizes_ok_upto sc_cr sc_blocks c (w_disk w) 4 /\
        (len (blk sc_blocks 4) <> 0 ->
         f_read (d_data (w_disk w)) (prefix_size sc_blocks 4) (len (blk sc_blocks 4)) = Some (blk sc_blocks 4)) /\
        forall c' w' v, core_get 4 c w = (c', w', Ok (Some v)) -> v = blk sc_blocks 4)
       \/ some_collision sc_cr)
  | None => False
  end.
Proof.
  pose proof sc_block_theorem_applies as HT.
  destruct (fst sc_R1) as [[c0 w0]|] eqn:E0; [|destruct HT].
  unfold sc_fetch.
  destruct (sc_block_proof (Some (c0, w0)) 4) as [pf|] eqn:Ep; [|destruct HT].
  destruct HT as (b & c1 & w1 & -> & _ & _ & _ & Ha & HRI).
  cbn [ex_run]. rewrite Ha. cbn [fst].
  split.
  { vm_compute in E0. injection E0 as <- <-. vm_compute in Ep. injection Ep as <-.
    vm_compute in Ha. injection Ha as <- <-. vm_compute. reflexivity. }
  destruct HRI as [HRI|C]; [left|right; exact C].
  assert (Hheld : bf_get (c_bitfield c1) 4 = true).
  { vm_compute in E0. injection E0 as <- <-. vm_compute in Ep. injection Ep as <-.
    vm_compute in Ha. injection Ha as <- _. vm_compute. reflexivity. }
  pose proof (RInv_HInv sc_cr sc_blocks sc_writer_fits c1 (w_disk w1) HRI) as HH.
  pose proof (RInv_sizes_ok sc_cr sc_blocks c1 (w_disk w1) 4 HRI) as Hsz.
  pose proof (RInv_data_in_place sc_cr sc_blocks c1 (w_disk w1) 4 HRI Hheld) as Hd.
  split; [exact HH|]. split; [exact Hsz|]. split; [exact Hd|].
  intros c' w' v Hg. destruct w1 as [d1 j1 ev1].
  apply (get_under_sizes sc_cr sc_blocks sc_writer_fits c1 d1 j1 ev1 4 c' w' v HH Hsz Hd Hg).
Qed.

(* ====================================================================================== *)
(* 7. The size condition alone does not give right reads: the data condition is needed      *)
(* ====================================================================================== *)

(* The statement asked for, "under HInv and 'all visible sizes left of block i are the writer's', core_get i
   returns None or the writer's block", is FALSE: a write misplaced while a size was wrong stays misplaced
   after the size has been repaired.  In the last state of SoundCore.size_carveout_refuted (hash section
   with shifted sizes; honest proof of block 3, written at byte 5 instead of 4; honest proof of block 2,
   which restores the size of leaf 4) EVERY visible node is the writer's node, sizes included, nothing
   was flushed -- and get(3) = [0;5;6;7].  Hence the hypothesis on the data store in
   AnyProof.get_under_sizes; without it the true statement is AnyProof.get_reads_writer_range (the read
   looks at the writer's byte range). *)
Definition all_nodes_writers (s : option (core * world)) : option bool :=
  match s, ex_W with
  | Some (c, w), Some (cw, ww) =>
      Some (forallb (fun kv => match required_node (c_tree cw) (d_tree (w_disk ww)) (fst kv) with
                               | Ok n => node_eqb n (snd kv)
                               | _ => false
                               end)
                    (nm_elements (t_unflushed (c_tree c)))
            && (f_len (d_tree (w_disk w)) =? 0))
  | _, _ => None
  end.

Example sizes_repaired_data_misplaced_refuted :
  all_nodes_writers (fst co_A2) = Some false /\
  all_nodes_writers (fst co_A3) = Some true /\
  snd (ex_run (fst co_A3) (core_get 3)) = Some (Ok (Some [0; 5; 6; 7])) /\
  snd (ex_run ex_W (core_get 3)) = Some (Ok (Some [5; 6; 7; 8])).
Proof. vm_compute. repeat split. Qed.

Print Assumptions any_shape_applies.
Print Assumptions block_seek_applies.
Print Assumptions lone_node_size_refuted.
Print Assumptions byte_length_after_reopen_refuted.
Print Assumptions any_shape_sizes.
Print Assumptions get_under_sizes_applies.
Print Assumptions sizes_repaired_data_misplaced_refuted.

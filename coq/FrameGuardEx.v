(* FrameGuardEx.v -- non-vacuity of FrameGuard.v / FrameGuardLib.v on the toy instances of the development
   (sc_cr / sc_blocks of SoundCore.v: a writer with six blocks and a replica created from the public key alone;
   toy_cr of Refine.v: a writer created from a key pair):
     ex_entry_bound                              the entry bound on a concrete entry (2 nodes, upgrade, bitfield update)
     sc_apply_any_returns_no_panic_applies       every premise of apply_any_returns_no_panic / apply_any_outcome_no_panic
                                                 holds for a proof with block, upgrade and additional nodes on the
                                                 fresh replica; the proof is accepted
     sc_any_history_no_panic_init_applies        FrameGuardHist: a nine-call history, then an apply; the header condition is
                                                 checked on the fresh replica only
     ha_replicas_converge_no_guard_applies       the history of HonestApplyEx (five events, a reopen) satisfies
                                                 hist_all_ng; the theorem applies
     toy_append_no_panic_applies                 append_FInv_no_panic on the toy writer
     toy_append_guard_fires                      the converse on sizes only: the fresh toy writer answers a batch of
                                                 31580643 empty blocks by the frame panic (the batch is never built) *)
From HC Require Import Base NMap Codec CodecFacts Crypto FlatTree Storage Bitfield Oplog Merkle Core.
From HC Require Import FlatTreeFacts StorageFacts BitfieldFacts OplogFacts TreeRef OffsetFacts CoreFacts
                       Sound NoPanic Refine Reopen ClearRefine Replicate Unified1 Unified2 Unified3
                       SoundCoreLib SoundCore SoundCoreUp SoundCoreBU
                       NoPanic2 EventsAvail ReplicaCor ReplicaCorA ReplicaDisk1 ReplicaDisk3 ReplicaDisk6
                       AnyProofLib AnyProofUp AnyProof AnyProofEx AnyProofCorLib AnyProofCor AnyProofCorEx.
From HC Require Import AcceptAll AcceptAllCore3 AcceptAllHist AcceptAllEx HonestApply3 HonestApply HonestApplyEx.
From HC Require Import FrameGuardLib FrameGuard FrameGuardHist.
From Coq Require Import FMapPositive ZifyN ZifyNat ZifyBool.
Ltac Zify.zify_post_hook ::= Z.div_mod_to_equations.
Arguments N.add : simpl never.
Arguments N.sub : simpl never.
Arguments N.mul : simpl never.
Arguments N.div : simpl never.
Arguments N.modulo : simpl never.
Arguments N.pow : simpl never.
Arguments N.eqb : simpl never.
Arguments N.ltb : simpl never.
Arguments N.leb : simpl never.
Arguments N.of_nat : simpl never.
Arguments N.to_nat : simpl never.

(* ---------- 1. the entry bound on a concrete entry ---------- *)

Definition ex_entry : entry :=
  mkEntry [mkNode 4 70000 (repeat 7 32%nat); mkNode 300 5 (repeat 9 32%nat)]
          (Some (mkTreeUpgrade 0 2 5000000000 (repeat 3 64%nat))) (Some (mkBfUpdate false 2 1)).

Example ex_entry_bound :
  exists b, enc_entry ex_entry = Ok b /\ len b = 155 /\ entry_size_bound ex_entry = 229 /\
            34 * N.of_nat (length (e_nodes ex_entry)) = 68.
Proof. eexists. split; [vm_compute; reflexivity|]. repeat split; vm_compute; reflexivity. Qed.

(* ---------- 2. apply_any_returns_no_panic / apply_any_outcome_no_panic ---------- *)

(* the proof "block 3 + upgrade 0..5 + additional node" of AnyProofCorEx on the fresh replica: it carries 4 nodes,
   the header of the fresh replica takes 143 bytes; every premise holds and the proof is accepted *)
Example sc_apply_any_returns_no_panic_applies :
  match sc_R0, cor_pf1 with
  | Some (c, w), Some pf =>
      proof_carried pf = 4%nat /\ len (enc_header (c_header c)) = 143 /\
      HInv sc_cr sc_blocks c (w_disk w) /\ N.of_nat (length sc_blocks) < LIM /\ proof_wire pf /\
      block_lim (p_block pf) = true /\ hash_lim (p_hash pf) = true /\ seek_lim (p_seek pf) = true /\
      upgrade_nodes_lim pf /\ announced_sizes_fit_any c pf /\
      N.of_nat (proof_carried pf) <= MAX_PROOF_NODES /\ header_room c /\
      snd (core_apply_proof sc_cr (Some false) pf c w) = Ok true /\
      forall f c' w' r,
        core_apply_proof sc_cr f pf c w = (c', w', r) ->
        (returns r = true \/ some_collision sc_cr \/ forged_signature sc_cr sc_blocks (kp_public (c_keypair c))) /\
        ((r = Ok true /\ HInv sc_cr sc_blocks c' (w_disk w')) \/
         (c' = c /\ w' = w /\ unchanged_outcome sc_cr pf c w r) \/
         some_collision sc_cr \/ forged_signature sc_cr sc_blocks (kp_public (c_keypair c)))
  | _, _ => False
  end.
Proof.
  destruct (fresh_replica sc_cr sc_hash32 sc_nonblank sc_blocks _ sc_small) as (d0 & ops0 & c & Hopen & HR & K & Hs).
  unfold sc_R0, sc_open. rewrite Hopen.
  destruct cor_pf1 as [pf|] eqn:Ep; [|vm_compute in Ep; discriminate Ep].
  pose proof (RInv_HBInv sc_cr sc_blocks sc_writer_fits c d0 HR) as HB.
  assert (Hshape : proof_carried pf = 4%nat /\ len (enc_header (c_header c)) = 143 /\
            proof_okb pf = true /\
            block_lim (p_block pf) = true /\ hash_lim (p_hash pf) = true /\ seek_lim (p_seek pf) = true /\
            upgrade_nodes_lim pf /\ announced_sizes_fit_any c pf /\
            snd (core_apply_proof sc_cr (Some false) pf c (mkWorld d0 [] [])) = Ok true).
  { vm_compute in Hopen. injection Hopen as <- _ <-. vm_compute in Ep. injection Ep as <-.
    do 6 (split; [vm_compute; reflexivity|]). split; [|split].
    - intros u' Hu'. cbn [p_upgrade] in Hu'. injection Hu' as <-. repeat split; vm_compute; reflexivity.
    - intros u' Hu'. cbn [p_upgrade] in Hu'. injection Hu' as <-. vm_compute. discriminate.
    - vm_compute. reflexivity. }
  destruct Hshape as (Hcar & Hhdr & Hok & Hb & Hh & Hsk & Hlim & Hsum & Hres).
  pose proof (proof_okb_wire pf Hok) as Hwire.
  assert (Hmax : N.of_nat (proof_carried pf) <= MAX_PROOF_NODES) by (rewrite Hcar; unfold MAX_PROOF_NODES; lia).
  assert (Hroom : header_room c) by (unfold header_room; rewrite Hhdr; unfold HEADER_GROWTH, FRAME_LIMIT; lia).
  split; [exact Hcar|]. split; [exact Hhdr|]. split; [exact (proj1 HB)|]. split; [exact sc_lim|].
  split; [exact Hwire|]. do 5 (split; [assumption|]). split; [exact Hmax|]. split; [exact Hroom|].
  split; [exact Hres|].
  intros f c' w' r H. split.
  - exact (apply_any_returns_no_panic sc_cr sc_hash32 sc_nonblank sc_blocks sc_writer_fits f pf c (mkWorld d0 [] []) c' w' r
             (proj1 HB) sc_lim Hwire Hb Hh Hsk Hlim Hsum Hmax Hroom H).
  - exact (apply_any_outcome_no_panic sc_cr sc_hash32 sc_nonblank sc_blocks sc_writer_fits f pf c (mkWorld d0 [] []) c' w' r
             (proj1 HB) Hwire Hmax Hroom H).
Qed.

(* the history of AnyProofCorEx (a read that misses, an accepted proof, a hit, a refused proof, a one-node hash
   section, a proof request, missing_nodes, make_read_only, an append attempt) followed by the apply of
   AnyProofEx.any_proof (hash section + upgrade 0..5): the header condition holds for the FRESH replica, the theorem
   gives "returns" for the apply in the reached state *)
Example sc_any_history_no_panic_init_applies :
  match sc_R0, cor_pf1, cor_pfL, any_proof with
  | Some (c, w), Some pf1, Some pfL, Some pfH =>
      exists c1 w1 oks,
        run_ops sc_cr (cor_hist pf1 pfL) c w = (c1, w1, oks) /\
        HInv sc_cr sc_blocks c (w_disk w) /\ kp_secret (c_keypair c) = None /\ hdr_small (c_header c) /\
        Forall (any_op sc_cr) (cor_hist pf1 pfL) /\ proof_wire pfH /\
        block_lim (p_block pfH) = true /\ hash_lim (p_hash pfH) = true /\ seek_lim (p_seek pfH) = true /\
        upgrade_nodes_lim pfH /\ announced_sizes_fit_any c1 pfH /\
        N.of_nat (proof_carried pfH) <= MAX_PROOF_NODES /\
        hdr_small (c_header c1) /\
        forall f c' w' r,
          core_apply_proof sc_cr f pfH c1 w1 = (c', w', r) ->
          returns r = true \/ some_collision sc_cr \/ forged_signature sc_cr sc_blocks (kp_public (c_keypair c))
  | _, _, _, _ => False
  end.
Proof.
  destruct (fresh_replica sc_cr sc_hash32 sc_nonblank sc_blocks _ sc_small) as (d0 & ops0 & c & Hopen & HR & K & Hs).
  unfold sc_R0, sc_open. rewrite Hopen.
  destruct cor_pf1 as [pf1|] eqn:Ep1; [|vm_compute in Ep1; discriminate Ep1].
  destruct cor_pfL as [pfL|] eqn:EpL; [|vm_compute in EpL; discriminate EpL].
  destruct any_proof as [pfH|] eqn:EpH; [|vm_compute in EpH; discriminate EpH].
  destruct (run_ops sc_cr (cor_hist pf1 pfL) c (mkWorld d0 [] [])) as [[c1 w1] oks] eqn:Er.
  pose proof (RInv_HBInv sc_cr sc_blocks sc_writer_fits c d0 HR) as HB.
  assert (Hsec : kp_secret (c_keypair c) = None) by (rewrite K; reflexivity).
  assert (Hshape : hdr_small (c_header c) /\ Forall (any_op sc_cr) (cor_hist pf1 pfL) /\ proof_okb pfH = true /\
                   block_lim (p_block pfH) = true /\ hash_lim (p_hash pfH) = true /\ seek_lim (p_seek pfH) = true /\
                   upgrade_nodes_lim pfH /\ announced_sizes_fit_any c1 pfH /\
                   N.of_nat (proof_carried pfH) <= MAX_PROOF_NODES).
  { vm_compute in Hopen. injection Hopen as <- _ <-.
    vm_compute in Ep1. injection Ep1 as <-. vm_compute in EpL. injection EpL as <-.
    vm_compute in EpH. injection EpH as <-.
    vm_compute in Er. injection Er as <- _ _.
    split; [unfold hdr_small, hdr_fixed; repeat split; vm_compute; first [reflexivity|discriminate]|].
    split; [unfold cor_hist; any_ops|].
    do 4 (split; [vm_compute; reflexivity|]). split; [|split].
    - intros u' Hu'. cbn [p_upgrade] in Hu'. injection Hu' as <-. repeat split; vm_compute; reflexivity.
    - intros u' Hu'. cbn [p_upgrade] in Hu'. injection Hu' as <-. vm_compute. discriminate.
    - vm_compute. discriminate. }
  destruct Hshape as (Hsm & Hops & Hok & Hb & Hh & Hsk & Hlim & Hsum & Hmax).
  pose proof (proof_okb_wire pfH Hok) as Hwire.
  exists c1, w1, oks. split; [reflexivity|]. split; [exact (proj1 HB)|]. split; [exact Hsec|]. split; [exact Hsm|].
  split; [exact Hops|]. split; [exact Hwire|]. do 6 (split; [assumption|]).
  split; [exact (proj1 (any_history_hdr_small sc_cr sc_hash32 _ _ _ _ _ _ Hsm Hsec Er))|].
  intros f c' w' r H.
  exact (any_history_apply_returns_no_panic_init sc_cr sc_hash32 sc_nonblank sc_blocks sc_writer_fits (cor_hist pf1 pfL)
           c (mkWorld d0 [] []) c1 w1 oks f pfH c' w' r (proj1 HB) Hsec sc_lim Hsm Hops Er Hwire Hb Hh Hsk Hlim Hsum Hmax H).
Qed.

(* ---------- 3. honest histories without the guard premise ---------- *)

Lemma ha_hist_ng : hist_all_ng sc_cr sc_blocks ha_es scR_c scR_w.
Proof. apply hist_all_ng_of_all. exact ha_hist. Qed.

Example ha_replicas_converge_no_guard_applies :
  exists c' w',
    run sc_cr ha_es scR_c scR_w = Some (c', w') /\
    RCInv sc_cr sc_blocks c' (w_disk w') (held_all (fun _ => false) ha_es) /\
    t_length (c_tree c') = 6 /\ t_byte_length (c_tree c') = prefix_size sc_blocks 6 /\
    core_has c' 4 = true /\ core_has c' 0 = true.
Proof.
  destruct scR_w as [d0 j0 ev0] eqn:Ew.
  pose proof sc_R0_RCInv as RC. pose proof ha_hist_ng as Hh. rewrite Ew in RC, Hh. cbn [w_disk] in RC.
  destruct (honest_replicas_converge_no_guard sc_cr sc_crc_ok sc_hash32 sc_nonblank sc_hashbytes sc_blocks sc_writer_fits
              ha_es scR_c d0 j0 ev0 (fun _ => false) RC Hh)
    as (c' & w' & Hrun & RC' & _ & Hl & Hb & _ & Hreq & _ & _).
  exists c', w'. split; [exact Hrun|]. split; [exact RC'|].
  assert (El : t_length (c_tree c') = 6) by (rewrite Hl; vm_compute; reflexivity).
  split; [exact El|]. split; [rewrite <- El; exact Hb|].
  split; [apply Hreq; cbn; right; left; eexists; split; reflexivity|].
  apply Hreq; cbn; right; right; right; left; eexists; split; reflexivity.
Qed.

(* the guard premise itself, for the first request of that history, as discharged by RCInv_frame_guard *)
Example ha_frame_guard_discharged :
  forall vp,
    create_valueless_proof (c_tree scW_c) (d_tree (w_disk scW_w)) (rq_block ha_rq1) (rq_hash ha_rq1) (rq_seek ha_rq1)
                           (rq_upgrade ha_rq1) = Ok vp ->
    frame_guard sc_cr scR_c (w_disk scR_w) (vp_to_proof vp (rq_value sc_blocks ha_rq1)).
Proof.
  intros vp Hc.
  apply (RCInv_frame_guard sc_cr sc_hash32 sc_blocks sc_writer_fits scR_c (w_disk scR_w) (fun _ => false) _ _ _ _ _ _ vp _
           sc_R0_RCInv Hc).
Qed.

(* ---------- 4. core_append ---------- *)

Example toy_append_no_panic_applies :
  exists d0 ops0 c0,
    core_open toy_cr (Some toy_keypair) false disk_empty = (d0, ops0, Ok c0) /\
    FInv toy_cr c0 d0 [] (fun _ => false) /\
    N.of_nat (length toy_blocks) <= MAX_BATCH /\
    forall f c' w' r,
      core_append toy_cr f toy_blocks c0 (mkWorld d0 [] []) = (c', w', r) ->
      r = Ok (3, 4) /\ FInv toy_cr c' (w_disk w') toy_blocks (cl_mask (fun _ => false) 0).
Proof.
  destruct (FInv_init toy_cr toy_crc_ok' toy_hash32 toy_nonblank toy_hashbytes toy_keypair eq_refl)
    as (d0 & ops0 & c0 & Ho & D0 & K).
  exists d0, ops0, c0. split; [exact Ho|]. split; [exact D0|].
  assert (Hmax : N.of_nat (length toy_blocks) <= MAX_BATCH) by (vm_compute; discriminate).
  split; [exact Hmax|]. intros f c' w' r H.
  assert (Hsk : kp_secret (c_keypair c0) = Some (repeat 2 32%nat)) by (rewrite K; reflexivity).
  destruct (append_FInv_no_panic toy_cr toy_crc_ok' toy_hash32 toy_nonblank toy_hashbytes toy_sig64 toy_sigbytes
              f toy_blocks c0 d0 [] [] [] (fun _ => false) _ c' w' r
              D0 Hsk ltac:(vm_compute; discriminate) ltac:(vm_compute; discriminate) Hmax H) as (Hr & D1 & _).
  split; [rewrite Hr; vm_compute; reflexivity|exact D1].
Qed.

(* the converse, on sizes only: 31580643 empty blocks (the list is never built: only its length is used) *)
Lemma sumN_len_repeat_nil k : sumN (map len (repeat ([] : bytes) k)) = 0.
Proof. induction k as [|k IH]; cbn [repeat map sumN]; [reflexivity|]. rewrite IH. reflexivity. Qed.

Example toy_append_guard_fires :
  exists d0 ops0 c0,
    core_open toy_cr (Some toy_keypair) false disk_empty = (d0, ops0, Ok c0) /\
    FInv toy_cr c0 d0 [] (fun _ => false) /\
    forall f c' w' r,
      core_append toy_cr f (repeat [] (N.to_nat 31580643)) c0 (mkWorld d0 [] []) = (c', w', r) ->
      r = Panic frame_msg.
Proof.
  destruct (FInv_init toy_cr toy_crc_ok' toy_hash32 toy_nonblank toy_hashbytes toy_keypair eq_refl)
    as (d0 & ops0 & c0 & Ho & D0 & K).
  exists d0, ops0, c0. split; [exact Ho|]. split; [exact D0|]. intros f c' w' r H.
  assert (Hsk : kp_secret (c_keypair c0) = Some (repeat 2 32%nat)) by (rewrite K; reflexivity).
  assert (Hlen : forall (A : Type) (x : A) k, N.of_nat (length (repeat x (N.to_nat k))) = k)
    by (intros A x k; rewrite repeat_length; apply N2Nat.id).
  apply (append_FInv_guard_fires toy_cr toy_crc_ok' toy_hash32 toy_nonblank toy_hashbytes toy_sig64 toy_sigbytes
           f (repeat [] (N.to_nat 31580643)) c0 d0 [] [] [] (fun _ => false) _ c' w' r D0 Hsk); [| | |exact H].
  - rewrite app_nil_l, sumN_len_repeat_nil. unfold u64_max. lia.
  - rewrite app_nil_l, Hlen. unfold NODE_SIZE, u64_max. lia.
  - rewrite Hlen. lia.
Qed.

Print Assumptions ex_entry_bound.
Print Assumptions sc_apply_any_returns_no_panic_applies.
Print Assumptions sc_any_history_no_panic_init_applies.
Print Assumptions ha_replicas_converge_no_guard_applies.
Print Assumptions ha_frame_guard_discharged.
Print Assumptions toy_append_no_panic_applies.
Print Assumptions toy_append_guard_fires.

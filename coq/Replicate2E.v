(* Replicate2E.v -- C03, class E: the storage side of applying a block proof.
   E1: the byte offset computed from the changeset of an accepted block-only proof is the prefix sum
       of the writer's block sizes.
   E2: byte offsets in a sparse replica tree (only the nodes along the path need to be stored). *)
From HC Require Import Base NMap Codec CodecFacts Crypto FlatTree Storage Oplog Merkle Core.
From HC Require Import FlatTreeFacts Sound NoPanic TreeRef OffsetFacts CoreFacts BitfieldFacts StorageFacts Refine Replicate Replicate2 Replicate2Z.
From Coq Require Import FMapPositive ZifyN ZifyNat ZifyBool.
Ltac Zify.zify_post_hook ::= Z.div_mod_to_equations.
Arguments N.add : simpl never.
Arguments N.sub : simpl never.
Arguments N.mul : simpl never.
Arguments N.div : simpl never.
Arguments N.modulo : simpl never.
Arguments N.pow : simpl never.
Arguments N.eqb : simpl never.
Arguments N.ltb : simpl never.
Arguments N.leb : simpl never.
Arguments N.of_nat : simpl never.
Arguments N.to_nat : simpl never.
Arguments N.log2 : simpl never.

Section BlockOffset.
  Variable cr : crypto.
  Variable bs : list bytes.
  Hypothesis total_fits : sumN (map len bs) <= u64_max.

  (* the nodes the verifier's climb visits above (d, a): sibling, parent, sibling, parent, ... *)
  Fixpoint path_vis (n d : nat) (a : N) : list node :=
    match n with
    | O => []
    | S n' => ref_node cr bs d (sibo a) :: ref_node cr bs (S d) (a / 2) :: path_vis n' (S d) (a / 2)
    end.

  Lemma path_vis_ref n : forall d a, Forall (is_ref cr bs) (path_vis n d a).
  Proof.
    induction n as [|n IH]; intros d a; cbn [path_vis]; [constructor|].
    constructor; [apply ref_node_is_ref|]. constructor; [apply ref_node_is_ref|apply IH].
  Qed.

  Lemma climb_ref_vis : forall n d a fuel acc xo,
    (n < fuel)%nat -> xo * p2 n <= a -> a < (xo + 1) * p2 n ->
    climb cr fuel (mkQ (map (rn cr bs) (path_idx n d a)) None) (it_at (N.of_nat d) a) (ref_node cr bs d a) acc
    = Ok (ref_node cr bs (d + n) xo, acc ++ path_vis n d a).
  Proof.
    induction n as [|n IH]; intros d a fuel acc xo Hf H1 H2;
      (destruct fuel as [|f]; [lia|]); rewrite climb_S; cbn [path_idx map path_vis].
    - rewrite p2_0 in *. assert (a = xo) as -> by lia. rewrite Nat.add_0_r, app_nil_r. reflexivity.
    - rewrite (q_length_pos bs total_fits). cbv zeta. rewrite it_sibling_sibo.
      unfold q_shift. cbn [q_extra q_nodes]. unfold rn at 1 2. cbn [fst snd].
      rewrite ref_node_index. unfold it_at at 1. cbn [it_index]. rewrite N.eqb_refl. cbn [bind].
      rewrite it_parent_at, sibo_half, it_at_nat_S.
      pose proof (ref_parent cr bs total_fits d a) as Hp.
      assert (F : n_length (ref_node cr bs d a) + n_length (ref_node cr bs d (sibo a)) <= u64_max).
      { pose proof (ref_node_fits cr bs total_fits (S d) (a / 2)) as F. rewrite <- Hp in F.
        cbn [n_length] in F. unfold fits_u64 in F. lia. }
      rewrite NoPanic.add64_ok by exact F. cbn [bind].
      change (it_index (it_at (N.of_nat (S d)) (a / 2))) with (ft_index (N.of_nat (S d)) (a / 2)). rewrite Hp.
      rewrite p2_S in H1, H2.
      rewrite (IH (S d) (a / 2) f _ xo) by lia.
      replace (d + S n)%nat with (S d + n)%nat by lia. rewrite <- app_assoc. reflexivity.
  Qed.

  Lemma path_idx_length m : forall d a, length (path_idx m d a) = m.
  Proof. induction m as [|m IH]; intros d a; cbn [path_idx length]; [reflexivity|]. rewrite IH. reflexivity. Qed.

  Lemma verify_tree_vis i n xo c :
    (n < CLIMB)%nat -> xo * p2 n <= i -> i < (xo + 1) * p2 n -> i * 2 <= u64_max ->
    verify_tree cr (Some (mkDataBlock i (blk bs i) (path_nodes cr bs n i))) None None c
    = Ok (Some (ref_node cr bs n xo), cs_push_nodes c (ref_node cr bs 0 i :: path_vis n 0 i)).
  Proof.
    intros Hn H1 H2 Hi.
    unfold verify_tree. cbn [db_index db_value db_nodes]. rewrite NoPanic.mul64_ok by exact Hi. cbn [bind].
    rewrite Sound.it_index_it_new, (N.mul_comm i 2), it_new_leaf2.
    change (block_node cr (2 * i) (blk bs i)) with (ref_node cr bs 0 i).
    change (it_at 0 i) with (it_at (N.of_nat 0) i). unfold path_nodes.
    rewrite (climb_ref_vis n 0 i _ [ref_node cr bs 0 i] xo); [reflexivity| |exact H1|exact H2].
    rewrite map_length, path_idx_length. lia.
  Qed.

  (* ---------- the walk of byte_offset_in_changeset over the visited nodes ---------- *)

  Lemma ref_size_S d h : ref_size bs (S d) h = ref_size bs d (2 * h) + ref_size bs d (2 * h + 1).
  Proof. reflexivity. Qed.

  Lemma walk_path i : forall n d a off rest,
    off + prefix_size bs (a * p2 d) = prefix_size bs i ->
    exists off',
      cs_path_walk (path_vis n d a ++ rest) (it_at (N.of_nat (S d)) (a / 2)) off (N.odd a)
                   (Some (ref_node cr bs d a))
      = cs_path_walk rest (it_at (N.of_nat (S (d + n))) (a / p2 n / 2)) off' (N.odd (a / p2 n))
                     (Some (ref_node cr bs (d + n) (a / p2 n))) /\
      off' + prefix_size bs (a / p2 n * p2 (d + n)) = prefix_size bs i.
  Proof.
    induction n as [|n IH]; intros d a off rest Hoff; cbn [path_vis app].
    - rewrite p2_0, N.div_1_r, Nat.add_0_r. exists off. split; [reflexivity|exact Hoff].
    - cbn [cs_path_walk]. rewrite !ref_node_index.
      change (it_index (it_at (N.of_nat (S d)) (a / 2))) with (ft_index (N.of_nat (S d)) (a / 2)).
      destruct (N.eqb_spec (ft_index (N.of_nat d) (sibo a)) (ft_index (N.of_nat (S d)) (a / 2))) as [Ei|_].
      { apply ft_index_inj in Ei. lia. }
      rewrite N.eqb_refl.
      (* the offset update *)
      assert (Hstep : exists off1,
                 (if N.odd a
                  then d0 <- sub64 "node.length - parent.length" (n_length (ref_node cr bs (S d) (a / 2)))
                                   (n_length (ref_node cr bs d a)) ;; Ok (off + d0)
                  else Ok off) = Ok off1 /\
                 off1 + prefix_size bs (a / 2 * p2 (S d)) = prefix_size bs i).
      { rewrite !ref_node_length, ref_size_S, p2_S. rewrite FlatTreeFacts.odd_mod.
        destruct (N.eqb_spec (a mod 2) 1) as [Eo|Eo].
        - replace (2 * (a / 2) + 1) with a by lia.
          unfold sub64. destruct (N.leb_spec (ref_size bs d a) (ref_size bs d (2 * (a / 2)) + ref_size bs d a)) as [_|L]; [|lia].
          cbn [bind]. eexists. split; [reflexivity|].
          pose proof (ref_size_prefix bs d (2 * (a / 2))) as P. fold (p2 d) in P.
          replace (2 * (a / 2) + 1) with a in P by lia.
          replace (a / 2 * (2 * p2 d)) with (2 * (a / 2) * p2 d) by lia. lia.
        - exists off. split; [reflexivity|]. replace (a / 2 * (2 * p2 d)) with (a * p2 d); [exact Hoff|].
          replace a with (2 * (a / 2)) at 1 by lia. lia. }
      destruct Hstep as (off1 & -> & Hoff1). cbn [bind].
      rewrite it_parent_at, it_at_nat_S.
      assert (Er : it_is_right (it_at (N.of_nat (S d)) (a / 2)) = N.odd (a / 2)) by reflexivity.
      rewrite Er.
      destruct (IH (S d) (a / 2) off1 rest Hoff1) as (off' & Hw & Hoff').
      exists off'. rewrite Hw.
      replace (a / 2 / p2 n) with (a / p2 (S n)) in *
        by (rewrite p2_S, N.div_div; [reflexivity|lia|pose proof (p2_pos n); lia]).
      replace (S d + n)%nat with (d + S n)%nat in * by lia. split; [reflexivity|exact Hoff'].
  Qed.

  (* ---------- the position of the top node among the roots ---------- *)

  Lemma position_of_split idx : forall l acc p,
    position_of idx l acc = Some p ->
    exists pre x post, l = pre ++ x :: post /\ n_index x = idx /\ (p = acc + length pre)%nat.
  Proof.
    induction l as [|y l IH]; intros acc p H; cbn [position_of] in H; [discriminate|].
    destruct (N.eqb_spec (n_index y) idx) as [E|E].
    - injection H as <-. exists [], y, l. cbn [app length]. split; [reflexivity|]. split; [exact E|lia].
    - apply IH in H. destruct H as (pre & x & post & -> & Hx & ->).
      exists (y :: pre), x, post. cbn [app length]. split; [reflexivity|]. split; [exact Hx|lia].
  Qed.

  Lemma tiles_app_inv l1 : forall x l2 a b, tiles (l1 ++ x :: l2) a b -> tiles l1 a (snd x * p2 (fst x)).
  Proof.
    induction l1 as [|y l1 IH]; intros x l2 a b H; cbn [app tiles] in *.
    - tauto.
    - destruct H as [E H]. split; [exact E|]. eapply IH. exact H.
  Qed.

  Lemma map_eq_app_inv {A B} (f : A -> B) l : forall l1 l2,
    map f l = l1 ++ l2 -> exists k1 k2, l = k1 ++ k2 /\ map f k1 = l1 /\ map f k2 = l2.
  Proof.
    induction l as [|x l IH]; intros l1 l2 H; cbn [map] in H.
    - symmetry in H. apply app_eq_nil in H. destruct H as [-> ->]. exists [], []. auto.
    - destruct l1 as [|y l1]; cbn [app] in H.
      + exists [], (x :: l). cbn [app map]. auto.
      + injection H as <- H. apply IH in H. destruct H as (k1 & k2 & -> & <- & <-).
        exists (x :: k1), k2. auto.
  Qed.

  Lemma position_of_ref_roots r k o rpos :
    position_of (ft_index (N.of_nat k) o) (ref_roots cr bs r) 0 = Some rpos ->
    sumN (map n_length (firstn rpos (ref_roots cr bs r))) = prefix_size bs (o * p2 k).
  Proof.
    intros H. apply position_of_split in H. destruct H as (pre & x & post & E & Hx & ->).
    cbn [Nat.add]. rewrite E, firstn_app, firstn_all, Nat.sub_diag. cbn [firstn]. rewrite app_nil_r.
    rewrite ref_roots_rrl in E. apply map_eq_app_inv in E. destruct E as (k1 & k2 & E & <- & E2).
    destruct k2 as [|x' k2]; [discriminate E2|]. cbn [map] in E2. injection E2 as <- _.
    unfold rn in Hx. rewrite ref_node_index in Hx. apply ft_index_inj in Hx. destruct Hx as [Hd Ho].
    pose proof (tiles_rrl r 0) as T. rewrite E, p2_0, N.mul_1_r in T.
    apply tiles_app_inv in T. apply (tiles_sizes cr bs) in T. rewrite prefix_size_0 in T.
    assert (fst x' = k) by lia. subst. lia.
  Qed.

  (* E1: the offset computed for the block of an accepted block section is the prefix sum *)
  Theorem block_offset_in_changeset rt rtf r i k o :
    t_roots rt = ref_roots cr bs r -> t_length rt = r -> i < r -> i * 2 <= u64_max ->
    o * p2 k <= i -> i < (o + 1) * p2 k ->
    (position_of (ft_index (N.of_nat k) o) (t_roots rt) 0 = None ->
     byte_offset_from_nodes rt rtf (ft_index (N.of_nat k) o) = Ok (prefix_size bs (o * p2 k))) ->
    forall cs, cs_nodes cs = ref_node cr bs 0 i :: path_vis k 0 i -> cs_roots cs = t_roots rt ->
    byte_offset_in_changeset rt rtf i cs = Ok (prefix_size bs i).
  Proof.
    intros Hroots Hrl Hir Hi H1 H2 Hoff cs Hn Hr.
    unfold byte_offset_in_changeset. rewrite Hrl. destruct (N.eqb_spec r i) as [E|_]; [lia|].
    rewrite NoPanic.mul64_ok by lia. cbn [bind]. rewrite Hn, it_new_leaf2.
    cbn [cs_path_walk]. rewrite ref_node_index. change (N.of_nat 0) with 0. rewrite ft_index_leaf.
    change (it_index (it_at 0 i)) with (ft_index 0 i). rewrite ft_index_leaf, N.eqb_refl. cbn [bind].
    change (it_at 0 i) with (it_at (N.of_nat 0) i). rewrite it_parent_at.
    change (N.of_nat 0 + 1) with (N.of_nat 1).
    assert (Er : it_is_right (it_at (N.of_nat 0) i) = N.odd i) by reflexivity. rewrite Er.
    destruct (walk_path i k 0 i 0 []) as (off' & Hw & Hoff').
    { rewrite p2_0, N.mul_1_r. lia. }
    rewrite app_nil_r in Hw. rewrite Hw. cbn [cs_path_walk Nat.add bind].
    assert (Eo : i / p2 k = o).
    { pose proof (p2_pos k). symmetry. apply N.div_unique with (r := i - o * p2 k); lia. }
    rewrite Eo in *. cbn [Nat.add] in Hoff'. rewrite ref_node_index, Hr.
    destruct (position_of (ft_index (N.of_nat k) o) (t_roots rt) 0) as [rpos|] eqn:Ep.
    - rewrite Hroots in Ep |- *. rewrite (position_of_ref_roots r k o rpos Ep). f_equal. lia.
    - rewrite (Hoff eq_refl). cbn [bind]. f_equal. lia.
  Qed.
End BlockOffset.

(* ====================================================================================== *)
(* E2: byte offsets in a sparse tree                                                        *)
(* ====================================================================================== *)

Section Sparse.
  Variable cr : crypto.
  Variable bs : list bytes.
  Variable t : mtree.
  Variable tf : file.
  Variable r : N.

  (* the reads of the descent towards leaf i: the left child, wherever the path turns right *)
  Definition path_reads (i : N) : Prop :=
    forall d o, o * p2 (S d) <= i -> i < (o + 1) * p2 (S d) -> (2 * o + 1) * p2 d <= i ->
                (o + 1) * p2 (S d) <= r ->
                required_node t tf (ft_index (N.of_nat d) (2 * o)) = Ok (ref_node cr bs d (2 * o)).

  Lemma descend_sparse i (Hreads : path_reads i) (d : nat) : forall fuel o off,
    (d < fuel)%nat -> o * p2 d <= i -> i < (o + 1) * p2 d -> (o + 1) * p2 d <= r ->
    exists q, offset_descend fuel t tf (it_at (N.of_nat d) o) (2 * i) off = Ok (off + q) /\
              prefix_size bs (o * p2 d) + q = prefix_size bs i.
  Proof.
    induction d as [|d IH]; intros fuel o off Hfuel H1 H2 H3;
      (destruct fuel as [|fuel]; [lia|]); cbn [offset_descend].
    - rewrite p2_0 in *. assert (i = o) as -> by lia. exists 0.
      cbn [it_at it_index]. change (N.of_nat 0) with 0. rewrite ft_index_leaf, N.eqb_refl.
      split; [f_equal; lia|]. rewrite N.mul_1_r. lia.
    - pose proof (Hreads d o) as Hrd.
      rewrite p2_S in *. pose proof (p2_pos d) as Hp. set (P := p2 d) in *.
      replace (N.of_nat (S d)) with (N.of_nat d + 1) by lia.
      pose proof (ft_index_succ (N.of_nat d + 1) o) as Hix. rewrite pow2_succ in Hix. fold (p2 d) in Hix. fold P in Hix.
      cbn [it_at it_index]. fold (it_at (N.of_nat d + 1) o).
      destruct (N.eqb_spec (ft_index (N.of_nat d + 1) o) (2 * i)) as [E|E]; [nia|].
      rewrite it_left_child_at.
      destruct (N.ltb_spec (2 * i) (ft_index (N.of_nat d + 1) o)) as [L|L].
      + destruct (IH fuel (2 * o) off) as (q & Hq & Hs); try lia; try nia.
        exists q. split; [exact Hq|]. replace (o * (2 * P)) with (2 * o * P) by lia. exact Hs.
      + change (it_index (it_at (N.of_nat d) (2 * o))) with (ft_index (N.of_nat d) (2 * o)).
        rewrite Hrd by nia. cbn [bind].
        rewrite it_sibling_at_even by (rewrite FlatTreeFacts.even_mod; lia).
        destruct (IH fuel (2 * o + 1) (off + n_length (ref_node cr bs d (2 * o)))) as (q & Hq & Hs);
          try lia; try (fold P; nia).
        exists (n_length (ref_node cr bs d (2 * o)) + q). split; [rewrite Hq; f_equal; lia|].
        rewrite ref_node_length. pose proof (ref_size_prefix bs d (2 * o)) as Q. fold (p2 d) in Q. fold P in Q.
        fold P in Hs. replace (o * (2 * P)) with (2 * o * P) by lia. lia.
  Qed.

  Lemma byte_offset_sparse i :
    t_roots t = ref_roots cr bs r -> r <= 2 ^ 63 -> i < r -> path_reads i ->
    byte_offset_from_nodes t tf (2 * i) = Ok (prefix_size bs i).
  Proof.
    intros Hroots Hn Hi Hreads.
    rewrite byte_offset_from_nodes_even by (rewrite FlatTreeFacts.odd_mod; lia).
    rewrite Hroots, ref_roots_rrl.
    pose proof (tiles_rrl r 0) as T. rewrite p2_0, N.mul_1_r in T.
    destruct (tiles_split _ _ _ i T ltac:(lia) Hi) as (pre & [d o] & post & -> & Tp & H1 & H2 & H3).
    cbn [fst snd] in *. rewrite map_app. cbn [map].
    destruct (skipped_tiles cr bs pre 0 (o * p2 d) (2 * i) Tp ltac:(lia)) as [Sk Hd].
    replace (2 * 0) with 0 in Sk, Hd by lia.
    pose proof (ft_index_succ (N.of_nat d) o) as Hix. fold (p2 d) in Hix. pose proof (p2_pos d) as Hp.
    rewrite (offset_roots_skip t tf (fun _ => 0)); [|exact Sk| |].
    - unfold rn at 1. cbn [fst snd]. rewrite ref_node_index, FlatTreeFacts.it_new_index.
      assert (Hd64 : (d < CLIMB)%nat).
      { assert (p2 d <= 2 ^ 64) by (assert (2 ^ 63 < 2 ^ 64) by (apply N.pow_lt_mono_r; lia); nia).
        apply p2_le_64 in H. unfold CLIMB. lia. }
      destruct (descend_sparse i Hreads d CLIMB o (0 + sumN (map n_length (map (rn cr bs) pre))) Hd64 H1 H2 H3)
        as (q & -> & Hs).
      f_equal. pose proof (tiles_sizes cr bs pre 0 _ Tp) as Q. rewrite prefix_size_0 in Q. lia.
    - rewrite Hd. unfold rn. cbn [fst snd]. rewrite ref_node_index. nia.
    - rewrite Hd. unfold next_head, rn. cbn [fst snd]. rewrite ref_node_index. nia.
  Qed.

  (* the offset of an inner node is the offset of its leftmost leaf *)
  Lemma byte_offset_node k o :
    t_roots t = ref_roots cr bs r -> r <= 2 ^ 63 -> (o + 1) * p2 k <= r -> path_reads (o * p2 k) ->
    byte_offset_from_nodes t tf (ft_index (N.of_nat k) o) = Ok (prefix_size bs (o * p2 k)).
  Proof.
    intros Hroots Hn Hk Hreads. pose proof (p2_pos k) as Hp.
    rewrite <- (byte_offset_sparse (o * p2 k) Hroots Hn ltac:(nia) Hreads).
    unfold byte_offset_from_nodes.
    replace (N.odd (2 * (o * p2 k))) with false by (rewrite FlatTreeFacts.odd_mod; lia).
    destruct k as [|k].
    - rewrite p2_0, N.mul_1_r. change (N.of_nat 0) with 0. rewrite ft_index_leaf.
      replace (N.odd (2 * o)) with false by (rewrite FlatTreeFacts.odd_mod; lia). reflexivity.
    - pose proof (ft_index_succ (N.of_nat (S k)) o) as Hix. fold (p2 (S k)) in Hix.
      rewrite p2_S in *.
      replace (N.odd (ft_index (N.of_nat (S k)) o)) with true by (rewrite FlatTreeFacts.odd_mod; lia).
      unfold ft_left_span. rewrite ft_depth_index, ft_offset_index.
      destruct (N.eqb_spec (N.of_nat (S k)) 0) as [E|_]; [lia|].
      rewrite pow2_succ. fold (p2 (S k)). rewrite p2_S. f_equal. lia.
  Qed.
End Sparse.

(* ====================================================================================== *)
(* every root of an accepted changeset is an old root or one of its nodes                   *)
(* ====================================================================================== *)

Section RootsCover.
  Variable cr : crypto.

  (* c' keeps the pushed nodes of c, and its roots are roots of c or pushed nodes *)
  Definition cover (c c' : changeset) : Prop :=
    (forall y, In y (cs_rnodes c) -> In y (cs_rnodes c')) /\
    (forall x, In x (cs_roots c') -> In x (cs_roots c) \/ In x (cs_rnodes c')).

  Lemma cover_refl c : cover c c.
  Proof. split; auto. Qed.

  Lemma cover_trans a b c : cover a b -> cover b c -> cover a c.
  Proof.
    intros [A1 A2] [B1 B2]. split; [auto|]. intros x Hx. destruct (B2 x Hx) as [H|H]; [|auto].
    destruct (A2 x H) as [H'|H']; auto.
  Qed.

  Lemma merge_roots_cover fuel : forall rroots nodes it rr nr it',
    merge_roots cr fuel rroots nodes it = Ok (rr, nr, it') ->
    (forall y, In y nodes -> In y nr) /\ (forall x, In x rr -> In x rroots \/ In x nr).
  Proof.
    induction fuel as [|f IH]; intros rroots nodes it rr nr it' H; [discriminate H|].
    cbn [merge_roots] in H. destruct rroots as [|a [|b rest]]; try (injection H as <- <- <-; split; auto).
    destruct (negb (it_index (it_sibling it) =? n_index b)); [injection H as <- <- <-; split; auto|].
    apply bind_ok in H. destruct H as (l & _ & H). apply IH in H. destruct H as [H1 H2]. split.
    - intros y Hy. apply H1. right. exact Hy.
    - intros x Hx. destruct (H2 x Hx) as [[<-|Hr]|Hn]; [right; apply H1; left; reflexivity| |right; exact Hn].
      left. right. right. exact Hr.
  Qed.

  Lemma append_root_cover c n it c' it' : append_root cr c n it = Ok (c', it') -> cover c c'.
  Proof.
    unfold append_root. intros H. apply bind_ok in H. destruct H as (bl & _ & H).
    apply bind_ok in H. destruct H as ([[rr nr] it1] & Hm & H). injection H as <- <-.
    apply merge_roots_cover in Hm. destruct Hm as [H1 H2]. split; cbn [cs_rnodes cs_roots].
    - intros y Hy. apply H1. right. exact Hy.
    - intros x Hx. apply in_rev in Hx. destruct (H2 x Hx) as [[<-|Hr]|Hn].
      + right. apply H1. left. reflexivity.
      + left. apply in_rev. exact Hr.
      + right. exact Hn.
  Qed.

  Lemma grow_loop_cover fuel : forall c q it ri c' q' it',
    grow_loop cr fuel c q it ri = Ok (c', q', it') -> cover c c'.
  Proof.
    induction fuel as [|f IH]; intros c q it ri c' q' it' H; [discriminate H|].
    cbn [grow_loop] in H. destruct (it_index it =? ri); [injection H as <- <- <-; apply cover_refl|].
    apply bind_ok in H. destruct H as ([n q1] & _ & H).
    apply bind_ok in H. destruct H as ([c1 it1] & Ha & H).
    eapply cover_trans; [apply (append_root_cover _ _ _ _ _ Ha)|apply (IH _ _ _ _ _ _ _ H)].
  Qed.

  Lemma upgrade_roots_loop_cover fuel : forall c q it to i grow c' q' it',
    upgrade_roots_loop cr fuel c q it to i grow = Ok (c', q', it') -> cover c c'.
  Proof.
    induction fuel as [|f IH]; intros c q it to i grow c' q' it' H; [discriminate H|].
    cbn [upgrade_roots_loop] in H. destruct (it_full_root it to) as [found it1].
    destruct (negb found); [injection H as <- <- <-; apply cover_refl|].
    assert (Hstep : forall X, ('(n, q1) <- q_shift q (it_index it1) ;; '(c1, it2) <- append_root cr c n it1 ;;
                               upgrade_roots_loop cr f c1 q1 (it_next_tree it2) to i false) = X ->
                              X = Ok (c', q', it') -> cover c c').
    { intros X <- HX. apply bind_ok in HX. destruct HX as ([n q1] & _ & HX).
      apply bind_ok in HX. destruct HX as ([c1 it2] & Ha & HX).
      eapply cover_trans; [apply (append_root_cover _ _ _ _ _ Ha)|apply (IH _ _ _ _ _ _ _ _ _ HX)]. }
    destruct (nth_error (cs_roots c) i) as [r0|].
    - destruct (n_index r0 =? it_index it1); [apply (IH _ _ _ _ _ _ _ _ _ H)|].
      destruct grow; [|apply (Hstep _ eq_refl H)].
      apply bind_ok in H. destruct H as (li & _ & H).
      apply bind_ok in H. destruct H as ([[c1 q1] it2] & Hg & H).
      eapply cover_trans; [apply (grow_loop_cover _ _ _ _ _ _ _ _ Hg)|apply (IH _ _ _ _ _ _ _ _ _ H)].
    - apply (Hstep _ eq_refl H).
  Qed.

  Lemma extra_siblings_cover : forall extra c it c' it' rest,
    extra_siblings cr c it extra = Ok (c', it', rest) -> cover c c'.
  Proof.
    induction extra as [|n extra IH]; intros c it c' it' rest H; cbn [extra_siblings] in H.
    - injection H as <- <- <-. apply cover_refl.
    - destruct (n_index n =? it_index (it_sibling it)); [|injection H as <- <- <-; apply cover_refl].
      apply bind_ok in H. destruct H as ([c1 it1] & Ha & H).
      eapply cover_trans; [apply (append_root_cover _ _ _ _ _ Ha)|apply (IH _ _ _ _ _ H)].
  Qed.

  Lemma extra_rest_cover : forall extra c it c' it',
    extra_rest cr c it extra = Ok (c', it') -> cover c c'.
  Proof.
    induction extra as [|n extra IH]; intros c it c' it' H; cbn [extra_rest] in H.
    - injection H as <- <-. apply cover_refl.
    - apply bind_ok in H. destruct H as (it1 & _ & H).
      apply bind_ok in H. destruct H as ([c1 it2] & Ha & H).
      eapply cover_trans; [apply (append_root_cover _ _ _ _ _ Ha)|apply (IH _ _ _ _ H)].
  Qed.

  Lemma verify_upgrade_cover fork u br pk c b c4 :
    verify_upgrade cr fork u br pk c = Ok (b, c4) -> cover c c4.
  Proof.
    unfold verify_upgrade. intros H.
    apply bind_ok in H. destruct H as (sl & _ & H).
    apply bind_ok in H. destruct H as (to & _ & H).
    apply bind_ok in H. destruct H as ([[c1 q1] it1] & H1 & H).
    apply bind_ok in H. destruct H as (li & _ & H).
    apply bind_ok in H. destruct H as ([[c2 it2] rest] & H2 & H).
    apply bind_ok in H. destruct H as ([c3 it3] & H3 & H).
    apply bind_ok in H. destruct H as (c4' & Hs & H). injection H as _ <-.
    unfold cs_verify_and_set_signature in Hs. apply bind_ok in Hs. destruct Hs as (s' & _ & Hs).
    destruct (cr_verify cr pk _ s'); [|discriminate Hs]. injection Hs as <-.
    eapply cover_trans; [apply (upgrade_roots_loop_cover _ _ _ _ _ _ _ _ _ _ H1)|].
    eapply cover_trans; [apply (extra_siblings_cover _ _ _ _ _ _ H2)|].
    pose proof (extra_rest_cover _ _ _ _ _ H3) as [C1 C2]. split; cbn; auto.
  Qed.

  Lemma cs_rnodes_nodes c x : In x (cs_rnodes c) <-> In x (cs_nodes c).
  Proof. unfold cs_nodes. rewrite rev_append_rev, app_nil_r. apply in_rev. Qed.

  (* the roots of an accepted changeset *)
  Theorem verify_proof_roots_cover rt rtf pf pk cs :
    verify_proof cr rt rtf pf pk = Ok cs ->
    forall x, In x (cs_roots cs) -> In x (t_roots rt) \/ In x (cs_nodes cs).
  Proof.
    intros H. apply verify_proof_accept_inv in H. destruct H as (root & c1 & Hvt & H).
    assert (C1 : cover (tree_changeset rt) c1).
    { apply verify_tree_frame in Hvt. destruct Hvt as (_ & _ & _ & _ & _ & F6 & _).
      split; [cbn; tauto|]. intros x Hx. left. rewrite <- F6. exact Hx. }
    assert (C : cover (tree_changeset rt) cs).
    { destruct (p_upgrade pf) as [u|].
      - destruct H as (consumed & c3 & Hvu & _). eapply cover_trans; [exact C1|apply (verify_upgrade_cover _ _ _ _ _ _ _ Hvu)].
      - destruct H as [-> _]. exact C1. }
    destruct C as [_ C2]. intros x Hx. destruct (C2 x Hx) as [Hr|Hn]; [left; exact Hr|right; apply cs_rnodes_nodes, Hn].
  Qed.
End RootsCover.

(* ====================================================================================== *)
(* E3: core_apply_proof on a block-only proof                                               *)
(* ====================================================================================== *)

Lemma mbind_assoc {A B C} (m : M A) (f : A -> M B) (g : B -> M C) c w :
  mbind (mbind m f) g c w = mbind m (fun a => mbind (f a) g) c w.
Proof. unfold mbind. destruct (m c w) as [[c1 w1] [a|e|s|]]; reflexivity. Qed.

Section ApplyBlock.
  Variable cr : crypto.
  Hypothesis Hhash32 : forall x, length (cr_hash cr x) = 32%nat.
  Hypothesis Hnonblank : forall x, all_zero (cr_hash cr x) = false.

  Lemma oplog_append_ok (o : oplog) (e : entry) b :
    enc_entry e = Ok b -> len b < 1073741824 ->
    exists fr, oplog_append cr o e =
      Ok (mkOplog (ol_bits o) (ol_entries_len o + 1) (ol_entries_bytes o + len fr),
          [SW Oplog (ENTRIES_OFFSET + ol_entries_bytes o) fr]).
  Proof.
    intros He Hb. unfold oplog_append. rewrite He. cbn [lift_enc bind]. unfold frame.
    destruct (N.leb_spec 1073741824 (len b)) as [L|_]; [lia|]. cbn [bind]. eexists. reflexivity.
  Qed.

  (* log_and_commit for the changeset of a proof without upgrade *)
  Lemma log_and_commit_block (cs : changeset) (u : bf_update) (c : core) (w : world) :
    cs_upgraded cs = false ->
    (forall x, In x (cs_nodes cs) -> length (n_hash x) = 32%nat) ->
    commitable (c_tree c) cs = true ->
    (forall b, enc_entry (mkEntry (cs_nodes cs) None (Some u)) = Ok b -> len b < 1073741824) ->
    exists o' fr,
      log_and_commit cr cs (Some u) c w =
      (mkCore (c_keypair c) o'
              (mkTree (t_roots (c_tree c)) (t_length (c_tree c)) (t_byte_length (c_tree c)) (t_fork (c_tree c))
                      (t_signature (c_tree c)) (add_nodes (t_unflushed (c_tree c)) (cs_nodes cs)))
              (bf_apply (c_bitfield c) u)
              (set_contig (c_header c) (update_contig (hd_contig (c_header c)) (bf_apply (c_bitfield c) u) u))
              (c_skip c),
       mkWorld (d_set (w_disk w) Oplog (f_write (d_oplog (w_disk w)) (ENTRIES_OFFSET + ol_entries_bytes (c_oplog c)) fr))
               (SW Oplog (ENTRIES_OFFSET + ol_entries_bytes (c_oplog c)) fr :: w_journal w) (w_events w),
       Ok tt).
  Proof.
    intros Hup H32 Hcm Hfr.
    unfold log_and_commit. rewrite mbind_get_core, mbind_lift.
    unfold entry_of_changeset. rewrite Hup. rewrite mbind_lift.
    destruct (enc_entry_ok32 (mkEntry (cs_nodes cs) None (Some u)) H32) as [b Hb].
    destruct (oplog_append_ok (c_oplog c) _ b Hb (Hfr b Hb)) as (fr & OA). rewrite OA.
    assert (HT : tree_commit (c_tree c) cs =
                 Ok (mkTree (t_roots (c_tree c)) (t_length (c_tree c)) (t_byte_length (c_tree c)) (t_fork (c_tree c))
                       (t_signature (c_tree c)) (add_nodes (t_unflushed (c_tree c)) (cs_nodes cs)))).
    { unfold tree_commit. rewrite Hcm, Hup. reflexivity. }
    rewrite mbind_put_oplog. cbn [emit].
    unfold mbind at 1. cbn [emit apply_sop w_disk w_journal w_events d_get].
    unfold ret at 1. rewrite mbind_put_header.
    unfold mbind at 1. rewrite mbind_get_core. cbn [c_bitfield c_header].
    rewrite mbind_put_bitfield. cbn [c_keypair c_oplog c_tree c_header c_skip c_bitfield].
    unfold put_header at 1. cbn [c_keypair c_oplog c_tree c_header c_skip c_bitfield].
    rewrite mbind_get_core. cbn [c_tree]. rewrite mbind_lift, HT.
    unfold put_tree. cbn [c_keypair c_oplog c_tree c_header c_skip c_bitfield].
    do 2 eexists. reflexivity.
  Qed.

  Variable bs : list bytes.

  Lemma in_ref_roots' x n : In x (ref_roots cr bs n) -> x = ref_at cr bs (n_index x).
  Proof. unfold ref_roots. intros H. apply in_map_iff in H. destruct H as (i & <- & _). rewrite ref_at_index_id. reflexivity. Qed.

  (* ---------- the replica invariant ---------- *)

  (* a replica of length r of the writer's log bs: the writer's roots for r, every stored node is the
     writer's node, every held block is stored at its prefix offset and its byte range can be computed *)
  Definition RInv (c : core) (d : disk) (r : N) : Prop :=
    let t := c_tree c in let tf := d_tree d in
    t_length t = r /\ t_byte_length t = prefix_size bs r /\ t_roots t = ref_roots cr bs r /\
    (forall j n, optional_node t tf j = Ok (Some n) -> n = ref_at cr bs j) /\
    unflushed_ok t /\
    (forall x, In x (t_roots t) -> required_node t tf (n_index x) = Ok x) /\
    (forall j, bf_get (c_bitfield c) j = true ->
       j < r /\ required_node t tf (2 * j) = Ok (ref_node cr bs 0 j) /\ path_reads cr bs t tf r j /\
       f_read (d_data d) (prefix_size bs j) (len (blk bs j)) = Some (blk bs j)) /\
    sumN (map len bs) <= u64_max /\ 2 * r <= u64_max.

  Lemma r_le_63 r : 2 * r <= u64_max -> r <= 2 ^ 63.
  Proof. unfold u64_max. change (2 ^ 63) with 9223372036854775808. lia. Qed.

  (* reads of held blocks *)
  Theorem rget_correct c d jn ev r i :
    RInv c d r -> bf_get (c_bitfield c) i = true ->
    core_get i c (mkWorld d jn ev) = (c, mkWorld d jn ev, Ok (Some (blk bs i))).
  Proof.
    intros (HL & HB & HR & Hrep & Hun & Hrs & Hheld & Hfit & H64) Hb.
    destruct (Hheld i Hb) as (Hir & Hleaf & Hreads & Hdata).
    unfold core_get. rewrite mbind_get_core, Hb. cbn [negb].
    rewrite mbind_get_disk. cbn [w_disk]. rewrite mbind_lift.
    unfold byte_range, validate_hypercore_index.
    rewrite NoPanic.mul64_ok by lia. cbn [bind]. rewrite HL.
    destruct (N.leb_spec (2 * r) (2 * i)) as [L|_]; [lia|]. cbn [bind].
    rewrite Hleaf. cbn [bind].
    rewrite (byte_offset_sparse cr bs (c_tree c) (d_tree d) r i HR (r_le_63 r H64) Hir Hreads). cbn [bind].
    cbn [ref_node block_node n_length].
    destruct (N.eqb_spec (len (blk bs i)) 0) as [E|E].
    - apply len_zero_nil in E. rewrite E. reflexivity.
    - rewrite Hdata. reflexivity.
  Qed.

  (* ---------- lookups after a commit of reference nodes ---------- *)

  Lemma optional_node_add t t' tf l j :
    (forall x, In x l -> x = ref_at cr bs (n_index x)) ->
    t_unflushed t' = add_nodes (t_unflushed t) l ->
    ((exists x, In x l /\ n_index x = j) /\ optional_node t' tf j = Ok (Some (ref_at cr bs j))) \/
    ((forall x, In x l -> n_index x <> j) /\ optional_node t' tf j = optional_node t tf j).
  Proof.
    intros Hl Hu. destruct (add_nodes_get l (t_unflushed t) j) as [(n & Hin & Hi & Hg)|[Hno Hg]].
    - left. split; [exists n; split; assumption|].
      rewrite <- Hu in Hg. pose proof (Hl n Hin) as E. rewrite Hi in E. subst n.
      unfold optional_node, node_get. rewrite Hg, (ref_at_nonblank cr Hnonblank). reflexivity.
    - right. split; [exact Hno|]. unfold optional_node.
      apply node_get_unflushed_eq. rewrite Hu. exact Hg.
  Qed.

  Lemma required_ref_stays t t' tf l j n :
    (forall x, In x l -> x = ref_at cr bs (n_index x)) ->
    t_unflushed t' = add_nodes (t_unflushed t) l ->
    required_node t tf j = Ok n -> n = ref_at cr bs j -> required_node t' tf j = Ok n.
  Proof.
    intros Hl Hu Hr ->. destruct (required_node_add cr Hnonblank bs t t' tf l j Hl Hu) as [[_ E]|[_ E]].
    - exact E.
    - rewrite E. exact Hr.
  Qed.

  Lemma path_vis_in n : forall d a e, (e < n)%nat ->
    In (ref_node cr bs (d + e) (sibo (a / p2 e))) (path_vis cr bs n d a).
  Proof.
    induction n as [|n IH]; intros d a e He; [lia|]. cbn [path_vis].
    destruct e as [|e].
    - rewrite p2_0, N.div_1_r, Nat.add_0_r. left. reflexivity.
    - right. right. replace (d + S e)%nat with (S d + e)%nat by lia.
      replace (a / p2 (S e)) with (a / 2 / p2 e)
        by (rewrite p2_S, N.div_div; [reflexivity|lia|pose proof (p2_pos e); lia]).
      apply IH. lia.
  Qed.

  Lemma prefix_size_mono a b : a <= b -> prefix_size bs a <= prefix_size bs b.
  Proof.
    intros H. replace b with (a + (b - a)) by lia. generalize (b - a). clear H b.
    intros n. induction n as [|n IH] using N.peano_ind.
    - rewrite N.add_0_r. lia.
    - replace (a + N.succ n) with (a + n + 1) by lia. rewrite prefix_size_succ. lia.
  Qed.

  (* ---------- applying a block-only proof ---------- *)

  Definition block_proof (fork i : N) (k : nat) : proof :=
    mkProof fork (Some (mkDataBlock i (blk bs i) (path_nodes cr bs k i))) None None None.

  Definition block_cs (rt : mtree) (i : N) (k : nat) : changeset :=
    cs_push_nodes (tree_changeset rt) (ref_node cr bs 0 i :: path_vis cr bs k 0 i).

  Lemma verify_block_proof_ref rt rtf i k o pk fork :
    sumN (map len bs) <= u64_max ->
    (k < CLIMB)%nat -> o * p2 k <= i -> i < (o + 1) * p2 k -> i * 2 <= u64_max ->
    required_node rt rtf (ft_index (N.of_nat k) o) = Ok (ref_node cr bs k o) ->
    verify_proof cr rt rtf (block_proof fork i k) pk = Ok (block_cs rt i k).
  Proof.
    intros Hfit Hk H1 H2 Hi Hst. unfold verify_proof, block_proof. cbn [p_block p_hash p_seek p_upgrade p_fork].
    rewrite (verify_tree_vis cr bs Hfit i k o _ Hk H1 H2 Hi). cbn [bind].
    rewrite ref_node_index, Hst. cbn [bind].
    assert (B : bytes_eqb (n_hash (ref_node cr bs k o)) (n_hash (ref_node cr bs k o)) = true)
      by (apply bytes_eqb_eq; reflexivity).
    rewrite B. reflexivity.
  Qed.

  Lemma block_cs_nodes rt i k : cs_nodes (block_cs rt i k) = ref_node cr bs 0 i :: path_vis cr bs k 0 i.
  Proof. apply cs_nodes_push_fresh. Qed.

  Lemma block_cs_nodes_ref rt i k x : In x (cs_nodes (block_cs rt i k)) -> x = ref_at cr bs (n_index x).
  Proof.
    rewrite block_cs_nodes. intros [<-|Hx]; [apply ref_node_is_ref|].
    pose proof (path_vis_ref cr bs k 0 i) as F. rewrite Forall_forall in F. apply F, Hx.
  Qed.

  (* dyadic intervals around the same leaf are nested *)
  Lemma dyadic_nest (k e : nat) (o o' i : N) :
    o * p2 k <= i -> i < (o + 1) * p2 k -> o' * p2 (k + e) <= i -> i < (o' + 1) * p2 (k + e) ->
    o' * p2 e <= o /\ o + 1 <= (o' + 1) * p2 e.
  Proof.
    intros H1 H2 H3 H4. rewrite p2_add in H3, H4. pose proof (p2_pos k) as Hk. pose proof (p2_pos e) as He.
    split.
    - assert (o' * p2 e * p2 k < (o + 1) * p2 k) by lia.
      apply N.mul_lt_mono_pos_r in H; lia.
    - assert (o * p2 k < (o' + 1) * p2 e * p2 k) by lia.
      apply N.mul_lt_mono_pos_r in H; lia.
  Qed.

  Theorem apply_block_proof c d jn ev r i k o :
    RInv c d r -> i < r -> (k < CLIMB)%nat ->
    o * p2 k <= i -> i < (o + 1) * p2 k -> (o + 1) * p2 k <= r ->
    (* the node count k ends on a node the replica stores, and the replica can locate it *)
    (exists n0, optional_node (c_tree c) (d_tree d) (ft_index (N.of_nat k) o) = Ok (Some n0)) ->
    path_reads cr bs (c_tree c) (d_tree d) r (o * p2 k) ->
    (* 2^30 frame limit of the oplog entry *)
    (forall b, enc_entry (mkEntry (ref_node cr bs 0 i :: path_vis cr bs k 0 i) None
                            (Some (mkBfUpdate false i 1))) = Ok b -> len b < 1073741824) ->
    exists c' d' jn',
      core_apply_proof cr (Some false) (block_proof (t_fork (c_tree c)) i k) c (mkWorld d jn ev)
        = (c', mkWorld d' jn' (EvHave i 1 false :: ev), Ok true) /\
      RInv c' d' r /\ core_has c' i = true /\
      d_data d' = f_write (d_data d) (prefix_size bs i) (blk bs i) /\
      f_read (d_data d') (prefix_size bs i) (len (blk bs i)) = Some (blk bs i) /\
      (forall jn2 ev2, core_get i c' (mkWorld d' jn2 ev2) = (c', mkWorld d' jn2 ev2, Ok (Some (blk bs i)))) /\
      (forall j, core_has c j = true -> core_has c' j = true).
  Proof.
    intros W Hir Hk H1 H2 H3 (n0 & Hn0) Htop Hframe.
    pose proof W as (HL & HB & HR & Hrep & Hun & Hrs & Hheld & Hfit & H64).
    set (t := c_tree c) in *. set (tf := d_tree d) in *.
    assert (En0 : n0 = ref_node cr bs k o).
    { rewrite (Hrep _ _ Hn0). apply ref_at_index. }
    subst n0. pose proof (optional_required _ _ _ _ Hn0) as Hst.
    unfold u64_max in H64.
    assert (Hi2 : i * 2 <= u64_max) by (unfold u64_max; lia).
    set (cs := block_cs t i k).
    pose proof (verify_block_proof_ref t tf i k o (kp_public (c_keypair c)) (t_fork t) Hfit Hk H1 H2 Hi2 Hst) as Hv.
    fold cs in Hv.
    assert (Hcm : commitable t cs = true).
    { unfold commitable, cs, block_cs. cbn [cs_push_nodes tree_changeset cs_orig_fork cs_upgraded cs_orig_length].
      rewrite N.eqb_refl. cbn [andb]. apply N.leb_le. lia. }
    assert (Hoffc : byte_offset_in_changeset t tf i cs = Ok (prefix_size bs i)).
    { apply (block_offset_in_changeset cr bs Hfit t tf r i k o HR HL Hir Hi2 H1 H2).
      - intros _. apply (byte_offset_node cr bs t tf r k o HR (r_le_63 r ltac:(unfold u64_max; lia)) H3 Htop).
      - apply block_cs_nodes.
      - reflexivity. }
    assert (Hn32 : forall x, In x (cs_nodes cs) -> length (n_hash x) = 32%nat).
    { intros x Hx. rewrite (block_cs_nodes_ref t i k x Hx). apply (ref_at_hash_length cr Hhash32). }
    set (d1 := d_set d Data (f_write (d_data d) (prefix_size bs i) (blk bs i))).
    destruct (log_and_commit_block cs (mkBfUpdate false i 1) c
                (mkWorld d1 (SW Data (prefix_size bs i) (blk bs i) :: jn) ev))
      as (o' & fr & Hlc); [reflexivity|exact Hn32|exact Hcm| |].
    { unfold cs. rewrite block_cs_nodes. exact Hframe. }
    (* run the operation *)
    eexists _, _, _. split.
    { unfold core_apply_proof, block_proof. rewrite mbind_get_core. cbn [p_fork p_block p_upgrade].
      fold t. rewrite N.eqb_refl. cbn [negb]. rewrite mbind_get_disk. cbn [w_disk]. fold tf.
      rewrite mbind_lift. fold (block_proof (t_fork t) i k). rewrite Hv. rewrite Hcm. cbn [negb].
      rewrite mbind_assoc, mbind_lift. cbn [db_index db_value]. rewrite Hoffc.
      rewrite mbind_assoc, mbind_emit_SW. cbn [w_disk w_journal w_events d_get]. fold d1.
      rewrite mbind_ret. unfold mbind at 1. rewrite Hlc.
      unfold mbind at 1. unfold maybe_flush at 1. rewrite mbind_get_core.
      unfold put_skip. unfold mbind at 1. unfold ret at 1.
      rewrite mbind_send. cbn [bu_start bu_length w_disk w_journal w_events]. reflexivity. }
    (* the new state *)
    set (t' := mkTree (t_roots t) (t_length t) (t_byte_length t) (t_fork t) (t_signature t)
                      (add_nodes (t_unflushed t) (cs_nodes cs))).
    assert (Hu' : t_unflushed t' = add_nodes (t_unflushed t) (cs_nodes cs)) by reflexivity.
    assert (Hl : forall x, In x (cs_nodes cs) -> x = ref_at cr bs (n_index x)) by (apply block_cs_nodes_ref).
    assert (Hbf : forall j, bf_get (bf_apply (c_bitfield c) (mkBfUpdate false i 1)) j
                            = if j =? i then true else bf_get (c_bitfield c) j).
    { intros j. rewrite bf_get_apply. cbn [bu_start bu_length bu_drop negb].
      destruct (N.eqb_spec j i) as [->|Ne].
      - destruct (N.leb_spec i i); [|lia]. destruct (N.ltb_spec i (i + 1)); [reflexivity|lia].
      - destruct (N.leb_spec i j); [|reflexivity]. destruct (N.ltb_spec j (i + 1)); [lia|reflexivity]. }
    (* reads that stay *)
    assert (Hstay : forall j n, required_node t tf j = Ok n -> n = ref_at cr bs j -> required_node t' tf j = Ok n).
    { intros j n. apply (required_ref_stays t t' tf (cs_nodes cs) j n Hl Hu'). }
    assert (Hreads_stay : forall j, path_reads cr bs t tf r j -> path_reads cr bs t' tf r j).
    { intros j Hp dd oo A1 A2 A3 A4. apply Hstay; [apply Hp; assumption|]. symmetry. apply ref_at_index. }
    (* the new block's reads *)
    assert (Hreads_i : path_reads cr bs t' tf r i).
    { intros dd oo A1 A2 A3 A4.
      destruct (Nat.lt_ge_cases dd k) as [Lk|Lk].
      - (* below the top: the sibling sent in the proof *)
        assert (Ea : i / p2 dd = 2 * oo + 1).
        { pose proof (p2_pos dd). rewrite p2_S in A1, A2. symmetry.
          apply N.div_unique with (r := i - (2 * oo + 1) * p2 dd); lia. }
        pose proof (path_vis_in k 0 i dd Lk) as Hin. rewrite Ea in Hin. cbn [Nat.add] in Hin.
        assert (Es : sibo (2 * oo + 1) = 2 * oo).
        { unfold sibo. replace (N.even (2 * oo + 1)) with false by (rewrite FlatTreeFacts.even_mod; lia). lia. }
        rewrite Es in Hin.
        destruct (required_node_add cr Hnonblank bs t t' tf (cs_nodes cs) (ft_index (N.of_nat dd) (2 * oo)) Hl Hu')
          as [[_ E]|[Hno _]].
        + rewrite E, ref_at_index. reflexivity.
        + exfalso. apply (Hno (ref_node cr bs dd (2 * oo))).
          * unfold cs. rewrite block_cs_nodes. right. exact Hin.
          * apply ref_node_index.
      - (* above the top: the replica's own nodes *)
        apply Hstay; [|symmetry; apply ref_at_index].
        replace (S dd) with (k + (S dd - k))%nat in A1, A2, A4 by lia.
        destruct (dyadic_nest k (S dd - k) o oo i H1 H2 A1 A2) as [N1 N2].
        replace dd with (k + (dd - k))%nat in A3 by lia. rewrite p2_add in A3.
        pose proof (p2_pos k) as Hpk. pose proof (p2_pos (dd - k)) as Hpe.
        assert (N3 : (2 * oo + 1) * p2 (dd - k) <= o).
        { assert ((2 * oo + 1) * p2 (dd - k) * p2 k < (o + 1) * p2 k) by lia.
          apply N.mul_lt_mono_pos_r in H; lia. }
        replace (k + (S dd - k))%nat with (S dd) in * by lia.
        assert (Ep : p2 (S dd) = p2 (S dd - k) * p2 k) by (rewrite <- p2_add; f_equal; lia).
        apply Htop.
        + rewrite Ep. apply (N.mul_le_mono_r _ _ (p2 k)) in N1. lia.
        + rewrite Ep. assert (o < (oo + 1) * p2 (S dd - k)) by lia.
          apply (N.mul_lt_mono_pos_r (p2 k)) in H; lia.
        + replace dd with (k + (dd - k))%nat at 1 by lia. rewrite p2_add.
          apply (N.mul_le_mono_r _ _ (p2 k)) in N3. lia.
        + exact A4. }
    match goal with |- RInv ?cc ?dd r /\ _ => assert (W' : RInv cc dd r) end.
    { (* RInv *)
      unfold RInv. cbn [c_tree c_bitfield]. fold t. fold t'. cbn [d1 d_set d_tree d_data]. fold tf.
      change (t_length t') with (t_length t). change (t_byte_length t') with (t_byte_length t).
      change (t_roots t') with (t_roots t).
      split; [exact HL|]. split; [exact HB|]. split; [exact HR|]. split.
      { intros j n Hj. destruct (optional_node_add t t' tf (cs_nodes cs) j Hl Hu') as [[_ E]|[_ E]];
          rewrite E in Hj.
        - injection Hj as <-. reflexivity.
        - apply (Hrep _ _ Hj). }
      split; [apply (commit_unflushed_ok cr Hhash32 bs t t' (cs_nodes cs) Hfit Hl Hu' Hun)|].
      split.
      { intros x Hx. apply Hstay; [apply Hrs, Hx|]. rewrite HR in Hx. apply in_ref_roots' in Hx. exact Hx. }
      split; [|split; [exact Hfit|unfold u64_max; lia]].
      intros j Hj. rewrite Hbf in Hj. destruct (N.eqb_spec j i) as [Ej|Ne].
      - rewrite Ej. split; [exact Hir|]. split.
        { destruct (required_node_add cr Hnonblank bs t t' tf (cs_nodes cs) (2 * i) Hl Hu') as [[_ E]|[Hno _]].
          - rewrite E. change (2 * i) with (2 * i). rewrite <- (ft_index_leaf i). change 0 with (N.of_nat 0).
            rewrite ref_at_index. reflexivity.
          - exfalso. apply (Hno (ref_node cr bs 0 i)).
            + unfold cs. rewrite block_cs_nodes. left. reflexivity.
            + rewrite ref_node_index. change (N.of_nat 0) with 0. apply ft_index_leaf. }
        split; [exact Hreads_i|]. apply f_read_write_same.
      - destruct (Hheld j Hj) as (Hjr & Hleaf & Hreads & Hdata).
        split; [exact Hjr|]. split.
        { apply Hstay; [exact Hleaf|]. rewrite <- (ft_index_leaf j). change 0 with (N.of_nat 0).
          rewrite ref_at_index. reflexivity. }
        split; [apply Hreads_stay, Hreads|].
        rewrite f_read_write_other; [exact Hdata| |].
        + unfold f_read in Hdata. destruct (N.leb_spec (prefix_size bs j + len (blk bs j)) (f_len (d_data d))); [lia|discriminate].
        + pose proof (prefix_size_succ bs j) as S1. pose proof (prefix_size_succ bs i) as S2.
          destruct (N.lt_ge_cases j i) as [Lt|Ge].
          * left. pose proof (prefix_size_mono (j + 1) i ltac:(lia)). lia.
          * right. pose proof (prefix_size_mono (i + 1) j ltac:(lia)). lia. }
    assert (Hhas : bf_get (bf_apply (c_bitfield c) (mkBfUpdate false i 1)) i = true).
    { rewrite Hbf, N.eqb_refl. reflexivity. }
    split; [exact W'|]. split; [exact Hhas|]. split; [reflexivity|]. split; [apply f_read_write_same|]. split.
    - intros jn2 ev2. apply (rget_correct _ _ jn2 ev2 r i W' Hhas).
    - intros j Hj. unfold core_has in *. cbn [c_bitfield]. rewrite Hbf. destruct (j =? i); [reflexivity|exact Hj].
  Qed.
End ApplyBlock.

(* ====================================================================================== *)
(* E4: core_apply_proof on an upgrade-only proof keeps the replica invariant                 *)
(* ====================================================================================== *)

Lemma roots_from_bound g : forall X u x,
  pref X u -> u - X < p2 g -> In x (roots_from g X u) ->
  X <= snd x * p2 (fst x) /\ (snd x + 1) * p2 (fst x) <= u /\ u < (snd x + 2) * p2 (fst x).
Proof.
  induction g as [|g IH]; intros X u x HP Hg Hx; cbn [roots_from] in Hx; [destruct Hx|].
  destruct (N.leb_spec u X) as [L|L]; [destruct Hx|].
  destruct (pref_step X u HP L) as (m & EX & H1 & H2 & HP' & Ed). cbv zeta in *.
  pose proof EX as EX2. pose proof H2 as H22. rewrite p2_S in EX2, H22.
  set (k := log2n (u - X)) in *. pose proof (p2_pos k) as Hpk.
  assert (Hk : p2 k <= p2 g).
  { apply p2_le_mono. assert (k < S g)%nat by (apply p2_lt_mono; lia). lia. }
  destruct Hx as [<-|Hx].
  - cbn [fst snd]. rewrite Ed. lia.
  - destruct (IH (X + p2 k) u x HP' ltac:(lia) Hx) as (A & B & C). lia.
Qed.

(* a full left subtree below r whose parent does not fit below r is a root of r *)
Lemma left_child_is_root r d o :
  (2 * o + 1) * p2 d <= r -> r < (o + 1) * p2 (S d) -> In (d, 2 * o) (rrl 0 r).
Proof.
  intros H1 H2. pose proof (p2_pos d) as Hpd. rewrite p2_S in H2.
  assert (Hr64 : r < p2 (N.size_nat r)) by (unfold p2; apply size_nat_spec).
  pose proof (tiles_rrl r 0) as T. rewrite p2_0, N.mul_1_r in T.
  destruct (tiles_split _ _ _ (2 * o * p2 d) T ltac:(lia) ltac:(lia)) as (pre & [dx ox] & post & E & _ & A1 & A2 & A3).
  cbn [fst snd] in *.
  assert (Hin : In (dx, ox) (rev (rrl 0 r))) by (rewrite E; apply in_or_app; right; left; reflexivity).
  pose proof Hin as Hin'. rewrite (roots_from_0 _ r Hr64) in Hin'.
  destruct (roots_from_bound (N.size_nat r) 0 r (dx, ox) (pref_0 r) ltac:(lia) Hin') as (_ & B1 & B2). cbn [fst snd] in B1, B2.
  pose proof (p2_pos dx) as Hpx.
  destruct (lt_eq_lt_dec dx d) as [[Lt|Eq]|Gt].
  - (* a smaller root at the start of (d, 2o): the rest of r is shorter than it *)
    exfalso.
    assert (Ed : p2 d = p2 (d - dx) * p2 dx) by (rewrite <- p2_add; f_equal; lia).
    pose proof (p2_pos (d - dx)) as Hpe.
    assert (Hge2 : 2 <= p2 (d - dx)).
    { replace (d - dx)%nat with (S (d - dx - 1)) by lia. rewrite p2_S. pose proof (p2_pos (d - dx - 1)). lia. }
    (* the start of the root is the start of (d, 2o) *)
    assert (Hs : ox = 2 * o * p2 (d - dx)).
    { rewrite Ed in A1, A2.
      assert (ox * p2 dx <= 2 * o * p2 (d - dx) * p2 dx) by lia.
      assert (2 * o * p2 (d - dx) * p2 dx < (ox + 1) * p2 dx) by lia.
      apply N.mul_le_mono_pos_r in H; [|lia]. apply N.mul_lt_mono_pos_r in H0; [|lia]. lia. }
    rewrite Hs in B2. rewrite Ed in H1. nia.
  - subst dx. apply in_rev in Hin.
    assert (ox = 2 * o).
    { assert (ox * p2 d <= 2 * o * p2 d) by lia. assert (2 * o * p2 d < (ox + 1) * p2 d) by lia.
      apply N.mul_le_mono_pos_r in H; [|lia]. apply N.mul_lt_mono_pos_r in H0; [|lia]. lia. }
    subst ox. exact Hin.
  - (* a bigger root would contain the parent, which does not fit *)
    exfalso.
    assert (Ed : p2 dx = p2 (dx - S d) * (2 * p2 d)) by (rewrite <- p2_S, <- p2_add; f_equal; lia).
    pose proof (p2_pos (dx - S d)) as Hpe. set (e := p2 (dx - S d)) in *.
    rewrite Ed in A1, A2, A3.
    assert (ox * e <= o).
    { assert (ox * e * (2 * p2 d) < (o + 1) * (2 * p2 d)) by lia.
      apply N.mul_lt_mono_pos_r in H; lia. }
    assert (o + 1 <= (ox + 1) * e).
    { assert (o * (2 * p2 d) < (ox + 1) * e * (2 * p2 d)) by lia.
      apply N.mul_lt_mono_pos_r in H0; lia. }
    assert ((o + 1) * (2 * p2 d) <= (ox + 1) * e * (2 * p2 d)) by (apply N.mul_le_mono_r; exact H0).
    lia.
Qed.

Section ApplyUpgrade.
  Variable cr : crypto.
  Hypothesis Hhash32 : forall x, length (cr_hash cr x) = 32%nat.
  Hypothesis Hnonblank : forall x, all_zero (cr_hash cr x) = false.
  Variable bs : list bytes.

  (* the reads needed for block j stay available when the tree grows from r to w: the new turns to the
     right are above the root of r that holds j, and their left children are roots of r *)
  Lemma path_reads_extend t tf r w j :
    j < r -> r <= w ->
    (forall x, In x (ref_roots cr bs r) -> required_node t tf (n_index x) = Ok x) ->
    path_reads cr bs t tf r j -> path_reads cr bs t tf w j.
  Proof.
    intros Hjr Hrw Hrs Hp d o A1 A2 A3 A4.
    destruct (N.le_gt_cases ((o + 1) * p2 (S d)) r) as [Le|Gt].
    - apply Hp; assumption.
    - assert (Hin : In (d, 2 * o) (rrl 0 r)).
      { apply left_child_is_root; [|exact Gt]. lia. }
      assert (Hx : In (ref_node cr bs d (2 * o)) (ref_roots cr bs r)).
      { rewrite ref_roots_rrl. apply in_map_iff. exists (d, 2 * o). split; [reflexivity|].
        rewrite <- in_rev. exact Hin. }
      pose proof (Hrs _ Hx) as Hr. rewrite ref_node_index in Hr. exact Hr.
  Qed.

  (* log_and_commit for the changeset of an upgrade without a block *)
  Lemma log_and_commit_upgrade (cs : changeset) (c : core) (w : world) (hash sg : bytes) :
    cs_upgraded cs = true -> cs_hash cs = Some hash -> cs_signature cs = Some sg ->
    (forall x, In x (cs_nodes cs) -> length (n_hash x) = 32%nat) ->
    commitable (c_tree c) cs = true -> cs_orig_length cs <= cs_ancestors cs ->
    (forall b, enc_entry (mkEntry (cs_nodes cs)
                            (Some (mkTreeUpgrade (cs_fork cs) (cs_ancestors cs) (cs_length cs) sg)) None) = Ok b ->
               len b < 1073741824) ->
    exists o' fr,
      log_and_commit cr cs None c w =
      (mkCore (c_keypair c) o'
              (mkTree (cs_roots cs) (cs_length cs) (cs_byte_length cs) (cs_fork cs) (cs_signature cs)
                      (add_nodes (t_unflushed (c_tree c)) (cs_nodes cs)))
              (c_bitfield c)
              (set_tree (c_header c) (mkHeaderTree (ht_fork (hd_tree (c_header c))) (cs_length cs) hash sg))
              (c_skip c),
       mkWorld (d_set (w_disk w) Oplog (f_write (d_oplog (w_disk w)) (ENTRIES_OFFSET + ol_entries_bytes (c_oplog c)) fr))
               (SW Oplog (ENTRIES_OFFSET + ol_entries_bytes (c_oplog c)) fr :: w_journal w) (w_events w),
       Ok tt).
  Proof.
    intros Hup Hh Hs H32 Hcm Han Hfr.
    unfold log_and_commit. rewrite mbind_get_core, mbind_lift.
    unfold entry_of_changeset. rewrite Hup, Hh, Hs. rewrite mbind_lift.
    match goal with |- context [oplog_append cr ?o ?e] =>
      destruct (enc_entry_ok32 e H32) as [b Hb];
      destruct (oplog_append_ok cr Hhash32 Hnonblank o e b Hb (Hfr b Hb)) as (fr & OA) end.
    rewrite OA.
    assert (HT : tree_commit (c_tree c) cs =
                 Ok (mkTree (cs_roots cs) (cs_length cs) (cs_byte_length cs) (cs_fork cs) (cs_signature cs)
                       (add_nodes (t_unflushed (c_tree c)) (cs_nodes cs)))).
    { unfold tree_commit. rewrite Hcm, Hup. cbn [negb].
      destruct (N.ltb_spec (cs_ancestors cs) (cs_orig_length cs)) as [L|_]; [lia|reflexivity]. }
    rewrite Hs in HT.
    rewrite mbind_put_oplog. cbn [emit].
    unfold mbind at 1. cbn [emit apply_sop w_disk w_journal w_events d_get].
    unfold ret at 1. rewrite mbind_put_header.
    unfold mbind at 1. unfold ret at 1.
    rewrite mbind_get_core. cbn [c_tree]. rewrite mbind_lift, HT.
    unfold put_tree. cbn [c_keypair c_oplog c_tree c_header c_skip c_bitfield].
    do 2 eexists. reflexivity.
  Qed.

  (* Applying an accepted upgrade-only proof: the replica (of length r, possibly 0) becomes a replica of
     length w.  The changeset is described by what the acceptance theorems give. *)
  Theorem apply_upgrade_proof c d jn ev r w up cs hash sg :
    RInv cr bs c d r -> r <= w -> 2 * w <= u64_max ->
    verify_proof cr (c_tree c) (d_tree d) (mkProof (t_fork (c_tree c)) None None None (Some up))
                 (kp_public (c_keypair c)) = Ok cs ->
    cs_roots cs = ref_roots cr bs w -> cs_length cs = w -> cs_byte_length cs = prefix_size bs w ->
    cs_upgraded cs = true -> cs_hash cs = Some hash -> cs_signature cs = Some sg ->
    cs_ancestors cs = r -> Forall (is_ref cr bs) (cs_nodes cs) -> commitable (c_tree c) cs = true ->
    (forall b, enc_entry (mkEntry (cs_nodes cs)
                            (Some (mkTreeUpgrade (cs_fork cs) (cs_ancestors cs) (cs_length cs) sg)) None) = Ok b ->
               len b < 1073741824) ->
    exists c' d' jn',
      core_apply_proof cr (Some false) (mkProof (t_fork (c_tree c)) None None None (Some up)) c (mkWorld d jn ev)
        = (c', mkWorld d' jn' (EvUpgrade :: ev), Ok true) /\
      RInv cr bs c' d' w /\ d_data d' = d_data d /\ c_bitfield c' = c_bitfield c /\
      t_length (c_tree c') = w.
  Proof.
    intros W Hrw H64 Hv HR' HL' HB' Hup Hh Hs Han Hn Hcm Hframe.
    pose proof W as (HL & HB & HR & Hrep & Hun & Hrs & Hheld & Hfit & H64r).
    set (t := c_tree c) in *. set (tf := d_tree d) in *.
    assert (Hl : forall x, In x (cs_nodes cs) -> x = ref_at cr bs (n_index x)).
    { rewrite Forall_forall in Hn. exact Hn. }
    assert (Hn32 : forall x, In x (cs_nodes cs) -> length (n_hash x) = 32%nat).
    { intros x Hx. rewrite (Hl x Hx). apply (ref_at_hash_length cr Hhash32). }
    assert (Hol : cs_orig_length cs <= cs_ancestors cs).
    { unfold commitable in Hcm. rewrite Hup in Hcm. apply andb_true_iff in Hcm. destruct Hcm as [_ Hcm].
      apply N.eqb_eq in Hcm. fold t in Hcm. lia. }
    destruct (log_and_commit_upgrade cs c (mkWorld d jn ev) hash sg Hup Hh Hs Hn32 Hcm Hol Hframe) as (o' & fr & Hlc).
    eexists _, _, _. split.
    { unfold core_apply_proof. rewrite mbind_get_core. cbn [p_fork p_block p_upgrade].
      fold t. rewrite N.eqb_refl. cbn [negb]. rewrite mbind_get_disk. cbn [w_disk]. fold tf.
      rewrite mbind_lift, Hv. rewrite Hcm. cbn [negb].
      rewrite mbind_ret. unfold mbind at 1. rewrite Hlc.
      unfold mbind at 1. unfold maybe_flush at 1. rewrite mbind_get_core.
      unfold put_skip, send, ret, mbind. cbn [w_disk w_journal w_events]. reflexivity. }
    set (t' := mkTree (cs_roots cs) (cs_length cs) (cs_byte_length cs) (cs_fork cs) (cs_signature cs)
                      (add_nodes (t_unflushed t) (cs_nodes cs))).
    assert (Hu' : t_unflushed t' = add_nodes (t_unflushed t) (cs_nodes cs)) by reflexivity.
    assert (Hstay : forall j n, required_node t tf j = Ok n -> n = ref_at cr bs j -> required_node t' tf j = Ok n).
    { intros j n. apply (required_ref_stays cr Hnonblank bs t t' tf (cs_nodes cs) j n Hl Hu'). }
    split; [|split; [reflexivity|split; [reflexivity|exact HL']]].
    unfold RInv. cbn [c_tree c_bitfield d_set d_tree d_data]. fold t. fold t'. fold tf.
    change (t_length t') with (cs_length cs). change (t_byte_length t') with (cs_byte_length cs).
    change (t_roots t') with (cs_roots cs).
    split; [exact HL'|]. split; [exact HB'|]. split; [exact HR'|]. split.
    { intros j n Hj. destruct (optional_node_add cr Hnonblank bs t t' tf (cs_nodes cs) j Hl Hu') as [[_ E]|[_ E]];
        rewrite E in Hj.
      - injection Hj as <-. reflexivity.
      - apply (Hrep _ _ Hj). }
    split; [apply (commit_unflushed_ok cr Hhash32 bs t t' (cs_nodes cs) Hfit Hl Hu' Hun)|].
    split.
    { (* the new roots are stored *)
      intros x Hx. destruct (verify_proof_roots_cover cr t tf _ _ cs Hv x Hx) as [Hold|Hnew].
      - apply Hstay; [apply Hrs, Hold|]. rewrite HR in Hold. apply (in_ref_roots' cr bs) in Hold. exact Hold.
      - destruct (required_node_add cr Hnonblank bs t t' tf (cs_nodes cs) (n_index x) Hl Hu') as [[_ E]|[Hno _]].
        + rewrite E. f_equal. symmetry. apply Hl, Hnew.
        + exfalso. apply (Hno x Hnew). reflexivity. }
    split; [|split; [exact Hfit|exact H64]].
    intros j Hj. destruct (Hheld j Hj) as (Hjr & Hleaf & Hreads & Hdata).
    split; [lia|]. split.
    { apply Hstay; [exact Hleaf|]. rewrite <- (ft_index_leaf j). change 0 with (N.of_nat 0).
      rewrite ref_at_index. reflexivity. }
    split; [|exact Hdata].
    assert (Hext : path_reads cr bs t tf w j).
    { apply (path_reads_extend t tf r w j Hjr Hrw); [|exact Hreads]. intros x Hx. rewrite <- HR in Hx. apply Hrs, Hx. }
    intros dd oo A1 A2 A3 A4. apply Hstay; [apply Hext; assumption|]. symmetry. apply ref_at_index.
  Qed.
End ApplyUpgrade.

(* ====================================================================================== *)
(* E on a toy instance: a writer core with five blocks, a read-only replica core synced by an *)
(* upgrade-only proof; the invariant holds and the block request for block 2 is applied       *)
(* ====================================================================================== *)

Definition toyE_hash (x : bytes) : bytes := 7 :: firstn 31 (x ++ repeat 0 31).
Definition toyE_sign (k m : bytes) : bytes := firstn 64 (k ++ m ++ repeat 1 64).
Definition toyE_cr : crypto :=
  mkCrypto toyE_hash (fun _ => 0) toyE_sign (fun pk m s => bytes_eqb s (toyE_sign pk m)).

Lemma toyE_hash32 : forall x, length (cr_hash toyE_cr x) = 32%nat.
Proof.
  intros x. cbn [cr_hash toyE_cr]. unfold toyE_hash. cbn [length]. rewrite firstn_length, app_length, repeat_length. lia.
Qed.

Lemma toyE_nonblank : forall x, all_zero (cr_hash toyE_cr x) = false.
Proof. intros x. reflexivity. Qed.

Definition eKey : bytes := repeat 5 32.
Definition eOpen (kp : keypair) : option (core * world) :=
  match core_open toyE_cr (Some kp) false disk_empty with
  | (d, _, Ok c0) => Some (c0, mkWorld d [] [])
  | _ => None
  end.
Definition eRun {A} (s : option (core * world)) (k : M A) : option (core * world) * option (res A) :=
  match s with
  | Some (c, w) => match k c w with (c', w', r) => (Some (c', w'), Some r) end
  | None => (None, None)
  end.
Definition eW := fst (eRun (eOpen (mkKeypair eKey (Some eKey))) (core_append toyE_cr (Some true) ex_blocks)).
Definition eR1 :=
  match snd (eRun eW (core_create_proof None None None (Some (mkReqUpgrade 0 5)))) with
  | Some (Ok (Some pf)) => fst (eRun (eOpen (mkKeypair eKey None)) (core_apply_proof toyE_cr (Some false) pf))
  | _ => None
  end.
Definition eC1 : core := match eR1 with Some (c, _) => c | None => mkCore (mkKeypair [] None) (mkOplog (false, false) 0 0) empty_tree bf_empty (mkHeader [] [] [] (mkKeypair [] None) (mkHeaderTree 0 0 [] []) 0) 0 end.
Definition eD1 : disk := match eR1 with Some (_, w) => w_disk w | None => disk_empty end.

Example eR1_synced :
  t_length (c_tree eC1) = 5 /\ map n_index (t_roots (c_tree eC1)) = [3; 8] /\
  d_tree eD1 = file_empty /\ kp_secret (c_keypair eC1) = None.
Proof. vm_compute. repeat split. Qed.

Lemma eC1_found j n :
  optional_node (c_tree eC1) (d_tree eD1) j = Ok (Some n) -> n = ref_at toyE_cr ex_blocks j.
Proof.
  assert (E : d_tree eD1 = file_empty) by (vm_compute; reflexivity). rewrite E.
  intros H. apply optional_node_empty_file, nm_get_elements in H.
  assert (C : forallb (fun kv => let r := ref_at toyE_cr ex_blocks (fst kv) in
                                 (n_index (snd kv) =? n_index r) && (n_length (snd kv) =? n_length r) &&
                                 bytes_eqb (n_hash (snd kv)) (n_hash r))
                      (nm_elements (t_unflushed (c_tree eC1))) = true) by (vm_compute; reflexivity).
  rewrite forallb_forall in C. apply C in H. cbn [fst snd] in H. cbv zeta in H.
  apply andb_true_iff in H. destruct H as [H H3]. apply andb_true_iff in H. destruct H as [H1 H2].
  apply N.eqb_eq in H1, H2. apply bytes_eqb_eq in H3.
  destruct n as [a b h], (ref_at toyE_cr ex_blocks j) as [a' b' h']. cbn in *. congruence.
Qed.

Lemma eC1_unflushed_ok : unflushed_ok (c_tree eC1).
Proof.
  intros i n H. apply nm_get_elements in H.
  assert (C : forallb (fun kv => (n_index (snd kv) =? fst kv) && Nat.eqb (length (n_hash (snd kv))) 32 &&
                                 (n_length (snd kv) <=? u64_max))
                      (nm_elements (t_unflushed (c_tree eC1))) = true) by (vm_compute; reflexivity).
  rewrite forallb_forall in C. apply C in H. cbn [fst snd] in H.
  apply andb_true_iff in H. destruct H as [H H3]. apply andb_true_iff in H. destruct H as [H1 H2].
  apply N.eqb_eq in H1. apply Nat.eqb_eq in H2. apply N.leb_le in H3. auto.
Qed.

Example eC1_RInv : RInv toyE_cr ex_blocks eC1 eD1 5.
Proof.
  unfold RInv. split; [vm_compute; reflexivity|]. split; [vm_compute; reflexivity|].
  split; [vm_compute; reflexivity|]. split; [exact eC1_found|]. split; [exact eC1_unflushed_ok|].
  split.
  { assert (C : forallb (fun x => match required_node (c_tree eC1) (d_tree eD1) (n_index x) with
                                  | Ok n => (n_index n =? n_index x) && (n_length n =? n_length x) &&
                                            bytes_eqb (n_hash n) (n_hash x)
                                  | _ => false end) (t_roots (c_tree eC1)) = true) by (vm_compute; reflexivity).
    rewrite forallb_forall in C. intros x Hx. apply C in Hx.
    destruct (required_node (c_tree eC1) (d_tree eD1) (n_index x)) as [n| | |]; try discriminate Hx.
    apply andb_true_iff in Hx. destruct Hx as [Hx H3]. apply andb_true_iff in Hx. destruct Hx as [H1 H2].
    apply N.eqb_eq in H1, H2. apply bytes_eqb_eq in H3. destruct n, x. cbn in *. congruence. }
  split; [|split; vm_compute; discriminate].
  intros j Hj. exfalso. unfold bf_get in Hj.
  assert (E : bf_bits (c_bitfield eC1) = nm_empty) by (vm_compute; reflexivity).
  rewrite E, nm_mem_empty in Hj. discriminate Hj.
Qed.

(* the replica's own count for block 2 is 2: the climb ends on the stored root (2, 0) *)
Example eC1_missing : missing_nodes (c_tree eC1) (d_tree eD1) (2 * 2) = Ok 2.
Proof. vm_compute. reflexivity. Qed.

Example e_apply_block_applies :
  exists c' d' jn',
    core_apply_proof toyE_cr (Some false) (block_proof toyE_cr ex_blocks (t_fork (c_tree eC1)) 2 2) eC1 (mkWorld eD1 [] [])
      = (c', mkWorld d' jn' [EvHave 2 1 false], Ok true) /\
    RInv toyE_cr ex_blocks c' d' 5 /\ core_has c' 2 = true /\
    f_read (d_data d') (prefix_size ex_blocks 2) (len (blk ex_blocks 2)) = Some (blk ex_blocks 2) /\
    prefix_size ex_blocks 2 = 3 /\ blk ex_blocks 2 = [4] /\
    core_get 2 c' (mkWorld d' [] []) = (c', mkWorld d' [] [], Ok (Some [4])).
Proof.
  destruct (apply_block_proof toyE_cr toyE_hash32 toyE_nonblank ex_blocks eC1 eD1 [] [] 5 2 2 0 eC1_RInv)
    as (c' & d' & jn' & Hrun & W' & Hhas & _ & Hread & Hget & _).
  - lia.
  - unfold CLIMB. lia.
  - vm_compute. discriminate.
  - vm_compute. reflexivity.
  - vm_compute. discriminate.
  - eexists. vm_compute. reflexivity.
  - intros d o A1 A2 A3 A4. exfalso. pose proof (p2_pos d). change (0 * p2 2) with 0 in A3. lia.
  - intros b Hb. vm_compute in Hb. injection Hb as <-. vm_compute. reflexivity.
  - exists c', d', jn'. split; [exact Hrun|]. split; [exact W'|]. split; [exact Hhas|]. split; [exact Hread|].
    split; [vm_compute; reflexivity|]. split; [vm_compute; reflexivity|]. apply Hget.
Qed.


(* ---------- the chain on the toy instance: the EMPTY replica core applies the writer's proof for the
   partial upgrade 0 -> 3 (writer at 5) and becomes a replica of length 5 ---------- *)
Definition eWc : core := match eW with Some (c, _) => c | None => eC1 end.
Definition eWd : disk := match eW with Some (_, w) => w_disk w | None => disk_empty end.
Definition eR0 := eOpen (mkKeypair eKey None).
Definition eC0 : core := match eR0 with Some (c, _) => c | None => eC1 end.
Definition eD0 : disk := match eR0 with Some (_, w) => w_disk w | None => disk_empty end.
Definition eSg : bytes := match t_signature (c_tree eWc) with Some s => s | None => [] end.

Lemma eW_lookups : lookups toyE_cr (c_tree eWc) (d_tree eWd) ex_blocks 5.
Proof.
  intros d o H.
  destruct d as [|[|[|d]]].
  - rewrite p2_0 in H. assert (C : o = 0 \/ o = 1 \/ o = 2 \/ o = 3 \/ o = 4) by lia.
    destruct C as [->|[->|[->|[->| ->]]]]; vm_compute; reflexivity.
  - rewrite p2_S, p2_0 in H. assert (C : o = 0 \/ o = 1) by lia.
    destruct C as [->| ->]; vm_compute; reflexivity.
  - rewrite !p2_S, p2_0 in H. assert (o = 0) as -> by lia. vm_compute. reflexivity.
  - exfalso. rewrite !p2_S in H. pose proof (p2_pos d). lia.
Qed.

Example eC0_RInv : RInv toyE_cr ex_blocks eC0 eD0 0.
Proof.
  assert (Et : d_tree eD0 = file_empty) by (vm_compute; reflexivity).
  assert (Eu : t_unflushed (c_tree eC0) = nm_empty) by (vm_compute; reflexivity).
  unfold RInv. split; [vm_compute; reflexivity|]. split; [vm_compute; reflexivity|].
  split; [vm_compute; reflexivity|]. split.
  { intros j n H. rewrite Et in H. apply optional_node_empty_file in H. rewrite Eu, nm_get_empty in H. discriminate H. }
  split. { intros i n H. rewrite Eu, nm_get_empty in H. discriminate H. }
  split. { assert (E : t_roots (c_tree eC0) = []) by (vm_compute; reflexivity). rewrite E. intros x []. }
  split; [|split; vm_compute; discriminate].
  intros j Hj. exfalso. unfold bf_get in Hj.
  assert (E : bf_bits (c_bitfield eC0) = nm_empty) by (vm_compute; reflexivity).
  rewrite E, nm_mem_empty in Hj. discriminate Hj.
Qed.

Example e_apply_upgrade_applies :
  exists up c' d' jn',
    create_valueless_proof (c_tree eWc) (d_tree eWd) None None None (Some (mkReqUpgrade 0 3))
      = Ok (mkVproof (t_fork (c_tree eWc)) None None None (Some up)) /\
    du_start up = 0 /\ du_length up = 3 /\ map n_index (du_nodes up) = [1; 4] /\ map n_index (du_additional up) = [6; 8] /\
    core_apply_proof toyE_cr (Some false) (mkProof (t_fork (c_tree eC0)) None None None (Some up)) eC0 (mkWorld eD0 [] [])
      = (c', mkWorld d' jn' [EvUpgrade], Ok true) /\
    RInv toyE_cr ex_blocks c' d' 5 /\ t_length (c_tree c') = 5.
Proof.
  assert (Hfit : sumN (map len ex_blocks) <= u64_max) by (vm_compute; discriminate).
  destruct (empty_upgrade_accepted toyE_cr ex_blocks Hfit (c_tree eWc) (d_tree eWd) (c_tree eC0) (d_tree eD0) 5 3 eSg
              (kp_public (c_keypair eC0)))
    as (cs & Hc & Hv & R & L & B & F & U & Sg & Hh & A & Hn & Hcm & _).
  - exact eW_lookups.
  - vm_compute. reflexivity.
  - vm_compute. reflexivity.
  - vm_compute. reflexivity.
  - vm_compute. reflexivity.
  - vm_compute. reflexivity.
  - lia.
  - lia.
  - vm_compute. discriminate.
  - vm_compute. reflexivity.
  - vm_compute. reflexivity.
  - cbv zeta in Hc, Hv.
    assert (Ef : t_fork (c_tree eWc) = t_fork (c_tree eC0)) by (vm_compute; reflexivity).
    rewrite Ef in Hv.
    destruct (apply_upgrade_proof toyE_cr toyE_hash32 toyE_nonblank ex_blocks eC0 eD0 [] [] 0 5 _ cs _ eSg
                eC0_RInv ltac:(lia) ltac:(vm_compute; discriminate) Hv R L B U Hh Sg A Hn Hcm)
      as (c' & d' & jn' & Hrun & W' & _ & _ & HL').
    { intros b Hb. pose proof Hv as Hv2. vm_compute in Hv2. injection Hv2 as Ecs. rewrite <- Ecs in Hb.
      vm_compute in Hb. injection Hb as <-. vm_compute. reflexivity. }
    eexists _, c', d', jn'. split; [exact Hc|].
    split; [reflexivity|]. split; [reflexivity|]. split; [vm_compute; reflexivity|]. split; [vm_compute; reflexivity|].
    split; [exact Hrun|]. split; [exact W'|exact HL'].
Qed.

Print Assumptions block_offset_in_changeset.
Print Assumptions byte_offset_sparse.
Print Assumptions byte_offset_node.
Print Assumptions rget_correct.
Print Assumptions apply_block_proof.
Print Assumptions eC1_RInv.
Print Assumptions e_apply_block_applies.
Print Assumptions verify_proof_roots_cover.
Print Assumptions left_child_is_root.
Print Assumptions path_reads_extend.
Print Assumptions apply_upgrade_proof.
Print Assumptions eC0_RInv.
Print Assumptions e_apply_upgrade_applies.

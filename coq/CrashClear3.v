(* CrashClear3.v — C02 over all four stores for writers WITH clears, part 3: histories with crashes.
   Operations: append/batch, clear, get, has, info, reopen, and
     YCrashAppend f batch k = the next append is cut after k operations of its journal and the core is reopened
                              from the disk reached;
     YCrashClear f s e k    = the same inside a clear.
   Every observation is that of the model "list of blocks + set of cleared indices", where a crashed append took
   effect completely (k >= 2: its oplog entry reached the store) or not at all (k = 0, 1), and a crashed clear
   took effect completely (k >= 1: its oplog entry is the first operation of its journal) or not at all. *)
From HC Require Import Base NMap Codec CodecFacts Crypto FlatTree Storage Bitfield Oplog Merkle Core.
From HC Require Import FlatTreeFacts StorageFacts BitfieldFacts OplogFacts TreeRef OffsetFacts CoreFacts Crash Refine.
From HC Require Import ClearRefine Reopen ContigBridge Unified1 Unified2 Unified3 CrashCore1 CrashCore2 CrashCore3.
From HC Require Import CrashClear1 CrashClear2.
From Coq Require Import FMapPositive ZifyN ZifyNat ZifyBool.
Ltac Zify.zify_post_hook ::= Z.div_mod_to_equations.
Arguments N.add : simpl never.
Arguments N.sub : simpl never.
Arguments N.mul : simpl never.
Arguments N.div : simpl never.
Arguments N.modulo : simpl never.
Arguments N.pow : simpl never.
Arguments N.eqb : simpl never.
Arguments N.ltb : simpl never.
Arguments N.leb : simpl never.
Arguments N.max : simpl never.
Arguments N.min : simpl never.
Arguments N.of_nat : simpl never.
Arguments N.to_nat : simpl never.

Inductive yop :=
| YAppend (f : option bool) (batch : list bytes)   (* f: the forced flush decision *)
| YClear (f : option bool) (start end_ : N)
| YGet (i : N)
| YHas (i : N)
| YInfo
| YReopen                                           (* drop the writer, open the same storage again *)
| YCrashAppend (f : option bool) (batch : list bytes) (k : nat)
| YCrashClear (f : option bool) (start end_ : N) (k : nat).
    (* the process dies during this call, after k operations of its journal; then the storage is opened *)

Inductive yobs :=
| YOAppend (r : res (N * N))
| YOClear (r : res unit)
| YOGet (r : res (option bytes))
| YOHas (b : bool)
| YOInfo (i : info)
| YOReopen (r : res unit)
| YOCrash (r : res unit).        (* the result of the open after the crash *)

(* does a call cut after k journal operations take effect?  The journal of an append is: data write, oplog
   entry write, flush group; that of a clear: oplog entry write, delete of the hole, flush group.  The entry
   write is the commit point. *)
Definition append_took_effect (k : nat) : bool := negb (k <? 2)%nat.
Definition clear_took_effect (k : nat) : bool := negb (k <? 1)%nat.

(* the model: list of blocks + characteristic function of the cleared indices *)
Fixpoint yspec (ops : list yop) (bs : list bytes) (cl : N -> bool) : list yobs :=
  let n := N.of_nat (length bs) in
  match ops with
  | [] => []
  | YAppend _ batch :: rest =>
      YOAppend (Ok (N.of_nat (length (bs ++ batch)), sumN (map len (bs ++ batch))))
        :: yspec rest (bs ++ batch) (cl_mask cl n)
  | YClear _ s e :: rest =>
      YOClear (Ok tt) :: yspec rest bs (if e <=? s then cl else cl_clear cl s e)
  | YGet i :: rest =>
      YOGet (Ok (if held n cl i then Some (nth (N.to_nat i) bs []) else None)) :: yspec rest bs cl
  | YHas i :: rest => YOHas (held n cl i) :: yspec rest bs cl
  | YInfo :: rest =>
      YOInfo (mkInfo n (sumN (map len bs)) (spec_contig bs cl) 0 true) :: yspec rest bs cl
  | YReopen :: rest => YOReopen (Ok tt) :: yspec rest bs cl
  | YCrashAppend _ batch k :: rest =>
      YOCrash (Ok tt) ::
      (if append_took_effect k then yspec rest (bs ++ batch) (cl_mask cl n) else yspec rest bs cl)
  | YCrashClear _ s e k :: rest =>
      YOCrash (Ok tt) ::
      yspec rest bs (if (e <=? s) || negb (clear_took_effect k) then cl else cl_clear cl s e)
  end.

(* the same with the effect of each crashed call given by a list of booleans *)
Fixpoint yspec_choice (ops : list yop) (ch : list bool) (bs : list bytes) (cl : N -> bool) : list yobs :=
  let n := N.of_nat (length bs) in
  match ops with
  | [] => []
  | YAppend _ batch :: rest =>
      YOAppend (Ok (N.of_nat (length (bs ++ batch)), sumN (map len (bs ++ batch))))
        :: yspec_choice rest ch (bs ++ batch) (cl_mask cl n)
  | YClear _ s e :: rest =>
      YOClear (Ok tt) :: yspec_choice rest ch bs (if e <=? s then cl else cl_clear cl s e)
  | YGet i :: rest =>
      YOGet (Ok (if held n cl i then Some (nth (N.to_nat i) bs []) else None)) :: yspec_choice rest ch bs cl
  | YHas i :: rest => YOHas (held n cl i) :: yspec_choice rest ch bs cl
  | YInfo :: rest =>
      YOInfo (mkInfo n (sumN (map len bs)) (spec_contig bs cl) 0 true) :: yspec_choice rest ch bs cl
  | YReopen :: rest => YOReopen (Ok tt) :: yspec_choice rest ch bs cl
  | YCrashAppend _ batch k :: rest =>
      match ch with
      | b :: ch' =>
          YOCrash (Ok tt) ::
          (if b then yspec_choice rest ch' (bs ++ batch) (cl_mask cl n) else yspec_choice rest ch' bs cl)
      | [] => []
      end
  | YCrashClear _ s e k :: rest =>
      match ch with
      | b :: ch' =>
          YOCrash (Ok tt) :: yspec_choice rest ch' bs (if (e <=? s) || negb b then cl else cl_clear cl s e)
      | [] => []
      end
  end.

Fixpoint ychoices (ops : list yop) : list bool :=
  match ops with
  | [] => []
  | YCrashAppend _ _ k :: rest => append_took_effect k :: ychoices rest
  | YCrashClear _ _ _ k :: rest => clear_took_effect k :: ychoices rest
  | _ :: rest => ychoices rest
  end.

Lemma yspec_choice_det ops : forall bs cl, yspec_choice ops (ychoices ops) bs cl = yspec ops bs cl.
Proof.
  induction ops as [|op ops IH]; intros bs cl; [reflexivity|].
  destruct op; cbn [yspec_choice yspec ychoices]; rewrite ?IH; try reflexivity.
Qed.

(* all blocks any operation of the history tries to append *)
Fixpoint yappended (ops : list yop) : list bytes :=
  match ops with
  | [] => []
  | YAppend _ batch :: rest => batch ++ yappended rest
  | YCrashAppend _ batch _ :: rest => batch ++ yappended rest
  | _ :: rest => yappended rest
  end.

(* every non-empty clear (crashed or not) starts below the current length n and its end is a u64 *)
Fixpoint wf_y (ops : list yop) (n : N) : Prop :=
  match ops with
  | [] => True
  | YAppend _ batch :: rest => wf_y rest (n + N.of_nat (length batch))
  | YClear _ s e :: rest => (e <= s \/ (s < n /\ e <= u64_max)) /\ wf_y rest n
  | YCrashAppend _ batch k :: rest =>
      wf_y rest (if append_took_effect k then n + N.of_nat (length batch) else n)
  | YCrashClear _ s e _ :: rest => (e <= s \/ (s < n /\ e <= u64_max)) /\ wf_y rest n
  | _ :: rest => wf_y rest n
  end.

Lemma journal_delta_same j : journal_delta j j = [].
Proof. unfold journal_delta. rewrite Nat.sub_diag. reflexivity. Qed.

Section HistoryY.
  Variable cr : crypto.
  Hypothesis Hcrc : crc_ok cr.
  Hypothesis Hhash32 : forall x, length (cr_hash cr x) = 32%nat.
  Hypothesis Hnonblank : forall x, all_zero (cr_hash cr x) = false.
  Hypothesis Hhashbytes : forall x, bytes_ok (cr_hash cr x) = true.
  Hypothesis Hsig64 : forall sk m, length (cr_sign cr sk m) = 64%nat.
  Hypothesis Hsigbytes : forall sk m, bytes_ok (cr_sign cr sk m) = true.

  (* the crash: w = the world before the call, w' = the world after the complete call; the disk is the old disk
     after the first k journalled operations of the call; memory is lost (and the events of the dead process
     with it); core_open (open mode, no key pair) runs on that disk *)
  Definition crash_reopen (w w' : world) (k : nat) (cont : core -> world -> list yobs) : list yobs :=
    let cut := firstn k (journal_delta (w_journal w) (w_journal w')) in
    match apply_sops (w_disk w) cut with
    | Some dk =>
        let '(d', sops, ro) := core_open cr None true dk in
        YOCrash (res_unit ro) ::
        (match ro with
         | Ok c'' => cont c'' (mkWorld d' (rev sops ++ rev cut ++ w_journal w) (w_events w))
         | _ => []
         end)
    | None => [YOCrash (Err InvalidOperation)]
    end.

  (* the run.  A history stops after an append, a clear or an open that does not return a value. *)
  Fixpoint yrun (ops : list yop) (c : core) (w : world) : list yobs :=
    match ops with
    | [] => []
    | YAppend f batch :: rest =>
        let '(c', w', r) := core_append cr f batch c w in
        YOAppend r :: (match r with Ok _ => yrun rest c' w' | _ => [] end)
    | YClear f s e :: rest =>
        let '(c', w', r) := core_clear cr f s e c w in
        YOClear r :: (match r with Ok _ => yrun rest c' w' | _ => [] end)
    | YGet i :: rest =>
        let '(c', w', r) := core_get i c w in YOGet r :: yrun rest c' w'
    | YHas i :: rest => YOHas (core_has c i) :: yrun rest c w
    | YInfo :: rest => YOInfo (core_info c) :: yrun rest c w
    | YReopen :: rest =>
        let '(d', sops, r) := core_open cr None true (w_disk w) in
        YOReopen (res_unit r) ::
        (match r with
         | Ok c' => yrun rest c' (mkWorld d' (rev sops ++ w_journal w) (w_events w))
         | _ => []
         end)
    | YCrashAppend f batch k :: rest =>
        let '(c', w', r) := core_append cr f batch c w in
        match r with
        | Ok _ => crash_reopen w w' k (yrun rest)
        | _ => [YOAppend r]     (* the append fails by itself (30-bit frame limit): as for YAppend *)
        end
    | YCrashClear f s e k :: rest =>
        let '(c', w', r) := core_clear cr f s e c w in
        match r with
        | Ok _ => crash_reopen w w' k (yrun rest)
        | _ => [YOClear r]
        end
    end.

  (* (4) histories with crashes inside appends and clears, from any YInv state *)
  Theorem history_crash_clear_correct (ops : list yop) : forall c d j ev bs cl sk,
    YInv cr c d bs cl -> kp_secret (c_keypair c) = Some sk ->
    wf_y ops (N.of_nat (length bs)) ->
    sumN (map len (bs ++ yappended ops)) <= u64_max ->
    NODE_SIZE * (2 * N.of_nat (length (bs ++ yappended ops))) <= u64_max ->
    yrun ops c (mkWorld d j ev) = yspec ops bs cl \/
    exists k, yrun ops c (mkWorld d j ev) = firstn k (yspec ops bs cl) ++ [YOAppend (Panic frame_msg)].
  Proof.
    induction ops as [|op ops IH]; intros c d j ev bs cl sk X Hsk Hwf Hfit Hidx.
    - left. reflexivity.
    - pose proof (YInv_YW cr c d bs cl X) as W.
      destruct op as [f batch|f s e|i|i| | |f batch k|f s e k]; cbn [yrun yspec yappended wf_y] in *.
      + (* append *)
        rewrite app_assoc in Hfit, Hidx.
        assert (Hfit1 : sumN (map len (bs ++ batch)) <= u64_max).
        { rewrite map_app, TreeRef.sumN_app in Hfit. lia. }
        assert (Hidx1 : NODE_SIZE * (2 * N.of_nat (length (bs ++ batch))) <= u64_max).
        { rewrite (app_length (bs ++ batch)) in Hidx. unfold NODE_SIZE in *. lia. }
        destruct (append_Y cr Hcrc Hhash32 Hnonblank Hhashbytes Hsig64 Hsigbytes f batch c d j ev bs cl sk X Hsk Hfit1 Hidx1)
          as [(d1 & E & _)|(c1 & d1 & delta & ev1 & E & A & X1 & K1 & _)]; rewrite E.
        * right. exists 0%nat. reflexivity.
        * rewrite <- K1 in Hsk.
          assert (Hwf' : wf_y ops (N.of_nat (length (bs ++ batch)))).
          { rewrite app_length, Nat2N.inj_add. exact Hwf. }
          destruct (IH c1 d1 (rev delta ++ j) ev1 (bs ++ batch) _ sk X1 Hsk Hwf' Hfit Hidx) as [->|[k0 ->]].
          -- left. reflexivity.
          -- right. exists (S k0). reflexivity.
      + (* clear *)
        destruct Hwf as [Hse Hwf].
        destruct (N.leb_spec e s) as [L|L].
        * rewrite (clear_noop cr f s e c _ L).
          destruct (IH c d j ev bs cl sk X Hsk Hwf Hfit Hidx) as [->|[k0 ->]].
          -- left. reflexivity.
          -- right. exists (S k0). reflexivity.
        * destruct Hse as [Hse|[Hse He]]; [lia|].
          destruct (clear_Y cr Hcrc Hhash32 Hnonblank Hhashbytes f c d j ev bs cl s e X Hse L He)
            as (c1 & d1 & delta & E & A & X1 & K1 & _). rewrite E.
          rewrite <- K1 in Hsk.
          destruct (IH c1 d1 (rev delta ++ j) ev bs _ sk X1 Hsk Hwf Hfit Hidx) as [->|[k0 ->]].
          -- left. reflexivity.
          -- right. exists (S k0). reflexivity.
      + rewrite (Y_get cr c d bs cl j ev i W).
        destruct (held (N.of_nat (length bs)) cl i).
        * destruct (IH c d j ev bs cl sk X Hsk Hwf Hfit Hidx) as [->|[k0 ->]];
            [left; reflexivity|right; exists (S k0); reflexivity].
        * destruct (IH c d j (EvGet i :: ev) bs cl sk X Hsk Hwf Hfit Hidx) as [->|[k0 ->]];
            [left; reflexivity|right; exists (S k0); reflexivity].
      + rewrite (Y_has cr c d bs cl i W).
        destruct (IH c d j ev bs cl sk X Hsk Hwf Hfit Hidx) as [->|[k0 ->]];
          [left; reflexivity|right; exists (S k0); reflexivity].
      + rewrite (Y_info cr c d bs cl W), Hsk.
        destruct (IH c d j ev bs cl sk X Hsk Hwf Hfit Hidx) as [->|[k0 ->]];
          [left; reflexivity|right; exists (S k0); reflexivity].
      + (* reopen *)
        destruct (reopen_YInv cr Hcrc Hhash32 Hnonblank Hhashbytes c d bs cl X) as (c1 & E & X1 & K1 & _).
        cbn [w_disk w_journal w_events]. rewrite E. cbn [res_unit rev app]. rewrite <- K1 in Hsk.
        destruct (IH c1 d j ev bs cl sk X1 Hsk Hwf Hfit Hidx) as [->|[k0 ->]];
          [left; reflexivity|right; exists (S k0); reflexivity].
      + (* crash inside an append *)
        rewrite app_assoc in Hfit, Hidx.
        assert (Hfit1 : sumN (map len (bs ++ batch)) <= u64_max).
        { rewrite map_app, TreeRef.sumN_app in Hfit. lia. }
        assert (Hidx1 : NODE_SIZE * (2 * N.of_nat (length (bs ++ batch))) <= u64_max).
        { rewrite (app_length (bs ++ batch)) in Hidx. unfold NODE_SIZE in *. lia. }
        destruct (append_Y cr Hcrc Hhash32 Hnonblank Hhashbytes Hsig64 Hsigbytes f batch c d j ev bs cl sk X Hsk Hfit1 Hidx1)
          as [(d1 & E & _)|(c1 & d1 & delta & ev1 & E & A & X1 & K1 & C1)]; rewrite E.
        * right. exists 0%nat. reflexivity.
        * unfold crash_reopen. cbn [w_journal w_disk w_events]. rewrite journal_delta_spec.
          destruct (C1 k) as (dk & Ak & XD). rewrite Ak.
          unfold append_took_effect in *.
          destruct (k <? 2)%nat; cbn [negb] in *.
          -- destruct (reopen_Y cr Hcrc Hhash32 Hnonblank Hhashbytes (c_keypair c) dk _ _ XD)
               as (ck & dk' & ops1 & Eo & Xk & Kk & _).
             rewrite Eo. cbn [res_unit]. rewrite <- Kk in Hsk.
             rewrite <- app_assoc in Hfit, Hidx.
             pose proof (sum_app3 bs batch (yappended ops)). pose proof (length_app3 bs batch (yappended ops)).
             destruct (IH ck dk' (rev ops1 ++ rev (firstn k delta) ++ j) ev bs cl sk Xk Hsk Hwf) as [E1|[k0 E1]];
               [lia|unfold NODE_SIZE in *; lia| |].
             ++ left. rewrite E1. reflexivity.
             ++ right. exists (S k0). rewrite E1. reflexivity.
          -- destruct (reopen_Y cr Hcrc Hhash32 Hnonblank Hhashbytes (c_keypair c) dk _ _ XD)
               as (ck & dk' & ops1 & Eo & Xk & Kk & _).
             rewrite Eo. cbn [res_unit]. rewrite <- Kk in Hsk.
             assert (Hwf' : wf_y ops (N.of_nat (length (bs ++ batch)))).
             { rewrite app_length, Nat2N.inj_add. exact Hwf. }
             destruct (IH ck dk' (rev ops1 ++ rev (firstn k delta) ++ j) ev _ _ sk Xk Hsk Hwf' Hfit Hidx)
               as [E1|[k0 E1]].
             ++ left. rewrite E1. reflexivity.
             ++ right. exists (S k0). rewrite E1. reflexivity.
      + (* crash inside a clear *)
        destruct Hwf as [Hse Hwf].
        destruct (N.leb_spec e s) as [L|L].
        * rewrite (clear_noop cr f s e c _ L). unfold crash_reopen. cbn [w_journal w_disk w_events orb].
          rewrite journal_delta_same, firstn_nil. cbn [apply_sops].
          destruct (reopen_YInv cr Hcrc Hhash32 Hnonblank Hhashbytes c d bs cl X) as (c1 & E & X1 & K1 & _).
          rewrite E. cbn [res_unit]. rewrite <- K1 in Hsk.
          destruct (IH c1 d (rev [] ++ rev [] ++ j) ev bs cl sk X1 Hsk Hwf Hfit Hidx) as [->|[k0 ->]];
            [left; reflexivity|right; exists (S k0); reflexivity].
        * destruct Hse as [Hse|[Hse He]]; [lia|].
          destruct (clear_Y cr Hcrc Hhash32 Hnonblank Hhashbytes f c d j ev bs cl s e X Hse L He)
            as (c1 & d1 & delta & E & A & X1 & K1 & _ & C1). rewrite E.
          unfold crash_reopen. cbn [w_journal w_disk w_events orb]. rewrite journal_delta_spec.
          destruct (C1 k) as (dk & Ak & XD). rewrite Ak.
          destruct (reopen_Y cr Hcrc Hhash32 Hnonblank Hhashbytes (c_keypair c) dk _ _ XD)
            as (ck & dk' & ops1 & Eo & Xk & Kk & _).
          rewrite Eo. cbn [res_unit]. rewrite <- Kk in Hsk.
          unfold clear_took_effect. rewrite Bool.negb_involutive.
          destruct (IH ck dk' (rev ops1 ++ rev (firstn k delta) ++ j) ev bs _ sk Xk Hsk Hwf Hfit Hidx)
            as [E1|[k0 E1]].
          -- left. rewrite E1. reflexivity.
          -- right. exists (S k0). rewrite E1. reflexivity.
  Qed.
End HistoryY.

Section HistoryYCorollaries.
  Variable cr : crypto.
  Hypothesis Hcrc : crc_ok cr.
  Hypothesis Hhash32 : forall x, length (cr_hash cr x) = 32%nat.
  Hypothesis Hnonblank : forall x, all_zero (cr_hash cr x) = false.
  Hypothesis Hhashbytes : forall x, bytes_ok (cr_hash cr x) = true.
  Hypothesis Hsig64 : forall sk m, length (cr_sign cr sk m) = 64%nat.
  Hypothesis Hsigbytes : forall sk m, bytes_ok (cr_sign cr sk m) = true.

  (* the form with one boolean per crash: each crashed call took effect completely or not at all *)
  Corollary history_crash_clear_choice ops c d j ev bs cl sk :
    YInv cr c d bs cl -> kp_secret (c_keypair c) = Some sk ->
    wf_y ops (N.of_nat (length bs)) ->
    sumN (map len (bs ++ yappended ops)) <= u64_max ->
    NODE_SIZE * (2 * N.of_nat (length (bs ++ yappended ops))) <= u64_max ->
    exists ch : list bool,
      yrun cr ops c (mkWorld d j ev) = yspec_choice ops ch bs cl \/
      exists k, yrun cr ops c (mkWorld d j ev) = firstn k (yspec_choice ops ch bs cl) ++ [YOAppend (Panic frame_msg)].
  Proof.
    intros X Hsk Hwf Hfit Hidx. exists (ychoices ops). rewrite yspec_choice_det.
    apply (history_crash_clear_correct cr Hcrc Hhash32 Hnonblank Hhashbytes Hsig64 Hsigbytes ops c d j ev bs cl sk);
      assumption.
  Qed.

  (* from creation *)
  Theorem fresh_history_crash_clear_correct kp sk ops :
    keypair_ok kp = true -> kp_secret kp = Some sk ->
    wf_y ops 0 ->
    sumN (map len (yappended ops)) <= u64_max ->
    NODE_SIZE * (2 * N.of_nat (length (yappended ops))) <= u64_max ->
    exists d0 ops0 c0,
      core_open cr (Some kp) false disk_empty = (d0, ops0, Ok c0) /\
      (yrun cr ops c0 (mkWorld d0 [] []) = yspec ops [] (fun _ => false) \/
       exists k, yrun cr ops c0 (mkWorld d0 [] []) =
                 firstn k (yspec ops [] (fun _ => false)) ++ [YOAppend (Panic frame_msg)]).
  Proof.
    intros Hkp Hsk Hwf Hfit Hidx.
    destruct (FInv_init cr Hcrc Hhash32 Hnonblank Hhashbytes kp Hkp) as (d0 & ops0 & c0 & Ho & D & K).
    exists d0, ops0, c0. split; [exact Ho|].
    apply (history_crash_clear_correct cr Hcrc Hhash32 Hnonblank Hhashbytes Hsig64 Hsigbytes ops c0 d0 [] [] []
             (fun _ => false) sk);
      [apply FInv_YInv, D|rewrite K; exact Hsk|exact Hwf|exact Hfit|exact Hidx].
  Qed.

  (* when no append hits the 30-bit frame guard, every observation is the model's *)
  Corollary fresh_history_crash_clear_no_frame_panic kp sk ops :
    keypair_ok kp = true -> kp_secret kp = Some sk ->
    wf_y ops 0 ->
    sumN (map len (yappended ops)) <= u64_max ->
    NODE_SIZE * (2 * N.of_nat (length (yappended ops))) <= u64_max ->
    exists d0 ops0 c0,
      core_open cr (Some kp) false disk_empty = (d0, ops0, Ok c0) /\
      (~ In (YOAppend (Panic frame_msg)) (yrun cr ops c0 (mkWorld d0 [] [])) ->
       yrun cr ops c0 (mkWorld d0 [] []) = yspec ops [] (fun _ => false)).
  Proof.
    intros Hkp Hsk Hwf Hfit Hidx.
    destruct (fresh_history_crash_clear_correct kp sk ops Hkp Hsk Hwf Hfit Hidx) as (d0 & ops0 & c0 & Ho & [E|[k E]]);
      exists d0, ops0, c0; (split; [exact Ho|]); intros Hno; [exact E|].
    exfalso. apply Hno. rewrite E. apply in_or_app. right. left. reflexivity.
  Qed.
End HistoryYCorollaries.

(* ====================================================================================== *)
(* Non-vacuity on the toy crypto instance                                                  *)
(* ====================================================================================== *)

(* all reads of the first n indices *)
Definition yobs_all (n : nat) : list yop :=
  YInfo :: flat_map (fun i => [YGet i; YHas i]) (map N.of_nat (seq 0 n)).

Definition yA5 (f : option bool) : yop := YAppend f [[1; 2; 3]; []; [4]; [5; 6]; [7]].

(* a history with crashes at every kind of place:
   - YCrashAppend .. 1: between the data write and the oplog entry write (junk stays in the data store);
   - YCrashClear (Some true) 3 9 k: a clear reaching beyond the length, whose hole reaches the end of the data
     store; k = 0: nothing written; k = 1: entry written, hole not punched; k = 2: hole punched (the store is
     truncated or zero-filled under the junk); k = 3: after the first bitfield page write; k = 12: after the
     header slot write, before the truncate (open repairs the oplog); k = 13: complete;
   - a clear of an already cleared range, crashed; an append over a store that a clear has truncated; a crash
     inside a clear after a reopen with pending entries. *)
Definition toy_yops (k1 k2 k3 : nat) : list yop :=
  [yA5 (Some true); YCrashAppend (Some true) [[8; 9]; [10; 11; 12]] k1] ++ yobs_all 8 ++
  [YCrashClear (Some true) 3 9 k2] ++ yobs_all 8 ++
  [YAppend (Some false) [[13]]; YClear (Some false) 0 2; YCrashClear (Some true) 4 5 k3] ++ yobs_all 9 ++
  [YCrashClear (Some true) 0 2 2; YAppend (Some false) [[14; 15]]; YReopen] ++ yobs_all 10 ++
  [YClear None 1 1; YCrashClear None 3 3 5; YCrashClear (Some true) 6 70000 3; YCrashAppend None [] 7; YReopen]
  ++ yobs_all 10.

Definition ycheck (ops : list yop) : Prop :=
  match core_open toy_cr (Some toy_keypair) false disk_empty with
  | (d0, _, Ok c0) => yrun toy_cr ops c0 (mkWorld d0 [] []) = yspec ops [] (fun _ => false)
  | _ => False
  end.

Example toy_history_crash_clear :
  keypair_ok toy_keypair = true /\
  ycheck (toy_yops 1 0 1) /\ ycheck (toy_yops 1 1 2) /\ ycheck (toy_yops 0 2 3) /\ ycheck (toy_yops 2 3 0) /\
  ycheck (toy_yops 16 12 12) /\ ycheck (toy_yops 5 13 4).
Proof.
  split; [reflexivity|].
  split; [vm_compute; reflexivity|]. split; [vm_compute; reflexivity|]. split; [vm_compute; reflexivity|].
  split; [vm_compute; reflexivity|]. split; vm_compute; reflexivity.
Qed.

Example toy_yops_wf : wf_y (toy_yops 1 1 2) 0.
Proof.
  cbn [toy_yops yA5 wf_y yobs_all app flat_map map seq length append_took_effect Nat.ltb Nat.leb negb].
  unfold u64_max. lia.
Qed.

(* the instance of the history theorem for the toy crypto *)
Example toy_crash_clear_instance ops sk :
  kp_secret toy_keypair = Some sk -> wf_y ops 0 ->
  sumN (map len (yappended ops)) <= u64_max ->
  NODE_SIZE * (2 * N.of_nat (length (yappended ops))) <= u64_max ->
  exists d0 ops0 c0,
    core_open toy_cr (Some toy_keypair) false disk_empty = (d0, ops0, Ok c0) /\
    (yrun toy_cr ops c0 (mkWorld d0 [] []) = yspec ops [] (fun _ => false) \/
     exists k, yrun toy_cr ops c0 (mkWorld d0 [] []) =
               firstn k (yspec ops [] (fun _ => false)) ++ [YOAppend (Panic frame_msg)]).
Proof.
  apply (fresh_history_crash_clear_correct toy_cr toy_crc_ok' toy_hash32 toy_nonblank toy_hashbytes
           toy_sig64 toy_sigbytes toy_keypair sk ops). reflexivity.
Qed.

(* One flushing clear looked at cut by cut.  State: 5 blocks appended without a flush, then clear [1, 3) with a
   flush.  Its journal has 13 operations: oplog entry write, delete of the hole in the data store, one bitfield
   page, eight tree nodes, header slot write, truncate.  After EVERY cut k = 0 .. 13 the storage reopens; the
   observations are those of the state before for k = 0 and those of the state after for k >= 1. *)
Definition toy_bs5 : list bytes := [[1; 2; 3]; []; [4]; [5; 6]; [7]].
Definition toy_yprobes : list yop := yobs_all 7.

Definition yobs_after_cut (d : disk) (delta : list sop) (k : nat) : option (list sop * list yobs) :=
  match apply_sops d (firstn k delta) with
  | Some dk =>
      match core_open toy_cr None true dk with
      | (dk', ops, Ok ck) => Some (ops, yrun toy_cr toy_yprobes ck (mkWorld dk' [] []))
      | _ => None
      end
  | None => None
  end.

Example toy_every_cut_of_a_flushing_clear :
  match core_open toy_cr (Some toy_keypair) false disk_empty with
  | (d0, _, Ok c0) =>
      match core_append toy_cr (Some false) toy_bs5 c0 (mkWorld d0 [] []) with
      | (c1, w1, Ok _) =>
          match core_clear toy_cr (Some true) 1 3 c1 w1 with
          | (c2, w2, Ok _) =>
              let delta := journal_delta (w_journal w1) (w_journal w2) in
              map sop_store delta =
                [Oplog; Data; Bitfield; Tree; Tree; Tree; Tree; Tree; Tree; Tree; Tree; Oplog; Oplog] /\
              map (yobs_after_cut (w_disk w1) delta) (seq 0 14) =
              map (fun k => Some (if (k =? 12)%nat then [ST Oplog ENTRIES_OFFSET] else [],
                                  yspec toy_yprobes toy_bs5
                                        (if (k <? 1)%nat then fun _ => false else cl_clear (fun _ => false) 1 3)))
                  (seq 0 14)
          | _ => False
          end
      | _ => False
      end
  | _ => False
  end.
Proof. vm_compute. split; reflexivity. Qed.

(* the same for a clear that reaches the end of the data store (the delete truncates it) in a state where an
   earlier clear is still pending in the oplog and the bitfield store still has its bits set *)
Example toy_every_cut_of_a_truncating_clear :
  match core_open toy_cr (Some toy_keypair) false disk_empty with
  | (d0, _, Ok c0) =>
      match core_append toy_cr (Some true) toy_bs5 c0 (mkWorld d0 [] []) with
      | (c1, w1, Ok _) =>
          match core_clear toy_cr (Some false) 0 1 c1 w1 with
          | (c2, w2, Ok _) =>
              match core_clear toy_cr (Some true) 3 70000 c2 w2 with
              | (c3, w3, Ok _) =>
                  let delta := journal_delta (w_journal w2) (w_journal w3) in
                  map sop_store delta = [Oplog; Data; Bitfield; Oplog; Oplog] /\
                  f_len (d_data (w_disk w2)) = 7 /\ f_len (d_data (w_disk w3)) = 4 /\
                  map (yobs_after_cut (w_disk w2) delta) (seq 0 6) =
                  map (fun k => Some (if (k =? 4)%nat then [ST Oplog ENTRIES_OFFSET] else [],
                                      yspec toy_yprobes toy_bs5
                                            (if (k <? 1)%nat then cl_clear (fun _ => false) 0 1
                                             else cl_clear (cl_clear (fun _ => false) 0 1) 3 70000)))
                      (seq 0 6)
              | _ => False
              end
          | _ => False
          end
      | _ => False
      end
  | _ => False
  end.
Proof. vm_compute. repeat split; reflexivity. Qed.

(* The hypotheses of clear_Y / clear_cut_recovers_Y / history_crash_clear_correct are met by a concrete state
   that the crash-free invariant FInv does not cover: the toy writer after a flushed append of five blocks, a
   crashed append cut after its data write (junk after the blocks in the data store), the reopen, and a clear
   of [1, 3) that stays pending in the oplog (the bitfield store still has bit 1 set, memory has cleared it). *)
Definition toy_junk_batch : list bytes := [[8; 9]; [10; 11; 12]].

Example toy_YInv_state_met :
  exists c d cl sk,
    YInv toy_cr c d toy_bs5 cl /\ kp_secret (c_keypair c) = Some sk /\
    sumN (map len toy_bs5) < f_len (d_data d) /\
    fbit (d_bitfield d) 1 = true /\ held (N.of_nat (length toy_bs5)) cl 1 = false /\
    3 < N.of_nat (length toy_bs5) /\ 3 < 9 /\ 9 <= u64_max /\
    (* from this state an append with a flush has a journal of 8 operations, a clear of [3, 9) one of 5 *)
    (exists c' w' x, core_append toy_cr (Some true) [[20]; [21; 22]] c (mkWorld d [] []) = (c', w', Ok x) /\
                     length (w_journal w') = 8%nat) /\
    (exists c' w', core_clear toy_cr (Some true) 3 9 c (mkWorld d [] []) = (c', w', Ok tt) /\
                   length (w_journal w') = 5%nat).
Proof.
  destruct (FInv_init toy_cr toy_crc_ok' toy_hash32 toy_nonblank toy_hashbytes toy_keypair eq_refl)
    as (d0 & ops0 & c0 & Ho & D & K).
  assert (Hcomp : match core_open toy_cr (Some toy_keypair) false disk_empty with
     | (d0, _, Ok c0) =>
         match core_append toy_cr (Some true) toy_bs5 c0 (mkWorld d0 [] []) with
         | (c1, w1, Ok _) =>
             match core_append toy_cr (Some true) toy_junk_batch c1 (mkWorld (w_disk w1) [] []) with
             | (c2, w2, Ok _) =>
                 match apply_sops (w_disk w1) (firstn 1 (journal_delta [] (w_journal w2))) with
                 | Some dk =>
                     match core_open toy_cr None true dk with
                     | (dk', _, Ok ck) =>
                         match core_clear toy_cr (Some false) 1 3 ck (mkWorld dk' [] []) with
                         | (c3, w3, _) =>
                             (sumN (map len toy_bs5) <? f_len (d_data (w_disk w3))) = true /\
                             fbit (d_bitfield (w_disk w3)) 1 = true /\
                             match core_append toy_cr (Some true) [[20]; [21; 22]] c3 (mkWorld (w_disk w3) [] []) with
                             | (_, w4, Ok _) => length (w_journal w4) = 8%nat
                             | _ => False
                             end /\
                             match core_clear toy_cr (Some true) 3 9 c3 (mkWorld (w_disk w3) [] []) with
                             | (_, w4, Ok tt) => length (w_journal w4) = 5%nat
                             | _ => False
                             end
                         end
                     | _ => False
                     end
                 | None => False
                 end
             | _ => False
             end
         | _ => False
         end
     | _ => False
     end) by (vm_compute; repeat split; reflexivity).
  rewrite Ho in Hcomp.
  apply FInv_YInv in D.
  assert (Hsk0 : kp_secret (c_keypair c0) = Some (repeat 2 32%nat)) by (rewrite K; reflexivity).
  destruct (core_append toy_cr (Some true) toy_bs5 c0 (mkWorld d0 [] [])) as [[c1 w1] r1] eqn:E1.
  destruct r1 as [x1| | |]; try contradiction.
  destruct (append_YInv toy_cr toy_crc_ok' toy_hash32 toy_nonblank toy_hashbytes toy_sig64 toy_sigbytes
              (Some true) toy_bs5 c0 d0 [] [] [] (fun _ => false) (repeat 2 32%nat) c1 w1 (Ok x1) D Hsk0)
    as [Hp|(_ & X1 & K1)]; [vm_compute; discriminate|vm_compute; discriminate|exact E1|discriminate Hp|].
  cbn [app length] in X1. change (N.of_nat 0) with 0 in X1.
  assert (Hsk1 : kp_secret (c_keypair c1) = Some (repeat 2 32%nat)) by (rewrite K1; exact Hsk0).
  destruct (append_Y toy_cr toy_crc_ok' toy_hash32 toy_nonblank toy_hashbytes toy_sig64 toy_sigbytes
              (Some true) toy_junk_batch c1 (w_disk w1) [] [] toy_bs5 _ (repeat 2 32%nat) X1 Hsk1)
    as [(dp & E2 & _)|(c2 & d2 & delta & ev2 & E2 & A2 & X2 & K2 & C2)];
    [vm_compute; discriminate|vm_compute; discriminate|rewrite E2 in Hcomp; contradiction|].
  rewrite E2 in Hcomp. cbn [w_journal] in Hcomp. rewrite journal_delta_spec in Hcomp.
  destruct (C2 1%nat) as (dk1 & A1 & XD1). rewrite A1 in Hcomp. cbn [Nat.ltb Nat.leb] in XD1.
  destruct (reopen_Y toy_cr toy_crc_ok' toy_hash32 toy_nonblank toy_hashbytes (c_keypair c1) dk1 _ _ XD1)
    as (ck & dk' & opsk & Eo & Xk & Kk & _).
  rewrite Eo in Hcomp.
  destruct (core_clear toy_cr (Some false) 1 3 ck (mkWorld dk' [] [])) as [[c3 w3] r3] eqn:E3.
  assert (L1 : 1 < N.of_nat (length toy_bs5)) by (cbn [toy_bs5 length]; lia).
  destruct (clear_YInv toy_cr toy_crc_ok' toy_hash32 toy_nonblank toy_hashbytes (Some false) ck dk' [] [] toy_bs5 _
              1 3 c3 w3 r3 Xk L1 ltac:(lia) ltac:(unfold u64_max; lia) E3) as (_ & X3 & K3).
  destruct Hcomp as (Hjunk & Hbit & Happ & Hclr).
  exists c3, (w_disk w3), (cl_clear (cl_mask (fun _ => false) 0) 1 3), (repeat 2 32%nat).
  split; [exact X3|]. split; [rewrite K3, Kk; exact Hsk1|].
  split; [apply N.ltb_lt; exact Hjunk|]. split; [exact Hbit|]. split; [reflexivity|].
  split; [cbn [toy_bs5 length]; lia|]. split; [lia|]. split; [unfold u64_max; lia|].
  split.
  - destruct (core_append toy_cr (Some true) [[20]; [21; 22]] c3 (mkWorld (w_disk w3) [] [])) as [[c4 w4] r4].
    destruct r4 as [x4| | |]; try contradiction. exists c4, w4, x4. split; [reflexivity|exact Happ].
  - destruct (core_clear toy_cr (Some true) 3 9 c3 (mkWorld (w_disk w3) [] [])) as [[c4 w4] r4].
    destruct r4 as [[]| | |]; try contradiction. exists c4, w4. split; [reflexivity|exact Hclr].
Qed.

(* the hypothesis of reopen_Y is met by concrete crash disks that XDisk / FInv do not describe: (a) a disk cut
   inside the flush of a clear after the bitfield page write, before the header write: the bitfield store
   already has the cleared bit unset while the header on disk is the old one and the clear entry is pending;
   (b) a disk cut after the header slot write of that flush: open issues the repairing truncate *)
Example toy_YDisk_states_met :
  exists kp cl d3 d12 d12' c12,
    YDisk toy_cr kp d3 toy_bs5 cl /\ fbit (d_bitfield d3) 1 = false /\ held 5 cl 1 = false /\
    YDisk toy_cr kp d12 toy_bs5 cl /\
    core_open toy_cr None true d12 = (d12', [ST Oplog ENTRIES_OFFSET], Ok c12).
Proof.
  destruct (FInv_init toy_cr toy_crc_ok' toy_hash32 toy_nonblank toy_hashbytes toy_keypair eq_refl)
    as (d0 & ops0 & c0 & Ho & D & K).
  assert (Hcomp : match core_open toy_cr (Some toy_keypair) false disk_empty with
     | (d0, _, Ok c0) =>
         match core_append toy_cr (Some true) toy_bs5 c0 (mkWorld d0 [] []) with
         | (c1, w1, Ok _) =>
             match core_clear toy_cr (Some true) 1 3 c1 (mkWorld (w_disk w1) [] []) with
             | (c2, w2, _) =>
                 let delta := journal_delta [] (w_journal w2) in
                 match apply_sops (w_disk w1) (firstn 3 delta), apply_sops (w_disk w1) (firstn 4 delta) with
                 | Some dk3, Some dk12 =>
                     fbit (d_bitfield dk3) 1 = false /\
                     snd (fst (core_open toy_cr None true dk12)) = [ST Oplog ENTRIES_OFFSET]
                 | _, _ => False
                 end
             end
         | _ => False
         end
     | _ => False
     end) by (vm_compute; split; reflexivity).
  rewrite Ho in Hcomp.
  apply FInv_YInv in D.
  assert (Hsk0 : kp_secret (c_keypair c0) = Some (repeat 2 32%nat)) by (rewrite K; reflexivity).
  destruct (core_append toy_cr (Some true) toy_bs5 c0 (mkWorld d0 [] [])) as [[c1 w1] r1] eqn:E1.
  destruct r1 as [x1| | |]; try contradiction.
  destruct (append_YInv toy_cr toy_crc_ok' toy_hash32 toy_nonblank toy_hashbytes toy_sig64 toy_sigbytes
              (Some true) toy_bs5 c0 d0 [] [] [] (fun _ => false) (repeat 2 32%nat) c1 w1 (Ok x1) D Hsk0)
    as [Hp|(_ & X1 & K1)]; [vm_compute; discriminate|vm_compute; discriminate|exact E1|discriminate Hp|].
  cbn [app length] in X1. change (N.of_nat 0) with 0 in X1.
  assert (L1 : 1 < N.of_nat (length toy_bs5)) by (cbn [toy_bs5 length]; lia).
  destruct (clear_Y toy_cr toy_crc_ok' toy_hash32 toy_nonblank toy_hashbytes (Some true) c1 (w_disk w1) [] []
              toy_bs5 _ 1 3 X1 L1 ltac:(lia) ltac:(unfold u64_max; lia))
    as (c2 & d2 & delta & E2 & A2 & X2 & K2 & _ & C2).
  rewrite E2 in Hcomp. cbn [w_journal] in Hcomp. cbv zeta in Hcomp. rewrite journal_delta_spec in Hcomp.
  destruct (C2 3%nat) as (dk3 & A3 & XD3). destruct (C2 4%nat) as (dk12 & A12 & XD12).
  rewrite A3, A12 in Hcomp. destruct Hcomp as [Hbit Hops].
  cbn [Nat.ltb Nat.leb] in XD3, XD12.
  destruct (reopen_Y toy_cr toy_crc_ok' toy_hash32 toy_nonblank toy_hashbytes (c_keypair c1) dk12 _ _ XD12)
    as (ck & dk' & ops & Eo & _).
  rewrite Eo in Hops. cbn [fst snd] in Hops. subst ops.
  exists (c_keypair c1), (cl_clear (cl_mask (fun _ => false) 0) 1 3), dk3, dk12, dk', ck.
  split; [exact XD3|]. split; [exact Hbit|]. split; [reflexivity|]. split; [exact XD12|exact Eo].
Qed.

Print Assumptions history_crash_clear_correct.
Print Assumptions history_crash_clear_choice.
Print Assumptions fresh_history_crash_clear_correct.
Print Assumptions fresh_history_crash_clear_no_frame_panic.
Print Assumptions toy_history_crash_clear.
Print Assumptions toy_yops_wf.
Print Assumptions toy_crash_clear_instance.
Print Assumptions toy_every_cut_of_a_flushing_clear.
Print Assumptions toy_every_cut_of_a_truncating_clear.
Print Assumptions toy_YInv_state_met.
Print Assumptions toy_YDisk_states_met.

(* generated on every run by tools/srcfns.py from /repo/src/oplog/mod.rs and /repo/src/core.rs: small pure expressions of the
   crate as the source states them now, over the AST of FnDesc.v (None = not found in a recognisable form). FnTie.v proves that
   the model's functions are these expressions. *)
From HC Require Import FnDesc.
Local Open Scope string_scope.
Local Open Scope N_scope.

(* oplog/mod.rs: (((data_length << 2) | if header_bit { 1 } else { 0 }) | if partial_bit { 2 } else { 0 }) *)
Definition src_leader_word : option rexpr := Some (RBin OOr (RBin OOr (RBin OShl (RVar "data_length") (RLit 2)) (RIf (RVar "header_bit") (RLit 1) (RLit 0))) (RIf (RVar "partial_bit") (RLit 2) (RLit 0))).
(* oplog/mod.rs: ((3221225472 & data_length) != 0) *)
Definition src_leader_guard : option rexpr := Some (RBin ONe (RBin OAnd (RLit 3221225472) (RVar "data_length")) (RLit 0)).
(* oplog/mod.rs: (buffer.len() < 8) *)
Definition src_leader_min_len : option rexpr := Some (RBin OLt (RVar "buffer.len()") (RLit 8)).
(* oplog/mod.rs: (combined >> 2) *)
Definition src_leader_len : option rexpr := Some (RBin OShr (RVar "combined") (RLit 2)).
(* oplog/mod.rs: ((combined & 1) == 1) *)
Definition src_leader_header_bit : option rexpr := Some (RBin OEq (RBin OAnd (RVar "combined") (RLit 1)) (RLit 1)).
(* oplog/mod.rs: ((combined & 2) == 2) *)
Definition src_leader_partial_bit : option rexpr := Some (RBin OEq (RBin OAnd (RVar "combined") (RLit 2)) (RLit 2)).
(* oplog/mod.rs: (((combined >> 2) == 0) || (data_buff.len() < (combined >> 2))) *)
Definition src_leader_no_frame : option rexpr := Some (RBin OLOr (RBin OEq (RBin OShr (RVar "combined") (RLit 2)) (RLit 0)) (RBin OLt (RVar "data_buff.len()") (RBin OShr (RVar "combined") (RLit 2)))).
(* oplog/mod.rs: CRC_SIZE *)
Definition src_leader_zone_lo : option rexpr := Some (RVar "CRC_SIZE").
(* oplog/mod.rs: (LEADER_SIZE + (combined >> 2)) *)
Definition src_leader_zone_hi : option rexpr := Some (RBin OAdd (RVar "LEADER_SIZE") (RBin OShr (RVar "combined") (RLit 2))).
(* oplog/mod.rs: (self.header_bits[0] != self.header_bits[1]) *)
Definition src_current_bit : option rexpr := Some (RBin ONe (RVar "self.header_bits[0]") (RVar "self.header_bits[1]")).
(* oplog/mod.rs: (header_bits[0] != header_bits[1]) *)
Definition src_next_slot_cond : option rexpr := Some (RBin ONe (RVar "header_bits[0]") (RVar "header_bits[1]")).
(* oplog/mod.rs: 0 *)
Definition src_next_slot_then_slot : option rexpr := Some (RLit 0).
(* oplog/mod.rs: !header_bits[0] *)
Definition src_next_slot_then_bit : option rexpr := Some (RNot (RVar "header_bits[0]")).
(* oplog/mod.rs: HEADER_SIZE *)
Definition src_next_slot_else_slot : option rexpr := Some (RVar "HEADER_SIZE").
(* oplog/mod.rs: !header_bits[1] *)
Definition src_next_slot_else_bit : option rexpr := Some (RNot (RVar "header_bits[1]")).
(* core.rs: (bitfield_update.start + bitfield_update.length) *)
Definition src_contig_end : option rexpr := Some (RBin OAdd (RVar "bitfield_update.start") (RVar "bitfield_update.length")).
(* core.rs: (c > bitfield_update.start) *)
Definition src_contig_drop_cond : option rexpr := Some (RBin OGt (RVar "c") (RVar "bitfield_update.start")).
(* core.rs: bitfield_update.start *)
Definition src_contig_drop_value : option rexpr := Some (RVar "bitfield_update.start").
(* core.rs: ((c <= (bitfield_update.start + bitfield_update.length)) && (c >= bitfield_update.start)) *)
Definition src_contig_set_cond : option rexpr := Some (RBin OLAnd (RBin OLe (RVar "c") (RBin OAdd (RVar "bitfield_update.start") (RVar "bitfield_update.length"))) (RBin OGe (RVar "c") (RVar "bitfield_update.start"))).
(* core.rs: (bitfield_update.start + bitfield_update.length) *)
Definition src_contig_set_from : option rexpr := Some (RBin OAdd (RVar "bitfield_update.start") (RVar "bitfield_update.length")).
(* core.rs: ((self.skip_flush_count == 0) || (self.oplog.entries_byte_length >= MAX_OPLOG_ENTRIES_BYTE_SIZE)) *)
Definition src_flush_cond : option rexpr := Some (RBin OLOr (RBin OEq (RVar "self.skip_flush_count") (RLit 0)) (RBin OGe (RVar "self.oplog.entries_byte_length") (RVar "MAX_OPLOG_ENTRIES_BYTE_SIZE"))).
(* core.rs: 3 *)
Definition src_flush_skip_then : option rexpr := Some (RLit 3).
(* core.rs: (self.skip_flush_count - 1) *)
Definition src_flush_skip_else : option rexpr := Some (RBin OSub (RVar "self.skip_flush_count") (RLit 1)).
(* core.rs: 1 *)
Definition src_flush_result_then : option rexpr := Some (RLit 1).
(* core.rs: 0 *)
Definition src_flush_result_else : option rexpr := Some (RLit 0).

(* FixedWordsIndexTie.v — index_of(true) / last_index_of(true) of the word-level model return exactly
   Bitfield.bf_index_of_true / bf_last_index_of_true of the abstraction (via ClearRefine's characterisations). *)
From HC Require Import Base NMap Storage Bitfield BitfieldFacts FixedWords FixedWordsFacts FixedWordsDyn FixedWordsIndex ClearRefine.
From Coq Require Import List NArith Lia Bool.

Theorem dw_index_of_true_abs d pos :
  dyn_inv d -> dw_index_of d true pos = Ok (bf_index_of_true (dw_abs d) pos).
Proof.
  intros Hinv. destruct (dw_index_of_true_spec d pos Hinv) as (o & Ho & Hs). rewrite Ho. f_equal.
  symmetry. destruct o as [j|].
  - apply bf_index_of_true_some. exact Hs.
  - apply bf_index_of_true_none. exact Hs.
Qed.

Theorem dw_last_index_of_true_abs d pos :
  dyn_inv d -> dw_last_index_of d true pos = Ok (bf_last_index_of_true (dw_abs d) pos).
Proof.
  intros Hinv. destruct (dw_last_index_of_true_spec d pos Hinv) as (o & Ho & Hs). rewrite Ho. f_equal.
  symmetry. destruct o as [j|].
  - apply bf_last_index_of_true_some. exact Hs.
  - apply bf_last_index_of_true_none. exact Hs.
Qed.

Print Assumptions dw_index_of_true_abs.
Print Assumptions dw_last_index_of_true_abs.

(* FnTieLib.v — tactics and bit-arithmetic lemmas shared by FnTie.v (oplog functions, flush cadence: C06) and FnTieContig.v
   (update_contiguous_length: C08); split so that a changed expression fails the gate of the property it matters to only. *)
From HC Require Import Base Codec CodecFacts Crypto Storage Bitfield Oplog Merkle Core OplogFacts FnDesc SrcFns.
From Coq Require Import FMapPositive.
From Coq Require Import ZifyN ZifyNat ZifyBool Lia.
Ltac Zify.zify_post_hook ::= Z.div_mod_to_equations.
#[local] Arguments N.add : simpl never.
#[local] Arguments N.sub : simpl never.
#[local] Arguments N.mul : simpl never.
#[local] Arguments N.div : simpl never.
#[local] Arguments N.modulo : simpl never.
#[local] Arguments N.pow : simpl never.
#[local] Arguments N.eqb : simpl never.
#[local] Arguments N.ltb : simpl never.
#[local] Arguments N.leb : simpl never.
#[local] Arguments N.shiftl : simpl never.
#[local] Arguments N.shiftr : simpl never.
#[local] Arguments N.land : simpl never.
#[local] Arguments N.lor : simpl never.
#[local] Arguments N.odd : simpl never.
#[local] Arguments N.testbit : simpl never.
Local Open Scope string_scope.
Local Open Scope list_scope.
Local Open Scope N_scope.

(* ---------- evaluation of a concrete expression in an association-list environment ---------- *)

Ltac ev := cbn [reval rbin env_of String.eqb Ascii.eqb Bool.eqb fst snd].
Ltac ev_in H := cbn [reval rbin env_of String.eqb Ascii.eqb Bool.eqb fst snd] in H.

Lemma truthy_b2n b : truthy (N.b2n b) = b.
Proof. now destruct b. Qed.

Lemma b2n_truthy_bool n : n < 2 -> N.b2n (truthy n) = n.
Proof. intros H. unfold truthy. destruct (N.eqb_spec n 0) as [->|Hn]; cbn [negb N.b2n]; lia. Qed.

(* opens a tie: [None] is closed at once, [Some e] leaves the statement about e *)
Ltac open_tie := unfold tied_fn; cbv delta [src_leader_word src_leader_guard src_leader_min_len src_leader_len
  src_leader_header_bit src_leader_partial_bit src_leader_no_frame src_leader_zone_lo src_leader_zone_hi src_current_bit
  src_next_slot_cond src_next_slot_then_slot src_next_slot_then_bit src_next_slot_else_slot src_next_slot_else_bit
  src_contig_end src_contig_drop_cond src_contig_drop_value src_contig_set_cond src_contig_set_from
  src_flush_cond src_flush_skip_then src_flush_skip_else src_flush_result_then src_flush_result_else]; cbv beta iota.

(* decides a goal made of comparisons of linear terms under b2n / truthy / && / || / if *)
Ltac cmp_cases :=
  rewrite ?truthy_b2n;
  repeat match goal with
         | |- context [?a =? ?b] => destruct (N.eqb_spec a b)
         | |- context [?a <? ?b] => destruct (N.ltb_spec a b)
         | |- context [?a <=? ?b] => destruct (N.leb_spec a b)
         end;
  cbn [N.b2n negb andb orb truthy]; rewrite ?truthy_b2n; cbn [N.b2n negb andb orb]; try reflexivity; try lia.

(* ---------- bit arithmetic ---------- *)

Lemma testbit_small k i : k < 2 ^ i -> N.testbit k i = false.
Proof. intros H. rewrite N.testbit_eqb, N.div_small by exact H. reflexivity. Qed.

(* disjoint or = + : the low [s] bits of a << s are free *)
Lemma lor_shiftl_low a s k : k < 2 ^ s -> N.lor (N.shiftl a s) k = a * 2 ^ s + k.
Proof.
  intros Hk. rewrite <- N.shiftl_mul_pow2.
  assert (Hd : N.land (N.shiftl a s) k = 0).
  { apply N.bits_inj. intros i. rewrite N.land_spec, N.bits_0.
    destruct (N.ltb_spec i s) as [Hi|Hi].
    - rewrite N.shiftl_spec_low by exact Hi. reflexivity.
    - rewrite (testbit_small k i), andb_false_r; [reflexivity|].
      eapply N.lt_le_trans; [exact Hk|]. apply N.pow_le_mono_r; lia. }
  rewrite <- (N.lxor_lor _ _ Hd). symmetry. apply N.add_nocarry_lxor. exact Hd.
Qed.

Lemma land_pow2 a n : N.land a (2 ^ n) = if N.testbit a n then 2 ^ n else 0.
Proof.
  apply N.bits_inj. intros m. rewrite N.land_spec, N.pow2_bits_eqb.
  destruct (N.eqb_spec n m) as [->|Hnm].
  - destruct (N.testbit a m); [now rewrite N.pow2_bits_eqb, N.eqb_refl | now rewrite N.bits_0].
  - rewrite andb_false_r. destruct (N.testbit a n); [|now rewrite N.bits_0].
    rewrite N.pow2_bits_eqb. symmetry. now apply N.eqb_neq.
Qed.

Lemma land_1 a : N.land a 1 = N.b2n (N.odd a).
Proof. change 1 with (2 ^ 0) at 1. rewrite land_pow2, N.bit0_odd. now destruct (N.odd a). Qed.

Lemma land_2 a : N.land a 2 = 2 * N.b2n (N.odd (a / 2)).
Proof.
  change 2 with (2 ^ 1) at 1. rewrite land_pow2, N.testbit_odd, N.shiftr_div_pow2.
  change (2 ^ 1) with 2. now destruct (N.odd (a / 2)).
Qed.

Lemma shiftr_2 a : N.shiftr a 2 = a / 4.
Proof. rewrite N.shiftr_div_pow2. reflexivity. Qed.

Lemma shiftl_2 a : N.shiftl a 2 = a * 4.
Proof. rewrite N.shiftl_mul_pow2. reflexivity. Qed.

(* the two top bits of a u32: MASK = 3u32.rotate_right(2) = 3 << 30 *)
Lemma land_top2 n : n < 4294967296 -> (N.land 3221225472 n =? 0) = (n <? 1073741824).
Proof.
  intros Hn. change 3221225472 with (N.shiftl 3 30).
  destruct (N.ltb_spec n 1073741824) as [Hlt|Hge].
  - apply N.eqb_eq. apply N.bits_inj. intros i. rewrite N.land_spec, N.bits_0.
    destruct (N.ltb_spec i 30) as [Hi|Hi].
    + rewrite N.shiftl_spec_low by exact Hi. reflexivity.
    + rewrite (testbit_small n i), andb_false_r; [reflexivity|].
      eapply N.lt_le_trans; [exact Hlt|]. change 1073741824 with (2 ^ 30). apply N.pow_le_mono_r; lia.
  - apply N.eqb_neq. intros H0.
    assert (Hs : N.shiftr (N.land (N.shiftl 3 30) n) 30 = 0) by (rewrite H0; reflexivity).
    rewrite N.shiftr_land, N.shiftr_shiftl_l, N.sub_diag, N.shiftl_0_r in Hs by lia.
    change 3 with (N.ones 2) in Hs. rewrite N.land_comm, N.land_ones, N.shiftr_div_pow2 in Hs.
    change (2 ^ 30) with 1073741824 in Hs. change (2 ^ 2) with 4 in Hs. lia.
Qed.


(* HonestFaultEx.v -- non-vacuity of HonestFault.failed_honest_round / honest_fault_histories and of
   HonestTorn.honest_round_torn_recovers on the toy instance of SoundCore.v / AcceptAllEx.v / HonestApplyEx.v.
   Fault history (requests as in HonestCrashEx.v, none of the faulted ones in AcceptAllCore1.core_scope):
             1. seek to byte 4 + PARTIAL upgrade 0..3 (forced flush), storage operation 0 (the entry write) fails:
                I/O error, nothing written, reopen: nothing happened;
             2. the same request, operation 3 (a node write of the flush group) fails: I/O error, reopen: the upgrade
                IS committed, length 6;
             3. block 4, acknowledged;
             4. HASH request for the leaf 2 + seek to byte 1 with the fault position 5 beyond its journal (1 operation):
                nothing fails, the call answers Ok true;
             5. block 0 with a seek to byte 2, operation 1 (the entry write) fails after the data write: NOT committed;
             6. the same request, acknowledged. *)
From HC Require Import Base NMap Codec CodecFacts Crypto FlatTree Storage Bitfield Oplog Merkle Core.
From HC Require Import FlatTreeFacts Sound NoPanic TreeRef OffsetFacts CoreFacts Refine Replicate Replicate2 Replicate2Z Replicate2D Replicate2E.
From HC Require Import CrashCore3 Fault CrashClear4 FaultReplica.
From HC Require Import Unified1 SoundCoreLib SoundCore SoundCoreUp SoundCoreBU ReplicaDisk1 ReplicaDisk2 ReplicaDisk3 ReplicaDisk4 ReplicaDisk6.
From HC Require Import TornCoreA TornCoreB TornReplicaA TornReplicaB TornReplica.
From HC Require Import AcceptAll1 AcceptAll2 AcceptAll3 AcceptAll AcceptAllCore1 AcceptAllClo AcceptAllClo2 AcceptAllFlush AcceptAllCore2 AcceptAllCore3 AcceptAllHist AcceptAllEx.
From HC Require Import HonestApply1 HonestApply2 HonestApply3 HonestApply HonestApplyEx HonestCrash1 HonestCrash2 HonestCrashEx HonestFault HonestTorn.
From Coq Require Import FMapPositive ZifyN ZifyNat ZifyBool.
Ltac Zify.zify_post_hook ::= Z.div_mod_to_equations.
Arguments N.add : simpl never.
Arguments N.sub : simpl never.
Arguments N.mul : simpl never.
Arguments N.div : simpl never.
Arguments N.modulo : simpl never.
Arguments N.pow : simpl never.
Arguments N.eqb : simpl never.
Arguments N.ltb : simpl never.
Arguments N.leb : simpl never.
Arguments N.of_nat : simpl never.
Arguments N.to_nat : simpl never.
Arguments N.log2 : simpl never.

Definition hf_fault (f : option bool) (rq : request) (k : nat) : fevent :=
  FFault f rq scW_c (w_disk scW_w) (w_journal scW_w) (w_events scW_w) sc_blocks sc_sg k.

Definition hf_e1 := hf_fault (Some true) ha_rq1 0.
Definition hf_e2 := hf_fault (Some true) ha_rq1 3.
Definition hf_e3 := FC hc_e3.
Definition hf_e4 := hf_fault (Some false) ha_rq4 5.
Definition hf_e5 := hf_fault (Some false) ha_rq5 1.
Definition hf_e6 := FC hc_e6.
Definition hf_es : list fevent := [hf_e1; hf_e2; hf_e3; hf_e4; hf_e5; hf_e6].

Definition hf_s1 : option (core * world) := Eval vm_compute in fexec sc_cr scR_c scR_w hf_e1.
Definition hf1_c : core := Eval vm_compute in match hf_s1 with Some (c, _) => c | None => dummy_core end.
Definition hf1_w : world := Eval vm_compute in match hf_s1 with Some (_, w) => w | None => dummy_world end.
Lemma hf_exec1 : fexec sc_cr scR_c scR_w hf_e1 = Some (hf1_c, hf1_w).
Proof. vm_compute. reflexivity. Qed.

Definition hf_s2 : option (core * world) := Eval vm_compute in fexec sc_cr hf1_c hf1_w hf_e2.
Definition hf2_c : core := Eval vm_compute in match hf_s2 with Some (c, _) => c | None => dummy_core end.
Definition hf2_w : world := Eval vm_compute in match hf_s2 with Some (_, w) => w | None => dummy_world end.
Lemma hf_exec2 : fexec sc_cr hf1_c hf1_w hf_e2 = Some (hf2_c, hf2_w).
Proof. vm_compute. reflexivity. Qed.

Definition hf_s3 : option (core * world) := Eval vm_compute in fexec sc_cr hf2_c hf2_w hf_e3.
Definition hf3_c : core := Eval vm_compute in match hf_s3 with Some (c, _) => c | None => dummy_core end.
Definition hf3_w : world := Eval vm_compute in match hf_s3 with Some (_, w) => w | None => dummy_world end.
Lemma hf_exec3 : fexec sc_cr hf2_c hf2_w hf_e3 = Some (hf3_c, hf3_w).
Proof. vm_compute. reflexivity. Qed.

Definition hf_s4 : option (core * world) := Eval vm_compute in fexec sc_cr hf3_c hf3_w hf_e4.
Definition hf4_c : core := Eval vm_compute in match hf_s4 with Some (c, _) => c | None => dummy_core end.
Definition hf4_w : world := Eval vm_compute in match hf_s4 with Some (_, w) => w | None => dummy_world end.
Lemma hf_exec4 : fexec sc_cr hf3_c hf3_w hf_e4 = Some (hf4_c, hf4_w).
Proof. vm_compute. reflexivity. Qed.

Definition hf_s5 : option (core * world) := Eval vm_compute in fexec sc_cr hf4_c hf4_w hf_e5.
Definition hf5_c : core := Eval vm_compute in match hf_s5 with Some (c, _) => c | None => dummy_core end.
Definition hf5_w : world := Eval vm_compute in match hf_s5 with Some (_, w) => w | None => dummy_world end.
Lemma hf_exec5 : fexec sc_cr hf4_c hf4_w hf_e5 = Some (hf5_c, hf5_w).
Proof. vm_compute. reflexivity. Qed.

Definition hf_s6 : option (core * world) := Eval vm_compute in fexec sc_cr hf5_c hf5_w hf_e6.
Definition hf6_c : core := Eval vm_compute in match hf_s6 with Some (c, _) => c | None => dummy_core end.
Definition hf6_w : world := Eval vm_compute in match hf_s6 with Some (_, w) => w | None => dummy_world end.
Lemma hf_exec6 : fexec sc_cr hf5_c hf5_w hf_e6 = Some (hf6_c, hf6_w).
Proof. vm_compute. reflexivity. Qed.

(* what the faulty calls answer, computed: I/O error at the events 1, 2, 5; Ok true at event 4 *)
Definition hf_answer (f : option bool) (rq : request) (k : nat) (c : core) (w : world) : option (res bool * nat) :=
  match core_create_proof (rq_block rq) (rq_hash rq) (rq_seek rq) (rq_upgrade rq) scW_c scW_w with
  | (_, _, Ok (Some pf)) =>
      match core_apply_proof_E sc_cr (emit_lim (length (w_journal w) + k)) f pf c w with
      | (_, wk, r) => Some (r, (length (w_journal wk) - length (w_journal w))%nat)
      end
  | _ => None
  end.

Example hf_answers_computed :
  hf_answer (Some true) ha_rq1 0 scR_c scR_w = Some (Err IOErr, 0%nat) /\
  hf_answer (Some true) ha_rq1 3 hf1_c hf1_w = Some (Err IOErr, 3%nat) /\
  hf_answer (Some false) ha_rq4 5 hf3_c hf3_w = Some (Ok true, 1%nat) /\
  hf_answer (Some false) ha_rq5 1 hf4_c hf4_w = Some (Err IOErr, 1%nat).
Proof. vm_compute. repeat split. Qed.

Example hf_run_computed :
  frun sc_cr hf_es scR_c scR_w = Some (hf6_c, hf6_w) /\
  t_length (c_tree hf1_c) = 0 /\
  t_length (c_tree hf2_c) = 6 /\ t_byte_length (c_tree hf2_c) = 11 /\
  core_has hf3_c 4 = true /\
  required_node (c_tree hf4_c) (d_tree (w_disk hf4_w)) 2 = Ok (ref_at sc_cr sc_blocks 2) /\
  core_has hf5_c 0 = false /\ core_has hf6_c 0 = true /\ core_has hf6_c 4 = true /\ core_has hf6_c 1 = false /\
  snd (core_get 4 hf6_c hf6_w) = Ok (Some [9; 10]) /\ snd (core_get 0 hf6_c hf6_w) = Ok (Some [1; 2; 3]).
Proof. vm_compute. repeat split. Qed.

(* ---------- every request of the history is well formed for the state it is sent from ---------- *)

Ltac hf_arith := first [exact I | reflexivity | (vm_compute; reflexivity) | (vm_compute; discriminate)].

Lemma hf_pre1 : fpre sc_cr sc_blocks scR_c (w_disk scR_w) hf_e1.
Proof. exact ha_pre1. Qed.

Lemma hf_pre2 : fpre sc_cr sc_blocks hf1_c (w_disk hf1_w) hf_e2.
Proof.
  unfold fpre, hf_e2, hf_fault, as_crash, cpre, pre_all. cbv zeta.
  change (kp_public (c_keypair hf1_c)) with sc_key.
  split; [exact sc_writer_at|]. split; [hf_arith|]. split.
  { split; [cbn; repeat split; hf_arith|]. cbn. hf_arith. }
  apply guard_check_ok. vm_compute. reflexivity.
Qed.

Lemma hf_pre3 : fpre sc_cr sc_blocks hf2_c (w_disk hf2_w) hf_e3.
Proof.
  unfold fpre, hf_e3, hc_e3, hc_serve, as_crash, cpre, pre_all. cbv zeta.
  change (kp_public (c_keypair hf2_c)) with sc_key.
  split; [exact sc_writer_at|]. split; [hf_arith|]. split.
  { split; [exact I|].
    cbn [ha_rq3 rq_block rq_hash rq_seek rq_upgrade rb_index rb_nodes rq_target].
    unfold wf_node. cbv zeta. split; [hf_arith|]. left.
    split; [hf_arith|]. split; [hf_arith|]. split; [hf_arith|exact I]. }
  apply guard_check_ok. vm_compute. reflexivity.
Qed.

Lemma hf_pre4 : fpre sc_cr sc_blocks hf3_c (w_disk hf3_w) hf_e4.
Proof.
  unfold fpre, hf_e4, hf_fault, as_crash, cpre, pre_all. cbv zeta.
  change (kp_public (c_keypair hf3_c)) with sc_key.
  split; [exact sc_writer_at|]. split; [hf_arith|]. split.
  { split; [exact I|].
    cbn [ha_rq4 rq_block rq_hash rq_seek rq_upgrade rb_index rb_nodes rq_target].
    unfold wf_node. cbv zeta. split; [hf_arith|]. left.
    split; [hf_arith|]. split; [hf_arith|]. split; [hf_arith|].
    unfold seek_ok, seek_in_range. cbn [rs_bytes]. split; [hf_arith|]. left. hf_arith. }
  apply guard_check_ok. vm_compute. reflexivity.
Qed.

Lemma hf_pre5 : fpre sc_cr sc_blocks hf4_c (w_disk hf4_w) hf_e5.
Proof.
  unfold fpre, hf_e5, hf_fault, as_crash, cpre, pre_all. cbv zeta.
  change (kp_public (c_keypair hf4_c)) with sc_key.
  split; [exact sc_writer_at|]. split; [hf_arith|]. split.
  { split; [exact I|].
    cbn [ha_rq5 rq_block rq_hash rq_seek rq_upgrade rb_index rb_nodes rq_target].
    unfold wf_node. cbv zeta. split; [hf_arith|]. left.
    split; [hf_arith|]. split; [hf_arith|]. split; [hf_arith|].
    unfold seek_ok, seek_in_range. cbn [rs_bytes]. split; [hf_arith|]. left. hf_arith. }
  apply guard_check_ok. vm_compute. reflexivity.
Qed.

Lemma hf_pre6 : fpre sc_cr sc_blocks hf5_c (w_disk hf5_w) hf_e6.
Proof.
  unfold fpre, hf_e6, hc_e6, hc_serve, as_crash, cpre, pre_all. cbv zeta.
  change (kp_public (c_keypair hf5_c)) with sc_key.
  split; [exact sc_writer_at|]. split; [hf_arith|]. split.
  { split; [exact I|].
    cbn [ha_rq5 rq_block rq_hash rq_seek rq_upgrade rb_index rb_nodes rq_target].
    unfold wf_node. cbv zeta. split; [hf_arith|]. left.
    split; [hf_arith|]. split; [hf_arith|]. split; [hf_arith|].
    unfold seek_ok, seek_in_range. cbn [rs_bytes]. split; [hf_arith|]. left. hf_arith. }
  apply guard_check_ok. vm_compute. reflexivity.
Qed.

Lemma hf_hist : fhist sc_cr sc_blocks hf_es scR_c scR_w.
Proof.
  unfold hf_es. cbn [fhist]. split; [exact hf_pre1|].
  intros c1 w1 E1. rewrite hf_exec1 in E1. injection E1 as <- <-. split; [exact hf_pre2|].
  intros c2 w2 E2. rewrite hf_exec2 in E2. injection E2 as <- <-. split; [exact hf_pre3|].
  intros c3 w3 E3. rewrite hf_exec3 in E3. injection E3 as <- <-. split; [exact hf_pre4|].
  intros c4 w4 E4. rewrite hf_exec4 in E4. injection E4 as <- <-. split; [exact hf_pre5|].
  intros c5 w5 E5. rewrite hf_exec5 in E5. injection E5 as <- <-. split; [exact hf_pre6|].
  intros c6 w6 _. exact I.
Qed.

(* the history theorem applies to the instance *)
Example hf_fault_histories_applies :
  exists c' w',
    frun sc_cr hf_es scR_c scR_w = Some (c', w') /\
    RCInv sc_cr sc_blocks c' (w_disk w') (fheld_all (fun _ => false) hf_es) /\
    t_length (c_tree c') = 6 /\ t_byte_length (c_tree c') = prefix_size sc_blocks 6 /\
    core_has c' 4 = true /\ core_has c' 0 = true /\ core_has c' 1 = false /\
    (forall i j2 ev2, core_has c' i = true ->
       core_get i c' (mkWorld (w_disk w') j2 ev2) = (c', mkWorld (w_disk w') j2 ev2, Ok (Some (blk sc_blocks i)))).
Proof.
  destruct scR_w as [d0 j0 ev0] eqn:Ew.
  pose proof sc_R0_RCInv as RC. pose proof hf_hist as Hh. rewrite Ew in RC, Hh. cbn [w_disk] in RC.
  destruct (honest_fault_histories sc_cr sc_crc_ok sc_hash32 sc_nonblank sc_hashbytes sc_blocks sc_writer_fits hf_es
              scR_c d0 j0 ev0 (fun _ => false) RC Hh)
    as (c' & w' & Hrun & RC' & _ & Hl & Hb & _ & Hreq & _ & Hexact & Hget).
  exists c', w'. split; [exact Hrun|]. split; [exact RC'|].
  assert (El : t_length (c_tree c') = 6) by (rewrite Hl; vm_compute; reflexivity).
  split; [exact El|]. split; [rewrite <- El; exact Hb|].
  split; [apply Hreq; cbn; right; right; left; eexists; split; reflexivity|].
  split; [apply Hreq; cbn; do 5 right; left; eexists; split; reflexivity|].
  split; [rewrite Hexact; vm_compute; reflexivity|exact Hget].
Qed.

(* ---------- one round: hash of node 5 + PARTIAL upgrade 0..5 from the fresh replica, a fault at EVERY k ---------- *)

Example hf_round_fault_applies f j ev k :
  exists pf c' w' ops,
    core_create_proof None (Some (mkReqBlock 5 0)) None (Some (mkReqUpgrade 0 5)) scW_c scW_w = (scW_c, scW_w, Ok (Some pf)) /\
    core_apply_proof sc_cr f pf scR_c (mkWorld (w_disk scR_w) j ev) = (c', w', Ok true) /\
    w_journal w' = rev ops ++ j /\ (0 < length ops)%nat /\
    ((length ops <= k)%nat ->
     core_apply_proof_E sc_cr (emit_lim (length j + k)) f pf scR_c (mkWorld (w_disk scR_w) j ev) = (c', w', Ok true)) /\
    ((k < length ops)%nat ->
     exists ck wk,
       core_apply_proof_E sc_cr (emit_lim (length j + k)) f pf scR_c (mkWorld (w_disk scR_w) j ev) = (ck, wk, Err IOErr) /\
       w_journal wk = rev (firstn k ops) ++ j /\ w_events wk = ev /\
       exists c2 d2 rops,
         core_open sc_cr None true (w_disk wk) = (d2, rops, Ok c2) /\
         RCInv sc_cr sc_blocks c2 d2 (fun _ => false) /\
         t_length (c_tree c2) = (if (k <=? 0)%nat then 0 else 6)).
Proof.
  destruct ha_rqh_wf as [Hwf _].
  destruct (failed_honest_round sc_cr sc_crc_ok sc_hash32 sc_nonblank sc_hashbytes sc_blocks sc_writer_fits f
              scW_c (w_disk scW_w) sc_blocks sc_sg (w_journal scW_w) (w_events scW_w)
              scR_c (w_disk scR_w) j ev (fun _ => false) ha_rqh k sc_writer_at sc_R0_RCInv
              ltac:(vm_compute; discriminate) Hwf
              (guard_check_ok sc_cr sc_blocks scW_c (w_disk scW_w) scR_c (w_disk scR_w) ha_rqh ltac:(vm_compute; reflexivity)))
    as (pf & c' & w' & ops & Hc & Ha & Hj & Hlen & _ & _ & _ & Hbeyond & Hfault).
  exists pf, c', w', ops. split; [exact Hc|]. split; [exact Ha|]. split; [exact Hj|].
  split; [change (rq_commit_point ha_rqh) with 0%nat in Hlen; exact Hlen|]. split; [exact Hbeyond|].
  intros Hk. destruct (Hfault Hk) as (ck & wk & Ef & Jk & _ & Evk & c2 & d2 & rops & Eo & _ & Hcase).
  exists ck, wk. split; [exact Ef|]. split; [exact Jk|]. split; [exact Evk|].
  exists c2, d2, rops. split; [exact Eo|].
  change (rq_commit_point ha_rqh) with 0%nat in Hcase.
  destruct (k <=? 0)%nat; destruct Hcase as (RC2 & _ & L2); split; assumption.
Qed.

(* ---------- torn writes: the same round, torn at every byte of every write ---------- *)

Lemma scR_tree_ok : TreeOk (d_tree (w_disk scR_w)).
Proof. intros k Hk. exfalso. vm_compute in Hk. destruct k; discriminate Hk. Qed.

Example ht_round_torn_applies f j ev :
  exists pf c' w' delta,
    core_create_proof None (Some (mkReqBlock 5 0)) None (Some (mkReqUpgrade 0 5)) scW_c scW_w = (scW_c, scW_w, Ok (Some pf)) /\
    core_apply_proof sc_cr f pf scR_c (mkWorld (w_disk scR_w) j ev) = (c', w', Ok true) /\
    w_journal w' = rev delta ++ j /\ t_length (c_tree c') = 6 /\
    forall k s off data t, nth_error delta k = Some (SW s off data) -> (t < length data)%nat ->
      exists dk dkt,
        apply_sops (w_disk scR_w) (firstn k delta) = Some dk /\
        apply_sop dk (tear (SW s off data) t) = Some dkt /\
        (tear_safe sc_cr dk (SW s off data) t ->
         (if (k <=? 0)%nat
          then reopens_to sc_cr sc_blocks scR_c dkt (fun _ => false) 0
          else reopens_to sc_cr sc_blocks scR_c dkt (fun _ => false) 6) \/
         (s = Oplog /\ off < ENTRIES_OFFSET /\ Crash.collision sc_cr t)).
Proof.
  destruct ha_rqh_wf as [Hwf _].
  destruct (honest_round_torn_recovers sc_cr sc_crc_ok sc_hash32 sc_nonblank sc_hashbytes sc_blocks sc_writer_fits f
              scW_c (w_disk scW_w) sc_blocks sc_sg (w_journal scW_w) (w_events scW_w)
              scR_c (w_disk scR_w) j ev (fun _ => false) ha_rqh sc_writer_at sc_R0_RCInv scR_tree_ok
              ltac:(vm_compute; discriminate) Hwf
              (guard_check_ok sc_cr sc_blocks scW_c (w_disk scW_w) scR_c (w_disk scR_w) ha_rqh ltac:(vm_compute; reflexivity)))
    as (pf & c' & w' & delta & Hc & Ha & Hj & Hl & T).
  exists pf, c', w', delta. split; [exact Hc|]. split; [exact Ha|]. split; [exact Hj|]. split; [exact Hl|].
  intros k s off data t Hk Ht. destruct (T k s off data t Hk Ht) as (dk & dkt & Ak & At & Q).
  exists dk, dkt. split; [exact Ak|]. split; [exact At|]. exact Q.
Qed.

(* computed on the instance: the journal of that round with a forced flush; its entry write torn after 100 bytes
   reopens to the empty replica, its third operation (a node write) torn after 17 bytes to the length 6 *)
Definition ht_torn_len (k t : nat) : option N :=
  match core_create_proof None (Some (mkReqBlock 5 0)) None (Some (mkReqUpgrade 0 5)) scW_c scW_w with
  | (_, _, Ok (Some pf)) =>
      match core_apply_proof sc_cr (Some true) pf scR_c scR_w with
      | (_, w', Ok true) =>
          let delta := journal_delta (w_journal scR_w) (w_journal w') in
          match apply_sops (w_disk scR_w) (firstn k delta), nth_error delta k with
          | Some dk, Some o =>
              match apply_sop dk (tear o t) with
              | Some dkt => match core_open sc_cr None true dkt with
                            | (_, _, Ok c'') => Some (t_length (c_tree c''))
                            | _ => None
                            end
              | None => None
              end
          | _, _ => None
          end
      | _ => None
      end
  | _ => None
  end.

Example ht_torn_computed :
  ht_torn_len 0 100 = Some 0 /\ ht_torn_len 2 17 = Some 6 /\ ht_torn_len 1 0 = Some 6.
Proof. vm_compute. repeat split. Qed.

Print Assumptions hf_answers_computed.
Print Assumptions hf_run_computed.
Print Assumptions hf_hist.
Print Assumptions hf_fault_histories_applies.
Print Assumptions hf_round_fault_applies.
Print Assumptions ht_round_torn_applies.
Print Assumptions ht_torn_computed.

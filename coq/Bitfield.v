(* Bitfield.v — the dynamic bitfield: set of held indices, dirty pages, page (de)serialisation.
   Mirrors: src/bitfield/dynamic.rs, src/bitfield/fixed.rs (32768-bit pages, 4096 little-endian
   bytes each; bit i of a page lives in byte i/8, bit i mod 8). Page allocation for all-false
   ranges is not represented (unobservable through the public API). *)
From HC Require Export Base NMap Storage.

Definition PAGE_BITS : N := 32768.
Definition PAGE_BYTES : N := 4096.

Record bitfield := mkBf { bf_bits : nmap unit; bf_dirty : list N }.
Definition bf_empty : bitfield := mkBf nm_empty [].

Definition bf_get (b : bitfield) (i : N) : bool := nm_mem i (bf_bits b).

Fixpoint bits_set (m : nmap unit) (i : N) (n : nat) (v : bool) : nmap unit :=
  match n with
  | O => m
  | S k => bits_set (if v then nm_set i tt m else nm_del i m) (i + 1) k v
  end.

(* does some bit in [i, i+n) differ from v ? *)
Fixpoint bits_differ (m : nmap unit) (i : N) (n : nat) (v : bool) : bool :=
  match n with
  | O => false
  | S k => xorb (nm_mem i m) v || bits_differ m (i + 1) k v
  end.

Definition mem_N (x : N) (l : list N) : bool := existsb (N.eqb x) l.

(* one loop iteration of DynamicBitfield::set_range per page touched *)
Fixpoint bf_set_pages (fuel : nat) (b : bitfield) (start length : N) (v : bool) : bitfield :=
  match fuel with
  | O => b
  | S f =>
      if length =? 0 then b
      else
        let p := start / PAGE_BITS in
        let j := start mod PAGE_BITS in
        let n := N.min length (PAGE_BITS - j) in
        let changed := bits_differ (bf_bits b) start (N.to_nat n) v in
        let bits' := bits_set (bf_bits b) start (N.to_nat n) v in
        let dirty' := if changed && negb (mem_N p (bf_dirty b)) then bf_dirty b ++ [p] else bf_dirty b in
        bf_set_pages f (mkBf bits' dirty') (start + n) (length - n) v
  end.

Definition bf_set_range (b : bitfield) (start length : N) (v : bool) : bitfield :=
  bf_set_pages (S (S (N.to_nat (length / PAGE_BITS)))) b start length v.

(* BitfieldUpdate *)
Record bf_update := mkBfUpdate { bu_drop : bool; bu_start : N; bu_length : N }.
Definition bf_apply (b : bitfield) (u : bf_update) : bitfield :=
  bf_set_range b (bu_start u) (bu_length u) (negb (bu_drop u)).

(* byte k of the whole bitfield file: bits 8k .. 8k+7 *)
Definition bits_byte (m : nmap unit) (k : N) : N :=
  let bit t := if nm_mem (8 * k + t) m then 2 ^ t else 0 in
  bit 0 + bit 1 + bit 2 + bit 3 + bit 4 + bit 5 + bit 6 + bit 7.

Definition page_bytes (m : nmap unit) (p : N) : bytes :=
  map (bits_byte m) (nrange (p * PAGE_BYTES) (N.to_nat PAGE_BYTES)).

(* flush: one 4096-byte write per dirty page, in first-dirtied order *)
Definition bf_flush (b : bitfield) : bitfield * list sop :=
  (mkBf (bf_bits b) [],
   map (fun p => SW Bitfield (p * PAGE_BYTES) (page_bytes (bf_bits b) p)) (bf_dirty b)).

Fixpoint byte_bits (m : nmap unit) (base : N) (byte : N) (t : nat) : nmap unit :=
  match t with
  | O => m
  | S k => byte_bits (if N.testbit byte 0 then nm_set base tt m else m) (base + 1) (byte / 2) k
  end.

Fixpoint load_bits (m : nmap unit) (k : N) (data : bytes) : nmap unit :=
  match data with
  | [] => m
  | b :: r => load_bits (if b =? 0 then m else byte_bits m (8 * k) b 8) (k + 1) r
  end.

(* open: the store content is read up to a multiple of 4 bytes *)
Definition bf_open (f : file) : bitfield :=
  let l := f_len f - (f_len f) mod 4 in
  match f_read f 0 l with
  | Some data => mkBf (load_bits nm_empty 0 data) []
  | None => bf_empty
  end.

(* first set index >= pos / last set index <= pos *)
Definition bf_index_of_true (b : bitfield) (pos : N) : option N :=
  fold_left (fun acc kv =>
               let i := fst kv in
               if pos <=? i then match acc with
                                 | Some a => Some (N.min a i)
                                 | None => Some i
                                 end
               else acc)
            (nm_elements (bf_bits b)) None.

Definition bf_last_index_of_true (b : bitfield) (pos : N) : option N :=
  fold_left (fun acc kv =>
               let i := fst kv in
               if i <=? pos then match acc with
                                 | Some a => Some (N.max a i)
                                 | None => Some i
                                 end
               else acc)
            (nm_elements (bf_bits b)) None.

(* the crate's `while bitfield.get(c) { c += 1 }`; fuelled by the number of set bits + 1 *)
Fixpoint bf_skip_set (fuel : nat) (b : bitfield) (c : N) : N :=
  match fuel with
  | O => c
  | S f => if bf_get b c then bf_skip_set f b (c + 1) else c
  end.

(* AcceptAllCore2.v -- C03 at the core level, part 2: the steps of core_apply_proof after the gates do not fail
   on an honest proof: the byte offset of the received block is computed (the replica's stored nodes are closed,
   so the descent to the stored node finds the left siblings), the entry is logged (frame guard), the tree
   is committed. *)
From HC Require Import Base NMap Codec CodecFacts Crypto FlatTree Storage Bitfield Oplog Merkle Core.
From HC Require Import FlatTreeFacts Sound NoPanic TreeRef OffsetFacts CoreFacts Refine Replicate Replicate2 Replicate2Z Replicate2D Replicate2E.
From HC Require Import Unified1 SoundCoreLib SoundCore SoundCoreUp SoundCoreBU ReplicaDisk1 ReplicaDisk2 ReplicaDisk3.
From HC Require Import AcceptAll1 AcceptAll2 AcceptAll3 AcceptAll AcceptAllCore1 AcceptAllClo.
From Coq Require Import FMapPositive ZifyN ZifyNat ZifyBool.
Ltac Zify.zify_post_hook ::= Z.div_mod_to_equations.
Arguments N.add : simpl never.
Arguments N.sub : simpl never.
Arguments N.mul : simpl never.
Arguments N.div : simpl never.
Arguments N.modulo : simpl never.
Arguments N.pow : simpl never.
Arguments N.eqb : simpl never.
Arguments N.ltb : simpl never.
Arguments N.leb : simpl never.
Arguments N.of_nat : simpl never.
Arguments N.to_nat : simpl never.
Arguments N.log2 : simpl never.

(* ====================================================================================== *)
(* 1. log_and_commit does not fail                                                          *)
(* ====================================================================================== *)

Section LogCommit.
  Variable cr : crypto.
  Hypothesis Hhash32 : forall x, length (cr_hash cr x) = 32%nat.
  Hypothesis Hnonblank : forall x, all_zero (cr_hash cr x) = false.

  Lemma log_and_commit_total cs bu c w :
    (cs_upgraded cs = true -> exists h s, cs_hash cs = Some h /\ cs_signature cs = Some s) ->
    (forall x, In x (cs_nodes cs) -> length (n_hash x) = 32%nat) ->
    commitable (c_tree c) cs = true ->
    (cs_upgraded cs = true -> cs_orig_length cs <= cs_ancestors cs) ->
    (forall e h b, entry_of_changeset cs bu (c_header c) = Ok (e, h) -> enc_entry e = Ok b -> len b < 1073741824) ->
    exists c2 w2, log_and_commit cr cs bu c w = (c2, w2, Ok tt).
  Proof.
    intros Hsig H32 Hcm Han Hfr.
    unfold log_and_commit. rewrite mbind_get_core, mbind_lift.
    assert (HE : exists e h1, entry_of_changeset cs bu (c_header c) = Ok (e, h1) /\ e_nodes e = cs_nodes cs /\
                              exists up, e = mkEntry (cs_nodes cs) up bu).
    { unfold entry_of_changeset. destruct (cs_upgraded cs) eqn:U.
      - destruct (Hsig eq_refl) as (h & s & -> & ->). eexists _, _. split; [reflexivity|]. split; [reflexivity|].
        eexists. reflexivity.
      - eexists _, _. split; [reflexivity|]. split; [reflexivity|]. eexists. reflexivity. }
    destruct HE as (e & h1 & EC & En & up & Ee). rewrite EC, mbind_lift.
    destruct (enc_entry_ok32 e ltac:(rewrite En; exact H32)) as [b Hb].
    destruct (oplog_append_ok cr Hhash32 Hnonblank (c_oplog c) e b Hb (Hfr e h1 b EC Hb)) as (fr & OA).
    rewrite OA. rewrite mbind_put_oplog, mbind_emit_SW, mbind_put_header.
    cbn [w_disk w_journal w_events c_keypair c_oplog c_tree c_bitfield c_header c_skip].
    assert (HT : exists t', tree_commit (c_tree c) cs = Ok t').
    { unfold tree_commit. rewrite Hcm. cbn [negb]. destruct (cs_upgraded cs) eqn:U; [|eexists; reflexivity].
      specialize (Han eq_refl). destruct (N.ltb_spec (cs_ancestors cs) (cs_orig_length cs)) as [L|_]; [lia|].
      eexists. reflexivity. }
    destruct HT as (t' & HT).
    destruct bu as [u|].
    - rewrite mbind_assoc, mbind_get_core. cbn [c_bitfield c_header].
      rewrite mbind_assoc, mbind_put_bitfield, mbind_put_header, mbind_get_core.
      cbn [c_keypair c_oplog c_tree c_bitfield c_header c_skip]. rewrite mbind_lift, HT.
      unfold put_tree. eexists _, _. reflexivity.
    - unfold ret at 1. unfold mbind at 1. rewrite mbind_get_core. cbn [c_tree]. rewrite mbind_lift, HT.
      unfold put_tree. eexists _, _. reflexivity.
  Qed.
End LogCommit.

(* ====================================================================================== *)
(* 2. closed stored nodes: the descent to a stored node finds every left sibling            *)
(* ====================================================================================== *)

Section ClosedReads.
  Variable cr : crypto.
  Variable bs : list bytes.
  Variable t : mtree.
  Variable tf : file.
  Variable r : N.
  Hypothesis Hclosed : ClosedR t tf.
  Hypothesis Hroots : t_roots t = ref_roots cr bs r.
  Hypothesis Hsound : forall j n, required_node t tf j = Ok n -> n = ref_at cr bs j /\ in_len r j.
  Hypothesis H64 : 2 * r <= u64_max.

  Lemma root_maximal d a :
    In (ft_index (N.of_nat d) a) (map n_index (t_roots t)) -> ~ (a / 2 + 1) * p2 (S d) <= r.
  Proof.
    intros Hin Hpar. rewrite Hroots, ref_roots_rrl, map_map in Hin.
    apply in_map_iff in Hin. destruct Hin as (x & Ex & Hx).
    unfold rn in Ex. rewrite ref_node_index in Ex. apply ft_index_inj in Ex. destruct Ex as [E1 E2].
    assert (fst x = d) by lia. destruct x as [dx ox]. cbn [fst snd] in *. subst dx ox.
    assert (Hr64 : r < p2 g64) by (rewrite p2_64; unfold u64_max in H64; lia).
    rewrite (roots_from_0 g64 r Hr64) in Hx.
    apply (maximal_roots_from 0 r g64 0 (pref_0 r) ltac:(lia) (d, a) Hx). cbn [fst snd]. split; [lia|exact Hpar].
  Qed.

  (* every ancestor of an available node that lies inside the tree is available *)
  Lemma closed_ancestors k o : navail t tf (ft_index (N.of_nat k) o) ->
    forall e, (o / p2 e + 1) * p2 (k + e) <= r -> navail t tf (ft_index (N.of_nat (k + e)) (o / p2 e)).
  Proof.
    intros Hp. induction e as [|e IH]; intros He.
    - rewrite p2_0, N.div_1_r, Nat.add_0_r. exact Hp.
    - assert (E : o / p2 (S e) = o / p2 e / 2).
      { rewrite p2_S, N.mul_comm, <- N.div_div; [reflexivity| |lia]. pose proof (p2_pos e). lia. }
      rewrite E in *. replace (k + S e)%nat with (S (k + e)) in * by lia.
      assert (Hin : (o / p2 e + 1) * p2 (k + e) <= r).
      { rewrite p2_S in He. pose proof (p2_pos (k + e)). nia. }
      specialize (IH Hin).
      destruct (Hclosed _ IH) as [Hr|[_ Hpar]].
      + exfalso. apply (root_maximal (k + e) (o / p2 e) Hr). exact He.
      + rewrite ft_parent_index in Hpar. replace (N.of_nat (k + e) + 1) with (N.of_nat (S (k + e))) in Hpar by lia.
        exact Hpar.
  Qed.

  Lemma closed_path_reads k o :
    navail t tf (ft_index (N.of_nat k) o) -> path_reads cr bs t tf r (o * p2 k).
  Proof.
    intros Hp d o' H1 H2 H3 H4. pose proof (p2_pos d) as Hpd. pose proof (p2_pos k) as Hpk.
    rewrite p2_S in H1, H2, H4.
    (* the node (S d, o') lies strictly above (k, o) *)
    assert (Hkd : (k <= d)%nat).
    { destruct (Nat.le_gt_cases k d) as [L|L]; [exact L|]. exfalso.
      assert (E : p2 k = p2 (k - S d) * (2 * p2 d)) by (rewrite <- p2_S, <- p2_add; f_equal; lia).
      pose proof (p2_pos (k - S d)) as Hq. set (q := p2 (k - S d)) in *. rewrite E in *.
      assert (o * q = o') by nia. nia. }
    set (e := (d - k)%nat).
    assert (Ed : p2 d = p2 e * p2 k) by (unfold e; rewrite <- p2_add; f_equal; lia).
    pose proof (p2_pos e) as Hpe.
    assert (Eo : o / p2 e = 2 * o' + 1).
    { symmetry. apply (N.div_unique o (p2 e) (2 * o' + 1) (o - (2 * o' + 1) * p2 e)); rewrite Ed in *; nia. }
    assert (Hy : navail t tf (ft_index (N.of_nat d) (2 * o' + 1))).
    { replace d with (k + e)%nat at 1 by (unfold e; lia). rewrite <- Eo. apply closed_ancestors; [exact Hp|].
      rewrite Eo. replace (k + e)%nat with d by (unfold e; lia). lia. }
    destruct (Hclosed _ Hy) as [Hr|[Hsib _]].
    - exfalso. apply (root_maximal d (2 * o' + 1) Hr). rewrite p2_S. replace ((2 * o' + 1) / 2) with o' by lia. lia.
    - rewrite ft_sibling_index in Hsib. unfold sib in Hsib.
      replace (N.even (2 * o' + 1)) with false in Hsib by (symmetry; rewrite FlatTreeFacts.even_mod; lia).
      replace (2 * o' + 1 - 1) with (2 * o') in Hsib by lia.
      destruct Hsib as (n & Hn). rewrite Hn. f_equal.
      destruct (Hsound _ _ Hn) as [-> _]. apply ref_at_index.
  Qed.
End ClosedReads.

(* ====================================================================================== *)
(* 3. the byte offset of the received block is computed                                     *)
(* ====================================================================================== *)

Lemma position_of_in idx : forall l k, In idx (map n_index l) -> exists r, position_of idx l k = Some r.
Proof.
  induction l as [|x l IH]; intros k H; [destruct H|]. cbn [position_of].
  destruct (N.eqb_spec (n_index x) idx) as [E|E]; [eauto|].
  destruct H as [H|H]; [contradiction|]. apply IH, H.
Qed.

Section OffsetTotal.
  Variable cr : crypto.
  Variable bs : list bytes.

  Lemma ref_parent_ge d a : n_length (ref_node cr bs d a) <= n_length (ref_node cr bs (S d) (a / 2)).
  Proof.
    cbn [ref_node]. unfold parent_node. cbn [n_length].
    destruct (N.even a) eqn:E; rewrite FlatTreeFacts.even_mod in E.
    - replace (2 * (a / 2)) with a by lia. lia.
    - replace (2 * (a / 2) + 1) with a by lia. lia.
  Qed.

  (* the walk over the changeset's nodes never fails when they are the writer's nodes; it ends on the last
     node matched, after which no node carries the index of that node's parent *)
  Lemma walk_total : forall nodes d a off isr par,
    Forall (is_ref cr bs) nodes ->
    (par = None \/ exists d0 a0, par = Some (ref_node cr bs d0 a0) /\ d = S d0 /\ a = a0 / 2) ->
    exists off' par',
      cs_path_walk nodes (it_at (N.of_nat d) a) off isr par = Ok (off', par') /\
      ((par' = par /\ forall n, In n nodes -> n_index n <> ft_index (N.of_nat d) a) \/
       exists l1 x l2, nodes = l1 ++ x :: l2 /\ par' = Some x /\
                       forall n, In n l2 -> n_index n <> ft_parent (n_index x)).
  Proof.
    induction nodes as [|n rest IH]; intros d a off isr par Href Hpar.
    - cbn [cs_path_walk]. exists off, par. split; [reflexivity|]. left. split; [reflexivity|intros n []].
    - inversion Href as [|? ? Hn Hrest]; subst. cbn [cs_path_walk].
      change (it_index (it_at (N.of_nat d) a)) with (ft_index (N.of_nat d) a).
      destruct (N.eqb_spec (n_index n) (ft_index (N.of_nat d) a)) as [E|E].
      + assert (En : n = ref_node cr bs d a) by (rewrite Hn, E; apply ref_at_index).
        assert (Hoff : exists off1, (if isr
                  then match par with
                       | Some p => d0 <- sub64 "node.length - parent.length" (n_length n) (n_length p) ;; Ok (off + d0)
                       | None => Ok off
                       end
                  else Ok off) = Ok off1).
        { destruct isr; [|eauto]. destruct Hpar as [->|(d0 & a0 & -> & -> & ->)]; [eauto|].
          unfold sub64. rewrite En. pose proof (ref_parent_ge d0 a0) as G.
          destruct (N.leb_spec (n_length (ref_node cr bs d0 a0)) (n_length (ref_node cr bs (S d0) (a0 / 2)))) as [_|L]; [|lia].
          cbn [bind]. eauto. }
        destruct Hoff as (off1 & ->). cbn [bind].
        rewrite it_parent_at. replace (N.of_nat d + 1) with (N.of_nat (S d)) by lia.
        destruct (IH (S d) (a / 2) off1 (it_is_right (it_at (N.of_nat d) a)) (Some n) Hrest) as (off' & par' & Hw & Hres).
        { right. exists d, a. rewrite En. auto. }
        exists off', par'. split; [exact Hw|]. right.
        destruct Hres as [[-> Hno]|(l1 & x & l2 & -> & -> & Hl2)].
        * exists [], n, rest. split; [reflexivity|]. split; [reflexivity|].
          intros m Hm. rewrite E, ft_parent_index. replace (N.of_nat d + 1) with (N.of_nat (S d)) by lia. apply Hno, Hm.
        * exists (n :: l1), x, l2. split; [reflexivity|]. split; [reflexivity|exact Hl2].
      + destruct (IH d a off isr par Hrest Hpar) as (off' & par' & Hw & Hres).
        exists off', par'. split; [exact Hw|].
        destruct Hres as [[-> Hno]|(l1 & x & l2 & -> & -> & Hl2)].
        * left. split; [reflexivity|]. intros m [<-|Hm]; [exact E|apply Hno, Hm].
        * right. exists (n :: l1), x, l2. split; [reflexivity|]. split; [reflexivity|exact Hl2].
  Qed.

  Variable t : mtree.
  Variable tf : file.
  Variable r : N.
  Hypothesis Hclosed : ClosedR t tf.
  Hypothesis Hroots : t_roots t = ref_roots cr bs r.
  Hypothesis Hsound : forall j n, required_node t tf j = Ok n -> n = ref_at cr bs j /\ in_len r j.
  Hypothesis H64 : 2 * r <= u64_max.

  Theorem offset_total i cs :
    i * 2 <= u64_max ->
    Forall (is_ref cr bs) (cs_nodes cs) -> In (ref_node cr bs 0 i) (cs_nodes cs) ->
    (forall l1 x l2, cs_nodes cs = l1 ++ x :: l2 ->
       In (n_index x) (map n_index (cs_roots cs)) \/ navail t tf (n_index x) \/
       In (ft_parent (n_index x)) (map n_index l2)) ->
    exists off, byte_offset_in_changeset t tf i cs = Ok off.
  Proof.
    intros Hi Href Hleaf Hord. unfold byte_offset_in_changeset.
    destruct (t_length t =? i); [eauto|].
    rewrite NoPanic.mul64_ok by lia. cbn [bind]. rewrite it_new_leaf2. change (it_at 0 i) with (it_at (N.of_nat 0) i).
    destruct (walk_total (cs_nodes cs) 0 i 0 false None Href (or_introl eq_refl)) as (off' & par' & -> & Hres).
    cbn [bind].
    destruct Hres as [[-> Hno]|(l1 & x & l2 & El & -> & Hl2)].
    { exfalso. apply (Hno _ Hleaf). rewrite ref_node_index. reflexivity. }
    destruct (Hord l1 x l2 El) as [Hr|[Hav|Hlater]].
    - destruct (position_of_in (n_index x) (cs_roots cs) 0 Hr) as (k & ->). eauto.
    - destruct (position_of (n_index x) (cs_roots cs) 0); [eauto|].
      destruct Hav as (n & Hn). destruct (Hsound _ _ Hn) as [_ Hin].
      rewrite (nd_coord (n_index x)) in Hn, Hin |- *.
      set (d1 := nd_depth (n_index x)) in *. set (a1 := ft_offset (n_index x)) in *.
      apply in_len_index in Hin.
      rewrite (byte_offset_node cr bs t tf r d1 a1 Hroots); [cbn [bind]; eauto| |exact Hin|].
      + unfold u64_max in H64. change (2 ^ 63) with 9223372036854775808. lia.
      + apply (closed_path_reads cr bs t tf r Hclosed Hroots Hsound H64). exists n. exact Hn.
    - exfalso. apply in_map_iff in Hlater. destruct Hlater as (m & Em & Hm). apply (Hl2 m Hm Em).
  Qed.
End OffsetTotal.

Print Assumptions log_and_commit_total.
Print Assumptions closed_path_reads.
Print Assumptions offset_total.

(* TornCoreA.v — C07 over all four stores, part A: the stores under torn writes, the invariant YInv
   (XInv generalised to a partial last bitfield page, strengthened by the byte-sanity of the length
   fields of the tree store), and reopening.

   Why XInv is not enough.
   * Bitfield store: a torn page write that extends the file leaves a partial last page
     (f_len mod 4096 <> 0), so BfX fails.  Bitfield.bf_open (and DynamicBitfield::open /
     FixedBitfield::from_data in src/bitfield) read the store up to a multiple of 4 bytes and accept a
     partial last page; the 1..3 bytes after the last whole word are not read.  [rbit] = the bit as
     bf_open reads it; BfY = BfX without the whole-page clause, "set below kf" on readable bits, "clear at
     or above n" on all bytes of the file (unread bytes may become readable when the file grows).
   * Tree store: a flush may rewrite a node the on-disk header needs, with the same value.  A torn
     rewrite of the same 40 bytes changes nothing, provided the 8 length bytes on disk are real bytes
     (< 256) — in the model a file cell is an arbitrary N, so this must be an invariant: TreeOk. *)
From HC Require Import Base NMap Codec CodecFacts Crypto FlatTree Storage Bitfield Oplog Merkle Core.
From HC Require Import FlatTreeFacts StorageFacts BitfieldFacts OplogFacts TreeRef OffsetFacts CoreFacts Crash Refine Reopen.
From HC Require Import ContigBridge CrashCore1 CrashCore2.
From Coq Require Import FMapPositive ZifyN ZifyNat ZifyBool.
Ltac Zify.zify_post_hook ::= Z.div_mod_to_equations.
Arguments N.add : simpl never.
Arguments N.sub : simpl never.
Arguments N.mul : simpl never.
Arguments N.div : simpl never.
Arguments N.modulo : simpl never.
Arguments N.pow : simpl never.
Arguments N.eqb : simpl never.
Arguments N.ltb : simpl never.
Arguments N.leb : simpl never.
Arguments N.of_nat : simpl never.
Arguments N.to_nat : simpl never.
Arguments N.testbit : simpl never.
Arguments N.min : simpl never.
Arguments N.max : simpl never.

(* ====================================================================================== *)
(* A. The bitfield store with a partial last page                                          *)
(* ====================================================================================== *)

(* the number of bytes bf_open reads *)
Definition rlen (f : file) : N := f_len f - f_len f mod 4.

(* bit i of the store as bf_open reads it *)
Definition rbit (f : file) (i : N) : bool := (i / 8 <? rlen f) && fbit f i.

Lemma bf_open_rbit f i : bf_get (bf_open f) i = rbit f i.
Proof.
  unfold bf_open. fold (rlen f).
  assert (Hr : rlen f <= f_len f) by (unfold rlen; lia).
  rewrite f_read_some by lia.
  unfold bf_get. cbn [bf_bits]. rewrite load_bits_spec_gen, nm_mem_empty. cbn [orb].
  unfold len. rewrite map_length, nrange_length, N2Nat.id.
  unfold rbit, fbit, fbyte.
  destruct (N.ltb_spec (i / 8) (rlen f)) as [L|L].
  - assert ((8 * 0 <=? i) && (i <? 8 * (0 + rlen f)) = true) as -> by lia. cbn [andb].
    rewrite map_nrange_nth by lia.
    destruct (N.ltb_spec (i / 8) (f_len f)) as [L2|L2]; [|lia]. f_equal. f_equal. lia.
  - assert ((i <? 8 * (0 + rlen f)) = false) as -> by lia.
    rewrite andb_false_r. reflexivity.
Qed.

Lemma rbit_fbit f i : rbit f i = true -> fbit f i = true.
Proof. unfold rbit. intros H. apply andb_prop in H. tauto. Qed.

Lemma fbit_false_rbit f i : fbit f i = false -> rbit f i = false.
Proof. unfold rbit. intros ->. apply andb_false_r. Qed.

Lemma rbit_whole_pages f i : f_len f mod PAGE_BYTES = 0 -> rbit f i = fbit f i.
Proof.
  intros Hm. unfold rbit, rlen.
  assert (f_len f mod 4 = 0) as -> by (unfold PAGE_BYTES in Hm; lia). rewrite N.sub_0_r.
  destruct (N.ltb_spec (i / 8) (f_len f)) as [L|L]; [reflexivity|].
  cbn [andb]. unfold fbit, fbyte. destruct (N.ltb_spec (i / 8) (f_len f)); [lia|]. rewrite N.bits_0. reflexivity.
Qed.

(* bits below kf are set and readable; no bit at or above n is set anywhere in the file; [kf, n) is
   arbitrary; no condition on the length of the file *)
Definition BfY (f : file) (kf n : N) : Prop :=
  (forall i, i < kf -> rbit f i = true) /\ (forall i, n <= i -> fbit f i = false).

(* every bit on which memory and the readable store differ lies in a dirty page *)
Definition BfSyncY (f : file) (b : bitfield) : Prop :=
  forall i, bf_get b i <> rbit f i -> In (i / PAGE_BITS) (bf_dirty b).

Lemma BfX_BfY f kf n : BfX f kf n -> BfY f kf n.
Proof.
  intros (Hm & Hlo & Hhi). split; [|exact Hhi]. intros i Hi. rewrite rbit_whole_pages by exact Hm. apply Hlo, Hi.
Qed.

Lemma BfSync_BfSyncY f b : f_len f mod PAGE_BYTES = 0 -> BfSync f b -> BfSyncY f b.
Proof. intros Hm H i Hne. apply H. rewrite <- rbit_whole_pages by exact Hm. exact Hne. Qed.

Lemma BfY_weaken f kf n n' : BfY f kf n -> n <= n' -> BfY f kf n'.
Proof. intros (H2 & H3) Hle. split; [exact H2|]. intros i Hi. apply H3. lia. Qed.

Lemma BfSyncY_apply f b u : BfSyncY f b -> BfSyncY f (bf_apply b u).
Proof.
  intros H i Hne. unfold bf_apply in *.
  destruct (Bool.bool_dec (bf_get (bf_set_range b (bu_start u) (bu_length u) (negb (bu_drop u))) i) (bf_get b i)) as [E|E].
  - apply bf_dirty_set_range_mono. apply H. rewrite <- E. exact Hne.
  - apply bf_dirty_set_range_sound. exact E.
Qed.

Lemma BfSyncY_fold f us : forall b, BfSyncY f b -> BfSyncY f (fold_left bf_apply us b).
Proof.
  induction us as [|u us IH]; intros b H; [exact H|]. cbn [fold_left]. apply IH, BfSyncY_apply, H.
Qed.

Lemma BfSyncY_open f : BfSyncY f (bf_open f).
Proof. intros i Hne. exfalso. apply Hne. apply bf_open_rbit. Qed.

(* a write whose bytes are the byte image of the memory bits: a whole page, or any prefix of one *)
Definition mem_image (m : nmap unit) (off : N) (data : bytes) : Prop :=
  forall j, (j < length data)%nat -> nth j data 0 = bits_byte m (off + N.of_nat j).

Lemma mem_image_page m p : mem_image m (p * PAGE_BYTES) (page_bytes m p).
Proof.
  intros j Hj. rewrite length_page_bytes in Hj. unfold page_bytes.
  rewrite nth_map_nrange by (unfold PAGE_BYTES; lia). reflexivity.
Qed.

Lemma mem_image_firstn m off data t : mem_image m off data -> mem_image m off (firstn t data).
Proof.
  intros H j Hj. rewrite firstn_length in Hj. rewrite nth_firstn_lt by lia. apply H. lia.
Qed.

Lemma fbit_write_image m f off data i :
  mem_image m off data ->
  fbit (f_write f off data) i =
  if (off <=? i / 8) && (i / 8 <? off + len data) then nm_mem i m else fbit f i.
Proof.
  intros Him. unfold fbit. rewrite fbyte_write.
  destruct ((off <=? i / 8) && (i / 8 <? off + len data)) eqn:E; [|reflexivity].
  rewrite Him by (unfold len in E; lia).
  replace (off + N.of_nat (N.to_nat (i / 8 - off))) with (i / 8) by lia.
  rewrite testbit_bits_byte by lia. f_equal. lia.
Qed.

Lemma rlen_mono f g : f_len f <= f_len g -> rlen f <= rlen g.
Proof. unfold rlen. lia. Qed.

Lemma BfY_write_image f off data b kf n :
  BfY f kf n -> kf <= n -> (forall i, bf_get b i = (i <? n)) -> mem_image (bf_bits b) off data ->
  BfY (f_write f off data) kf n.
Proof.
  intros (Hlo & Hhi) Hle Hb Him. split; intros i Hi.
  - pose proof (Hlo i Hi) as R. unfold rbit in R |- *. apply andb_prop in R as [R1 R2].
    apply andb_true_intro. split.
    + pose proof (rlen_mono f (f_write f off data) ltac:(rewrite f_write_len; lia)). lia.
    + rewrite (fbit_write_image _ _ _ _ _ Him).
      destruct ((off <=? i / 8) && (i / 8 <? off + len data)); [|exact R2].
      fold (bf_get b i). rewrite Hb. lia.
  - rewrite (fbit_write_image _ _ _ _ _ Him).
    destruct ((off <=? i / 8) && (i / 8 <? off + len data)); [|apply Hhi, Hi].
    fold (bf_get b i). rewrite Hb. lia.
Qed.

Lemma BfY_write_pages f b ps kf n :
  BfY f kf n -> kf <= n -> (forall i, bf_get b i = (i <? n)) ->
  BfY (write_pages f (bf_bits b) ps) kf n.
Proof.
  intros H Hle Hb. revert f H. induction ps as [|p ps IH]; intros f H; [exact H|].
  unfold write_pages. cbn [fold_left]. fold (write_pages (page_write (bf_bits b) f p) (bf_bits b) ps).
  apply IH. unfold page_write. apply (BfY_write_image f _ _ b kf n H Hle Hb). apply mem_image_page.
Qed.

(* a fully written page is readable *)
Lemma write_pages_len_ge m ps : forall f p, In p ps -> (p + 1) * PAGE_BYTES <= f_len (write_pages f m ps).
Proof.
  induction ps as [|q ps IH]; intros f p Hin; [destruct Hin|].
  unfold write_pages. cbn [fold_left]. fold (write_pages (page_write m f q) m ps).
  assert (Mono : forall g, f_len g <= f_len (write_pages g m ps)).
  { clear. induction ps as [|q ps IH]; intros g; [cbn; lia|].
    unfold write_pages. cbn [fold_left]. fold (write_pages (page_write m g q) m ps).
    specialize (IH (page_write m g q)). unfold page_write in IH at 1. rewrite f_write_len in IH. lia. }
  destruct Hin as [->|Hin]; [|apply IH, Hin].
  specialize (Mono (page_write m f p)). unfold page_write in Mono at 1.
  rewrite f_write_len, len_page_bytes in Mono. lia.
Qed.

Lemma write_pages_len_mono m ps : forall f, f_len f <= f_len (write_pages f m ps).
Proof.
  induction ps as [|q ps IH]; intros g; [cbn; lia|].
  unfold write_pages. cbn [fold_left]. fold (write_pages (page_write m g q) m ps).
  specialize (IH (page_write m g q)). unfold page_write in IH at 1. rewrite f_write_len in IH. lia.
Qed.

(* after flushing the dirty pages the readable store is the memory field, when memory is [0, n) *)
Lemma BfSyncY_flush f b kf n :
  BfSyncY f b -> BfY f kf n -> (forall i, bf_get b i = (i <? n)) ->
  let fb := write_pages f (bf_bits b) (bf_dirty b) in
  (forall i, rbit fb i = bf_get b i) /\ BfY fb n n.
Proof.
  intros Hsync (Hlo & Hhi) Hb fb.
  assert (Hf : forall i, fbit fb i = if in_dec N.eq_dec (i / PAGE_BITS) (bf_dirty b) then bf_get b i else fbit f i).
  { intros i. destruct (fbit_write_pages (bf_bits b) (bf_dirty b) f i) as [I1 I2].
    destruct (in_dec N.eq_dec (i / PAGE_BITS) (bf_dirty b)) as [Hin|Hnin]; [apply I1, Hin|apply I2, Hnin]. }
  assert (Hhi' : forall i, n <= i -> fbit fb i = false).
  { intros i Hi. rewrite Hf. destruct (in_dec N.eq_dec (i / PAGE_BITS) (bf_dirty b)); [rewrite Hb; lia|apply Hhi, Hi]. }
  assert (Hlo' : forall i, i < n -> rbit fb i = true).
  { intros i Hi. unfold rbit. apply andb_true_intro. rewrite Hf.
    destruct (in_dec N.eq_dec (i / PAGE_BITS) (bf_dirty b)) as [Hin|Hnin].
    - split; [|rewrite Hb; lia].
      pose proof (write_pages_len_ge (bf_bits b) (bf_dirty b) f _ Hin) as G. fold fb in G.
      unfold rlen. unfold PAGE_BITS, PAGE_BYTES in *. lia.
    - destruct (Bool.bool_dec (bf_get b i) (rbit f i)) as [E|E]; [|exfalso; apply Hnin, (Hsync i E)].
      rewrite Hb in E. assert (R : rbit f i = true) by (rewrite <- E; lia).
      unfold rbit in R. apply andb_prop in R as [R1 R2]. split; [|exact R2].
      pose proof (rlen_mono f fb (write_pages_len_mono _ _ f)). lia. }
  split; [|split; assumption].
  intros i. rewrite Hb. destruct (N.ltb_spec i n) as [L|L]; [apply Hlo', L|apply fbit_false_rbit, Hhi', L].
Qed.

(* ====================================================================================== *)
(* B. The tree store under torn node writes                                                *)
(* ====================================================================================== *)

(* the 8 length bytes of every 40-byte record of the tree store are bytes *)
Definition TreeOk (tf : file) : Prop :=
  forall k, k < f_len tf -> k mod NODE_SIZE < 8 -> f_byte tf k < 256.

Lemma TreeOk_empty : TreeOk file_empty.
Proof. intros k Hk. cbn [file_empty f_len] in Hk. lia. Qed.

Lemma nth_le_bytes_lt n : forall v j, nth j (le_bytes n v) 0 < 256.
Proof.
  induction n as [|n IH]; intros v j; cbn [le_bytes].
  - destruct j; cbn [nth]; lia.
  - destruct j; cbn [nth]; [lia|apply IH].
Qed.

Lemma length_node_to_bytes v : length (n_hash v) = 32%nat -> length (node_to_bytes v) = 40%nat.
Proof. intros H. unfold node_to_bytes. rewrite app_length, length_le_bytes, H. reflexivity. Qed.

(* a whole or torn node write keeps the tree store sane *)
Lemma TreeOk_node_write tf v t :
  TreeOk tf -> length (n_hash v) = 32%nat ->
  TreeOk (f_write tf (NODE_SIZE * n_index v) (firstn t (node_to_bytes v))).
Proof.
  intros Hok H32 k Hk Hm. rewrite f_write_len in Hk. rewrite f_write_byte.
  pose proof (length_node_to_bytes v H32) as L40.
  assert (Ld : len (firstn t (node_to_bytes v)) <= 40) by (unfold len; rewrite firstn_length; lia).
  destruct (N.leb_spec (NODE_SIZE * n_index v) k) as [A|A];
    destruct (N.ltb_spec k (NODE_SIZE * n_index v + len (firstn t (node_to_bytes v)))) as [B|B]; cbn [andb].
  - set (j := N.to_nat (k - NODE_SIZE * n_index v)).
    assert (Hj : (j < length (firstn t (node_to_bytes v)))%nat) by (unfold len in B; lia).
    rewrite firstn_length in Hj. rewrite nth_firstn_lt by lia.
    assert (Hj8 : (j < 8)%nat) by (unfold NODE_SIZE in *; lia).
    unfold node_to_bytes. rewrite app_nth1 by (rewrite length_le_bytes; exact Hj8). apply nth_le_bytes_lt.
  - destruct (N.leb_spec (f_len tf) k); cbn [andb]; [lia|]. apply Hok; assumption.
  - destruct (N.leb_spec (f_len tf) k); cbn [andb]; [lia|apply Hok; assumption].
  - destruct (N.leb_spec (f_len tf) k); cbn [andb]; [lia|apply Hok; assumption].
Qed.

Lemma TreeOk_write_nodes ws : forall tf,
  TreeOk tf -> (forall v, In v ws -> length (n_hash v) = 32%nat) -> TreeOk (write_nodes tf ws).
Proof.
  induction ws as [|v ws IH]; intros tf Hok H32; [exact Hok|].
  unfold write_nodes. cbn [fold_left].
  fold (write_nodes (f_write tf (NODE_SIZE * n_index v) (node_to_bytes v)) ws).
  apply IH; [|intros x Hx; apply H32; right; exact Hx].
  rewrite <- (firstn_all (node_to_bytes v)). apply TreeOk_node_write; [exact Hok|apply H32; left; reflexivity].
Qed.

Section TreeTorn.
  Variable cr : crypto.

  (* writing the first tt bytes of an unflushed node keeps every node the on-disk header needs: a node
     written at a needed index is the reference node, and the store already holds exactly its 40 bytes *)
  Lemma lookups_torn_node bs t tf0 tf v tt n kf :
    lookups cr t tf0 bs n -> unflushed_ok t -> kf <= n ->
    nm_get (n_index v) (t_unflushed t) = Some v ->
    TreeOk tf -> lookups cr tE tf bs kf ->
    lookups cr tE (f_write tf (NODE_SIZE * n_index v) (firstn tt (node_to_bytes v))) bs kf.
  Proof.
    intros Hl Hun Hle Hg Hok Hst d o Hfull.
    pose proof (Hst d o Hfull) as H. set (i := ft_index (N.of_nat d) o) in *.
    destruct (Hun _ _ Hg) as (_ & H32 & Hlen).
    pose proof (length_node_to_bytes v H32) as L40.
    unfold required_node, node_get in H |- *. cbn [tE t_unflushed] in H |- *. rewrite nm_get_empty in H |- *.
    unfold mul64 in H |- *. destruct (fits_u64 (NODE_SIZE * i)); [|discriminate H]. cbn [bind] in H |- *.
    destruct (f_read tf (NODE_SIZE * i) NODE_SIZE) as [data|] eqn:R; [|discriminate H].
    pose proof R as R'. apply f_read_spec in R' as (Rb & Rl & Rn).
    destruct (N.eq_dec (n_index v) i) as [E|E].
    - (* the same index: v is the reference node and the store holds its bytes *)
      rewrite E in *.
      pose proof (Hl d o ltac:(lia)) as Hreq. fold i in Hreq.
      unfold required_node, node_get in Hreq. rewrite Hg in Hreq.
      destruct (node_blank v) eqn:Bv; [discriminate Hreq|]. cbn [bind] in Hreq. injection Hreq as Hv.
      destruct (node_blank (node_from_bytes i data)) eqn:Bd; [discriminate H|]. cbn [bind] in H. injection H as Hd.
      assert (Edata : data = node_to_bytes v).
      { rewrite Hv, <- Hd. unfold node_to_bytes, node_from_bytes. cbn [n_length n_hash].
        rewrite <- (firstn_skipn 8 data) at 1. f_equal.
        assert (L8 : length (firstn 8 data) = 8%nat) by (rewrite firstn_length; unfold NODE_SIZE in Rl; lia).
        rewrite <- L8 at 2. symmetry. apply le_bytes_le_val.
        apply forallb_forall. intros x Hx. apply (In_nth _ _ 0) in Hx as (j & Hj & <-).
        rewrite L8 in Hj. rewrite nth_firstn_lt by exact Hj.
        specialize (Rn (N.of_nat j) ltac:(unfold NODE_SIZE; lia)). rewrite Nat2N.id in Rn. rewrite Rn.
        unfold byte_ok. apply N.ltb_lt. apply Hok; unfold NODE_SIZE in *; lia. }
      assert (R2 : f_read (f_write tf (NODE_SIZE * i) (firstn tt (node_to_bytes v))) (NODE_SIZE * i) NODE_SIZE = Some data).
      { apply f_read_spec. rewrite f_write_len. split; [lia|]. split; [exact Rl|].
        intros k Hk. rewrite f_write_byte, (Rn k Hk).
        assert (Ld : len (firstn tt (node_to_bytes v)) <= 40) by (unfold len; rewrite firstn_length; lia).
        destruct (N.leb_spec (NODE_SIZE * i) (NODE_SIZE * i + k)) as [A|A]; [|lia].
        destruct (N.ltb_spec (NODE_SIZE * i + k) (NODE_SIZE * i + len (firstn tt (node_to_bytes v)))) as [B|B]; cbn [andb].
        - unfold len in B. rewrite firstn_length in B. rewrite nth_firstn_lt by lia.
          rewrite <- Edata. rewrite <- (Rn k Hk). f_equal. lia.
        - destruct (N.leb_spec (f_len tf) (NODE_SIZE * i + k)); cbn [andb]; [lia|reflexivity]. }
      rewrite R2, Bd. cbn [bind]. rewrite Hd. reflexivity.
    - rewrite f_read_write_other, R; [exact H|exact Rb|].
      unfold len. rewrite firstn_length. unfold NODE_SIZE. lia.
  Qed.

  Lemma lookups_torn_after_nodes bs t tf ws v tt n kf :
    lookups cr t tf bs n -> unflushed_ok t -> kf <= n ->
    (forall x, In x ws -> nm_get (n_index x) (t_unflushed t) = Some x) ->
    nm_get (n_index v) (t_unflushed t) = Some v ->
    TreeOk tf -> lookups cr tE tf bs kf ->
    lookups cr tE (f_write (write_nodes tf ws) (NODE_SIZE * n_index v) (firstn tt (node_to_bytes v))) bs kf /\
    TreeOk (f_write (write_nodes tf ws) (NODE_SIZE * n_index v) (firstn tt (node_to_bytes v))).
  Proof.
    intros Hl Hun Hle Hws Hg Hok Hst.
    assert (H32 : forall x, In x ws -> length (n_hash x) = 32%nat).
    { intros x Hx. apply Hws in Hx. apply Hun in Hx. tauto. }
    assert (Ok1 : TreeOk (write_nodes tf ws)) by (apply TreeOk_write_nodes; assumption).
    split.
    - apply (lookups_torn_node bs t tf (write_nodes tf ws) v tt n kf); try assumption.
      apply (lookups_write_nodes cr bs t tf ws n kf); assumption.
    - apply TreeOk_node_write; [exact Ok1|]. apply Hun in Hg. tauto.
  Qed.
End TreeTorn.

(* ====================================================================================== *)
(* C. YDisk, YInv                                                                          *)
(* ====================================================================================== *)

Section Y.
  Variable cr : crypto.

  (* a disk as a crash — also one with a torn last write — may leave it *)
  Definition YDisk (kp : keypair) (d : disk) (bs : list bytes) : Prop :=
    let n := N.of_nat (length bs) in
    sumN (map len bs) <= u64_max /\ NODE_SIZE * (2 * n) <= u64_max /\
    (exists junk, f_content (d_data d) = concat bs ++ junk) /\
    TreeOk (d_tree d) /\
    exists s0 s1 body st0 st1 bits hf l kf,
      f_content (d_oplog d) = s0 ++ s1 ++ body /\
      OplX cr s0 s1 body st0 st1 bits hf l /\
      hdr_desc kp hf kf /\
      echain cr bs kf l n /\
      lookups cr tE (d_tree d) bs kf /\
      BfY (d_bitfield d) kf n.

  (* memory c and disk d between two calls *)
  Definition YInv (c : core) (d : disk) (bs : list bytes) : Prop :=
    let n := N.of_nat (length bs) in
    XW cr c d bs /\ TreeOk (d_tree d) /\
    exists s0 s1 body st0 st1 hf l kf,
      f_content (d_oplog d) = s0 ++ s1 ++ body /\
      good cr s0 s1 body st0 st1 (ol_bits (c_oplog c)) hf l /\
      ol_entries_len (c_oplog c) = N.of_nat (length l) /\
      ol_entries_bytes (c_oplog c) = entries_size l /\
      hdr_desc (c_keypair c) hf kf /\
      hdr_desc (c_keypair c) (c_header c) n /\
      echain cr bs kf l n /\
      lookups cr tE (d_tree d) bs kf /\
      BfY (d_bitfield d) kf n /\
      BfSyncY (d_bitfield d) (c_bitfield c).

  Lemma YInv_XW c d bs : YInv c d bs -> XW cr c d bs.
  Proof. intros [W _]. exact W. Qed.

  (* the invariant of CrashCore1 is the special case of whole bitfield pages *)
  Theorem XInv_YInv c d bs : XInv cr c d bs -> TreeOk (d_tree d) -> YInv c d bs.
  Proof.
    intros (W & s0 & s1 & body & st0 & st1 & hf & l & kf & Hcont & G & Hlen & Hbytes & Hhf & Hhc & Hch &
            Hstore & Hbx & Hsync) Hok.
    split; [exact W|]. split; [exact Hok|].
    exists s0, s1, body, st0, st1, hf, l, kf.
    repeat (split; [assumption|]).
    split; [apply BfX_BfY, Hbx|]. apply BfSync_BfSyncY; [apply Hbx|exact Hsync].
  Qed.

  Theorem XDisk_YDisk kp d bs : XDisk cr kp d bs -> TreeOk (d_tree d) -> YDisk kp d bs.
  Proof.
    intros (Hs & Hn & Hd & s0 & s1 & body & st0 & st1 & bits & hf & l & kf & Hcont & HO & Hhf & Hch & Hstore & Hbx) Hok.
    unfold YDisk. repeat (split; [assumption|]).
    exists s0, s1, body, st0, st1, bits, hf, l, kf. repeat (split; [assumption|]). apply BfX_BfY, Hbx.
  Qed.

  Theorem YInv_YDisk c d bs : YInv c d bs -> YDisk (c_keypair c) d bs.
  Proof.
    intros ((HL & HB & HF & HR & Hlook & Hun & Hbf & Hcg & Hd & Hs & Hn) & Hok &
            s0 & s1 & body & st0 & st1 & hf & l & kf & Hcont & G & Hlen & Hbytes & Hhf & Hhc & Hch &
            Hstore & Hbx & Hsync).
    unfold YDisk. split; [exact Hs|]. split; [exact Hn|]. split; [exact Hd|]. split; [exact Hok|].
    exists s0, s1, body, st0, st1, (ol_bits (c_oplog c)), hf, l, kf.
    split; [exact Hcont|]. split; [left; exact G|]. repeat (split; [assumption|]). exact Hbx.
  Qed.

  Hypothesis Hhash32 : forall x, length (cr_hash cr x) = 32%nat.
  Hypothesis Hnonblank : forall x, all_zero (cr_hash cr x) = false.

  Theorem YInv_observations c d bs : YInv c d bs -> obs_list c d bs.
  Proof.
    intros [W _]. split; [apply (X_info cr c d bs W)|]. split.
    - intros i. apply (X_has cr c d bs i W).
    - intros i j ev. apply (X_get cr Hhash32 Hnonblank c d bs j ev i W).
  Qed.
End Y.

(* ====================================================================================== *)
(* C'. Hygiene of the two header slots of the oplog store                                  *)
(* ====================================================================================== *)

(* the 4096 bytes of the oplog file at a slot offset *)
Definition slot_at (c : bytes) (off : N) : bytes := firstn SLOT (skipn (N.to_nat off) c).

Section Hygiene.
  Variable cr : crypto.
  Hypothesis Hcrc : crc_ok cr.

  Lemma slot_at_0 s0 s1 body : length s0 = SLOT -> slot_at (s0 ++ s1 ++ body) 0 = s0.
  Proof. intros L. unfold slot_at. change (N.to_nat 0) with 0%nat. cbn [skipn]. apply firstn_app_exact, L. Qed.

  Lemma slot_at_1 s0 s1 body : length s0 = SLOT -> length s1 = SLOT -> slot_at (s0 ++ s1 ++ body) HEADER_SIZE = s1.
  Proof.
    intros L0 L1. unfold slot_at. rewrite skipn_app_exact by exact L0. apply firstn_app_exact, L1.
  Qed.

  Lemma slot_at_w s0 s1 body bits :
    length s0 = SLOT -> length s1 = SLOT ->
    slot_at (s0 ++ s1 ++ body) (w_slot bits) = if w_slot bits =? 0 then s0 else s1.
  Proof.
    intros L0 L1. destruct (w_slot_cases bits) as [-> | ->].
    - change (0 =? 0) with true. cbv iota. apply slot_at_0, L0.
    - change (HEADER_SIZE =? 0) with false. cbv iota. apply slot_at_1; assumption.
  Qed.

  (* hygiene of the two header slots: a slot that does not validate is dead (no CRC field can make it
     valid).  True after creation (slot 1 is zero filled); kept by every whole write; lost only by a torn
     header slot write *)
  Definition hyg (c : bytes) : Prop :=
    forall off, off = 0 \/ off = HEADER_SIZE ->
      validate_leader cr (slot_at c off) = None -> slot_dead cr (slot_at c off).

  Lemma hyg_slots s0 s1 body :
    length s0 = SLOT -> length s1 = SLOT ->
    (hyg (s0 ++ s1 ++ body) <->
     (validate_leader cr s0 = None -> slot_dead cr s0) /\ (validate_leader cr s1 = None -> slot_dead cr s1)).
  Proof.
    intros L0 L1. unfold hyg. split.
    - intros H. split.
      + specialize (H 0 (or_introl eq_refl)). rewrite slot_at_0 in H by exact L0. exact H.
      + specialize (H HEADER_SIZE (or_intror eq_refl)). rewrite slot_at_1 in H by assumption. exact H.
    - intros [A B] off [-> | ->].
      + rewrite slot_at_0 by exact L0. exact A.
      + rewrite slot_at_1 by assumption. exact B.
  Qed.

  Lemma hyg_body s0 s1 body body' :
    length s0 = SLOT -> length s1 = SLOT -> hyg (s0 ++ s1 ++ body) -> hyg (s0 ++ s1 ++ body').
  Proof. intros L0 L1 H. apply hyg_slots; [exact L0|exact L1|]. apply (hyg_slots s0 s1 body L0 L1), H. Qed.

  Lemma hyg_header_write s0 s1 body body' bits hn fr pad :
    length s0 = SLOT -> length s1 = SLOT ->
    frame cr (w_bit bits) false (enc_header hn) = Ok fr -> (length (fr ++ pad) <= SLOT)%nat ->
    hyg (s0 ++ s1 ++ body) ->
    hyg (put0 (w_slot bits) (fr ++ pad) s0 ++ put1 (w_slot bits) (fr ++ pad) s1 ++ body').
  Proof.
    intros L0 L1 Hfr Hl H. apply (hyg_slots s0 s1 body L0 L1) in H as [A B].
    assert (V : forall s, length s = SLOT -> validate_leader cr (overlay (fr ++ pad) s) <> None).
    { intros s Ls E.
      destruct (slot_holds_leader cr _ hn (w_bit bits) Hcrc (overlay_slot_holds cr fr pad s hn (w_bit bits) Hfr Ls Hl))
        as [tail Ht]. rewrite Ht in E. discriminate E. }
    unfold put0, put1. destruct (w_slot bits =? 0).
    - apply hyg_slots; [rewrite overlay_length; [exact L0|lia]|exact L1|].
      split; [intros E; exfalso; exact (V s0 L0 E)|exact B].
    - apply hyg_slots; [exact L0|rewrite overlay_length; [exact L1|lia]|].
      split; [exact A|intros E; exfalso; exact (V s1 L1 E)].
  Qed.
End Hygiene.

(* ====================================================================================== *)
(* D. core_open from a crash disk                                                          *)
(* ====================================================================================== *)

Section ReopenY.
  Variable cr : crypto.
  Hypothesis Hcrc : crc_ok cr.
  Hypothesis Hhash32 : forall x, length (cr_hash cr x) = 32%nat.
  Hypothesis Hnonblank : forall x, all_zero (cr_hash cr x) = false.
  Hypothesis Hhashbytes : forall x, bytes_ok (cr_hash cr x) = true.

  Lemma open_tail_Y kp d bs s0 s1 body st0 st1 bits hf l kf ops :
    let n := N.of_nat (length bs) in
    sumN (map len bs) <= u64_max -> NODE_SIZE * (2 * n) <= u64_max ->
    (exists junk, f_content (d_data d) = concat bs ++ junk) ->
    TreeOk (d_tree d) ->
    f_content (d_oplog d) = s0 ++ s1 ++ body ->
    good cr s0 s1 body st0 st1 bits hf l ->
    hdr_desc kp hf kf -> echain cr bs kf l n ->
    lookups cr tE (d_tree d) bs kf -> BfY (d_bitfield d) kf n ->
    exists c', open_tail cr d (mkOpenOutcome (mkOplog bits (N.of_nat (length l)) (entries_size l)) hf ops l) = Ok c' /\
               YInv cr c' d bs /\ c_keypair c' = kp /\ c_skip c' = 0.
  Proof.
    intros n Hs Hn Hd Htok Hcont G Hhf Hch Hstore (Hlo & Hhi).
    unfold open_tail. cbn [oo_header oo_entries oo_oplog].
    pose proof Hhf as (Hok & Hkp & Hfk & Hln & Hcgf & Hrh & Hsg).
    destruct (tree_open_ref cr Hnonblank bs (d_tree d) (hd_tree hf) kf Hstore Hln Hsg) as [sg0 Hto].
    rewrite Hto. cbn [bind]. rewrite Hfk.
    set (t0 := mkTree (ref_roots cr bs kf) kf (prefix_size bs kf) 0 sg0 nm_empty).
    assert (R0 : RInvT cr bs (d_tree d) kp (t0, bf_open (d_bitfield d), hf) kf).
    { unfold RInvT, t0. cbn [t_length t_byte_length t_fork t_roots].
      split; [reflexivity|]. split; [reflexivity|]. split; [reflexivity|]. split; [reflexivity|].
      split. { intros dd o Hfull. rewrite <- (Hstore dd o Hfull). apply required_node_same_unflushed. reflexivity. }
      split. { intros i x H. cbn [t_unflushed] in H. rewrite nm_get_empty in H. discriminate H. }
      rewrite <- Hcgf, set_contig_id, Hcgf. exact Hhf. }
    assert (Hn64 : n <= u64_max) by (unfold NODE_SIZE in Hn; lia).
    destruct (replay_entries_okT cr Hhash32 Hnonblank Hhashbytes bs (d_tree d) kp l
                t0 (bf_open (d_bitfield d)) hf kf n Hs Hn64 R0 Hch) as (t' & b' & h' & Hrep & R').
    rewrite Hrep. cbn [bind].
    destruct R' as (HL' & HB' & HF' & HR' & Hlook' & Hun' & Hh').
    destruct (replay_bitfield cr bs (d_tree d) l t0 (bf_open (d_bitfield d)) hf t' b' h' kf n Hrep Hch Hcgf)
      as (Hbf' & Hcg' & Eb').
    { intros i Hi. rewrite bf_open_rbit. apply Hlo, Hi. }
    { intros i Hi. rewrite bf_open_rbit. apply fbit_false_rbit, Hhi, Hi. }
    rewrite <- Hcg', set_contig_id in Hh'. rewrite Hcg' in Hh'.
    pose proof Hh' as (Hok' & Hkp' & _).
    eexists. split; [reflexivity|].
    split; [|split; [exact Hkp'|reflexivity]].
    split.
    { unfold XW. cbn [c_tree c_bitfield c_header]. fold n.
      split; [exact HL'|]. split; [rewrite HB'; unfold n; apply prefix_size_all|].
      split; [exact HF'|]. split; [exact HR'|]. split; [exact Hlook'|]. split; [exact Hun'|].
      split; [exact Hbf'|]. split; [exact Hcg'|]. split; [exact Hd|]. split; [exact Hs|exact Hn]. }
    split; [exact Htok|].
    cbn [c_oplog c_keypair c_header c_bitfield ol_bits ol_entries_len ol_entries_bytes].
    fold n. rewrite Hkp'.
    exists s0, s1, body, st0, st1, hf, l, kf.
    split; [exact Hcont|]. split; [exact G|]. split; [reflexivity|]. split; [reflexivity|].
    split; [exact Hhf|]. split; [exact Hh'|]. split; [exact Hch|].
    split; [exact Hstore|]. split; [split; assumption|].
    rewrite Eb'. apply BfSyncY_fold, BfSyncY_open.
  Qed.

  (* the disk reopens to the invariant for bs, with key pair kp *)
  (* ... only the oplog store may change, and its header slots stay hygienic if they were *)
  Definition recovers (kp : keypair) (d : disk) (bs : list bytes) : Prop :=
    exists c' d' ops, core_open cr None true d = (d', ops, Ok c') /\
      YInv cr c' d' bs /\ c_keypair c' = kp /\ c_skip c' = 0 /\
      d_tree d' = d_tree d /\ d_data d' = d_data d /\ d_bitfield d' = d_bitfield d /\
      (hyg cr (f_content (d_oplog d)) -> hyg cr (f_content (d_oplog d'))).

  Theorem reopen_Y kp d bs :
    YDisk cr kp d bs ->
    exists c' d' ops, core_open cr None true d = (d', ops, Ok c') /\
      YInv cr c' d' bs /\ c_keypair c' = kp /\ c_skip c' = 0 /\
      d_tree d' = d_tree d /\ d_data d' = d_data d /\ d_bitfield d' = d_bitfield d /\
      (ops = [] /\ d' = d \/ ops = [ST Oplog ENTRIES_OFFSET]) /\
      (hyg cr (f_content (d_oplog d)) -> hyg cr (f_content (d_oplog d'))).
  Proof.
    intros (Hs & Hn & Hd & Htok & s0 & s1 & body & st0 & st1 & bits & hf & l & kf & Hcont & HO & Hhf & Hch & Hstore & Hbx).
    destruct (OplX_open cr Hcrc Hhash32 Hnonblank Hhashbytes s0 s1 body st0 st1 bits hf l HO) as (ops & Hopen & [(-> & G)|(-> & L0 & L1 & G)]).
    - rewrite <- Hcont in Hopen.
      rewrite (core_open_eq cr d _ d Hopen eq_refl). cbn [oo_ops].
      destruct (open_tail_Y kp d bs s0 s1 body st0 st1 bits hf l kf [] Hs Hn Hd Htok Hcont G Hhf Hch Hstore Hbx)
        as (c' & E & X & K & Sk).
      exists c', d, []. split; [rewrite E; reflexivity|].
      repeat (split; [assumption || reflexivity|]). split; [left; split; reflexivity|]. intros Hh; exact Hh.
    - rewrite <- Hcont in Hopen.
      set (d' := d_set d Oplog (f_truncate (d_oplog d) ENTRIES_OFFSET)).
      assert (Ha : apply_sops d [ST Oplog ENTRIES_OFFSET] = Some d') by reflexivity.
      rewrite (core_open_eq cr d _ d' Hopen Ha). cbn [oo_ops].
      assert (Hcont' : f_content (d_oplog d') = s0 ++ s1 ++ []).
      { unfold d'. destruct d as [ft fd fb fo]. cbn [d_set d_oplog] in *.
        rewrite f_content_truncate, Hcont. apply c_truncate_all_entries; assumption. }
      assert (Et : d_tree d' = d_tree d) by (destruct d; reflexivity).
      assert (Ed : d_data d' = d_data d) by (destruct d; reflexivity).
      assert (Eb : d_bitfield d' = d_bitfield d) by (destruct d; reflexivity).
      destruct (open_tail_Y kp d' bs s0 s1 [] st0 st1 bits hf l kf [ST Oplog ENTRIES_OFFSET] Hs Hn)
        as (c' & E & X & K & Sk); try (rewrite ?Et, ?Ed, ?Eb; assumption).
      exists c', d', [ST Oplog ENTRIES_OFFSET]. split; [rewrite E; reflexivity|].
      repeat (split; [assumption|]). split; [right; reflexivity|].
      rewrite Hcont, Hcont'. apply (hyg_body cr s0 s1 body [] L0 L1).
  Qed.

  Corollary YDisk_recovers kp d bs : YDisk cr kp d bs -> recovers kp d bs.
  Proof.
    intros H. destruct (reopen_Y kp d bs H) as (c' & d' & ops & E & X & K & S & T & D & B & _ & Hh).
    exists c', d', ops. repeat (split; [assumption|]). exact Hh.
  Qed.

  (* reopening a running state *)
  Corollary reopen_YInv c d bs :
    YInv cr c d bs ->
    exists c' d' ops, core_open cr None true d = (d', ops, Ok c') /\
      YInv cr c' d' bs /\ c_keypair c' = c_keypair c /\ d' = d /\ ops = [].
  Proof.
    intros X.
    pose proof X as (_ & _ & s0 & s1 & body & st0 & st1 & hf & l & kf & Hcont & G & _).
    destruct (reopen_Y (c_keypair c) d bs (YInv_YDisk cr c d bs X))
      as (c' & d' & ops & E & X' & K & _ & _ & _ & _ & [(-> & ->) | -> ] & _).
    - exists c', d, []. split; [exact E|]. split; [exact X'|]. split; [exact K|]. split; reflexivity.
    - exfalso. unfold core_open in E. cbv iota in E. rewrite Hcont in E.
      rewrite (good_open cr Hcrc _ _ _ _ _ _ _ _ G) in E. cbn [stable_result oo_ops apply_sops] in E.
      injection E as _ E _. discriminate E.
  Qed.
End ReopenY.

Print Assumptions bf_open_rbit.
Print Assumptions BfY_write_image.
Print Assumptions BfSyncY_flush.
Print Assumptions lookups_torn_node.
Print Assumptions XInv_YInv.
Print Assumptions YInv_YDisk.
Print Assumptions YInv_observations.
Print Assumptions hyg_header_write.
Print Assumptions open_tail_Y.
Print Assumptions reopen_Y.
Print Assumptions YDisk_recovers.
Print Assumptions reopen_YInv.

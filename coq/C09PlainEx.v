(* C09PlainEx.v -- non-vacuity of C09Plain.v on the toy instance sc_cr / sc_blocks (a writer with six blocks, a
   replica created from the 32-byte public key sc_key alone):
     sc_C09_plain_applies       every premise of C09_plain holds for the nine-call history of AnyProofCorEx (it contains
                                an accepted proof with hostile node sizes, a refused proof, make_read_only, an append
                                attempt), the proof AnyProofEx.any_proof (hash section + upgrade 0..5) and a request
                                "block 3 + upgrade 0..6"; the theorem gives "returns" for both
     sc_history_byte_length     after that history three STORED node sizes are not the writer's (7, 1, 2 instead of
                                1, 2, 1) but the byte length of the replica is the writer's prefix size *)
From HC Require Import Base NMap Codec CodecFacts Crypto FlatTree Storage Bitfield Oplog Merkle Core.
From HC Require Import FlatTreeFacts StorageFacts BitfieldFacts OplogFacts TreeRef OffsetFacts CoreFacts
                       Sound NoPanic Refine Replicate SoundCoreLib SoundCore SoundCoreUp SoundCoreBU
                       NoPanic2 EventsAvail ReplicaCor ReplicaCorA
                       AnyProofLib AnyProofUp AnyProof AnyProofEx AnyProofCorLib AnyProofCor AnyProofCorEx.
From HC Require Import FrameGuardLib FrameGuard FrameGuardHist C09Plain.
From Coq Require Import FMapPositive ZifyN ZifyNat ZifyBool.
Ltac Zify.zify_post_hook ::= Z.div_mod_to_equations.
Arguments N.add : simpl never.
Arguments N.sub : simpl never.
Arguments N.mul : simpl never.
Arguments N.div : simpl never.
Arguments N.modulo : simpl never.
Arguments N.pow : simpl never.
Arguments N.eqb : simpl never.
Arguments N.ltb : simpl never.
Arguments N.leb : simpl never.
Arguments N.of_nat : simpl never.
Arguments N.to_nat : simpl never.

Definition sc_kp : keypair := mkKeypair sc_key None.

Lemma sc_bytes : sumN (map len sc_blocks) < SIZE_LIMIT.
Proof. vm_compute. reflexivity. Qed.

Example sc_C09_plain_applies :
  match cor_pf1, cor_pfL, any_proof with
  | Some pf1, Some pfL, Some pfH =>
      (* the premises *)
      N.of_nat (length sc_blocks) < LIM /\ sumN (map len sc_blocks) < SIZE_LIMIT /\
      length (kp_public sc_kp) = 32%nat /\ kp_secret sc_kp = None /\
      Forall (any_op sc_cr) (cor_hist pf1 pfL) /\
      proof_wire pfH /\ proof_lim pfH /\ N.of_nat (proof_carried pfH) <= 2 ^ 23 /\
      N.of_nat (proof_carried pfH) <= MAX_PROOF_NODES /\
      request_lim (Some (mkReqBlock 3 0)) None (Some (mkReqUpgrade 0 6)) /\
      (* the conclusion *)
      exists d0 ops0 c0,
        core_open sc_cr (Some sc_kp) false disk_empty = (d0, ops0, Ok c0) /\
        forall j ev c1 w1 oks,
          run_ops sc_cr (cor_hist pf1 pfL) c0 (mkWorld d0 j ev) = (c1, w1, oks) ->
          (forall f c' w' r,
             core_apply_proof sc_cr f pfH c1 w1 = (c', w', r) ->
             returns r = true \/ some_collision sc_cr \/ forged_signature sc_cr sc_blocks (kp_public sc_kp)) /\
          (forall seek c2 w2 r,
             core_create_proof (Some (mkReqBlock 3 0)) None seek (Some (mkReqUpgrade 0 6)) c1 w1 = (c2, w2, r) ->
             (returns r = true /\ c2 = c1 /\ w_disk w2 = w_disk w1 /\ w_journal w2 = w_journal w1) \/
             some_collision sc_cr \/ forged_signature sc_cr sc_blocks (kp_public sc_kp))
  | _, _, _ => False
  end.
Proof.
  destruct cor_pf1 as [pf1|] eqn:Ep1; [|vm_compute in Ep1; discriminate Ep1].
  destruct cor_pfL as [pfL|] eqn:EpL; [|vm_compute in EpL; discriminate EpL].
  destruct any_proof as [pfH|] eqn:EpH; [|vm_compute in EpH; discriminate EpH].
  assert (Hshape : Forall (any_op sc_cr) (cor_hist pf1 pfL) /\ proof_okb pfH = true /\ proof_lim pfH /\
                   N.of_nat (proof_carried pfH) <= 2 ^ 23 /\ N.of_nat (proof_carried pfH) <= MAX_PROOF_NODES).
  { vm_compute in Ep1. injection Ep1 as <-. vm_compute in EpL. injection EpL as <-.
    vm_compute in EpH. injection EpH as <-.
    split; [unfold cor_hist; any_ops|]. split; [vm_compute; reflexivity|]. split; [|split; vm_compute; discriminate].
    unfold proof_lim. do 3 (split; [vm_compute; reflexivity|]).
    intros u' Hu'. cbn [p_upgrade] in Hu'. injection Hu' as <-. repeat split; vm_compute; reflexivity. }
  destruct Hshape as (Hops & Hok & Hlim & H23 & Hmax).
  pose proof (proof_okb_wire pfH Hok) as Hwire.
  assert (Hrq : request_lim (Some (mkReqBlock 3 0)) None (Some (mkReqUpgrade 0 6))) by (repeat split; vm_compute; reflexivity).
  split; [exact sc_lim|]. split; [exact sc_bytes|]. split; [reflexivity|]. split; [reflexivity|].
  split; [exact Hops|]. split; [exact Hwire|]. split; [exact Hlim|]. split; [exact H23|]. split; [exact Hmax|].
  split; [exact Hrq|].
  destruct (C09_plain sc_cr sc_hash32 sc_nonblank sc_blocks sc_lim sc_bytes sc_kp eq_refl eq_refl (cor_hist pf1 pfL) Hops)
    as (d0 & ops0 & c0 & Ho & HC).
  exists d0, ops0, c0. split; [exact Ho|]. intros j ev c1 w1 oks Hrun.
  destruct (HC j ev c1 w1 oks Hrun) as [HA HB]. split.
  - intros f c' w' r H. exact (HA f pfH c' w' r Hwire Hlim Hmax H).
  - intros seek c2 w2 r H. exact (HB _ _ seek _ c2 w2 r Hrq H).
Qed.

(* hostile sizes are stored, the byte length stays the writer's *)
Example sc_history_byte_length :
  match sc_R0, cor_pf1, cor_pfL with
  | Some (c, w), Some pf1, Some pfL =>
      let '(c1, w1, _) := run_ops sc_cr (cor_hist pf1 pfL) c w in
      map (fun j => option_map n_length (lone_node (Some (c1, w1)) j)) [4; 8; 10] = [Some 7; Some 1; Some 2] /\
      map (fun j => n_length (ref_at sc_cr sc_blocks j)) [4; 8; 10] = [1; 2; 1] /\
      t_length (c_tree c1) = 6 /\
      t_byte_length (c_tree c1) = prefix_size sc_blocks 6 /\ t_byte_length (c_tree c1) = 11 /\
      t_byte_length (c_tree c1) < SIZE_LIMIT
  | _, _, _ => False
  end.
Proof. vm_compute. repeat split; reflexivity. Qed.

Print Assumptions sc_C09_plain_applies.
Print Assumptions sc_history_byte_length.

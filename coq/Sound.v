(* Sound.v -- soundness of the Merkle-proof verifier, as reductions to hash collisions.
   No property of cr_hash / cr_verify is used anywhere: every security statement has the shape
   "accepted -> honest \/ here are two different byte strings with the same hash". *)
From HC Require Import Base Codec CodecFacts Crypto FlatTree Merkle.
From Coq Require Import ZifyN ZifyNat ZifyBool.
Ltac Zify.zify_post_hook ::= Z.div_mod_to_equations.
Arguments N.add : simpl never.
Arguments N.sub : simpl never.
Arguments N.mul : simpl never.
Arguments N.div : simpl never.
Arguments N.modulo : simpl never.
Arguments N.pow : simpl never.
Arguments N.eqb : simpl never.
Arguments N.ltb : simpl never.
Arguments N.leb : simpl never.

(* ---------- generic list / byte facts ---------- *)

Lemma app_inj_l {A} (a a' b b' : list A) :
  length a = length a' -> a ++ b = a' ++ b' -> a = a' /\ b = b'.
Proof.
  revert a'; induction a as [|x a IH]; intros [|x' a'] HL H; cbn [length app] in *; try discriminate.
  - auto.
  - injection H as -> H. injection HL as HL. destruct (IH a' HL H) as [-> ->]. auto.
Qed.

Lemma app_inj_r {A} (a a' b b' : list A) :
  length b = length b' -> a ++ b = a' ++ b' -> a = a' /\ b = b'.
Proof.
  intros HL H. apply app_inj_l; [|exact H].
  apply (f_equal (@length A)) in H. rewrite !app_length in H. lia.
Qed.

Lemma tag_app_inj (x y : N) (a b : bytes) : [x] ++ a = [y] ++ b -> x = y /\ a = b.
Proof. cbn [app]. intros [= -> ->]. auto. Qed.

Lemma pow_256_8 : 256 ^ N.of_nat 8 = 2 ^ 64.
Proof. vm_compute. reflexivity. Qed.

Lemma le_bytes8_inj v v' : v < 2 ^ 64 -> v' < 2 ^ 64 -> le_bytes 8 v = le_bytes 8 v' -> v = v'.
Proof.
  intros Hv Hv' H. rewrite <- pow_256_8 in Hv, Hv'.
  rewrite <- (le_val_le_bytes 8 v Hv), H. apply le_val_le_bytes; exact Hv'.
Qed.

Lemma bytes_eqb_eq a b : bytes_eqb a b = true <-> a = b.
Proof.
  revert b; induction a as [|x a IH]; intros [|y b]; cbn [bytes_eqb]; split; intros H;
    try discriminate; try reflexivity.
  - apply andb_true_iff in H. destruct H as [H1 H2]. apply N.eqb_eq in H1. apply IH in H2. now subst.
  - injection H as -> ->. apply andb_true_iff. split; [apply N.eqb_refl | now apply IH].
Qed.

Definition bytes_eq_dec (x y : bytes) : {x = y} + {x <> y} := list_eq_dec N.eq_dec x y.

(* the pair (left, right) that Hash::parent actually hashes *)
Definition ord_pair (a b : node) : node * node :=
  if n_index a <=? n_index b then (a, b) else (b, a).

Definition node_triple (n : node) : N * N * bytes := (n_index n, n_length n, n_hash n).

Lemma node_triple_inj a b : node_triple a = node_triple b -> a = b.
Proof. destruct a as [i l h], b as [i' l' h']. unfold node_triple; cbn [n_index n_length n_hash]. now intros [= -> -> ->]. Qed.

Lemma map_node_triple_inj l l' : map node_triple l = map node_triple l' -> l = l'.
Proof.
  revert l'; induction l as [|a l IH]; intros [|a' l'] H; cbn [map] in H; try discriminate; [reflexivity|].
  pose proof (f_equal (hd (node_triple a)) H) as H1. pose proof (f_equal (@tl _) H) as H2.
  cbn [hd tl] in H1, H2. apply node_triple_inj in H1. apply IH in H2. now subst.
Qed.

(* what is needed of a root for the tree hash layout to be parseable *)
Definition root_wf (n : node) : Prop :=
  length (n_hash n) = 32%nat /\ n_index n < 2 ^ 64 /\ n_length n < 2 ^ 64.

(* ====================================================================================== *)
(* A. preimage injectivity: pure byte reasoning                                            *)
(* ====================================================================================== *)

Lemma leaf_preimage_inj a b : leaf_preimage a = leaf_preimage b -> a = b.
Proof.
  unfold leaf_preimage. intros H. apply tag_app_inj in H. destruct H as [_ H].
  apply app_inj_l in H; [tauto | now rewrite !length_le_bytes].
Qed.

Lemma parent_preimage_ord a b :
  parent_preimage a b =
  [1] ++ le_bytes 8 (n_length (fst (ord_pair a b)) + n_length (snd (ord_pair a b)))
      ++ n_hash (fst (ord_pair a b)) ++ n_hash (snd (ord_pair a b)).
Proof. unfold parent_preimage, ord_pair. destruct (n_index a <=? n_index b); reflexivity. Qed.

Lemma parent_body_inj s s' hl hr hl' hr' :
  length hl = length hl' \/ length hr = length hr' ->
  [1] ++ le_bytes 8 s ++ hl ++ hr = [1] ++ le_bytes 8 s' ++ hl' ++ hr' ->
  le_bytes 8 s = le_bytes 8 s' /\ hl = hl' /\ hr = hr'.
Proof.
  intros HL H. apply tag_app_inj in H. destruct H as [_ H].
  apply app_inj_l in H; [|now rewrite !length_le_bytes]. destruct H as [H1 H2].
  split; [exact H1|]. destruct HL as [HL|HL]; [apply app_inj_l in H2 | apply app_inj_r in H2]; tauto.
Qed.

(* the general statement, up to the ordering done inside parent_preimage; the length of ONE of
   the two hash positions has to agree, the bound on the sums is needed only for the sums *)
Lemma parent_preimage_inj_gen a b a' b' :
  let l := fst (ord_pair a b) in let r := snd (ord_pair a b) in
  let l' := fst (ord_pair a' b') in let r' := snd (ord_pair a' b') in
  length (n_hash l) = length (n_hash l') \/ length (n_hash r) = length (n_hash r') ->
  parent_preimage a b = parent_preimage a' b' ->
  n_hash l = n_hash l' /\ n_hash r = n_hash r' /\
  (n_length l + n_length r < 2 ^ 64 -> n_length l' + n_length r' < 2 ^ 64 ->
   n_length l + n_length r = n_length l' + n_length r').
Proof.
  intros l r l' r' HL H. rewrite !parent_preimage_ord in H. fold l r l' r' in H.
  apply parent_body_inj in H; [|exact HL]. destruct H as (H1 & H2 & H3).
  repeat split; auto. intros B B'. now apply le_bytes8_inj.
Qed.

Lemma ord_pair_le a b : n_index a <= n_index b -> ord_pair a b = (a, b).
Proof. intros H. unfold ord_pair. destruct (n_index a <=? n_index b) eqn:E; [reflexivity | lia]. Qed.

Lemma parent_preimage_inj a b a' b' :
  length (n_hash a) = 32%nat -> length (n_hash b) = 32%nat ->
  length (n_hash a') = 32%nat -> length (n_hash b') = 32%nat ->
  n_index a < n_index b -> n_index a' < n_index b' ->
  n_length a + n_length b < 2 ^ 64 -> n_length a' + n_length b' < 2 ^ 64 ->
  parent_preimage a b = parent_preimage a' b' ->
  n_hash a = n_hash a' /\ n_hash b = n_hash b' /\
  n_length a + n_length b = n_length a' + n_length b'.
Proof.
  intros Ha Hb Ha' Hb' I I' B B' H.
  pose proof (parent_preimage_inj_gen a b a' b') as G. cbv zeta in G.
  rewrite (ord_pair_le a b), (ord_pair_le a' b') in G by lia. cbn [fst snd] in G.
  destruct G as (G1 & G2 & G3); [left; congruence | exact H |]. auto.
Qed.

(* the form used by the climb: both pairs carry the same indices, hence are ordered the same way;
   only the SECOND hashes need to have the same length, and no bound on the lengths is needed *)
Lemma parent_preimage_inj_same_idx a b a' b' :
  n_index a = n_index a' -> n_index b = n_index b' ->
  length (n_hash b) = length (n_hash b') ->
  parent_preimage a b = parent_preimage a' b' ->
  n_hash a = n_hash a' /\ n_hash b = n_hash b' /\
  (n_length a + n_length b < 2 ^ 64 -> n_length a' + n_length b' < 2 ^ 64 ->
   n_length a + n_length b = n_length a' + n_length b').
Proof.
  intros Ia Ib HL H.
  pose proof (parent_preimage_inj_gen a b a' b') as G. cbv zeta in G.
  unfold ord_pair in G. rewrite <- Ia, <- Ib in G.
  destruct (n_index a <=? n_index b); cbn [fst snd] in G.
  - destruct G as (G1 & G2 & G3); [right; exact HL | exact H |]. auto.
  - destruct G as (G1 & G2 & G3); [left; exact HL | exact H |].
    repeat split; auto. intros. rewrite (N.add_comm (n_length a)), (N.add_comm (n_length a')).
    apply G3; lia.
Qed.

Lemma leaf_parent_disjoint d a b rs :
  leaf_preimage d <> parent_preimage a b /\
  leaf_preimage d <> tree_preimage rs /\
  parent_preimage a b <> tree_preimage rs.
Proof.
  rewrite parent_preimage_ord. unfold leaf_preimage, tree_preimage.
  repeat split; intros H; apply tag_app_inj in H; destruct H as [H _]; discriminate H.
Qed.

Lemma length_root_item n : root_wf n -> length (root_item n) = 48%nat.
Proof.
  intros (H & _). unfold root_item. rewrite !app_length, !length_le_bytes, H. reflexivity.
Qed.

Lemma root_item_inj n n' rest rest' :
  root_wf n -> root_wf n' ->
  root_item n ++ rest = root_item n' ++ rest' -> node_triple n = node_triple n' /\ rest = rest'.
Proof.
  intros W W' H. pose proof W as (Wh & Wi & Wl). pose proof W' as (Wh' & Wi' & Wl').
  apply app_inj_l in H; [|now rewrite !length_root_item]. destruct H as [H ->].
  unfold root_item in H. apply app_inj_l in H; [|congruence]. destruct H as [H1 H].
  apply app_inj_l in H; [|now rewrite !length_le_bytes]. destruct H as [H2 H3].
  apply le_bytes8_inj in H2; auto. apply le_bytes8_inj in H3; auto.
  unfold node_triple. now rewrite H1, H2, H3.
Qed.

Lemma tree_preimage_inj rs rs' :
  Forall root_wf rs -> Forall root_wf rs' ->
  tree_preimage rs = tree_preimage rs' -> map node_triple rs = map node_triple rs'.
Proof.
  unfold tree_preimage. intros W W' H. apply tag_app_inj in H. destruct H as [_ H].
  revert rs' W' H. induction W as [|n rs Wn W IH]; intros rs' W' H.
  - destruct W' as [|n' rs' Wn' W']; [reflexivity|]. exfalso.
    cbn [map concat] in H. apply (f_equal (@length N)) in H.
    rewrite app_length, length_root_item in H by exact Wn'. cbn [length] in H. lia.
  - destruct W' as [|n' rs' Wn' W'].
    + exfalso. cbn [map concat] in H. apply (f_equal (@length N)) in H.
      rewrite app_length, length_root_item in H by exact Wn. cbn [length] in H. lia.
    + cbn [map concat] in H. apply root_item_inj in H; auto. destruct H as [H1 H2].
      cbn [map]. rewrite H1. f_equal. now apply IH.
Qed.

Corollary tree_preimage_inj_eq rs rs' :
  Forall root_wf rs -> Forall root_wf rs' -> tree_preimage rs = tree_preimage rs' -> rs = rs'.
Proof. intros. now apply map_node_triple_inj, tree_preimage_inj. Qed.

(* no premise on the length of the hashes is needed: the 16 trailing bytes have a fixed size *)
Lemma signable_inj_gen h l f h' l' f' :
  l < 2 ^ 64 -> f < 2 ^ 64 -> l' < 2 ^ 64 -> f' < 2 ^ 64 ->
  signable h l f = signable h' l' f' -> h = h' /\ l = l' /\ f = f'.
Proof.
  intros Bl Bf Bl' Bf' H. unfold signable in H. apply app_inv_head in H.
  apply app_inj_r in H; [|now rewrite !app_length, !length_le_bytes]. destruct H as [-> H].
  apply app_inj_l in H; [|now rewrite !length_le_bytes]. destruct H as [H1 H2].
  apply le_bytes8_inj in H1; auto. apply le_bytes8_inj in H2; auto.
Qed.

Lemma signable_inj h l f h' l' f' :
  length h = 32%nat -> length h' = 32%nat ->
  l < 2 ^ 64 -> f < 2 ^ 64 -> l' < 2 ^ 64 -> f' < 2 ^ 64 ->
  signable h l f = signable h' l' f' -> h = h' /\ l = l' /\ f = f'.
Proof. intros _ _. apply signable_inj_gen. Qed.

Section Sound.
  Variable cr : crypto.

  Definition collision (x y : bytes) : Prop := x <> y /\ cr_hash cr x = cr_hash cr y.
  Definition some_collision : Prop := exists x y, collision x y.

  Lemma hash_eq_cases x y : cr_hash cr x = cr_hash cr y -> x = y \/ some_collision.
  Proof.
    intros H. destruct (bytes_eq_dec x y) as [E|E]; [left; exact E|].
    right. exists x, y. split; assumption.
  Qed.

  Lemma leaf_hash_binds a b : leaf_hash cr a = leaf_hash cr b -> a = b \/ some_collision.
  Proof.
    unfold leaf_hash. intros H. apply hash_eq_cases in H. destruct H as [H|H]; [|right; exact H].
    left. now apply leaf_preimage_inj.
  Qed.

  Lemma parent_hash_binds a b a' b' :
    length (n_hash a) = 32%nat -> length (n_hash b) = 32%nat ->
    length (n_hash a') = 32%nat -> length (n_hash b') = 32%nat ->
    n_index a < n_index b -> n_index a' < n_index b' ->
    n_length a + n_length b < 2 ^ 64 -> n_length a' + n_length b' < 2 ^ 64 ->
    parent_hash cr a b = parent_hash cr a' b' ->
    (n_hash a = n_hash a' /\ n_hash b = n_hash b' /\
     n_length a + n_length b = n_length a' + n_length b') \/ some_collision.
  Proof.
    intros Ha Hb Ha' Hb' I I' B B' H. unfold parent_hash in H. apply hash_eq_cases in H.
    destruct H as [H|H]; [|right; exact H]. left. now apply parent_preimage_inj.
  Qed.

  Lemma parent_hash_binds_same_idx a b a' b' :
    n_index a = n_index a' -> n_index b = n_index b' ->
    length (n_hash b) = length (n_hash b') ->
    parent_hash cr a b = parent_hash cr a' b' ->
    (n_hash a = n_hash a' /\ n_hash b = n_hash b' /\
     (n_length a + n_length b < 2 ^ 64 -> n_length a' + n_length b' < 2 ^ 64 ->
      n_length a + n_length b = n_length a' + n_length b')) \/ some_collision.
  Proof.
    intros Ia Ib HL H. unfold parent_hash in H. apply hash_eq_cases in H.
    destruct H as [H|H]; [|right; exact H]. left. now apply parent_preimage_inj_same_idx.
  Qed.

  Lemma tree_hash_binds rs rs' :
    Forall root_wf rs -> Forall root_wf rs' ->
    tree_hash cr rs = tree_hash cr rs' ->
    map node_triple rs = map node_triple rs' \/ some_collision.
  Proof.
    intros W W' H. unfold tree_hash in H. apply hash_eq_cases in H.
    destruct H as [H|H]; [|right; exact H]. left. now apply tree_preimage_inj.
  Qed.

  (* ==================================================================================== *)
  (* B. the climb                                                                          *)
  (* ==================================================================================== *)

  (* the nodes still in the queue (the order in which q_shift hands them out does not matter) *)
  Definition q_list (q : nodeq) : list node :=
    q_nodes q ++ match q_extra q with Some e => [e] | None => [] end.

  Lemma q_length_list q : q_length q = N.of_nat (length (q_list q)).
  Proof.
    unfold q_length, q_list. rewrite app_length. destruct (q_extra q); cbn [length]; lia.
  Qed.

  Lemma q_shift_inv q i n q' :
    q_shift q i = Ok (n, q') ->
    n_index n = i /\ length (q_list q) = S (length (q_list q')) /\
    (forall P : node -> Prop, Forall P (q_list q) <-> P n /\ Forall P (q_list q')).
  Proof.
    destruct q as [ns e]. unfold q_shift, q_list. cbn [q_nodes q_extra].
    destruct e as [e|].
    - destruct (n_index e =? i) eqn:E.
      + intros [= <- <-]. cbn [q_nodes q_extra]. apply N.eqb_eq in E.
        split; [exact E|]. split; [rewrite !app_length; cbn [length]; lia|].
        intros P. rewrite app_nil_r. rewrite Forall_app. split.
        * intros [H1 H2]. inversion H2; subst. auto.
        * intros [H1 H2]. auto.
      + destruct ns as [|m r]; [discriminate|].
        destruct (n_index m =? i) eqn:E'; [|discriminate].
        intros [= <- <-]. cbn [q_nodes q_extra]. apply N.eqb_eq in E'.
        split; [exact E'|]. split; [reflexivity|].
        intros P. cbn [app]. split.
        * intros H. inversion H; subst. auto.
        * intros [H1 H2]. constructor; auto.
    - destruct ns as [|m r]; [discriminate|].
      destruct (n_index m =? i) eqn:E'; [|discriminate].
      intros [= <- <-]. cbn [q_nodes q_extra]. apply N.eqb_eq in E'.
      split; [exact E'|]. split; [reflexivity|].
      intros P. cbn [app]. split.
      + intros H. inversion H; subst. auto.
      + intros [H1 H2]. constructor; auto.
  Qed.

  (* T is consistent at iterator position it: the parent of it is the parent_node of it and its
     sibling *)
  Definition consistent_at (T : N -> node) (it : fiter) : Prop :=
    let s := it_sibling it in let p := it_parent s in
    n_hash (T (it_index p)) = parent_hash cr (T (it_index it)) (T (it_index s)) /\
    n_length (T (it_index p)) = n_length (T (it_index it)) + n_length (T (it_index s)) /\
    n_index (T (it_index it)) = it_index it /\ n_index (T (it_index s)) = it_index s /\
    it_index it <> it_index s.

  (* consistent on the whole upward path from it *)
  Inductive consistent_path (T : N -> node) : nat -> fiter -> Prop :=
  | cp_O it : consistent_path T O it
  | cp_S k it : consistent_at T it -> consistent_path T k (it_parent (it_sibling it)) ->
                consistent_path T (S k) it.

  (* the iterator after k levels *)
  Fixpoint it_up_n (k : nat) (it : fiter) : fiter :=
    match k with O => it | S k' => it_up_n k' (it_parent (it_sibling it)) end.

  (* the node carries the hash the writer's tree has at that index *)
  Definition agrees (T : N -> node) (n : node) : Prop := n_hash n = n_hash (T (n_index n)).

  Definition hash32 (n : node) : Prop := length (n_hash n) = 32%nat.

  Lemma climb_S f q it cur acc :
    climb cr (S f) q it cur acc =
    if q_length q =? 0 then Ok (cur, acc)
    else
      let s := it_sibling it in
      '(n, q') <- q_shift q (it_index s) ;;
      let p := it_parent s in
      l <- add64 "left.length + right.length" (n_length cur) (n_length n) ;;
      let pn := mkNode (it_index p) l (parent_hash cr cur n) in
      climb cr f q' p pn (acc ++ [n; pn]).
  Proof. reflexivity. Qed.

  (* everything the climb touches, in one induction *)
  Lemma climb_all_sound T :
    (forall i, hash32 (T i)) ->
    forall fuel q it cur acc root visited,
    Forall hash32 (q_list q) ->
    n_index cur = it_index it ->
    consistent_path T (length (q_list q)) it ->
    climb cr fuel q it cur acc = Ok (root, visited) ->
    n_index root = it_index (it_up_n (length (q_list q)) it) /\
    exists ext, visited = acc ++ ext /\
      (agrees T root ->
       (agrees T cur /\ Forall (agrees T) (q_list q) /\ Forall (agrees T) ext) \/ some_collision).
  Proof.
    intros HT. induction fuel as [|f IH]; intros q it cur acc root visited Hq Hi Hp H.
    - discriminate H.
    - rewrite climb_S in H. destruct (q_length q =? 0) eqn:E.
      + injection H as <- <-. apply N.eqb_eq in E. rewrite q_length_list in E.
        assert (E' : length (q_list q) = O) by lia.
        rewrite E'. cbn [it_up_n]. split; [exact Hi|].
        exists []. split; [now rewrite app_nil_r|]. intros A. left.
        apply length_zero_iff_nil in E'. rewrite E'. auto.
      + cbv zeta in H. apply bind_ok in H. destruct H as [[n q'] [Hs H]].
        apply bind_ok in H. destruct H as [l [_ H]].
        apply q_shift_inv in Hs. destruct Hs as (Hn & HL & HF).
        rewrite HL in Hp |- *. inversion Hp as [|k it0 Hat Hp' Ek Eit]; subst k it0.
        cbn [it_up_n].
        set (s := it_sibling it) in *. set (p := it_parent s) in *.
        set (pn := mkNode (it_index p) l (parent_hash cr cur n)) in *.
        apply HF in Hq. destruct Hq as [Hn32 Hq'].
        specialize (IH q' p pn (acc ++ [n; pn]) root visited Hq' eq_refl Hp' H).
        destruct IH as (IH1 & ext & -> & IH2).
        split; [exact IH1|].
        exists ([n; pn] ++ ext). split; [now rewrite app_assoc|].
        intros A. destruct (IH2 A) as [(Apn & Aq' & Aext)|C]; [|right; exact C].
        pose proof Apn as Apn0.
        unfold agrees in Apn. subst pn. cbn [n_hash n_index] in Apn.
        destruct Hat as (Hh & _ & I1 & I2 & _). fold s p in Hh, I1, I2.
        rewrite Hh in Apn.
        apply parent_hash_binds_same_idx in Apn.
        * destruct Apn as [(A1 & A2 & _)|C]; [|right; exact C]. left.
          assert (An : agrees T n) by (unfold agrees; now rewrite Hn).
          split; [unfold agrees; now rewrite Hi|].
          split; [apply HF; auto|].
          cbn [app]. constructor; [exact An|]. constructor; [exact Apn0 | exact Aext].
        * now rewrite Hi, I1.
        * now rewrite Hn, I2.
        * unfold hash32 in Hn32. rewrite Hn32. symmetry. apply HT.
  Qed.

  (* the statement asked for.  Compared with the sketch: no bound on any length and no premise
     on the hash of [cur] is needed (the length field is 8 bytes whatever its value, and the two
     hashes of a parent preimage are separated using the length of the sibling's hash alone) *)
  Theorem climb_sound T fuel q it cur acc root visited :
    (forall i, length (n_hash (T i)) = 32%nat) ->
    Forall (fun n => length (n_hash n) = 32%nat) (q_list q) ->
    n_index cur = it_index it ->
    consistent_path T (length (q_list q)) it ->
    climb cr fuel q it cur acc = Ok (root, visited) ->
    n_hash root = n_hash (T (n_index root)) ->
    n_hash cur = n_hash (T (it_index it)) \/ some_collision.
  Proof.
    intros HT Hq Hi Hp H A.
    destruct (climb_all_sound T HT fuel q it cur acc root visited Hq Hi Hp H) as (_ & ext & _ & S).
    destruct (S A) as [(A1 & _)|C]; [left|right; exact C].
    unfold agrees in A1. now rewrite Hi in A1.
  Qed.

  Theorem climb_root_index T fuel q it cur acc root visited :
    (forall i, length (n_hash (T i)) = 32%nat) ->
    Forall (fun n => length (n_hash n) = 32%nat) (q_list q) ->
    n_index cur = it_index it ->
    consistent_path T (length (q_list q)) it ->
    climb cr fuel q it cur acc = Ok (root, visited) ->
    n_index root = it_index (it_up_n (length (q_list q)) it).
  Proof.
    intros HT Hq Hi Hp H.
    now destruct (climb_all_sound T HT fuel q it cur acc root visited Hq Hi Hp H) as (R & _).
  Qed.

  (* every sibling taken from the queue, and every node the climb reports as visited (these are
     the nodes verify_tree pushes into the changeset), carries the writer's hash *)
  Theorem climb_siblings_sound T fuel q it cur acc root visited :
    (forall i, length (n_hash (T i)) = 32%nat) ->
    Forall (fun n => length (n_hash n) = 32%nat) (q_list q) ->
    n_index cur = it_index it ->
    consistent_path T (length (q_list q)) it ->
    climb cr fuel q it cur acc = Ok (root, visited) ->
    n_hash root = n_hash (T (n_index root)) ->
    n_index root = it_index (it_up_n (length (q_list q)) it) /\
    exists ext, visited = acc ++ ext /\
      ((Forall (fun n => n_hash n = n_hash (T (n_index n))) (q_list q) /\
        Forall (fun n => n_hash n = n_hash (T (n_index n))) ext) \/ some_collision).
  Proof.
    intros HT Hq Hi Hp H A.
    destruct (climb_all_sound T HT fuel q it cur acc root visited Hq Hi Hp H) as (R & ext & E & S).
    split; [exact R|]. exists ext. split; [exact E|].
    destruct (S A) as [(_ & A2 & A3)|C]; [left; split; assumption | right; exact C].
  Qed.

  (* ==================================================================================== *)
  (* C. block value / hash node soundness                                                  *)
  (* ==================================================================================== *)

  Lemma it_index_it_new i : it_index (it_new i) = i.
  Proof. unfold it_new. destruct (N.odd i); reflexivity. Qed.

  Lemma verify_tree_block_inv b oh c root c' :
    verify_tree cr (Some b) oh None c = Ok (root, c') ->
    exists r visited,
      root = Some r /\
      fits_u64 (db_index b * 2) = true /\
      climb cr (S (S (length (db_nodes b)))) (mkQ (db_nodes b) None) (it_new (2 * db_index b))
            (block_node cr (2 * db_index b) (db_value b))
            [block_node cr (2 * db_index b) (db_value b)] = Ok (r, visited) /\
      c' = cs_push_nodes c visited.
  Proof.
    unfold verify_tree, mul64. intros H.
    destruct (fits_u64 (db_index b * 2)) eqn:F; [|discriminate H].
    cbn [bind] in H. rewrite it_index_it_new in H.
    rewrite (N.mul_comm (db_index b) 2) in H.
    apply bind_ok in H. destruct H as [[r visited] [Hc H]].
    injection H as <- <-. exists r, visited. auto.
  Qed.

  Theorem block_value_sound T b oh c root c' v0 :
    (forall i, length (n_hash (T i)) = 32%nat) ->
    Forall (fun n => length (n_hash n) = 32%nat) (db_nodes b) ->
    consistent_path T (length (db_nodes b)) (it_new (2 * db_index b)) ->
    T (2 * db_index b) = block_node cr (2 * db_index b) v0 ->
    verify_tree cr (Some b) oh None c = Ok (Some root, c') ->
    n_hash root = n_hash (T (n_index root)) ->
    db_value b = v0 \/ some_collision.
  Proof.
    intros HT Hq Hp HT0 H A.
    apply verify_tree_block_inv in H. destruct H as (r & visited & [= <-] & _ & Hc & _).
    assert (QL : q_list (mkQ (db_nodes b) None) = db_nodes b)
      by (unfold q_list; cbn [q_nodes q_extra]; apply app_nil_r).
    eapply climb_sound in Hc; try eassumption.
    - destruct Hc as [Hc|C]; [|right; exact C].
      rewrite it_index_it_new, HT0 in Hc. cbn [block_node n_hash] in Hc.
      now apply leaf_hash_binds.
    - now rewrite QL.
    - cbn [block_node n_index]. now rewrite it_index_it_new.
    - now rewrite QL.
  Qed.

  Lemma verify_tree_hash_inv h c root c' :
    verify_tree cr None (Some h) None c = Ok (root, c') ->
    exists n rest r visited,
      root = Some r /\ dh_nodes h = n :: rest /\ n_index n = dh_index h /\
      climb cr (S (S (length (dh_nodes h)))) (mkQ rest None) (it_new (dh_index h)) n [n]
        = Ok (r, visited) /\
      c' = cs_push_nodes c visited.
  Proof.
    unfold verify_tree. cbn [bind]. intros H. rewrite it_index_it_new in H.
    apply bind_ok in H. destruct H as [[n q] [Hs H]].
    apply bind_ok in H. destruct H as [[r visited] [Hc H]].
    injection H as <- <-.
    unfold q_shift in Hs. cbn [q_nodes q_extra] in Hs.
    destruct (dh_nodes h) as [|m rest] eqn:E; [discriminate Hs|].
    destruct (n_index m =? dh_index h) eqn:E'; [|discriminate Hs].
    injection Hs as <- <-. apply N.eqb_eq in E'.
    exists m, rest, r, visited. auto.
  Qed.

  Theorem hash_node_sound T h c root c' :
    (forall i, length (n_hash (T i)) = 32%nat) ->
    Forall (fun n => length (n_hash n) = 32%nat) (dh_nodes h) ->
    consistent_path T (pred (length (dh_nodes h))) (it_new (dh_index h)) ->
    verify_tree cr None (Some h) None c = Ok (Some root, c') ->
    n_hash root = n_hash (T (n_index root)) ->
    exists n rest, dh_nodes h = n :: rest /\ n_index n = dh_index h /\
      (n_hash n = n_hash (T (dh_index h)) \/ some_collision).
  Proof.
    intros HT Hq Hp H A.
    apply verify_tree_hash_inv in H.
    destruct H as (n & rest & r & visited & [= <-] & E & Hn & Hc & _).
    exists n, rest. split; [exact E|]. split; [exact Hn|].
    rewrite E in Hq, Hp. cbn [length pred] in Hp. inversion Hq as [|? ? _ Hq']; subst.
    assert (QL : q_list (mkQ rest None) = rest)
      by (unfold q_list; cbn [q_nodes q_extra]; apply app_nil_r).
    eapply climb_sound in Hc; try eassumption.
    - now rewrite it_index_it_new in Hc.
    - now rewrite QL.
    - now rewrite it_index_it_new.
    - now rewrite QL.
  Qed.

  (* ==================================================================================== *)
  (* D. signature binding                                                                  *)
  (* ==================================================================================== *)

  Theorem upgrade_signature_binds c sg pk c' :
    cs_verify_and_set_signature cr c sg pk = Ok c' ->
    cr_verify cr pk (signable (tree_hash cr (cs_roots c)) (cs_length c) (cs_fork c)) sg = true /\
    cs_roots c' = cs_roots c /\ cs_length c' = cs_length c /\ cs_fork c' = cs_fork c /\
    cs_signature c' = Some sg /\ cs_hash c' = Some (tree_hash cr (cs_roots c)) /\
    length sg = 64%nat.
  Proof.
    unfold cs_verify_and_set_signature, parse_signature, cs_signable, cs_tree_hash. intros H.
    destruct (Nat.eqb (length sg) 64) eqn:E; [|discriminate H]. cbn [bind] in H.
    destruct (cr_verify cr pk _ sg) eqn:V; [|discriminate H].
    injection H as <-. apply Nat.eqb_eq in E. cbn [cs_set_hash_sig cs_roots cs_length cs_fork cs_signature cs_hash].
    repeat split; auto.
  Qed.

  (* no premise on the output length of cr_hash is needed (see signable_inj_gen) *)
  Theorem signed_message_binds rs l f rs' l' f' :
    Forall root_wf rs -> Forall root_wf rs' ->
    l < 2 ^ 64 -> f < 2 ^ 64 -> l' < 2 ^ 64 -> f' < 2 ^ 64 ->
    signable (tree_hash cr rs) l f = signable (tree_hash cr rs') l' f' ->
    l = l' /\ f = f' /\ (map node_triple rs = map node_triple rs' \/ some_collision).
  Proof.
    intros W W' Bl Bf Bl' Bf' H. apply signable_inj_gen in H; auto.
    destruct H as (H & -> & ->). repeat split. now apply tree_hash_binds.
  Qed.

  (* the two together: what an accepted signature says when the signed message is one the writer
     produced for its own roots rs / length l / fork f *)
  Corollary upgrade_accept_binds c sg pk c' rs l f :
    cs_verify_and_set_signature cr c sg pk = Ok c' ->
    Forall root_wf (cs_roots c) -> Forall root_wf rs ->
    cs_length c < 2 ^ 64 -> cs_fork c < 2 ^ 64 -> l < 2 ^ 64 -> f < 2 ^ 64 ->
    signable (tree_hash cr (cs_roots c)) (cs_length c) (cs_fork c) = signable (tree_hash cr rs) l f ->
    cs_length c' = l /\ cs_fork c' = f /\ (cs_roots c' = rs \/ some_collision).
  Proof.
    intros H W W' B1 B2 B3 B4 E. apply upgrade_signature_binds in H.
    destruct H as (_ & -> & -> & -> & _).
    apply signed_message_binds in E; auto. destruct E as (-> & -> & [E|C]); repeat split; auto.
    left. now apply map_node_triple_inj.
  Qed.

  (* ==================================================================================== *)
  (* E. what an accepting run of verify_proof has checked                                  *)
  (* ==================================================================================== *)

  Lemma verify_upgrade_inv fork u br pk c consumed c4 :
    verify_upgrade cr fork u br pk c = Ok (consumed, c4) ->
    exists c3 q1,
      cs_verify_and_set_signature cr (cs_set_fork c3 fork) (du_signature u) pk = Ok c4 /\
      consumed = (match q_extra q1 with None => true | Some _ => false end).
  Proof.
    unfold verify_upgrade. intros H.
    apply bind_ok in H. destruct H as [sl [_ H]].
    apply bind_ok in H. destruct H as [to [_ H]].
    apply bind_ok in H. destruct H as [[[c1 q1] it1] [_ H]].
    apply bind_ok in H. destruct H as [li [_ H]].
    apply bind_ok in H. destruct H as [[[c2 it2] rest] [_ H]].
    apply bind_ok in H. destruct H as [[c3 it3] [_ H]].
    apply bind_ok in H. destruct H as [c4' [Hs H]].
    injection H as <- <-. exists c3, q1. auto.
  Qed.

  (* the comparison with the locally stored node *)
  Definition stored_check (t : mtree) (tf : file) (r : node) : Prop :=
    exists n, required_node t tf (n_index r) = Ok n /\ bytes_eqb (n_hash n) (n_hash r) = true.

  Lemma stored_check_eq t tf r :
    stored_check t tf r -> exists n, required_node t tf (n_index r) = Ok n /\ n_hash n = n_hash r.
  Proof. intros (n & H1 & H2). exists n. split; [exact H1 | now apply bytes_eqb_eq]. Qed.

  Theorem verify_proof_accept_inv t tf pf pk cs :
    verify_proof cr t tf pf pk = Ok cs ->
    exists root c1,
      verify_tree cr (p_block pf) (p_hash pf) (p_seek pf) (tree_changeset t) = Ok (root, c1) /\
      match p_upgrade pf with
      | Some u =>
          exists consumed c3,
            verify_upgrade cr (p_fork pf) u root pk c1 = Ok (consumed, cs) /\
            (* (1) the signature check succeeded on the final root list / length / fork *)
            cs_verify_and_set_signature cr (cs_set_fork c3 (p_fork pf)) (du_signature u) pk = Ok cs /\
            cr_verify cr pk (signable (tree_hash cr (cs_roots cs)) (cs_length cs) (cs_fork cs))
                      (du_signature u) = true /\
            cs_fork cs = p_fork pf /\ cs_signature cs = Some (du_signature u) /\
            cs_hash cs = Some (tree_hash cr (cs_roots cs)) /\
            (* (2) a root not consumed by the upgrade was compared with the stored node *)
            (consumed = false -> forall r, root = Some r -> stored_check t tf r)
      | None =>
          cs = c1 /\ forall r, root = Some r -> stored_check t tf r
      end.
  Proof.
    unfold verify_proof. intros H.
    apply bind_ok in H. destruct H as [[root c1] [Hv H]].
    exists root, c1. split; [exact Hv|].
    apply bind_ok in H. destruct H as [[root2 c2] [Hu H]].
    assert (Hfin : c2 = cs /\ forall r, root2 = Some r -> stored_check t tf r).
    { destruct root2 as [r|].
      - apply bind_ok in H. destruct H as [n [Hr H]].
        destruct (bytes_eqb (n_hash n) (n_hash r)) eqn:E; [|discriminate H].
        injection H as <-. split; [reflexivity|]. intros r' [= <-]. exists n. auto.
      - injection H as <-. split; [reflexivity|]. intros r' [=]. }
    destruct Hfin as [-> Hfin].
    destruct (p_upgrade pf) as [u|].
    - apply bind_ok in Hu. destruct Hu as [[consumed c'] [Hu H']].
      injection H' as <- <-.
      pose proof (verify_upgrade_inv _ _ _ _ _ _ _ Hu) as (c3 & q1 & Hs & _).
      pose proof (upgrade_signature_binds _ _ _ _ Hs) as (V & R & L & F & S & Hh & _).
      exists consumed, c3. split; [exact Hu|]. split; [exact Hs|].
      rewrite R, L, F. split; [exact V|]. cbn [cs_set_fork cs_fork]. split; [reflexivity|].
      split; [exact S|]. split; [exact Hh|].
      intros -> r E. apply Hfin. exact E.
    - injection Hu as <- <-. split; [reflexivity | exact Hfin].
  Qed.

  (* Remark (not a soundness statement, the converse): the parent hash covers only the SUM of
     the two lengths, so two children with the right hashes and a right total are accepted
     whatever the split.  For a block section the bottom length is inside the leaf hash; for a
     hash section the lengths of the bottom node and of its first sibling are bound only in sum
     (see toy_hash_section_length_split below). *)
  Lemma parent_hash_length_split a b a' b' :
    n_index a = n_index a' -> n_index b = n_index b' ->
    n_hash a = n_hash a' -> n_hash b = n_hash b' ->
    n_length a + n_length b = n_length a' + n_length b' ->
    parent_hash cr a b = parent_hash cr a' b'.
  Proof.
    intros Ia Ib Ha Hb HL. unfold parent_hash. f_equal. unfold parent_preimage.
    rewrite <- Ia, <- Ib. destruct (n_index a <=? n_index b).
    - now rewrite Ha, Hb, HL.
    - rewrite Ha, Hb. now rewrite (N.add_comm (n_length b)), HL, N.add_comm.
  Qed.

End Sound.

(* ====================================================================================== *)
(* Non-vacuity: a toy instance on which the verifier accepts an honest 2-level chain and    *)
(* on which all the premises of the theorems above hold together                            *)
(* ====================================================================================== *)

Definition toy_hash (x : bytes) : bytes := firstn 32 (x ++ repeat 0 32).
Definition toy : crypto := mkCrypto toy_hash (fun _ => 0) (fun _ _ => []) (fun _ _ _ => true).

(* blocks 0 and 1 (flat 0, 2), their parent 1, an opaque right subtree 5, the root 3 *)
Definition toyT (i : N) : node :=
  let l0 := block_node toy 0 [1; 2; 3] in
  let l2 := block_node toy 2 [4; 5] in
  let p1 := parent_node toy 1 l0 l2 in
  let p5 := mkNode 5 7 (toy_hash [9]) in
  let p3 := parent_node toy 3 p1 p5 in
  if i =? 0 then l0 else if i =? 2 then l2 else if i =? 1 then p1
  else if i =? 5 then p5 else if i =? 3 then p3 else mkNode i 0 (toy_hash []).

Definition toy_cs : changeset := mkCs 0 0 0 0 0 [] [] None None false 0 0.

Example toy_hash32 : forall i, length (n_hash (toyT i)) = 32%nat.
Proof.
  intros i. unfold toyT.
  destruct (i =? 0); [vm_compute; reflexivity|].
  destruct (i =? 2); [vm_compute; reflexivity|].
  destruct (i =? 1); [vm_compute; reflexivity|].
  destruct (i =? 5); [vm_compute; reflexivity|].
  destruct (i =? 3); vm_compute; reflexivity.
Qed.

Example toy_path : consistent_path toy toyT 2 (it_new 0).
Proof.
  constructor; [|constructor; [|constructor]].
  - unfold consistent_at. vm_compute. repeat split; discriminate.
  - unfold consistent_at. vm_compute. repeat split; discriminate.
Qed.

Example toy_climb_accepts :
  climb toy 3 (mkQ [toyT 2; toyT 5] None) (it_new 0) (toyT 0) [toyT 0]
  = Ok (toyT 3, [toyT 0; toyT 2; toyT 1; toyT 5; toyT 3]).
Proof. vm_compute. reflexivity. Qed.

Example toy_block_accepts :
  verify_tree toy (Some (mkDataBlock 0 [1; 2; 3] [toyT 2; toyT 5])) None None toy_cs
  = Ok (Some (toyT 3), cs_push_nodes toy_cs [toyT 0; toyT 2; toyT 1; toyT 5; toyT 3]).
Proof. vm_compute. reflexivity. Qed.

(* the theorems apply to the toy instance: all their premises hold together *)
Example toy_climb_sound_applies :
  n_hash (toyT 0) = n_hash (toyT 0) \/ some_collision toy.
Proof.
  apply (climb_sound toy toyT 3 (mkQ [toyT 2; toyT 5] None) (it_new 0) (toyT 0) [toyT 0]
           (toyT 3) [toyT 0; toyT 2; toyT 1; toyT 5; toyT 3]).
  - exact toy_hash32.
  - repeat constructor.
  - reflexivity.
  - exact toy_path.
  - exact toy_climb_accepts.
  - reflexivity.
Qed.

Example toy_block_value_sound_applies :
  [1; 2; 3] = [1; 2; 3] \/ some_collision toy.
Proof.
  apply (block_value_sound toy toyT (mkDataBlock 0 [1; 2; 3] [toyT 2; toyT 5]) None toy_cs (toyT 3)
           (cs_push_nodes toy_cs [toyT 0; toyT 2; toyT 1; toyT 5; toyT 3]) [1; 2; 3]).
  - exact toy_hash32.
  - repeat constructor.
  - exact toy_path.
  - reflexivity.
  - exact toy_block_accepts.
  - reflexivity.
Qed.

(* a hash section whose bottom node and first sibling carry shifted lengths (4, 1 instead of
   3, 2) is accepted with the same root, and the two nodes enter the changeset as they came *)
Example toy_hash_section_length_split :
  let n0 := mkNode 0 4 (n_hash (toyT 0)) in
  let n2 := mkNode 2 1 (n_hash (toyT 2)) in
  n_length (toyT 0) = 3 /\ n_length (toyT 2) = 2 /\
  verify_tree toy None (Some (mkDataHash 0 [n0; n2; toyT 5])) None toy_cs
  = Ok (Some (toyT 3), cs_push_nodes toy_cs [n0; n2; toyT 1; toyT 5; toyT 3]).
Proof. vm_compute. repeat split. Qed.

Print Assumptions bytes_eqb_eq.
Print Assumptions leaf_preimage_inj.
Print Assumptions parent_preimage_inj_gen.
Print Assumptions parent_preimage_inj.
Print Assumptions parent_preimage_inj_same_idx.
Print Assumptions leaf_parent_disjoint.
Print Assumptions tree_preimage_inj.
Print Assumptions tree_preimage_inj_eq.
Print Assumptions signable_inj_gen.
Print Assumptions signable_inj.
Print Assumptions leaf_hash_binds.
Print Assumptions parent_hash_binds.
Print Assumptions parent_hash_binds_same_idx.
Print Assumptions tree_hash_binds.
Print Assumptions climb_all_sound.
Print Assumptions climb_sound.
Print Assumptions climb_root_index.
Print Assumptions climb_siblings_sound.
Print Assumptions block_value_sound.
Print Assumptions hash_node_sound.
Print Assumptions upgrade_signature_binds.
Print Assumptions signed_message_binds.
Print Assumptions upgrade_accept_binds.
Print Assumptions verify_upgrade_inv.
Print Assumptions verify_proof_accept_inv.
Print Assumptions parent_hash_length_split.
Print Assumptions toy_climb_sound_applies.
Print Assumptions toy_block_value_sound_applies.
Print Assumptions toy_hash_section_length_split.

(* Sound.v -- soundness of the Merkle-proof verifier, as reductions to hash collisions.
   No property of cr_hash / cr_verify is used anywhere: every security statement has the shape
   "accepted -> honest \/ here are two different byte strings with the same hash". *)
From HC Require Import Base Codec CodecFacts Crypto FlatTree Merkle.
From Coq Require Import ZifyN ZifyNat ZifyBool.
Ltac Zify.zify_post_hook ::= Z.div_mod_to_equations.
Arguments N.add : simpl never.
Arguments N.sub : simpl never.
Arguments N.mul : simpl never.
Arguments N.div : simpl never.
Arguments N.modulo : simpl never.
Arguments N.pow : simpl never.
Arguments N.eqb : simpl never.
Arguments N.ltb : simpl never.
Arguments N.leb : simpl never.

(* ---------- generic list / byte facts ---------- *)

Lemma app_inj_l {A} (a a' b b' : list A) :
  length a = length a' -> a ++ b = a' ++ b' -> a = a' /\ b = b'.
Proof.
  revert a'; induction a as [|x a IH]; intros [|x' a'] HL H; cbn [length app] in *; try discriminate.
  - auto.
  - injection H as -> H. injection HL as HL. destruct (IH a' HL H) as [-> ->]. auto.
Qed.

Lemma app_inj_r {A} (a a' b b' : list A) :
  length b = length b' -> a ++ b = a' ++ b' -> a = a' /\ b = b'.
Proof.
  intros HL H. apply app_inj_l; [|exact H].
  apply (f_equal (@length A)) in H. rewrite !app_length in H. lia.
Qed.

Lemma pow_256_8 : 256 ^ N.of_nat 8 = 2 ^ 64.
Proof. vm_compute. reflexivity. Qed.

Lemma le_bytes8_inj v v' : v < 2 ^ 64 -> v' < 2 ^ 64 -> le_bytes 8 v = le_bytes 8 v' -> v = v'.
Proof.
  intros Hv Hv' H. rewrite <- pow_256_8 in Hv, Hv'.
  rewrite <- (le_val_le_bytes 8 v Hv), H. apply le_val_le_bytes; exact Hv'.
Qed.

Lemma bytes_eqb_eq a b : bytes_eqb a b = true <-> a = b.
Proof.
  revert b; induction a as [|x a IH]; intros [|y b]; cbn [bytes_eqb]; split; intros H;
    try discriminate; try reflexivity.
  - apply andb_true_iff in H. destruct H as [H1 H2]. apply N.eqb_eq in H1. apply IH in H2. now subst.
  - injection H as -> ->. apply andb_true_iff. split; [apply N.eqb_refl | now apply IH].
Qed.

Definition bytes_eq_dec (x y : bytes) : {x = y} + {x <> y} := list_eq_dec N.eq_dec x y.

(* the pair (left, right) that Hash::parent actually hashes *)
Definition ord_pair (a b : node) : node * node :=
  if n_index a <=? n_index b then (a, b) else (b, a).

Definition node_triple (n : node) : N * N * bytes := (n_index n, n_length n, n_hash n).

Lemma node_triple_inj a b : node_triple a = node_triple b -> a = b.
Proof. destruct a, b. unfold node_triple; cbn [n_index n_length n_hash]. now intros [= -> -> ->]. Qed.

Lemma map_node_triple_inj l l' : map node_triple l = map node_triple l' -> l = l'.
Proof.
  revert l'; induction l as [|a l IH]; intros [|a' l'] H; cbn [map] in H; try discriminate; [reflexivity|].
  injection H as H1 H2. apply node_triple_inj in H1. apply IH in H2. now subst.
Qed.

(* what is needed of a root for the tree hash layout to be parseable *)
Definition root_wf (n : node) : Prop :=
  length (n_hash n) = 32%nat /\ n_index n < 2 ^ 64 /\ n_length n < 2 ^ 64.

(* ====================================================================================== *)
(* A. preimage injectivity: pure byte reasoning                                            *)
(* ====================================================================================== *)

Lemma leaf_preimage_inj a b : leaf_preimage a = leaf_preimage b -> a = b.
Proof.
  unfold leaf_preimage. cbn [app]. intros H. injection H as H.
  apply app_inj_l in H; [tauto | now rewrite !length_le_bytes].
Qed.

Lemma parent_preimage_ord a b :
  parent_preimage a b =
  [1] ++ le_bytes 8 (n_length (fst (ord_pair a b)) + n_length (snd (ord_pair a b)))
      ++ n_hash (fst (ord_pair a b)) ++ n_hash (snd (ord_pair a b)).
Proof. unfold parent_preimage, ord_pair. destruct (n_index a <=? n_index b); reflexivity. Qed.

Lemma parent_body_inj s s' hl hr hl' hr' :
  length hl = length hl' \/ length hr = length hr' ->
  [1] ++ le_bytes 8 s ++ hl ++ hr = [1] ++ le_bytes 8 s' ++ hl' ++ hr' ->
  le_bytes 8 s = le_bytes 8 s' /\ hl = hl' /\ hr = hr'.
Proof.
  cbn [app]. intros HL H. injection H as H.
  apply app_inj_l in H; [|now rewrite !length_le_bytes]. destruct H as [H1 H2].
  split; [exact H1|]. destruct HL as [HL|HL]; [apply app_inj_l in H2 | apply app_inj_r in H2]; tauto.
Qed.

(* the general statement, up to the ordering done inside parent_preimage; the length of ONE of
   the two hash positions has to agree, the bound on the sums is needed only for the sums *)
Lemma parent_preimage_inj_gen a b a' b' :
  let l := fst (ord_pair a b) in let r := snd (ord_pair a b) in
  let l' := fst (ord_pair a' b') in let r' := snd (ord_pair a' b') in
  length (n_hash l) = length (n_hash l') \/ length (n_hash r) = length (n_hash r') ->
  parent_preimage a b = parent_preimage a' b' ->
  n_hash l = n_hash l' /\ n_hash r = n_hash r' /\
  (n_length l + n_length r < 2 ^ 64 -> n_length l' + n_length r' < 2 ^ 64 ->
   n_length l + n_length r = n_length l' + n_length r').
Proof.
  intros l r l' r' HL H. rewrite !parent_preimage_ord in H. fold l r l' r' in H.
  apply parent_body_inj in H; [|exact HL]. destruct H as (H1 & H2 & H3).
  repeat split; auto. intros B B'. now apply le_bytes8_inj.
Qed.

Lemma ord_pair_le a b : n_index a <= n_index b -> ord_pair a b = (a, b).
Proof. intros H. unfold ord_pair. destruct (n_index a <=? n_index b) eqn:E; [reflexivity | lia]. Qed.

Lemma parent_preimage_inj a b a' b' :
  length (n_hash a) = 32%nat -> length (n_hash b) = 32%nat ->
  length (n_hash a') = 32%nat -> length (n_hash b') = 32%nat ->
  n_index a < n_index b -> n_index a' < n_index b' ->
  n_length a + n_length b < 2 ^ 64 -> n_length a' + n_length b' < 2 ^ 64 ->
  parent_preimage a b = parent_preimage a' b' ->
  n_hash a = n_hash a' /\ n_hash b = n_hash b' /\
  n_length a + n_length b = n_length a' + n_length b'.
Proof.
  intros Ha Hb Ha' Hb' I I' B B' H.
  pose proof (parent_preimage_inj_gen a b a' b') as G. cbv zeta in G.
  rewrite (ord_pair_le a b), (ord_pair_le a' b') in G by lia. cbn [fst snd] in G.
  destruct G as (G1 & G2 & G3); [left; congruence | exact H |]. auto.
Qed.

(* the form used by the climb: both pairs carry the same indices, hence are ordered the same way;
   only the SECOND hashes need to have the same length, and no bound on the lengths is needed *)
Lemma parent_preimage_inj_same_idx a b a' b' :
  n_index a = n_index a' -> n_index b = n_index b' ->
  length (n_hash b) = length (n_hash b') ->
  parent_preimage a b = parent_preimage a' b' ->
  n_hash a = n_hash a' /\ n_hash b = n_hash b' /\
  (n_length a + n_length b < 2 ^ 64 -> n_length a' + n_length b' < 2 ^ 64 ->
   n_length a + n_length b = n_length a' + n_length b').
Proof.
  intros Ia Ib HL H.
  pose proof (parent_preimage_inj_gen a b a' b') as G. cbv zeta in G.
  unfold ord_pair in G. rewrite <- Ia, <- Ib in G.
  destruct (n_index a <=? n_index b); cbn [fst snd] in G.
  - destruct G as (G1 & G2 & G3); [right; exact HL | exact H |]. auto.
  - destruct G as (G1 & G2 & G3); [left; exact HL | exact H |].
    repeat split; auto. intros. rewrite (N.add_comm (n_length a)), (N.add_comm (n_length a')).
    apply G3; lia.
Qed.

Lemma leaf_parent_disjoint d a b rs :
  leaf_preimage d <> parent_preimage a b /\
  leaf_preimage d <> tree_preimage rs /\
  parent_preimage a b <> tree_preimage rs.
Proof.
  rewrite parent_preimage_ord. unfold leaf_preimage, tree_preimage. cbn [app].
  repeat split; intros H; discriminate H.
Qed.

Lemma length_root_item n : root_wf n -> length (root_item n) = 48%nat.
Proof.
  intros (H & _). unfold root_item. rewrite !app_length, !length_le_bytes, H. reflexivity.
Qed.

Lemma root_item_inj n n' rest rest' :
  root_wf n -> root_wf n' ->
  root_item n ++ rest = root_item n' ++ rest' -> node_triple n = node_triple n' /\ rest = rest'.
Proof.
  intros W W' H. pose proof W as (Wh & Wi & Wl). pose proof W' as (Wh' & Wi' & Wl').
  apply app_inj_l in H; [|now rewrite !length_root_item]. destruct H as [H ->].
  unfold root_item in H. apply app_inj_l in H; [|congruence]. destruct H as [H1 H].
  apply app_inj_l in H; [|now rewrite !length_le_bytes]. destruct H as [H2 H3].
  apply le_bytes8_inj in H2; auto. apply le_bytes8_inj in H3; auto.
  unfold node_triple. now rewrite H1, H2, H3.
Qed.

Lemma tree_preimage_inj rs rs' :
  Forall root_wf rs -> Forall root_wf rs' ->
  tree_preimage rs = tree_preimage rs' -> map node_triple rs = map node_triple rs'.
Proof.
  unfold tree_preimage. cbn [app]. intros W W' H. injection H as H.
  revert rs' W' H. induction W as [|n rs Wn W IH]; intros rs' W' H.
  - destruct W' as [|n' rs' Wn' W']; [reflexivity|]. exfalso.
    cbn [map concat] in H. apply (f_equal (@length N)) in H.
    rewrite app_length, length_root_item in H by exact Wn'. cbn [length] in H. lia.
  - destruct W' as [|n' rs' Wn' W'].
    + exfalso. cbn [map concat] in H. apply (f_equal (@length N)) in H.
      rewrite app_length, length_root_item in H by exact Wn. cbn [length] in H. lia.
    + cbn [map concat] in H. apply root_item_inj in H; auto. destruct H as [H1 H2].
      cbn [map]. rewrite H1. f_equal. now apply IH.
Qed.

Corollary tree_preimage_inj_eq rs rs' :
  Forall root_wf rs -> Forall root_wf rs' -> tree_preimage rs = tree_preimage rs' -> rs = rs'.
Proof. intros. now apply map_node_triple_inj, tree_preimage_inj. Qed.

(* no hypothesis on the length of the hashes is needed: the 16 trailing bytes have a fixed size *)
Lemma signable_inj_gen h l f h' l' f' :
  l < 2 ^ 64 -> f < 2 ^ 64 -> l' < 2 ^ 64 -> f' < 2 ^ 64 ->
  signable h l f = signable h' l' f' -> h = h' /\ l = l' /\ f = f'.
Proof.
  intros Bl Bf Bl' Bf' H. unfold signable in H. apply app_inv_head in H.
  apply app_inj_r in H; [|now rewrite !app_length, !length_le_bytes]. destruct H as [-> H].
  apply app_inj_l in H; [|now rewrite !length_le_bytes]. destruct H as [H1 H2].
  apply le_bytes8_inj in H1; auto. apply le_bytes8_inj in H2; auto.
Qed.

Lemma signable_inj h l f h' l' f' :
  length h = 32%nat -> length h' = 32%nat ->
  l < 2 ^ 64 -> f < 2 ^ 64 -> l' < 2 ^ 64 -> f' < 2 ^ 64 ->
  signable h l f = signable h' l' f' -> h = h' /\ l = l' /\ f = f'.
Proof. intros _ _. apply signable_inj_gen. Qed.

Section Sound.
  Variable cr : crypto.

  Definition collision (x y : bytes) : Prop := x <> y /\ cr_hash cr x = cr_hash cr y.
  Definition some_collision : Prop := exists x y, collision x y.

  Lemma hash_eq_cases x y : cr_hash cr x = cr_hash cr y -> x = y \/ some_collision.
  Proof.
    intros H. destruct (bytes_eq_dec x y) as [E|E]; [left; exact E|].
    right. exists x, y. split; assumption.
  Qed.

  Lemma leaf_hash_binds a b : leaf_hash cr a = leaf_hash cr b -> a = b \/ some_collision.
  Proof.
    unfold leaf_hash. intros H. apply hash_eq_cases in H. destruct H as [H|H]; [|right; exact H].
    left. now apply leaf_preimage_inj.
  Qed.

  Lemma parent_hash_binds a b a' b' :
    length (n_hash a) = 32%nat -> length (n_hash b) = 32%nat ->
    length (n_hash a') = 32%nat -> length (n_hash b') = 32%nat ->
    n_index a < n_index b -> n_index a' < n_index b' ->
    n_length a + n_length b < 2 ^ 64 -> n_length a' + n_length b' < 2 ^ 64 ->
    parent_hash cr a b = parent_hash cr a' b' ->
    (n_hash a = n_hash a' /\ n_hash b = n_hash b' /\
     n_length a + n_length b = n_length a' + n_length b') \/ some_collision.
  Proof.
    intros Ha Hb Ha' Hb' I I' B B' H. unfold parent_hash in H. apply hash_eq_cases in H.
    destruct H as [H|H]; [|right; exact H]. left. now apply parent_preimage_inj.
  Qed.

  Lemma parent_hash_binds_same_idx a b a' b' :
    n_index a = n_index a' -> n_index b = n_index b' ->
    length (n_hash b) = length (n_hash b') ->
    parent_hash cr a b = parent_hash cr a' b' ->
    (n_hash a = n_hash a' /\ n_hash b = n_hash b' /\
     (n_length a + n_length b < 2 ^ 64 -> n_length a' + n_length b' < 2 ^ 64 ->
      n_length a + n_length b = n_length a' + n_length b')) \/ some_collision.
  Proof.
    intros Ia Ib HL H. unfold parent_hash in H. apply hash_eq_cases in H.
    destruct H as [H|H]; [|right; exact H]. left. now apply parent_preimage_inj_same_idx.
  Qed.

  Lemma tree_hash_binds rs rs' :
    Forall root_wf rs -> Forall root_wf rs' ->
    tree_hash cr rs = tree_hash cr rs' ->
    map node_triple rs = map node_triple rs' \/ some_collision.
  Proof.
    intros W W' H. unfold tree_hash in H. apply hash_eq_cases in H.
    destruct H as [H|H]; [|right; exact H]. left. now apply tree_preimage_inj.
  Qed.

End Sound.

(* ReplicaDisk5.v -- replicas end to end, part 5: the HISTORY theorem (goal 6).
   Histories of a replica over {apply a proof, get, has, info, reopen, crash inside an apply after k storage
   operations} observe the replica spec: reads return the writer's block exactly for the held indices, has and
   the contiguous length follow the held set, the held set grows by the blocks of ACCEPTED proofs, the length
   follows the accepted upgrades, refused proofs and crashes before the commit point change nothing -- or a hash
   collision / a signature on a message the writer never signed is exhibited. *)
From HC Require Import Base NMap Codec CodecFacts Crypto FlatTree Storage Bitfield Oplog Merkle Core.
From HC Require Import FlatTreeFacts StorageFacts BitfieldFacts OplogFacts TreeRef OffsetFacts CoreFacts Crash Refine.
From HC Require Import ClearRefine Reopen ContigBridge Unified1 Unified2 CrashCore1 CrashCore2 CrashCore3 CrashClear1.
From HC Require Import Sound NoPanic Replicate SoundCoreLib SoundCore SoundCoreUp SoundCoreBU.
From HC Require Import ReplicaDisk1 ReplicaDisk2 ReplicaDisk3 ReplicaDisk4.
From Coq Require Import FMapPositive ZifyN ZifyNat ZifyBool.
Ltac Zify.zify_post_hook ::= Z.div_mod_to_equations.
Arguments N.add : simpl never.
Arguments N.sub : simpl never.
Arguments N.mul : simpl never.
Arguments N.div : simpl never.
Arguments N.modulo : simpl never.
Arguments N.pow : simpl never.
Arguments N.eqb : simpl never.
Arguments N.ltb : simpl never.
Arguments N.leb : simpl never.
Arguments N.max : simpl never.
Arguments N.min : simpl never.
Arguments N.of_nat : simpl never.
Arguments N.to_nat : simpl never.

Inductive rdop :=
| RApply (f : option bool) (pf : proof)                (* verify_and_apply_proof, any flush decision *)
| RGet (i : N)
| RHas (i : N)
| RInfo
| RReopen                                              (* close and open again *)
| RCrashApply (f : option bool) (pf : proof) (k : nat). (* the process dies after k storage operations of the
                                                          application; then the storage is opened again *)

Inductive rdobs :=
| ROApply (r : res bool)
| ROGet (r : res (option bytes))
| ROHas (b : bool)
| ROInfo (x : info)
| ROReopen (r : res unit)
| ROCrash (r : res unit).

Definition rdop_ok (o : rdop) : Prop :=
  match o with
  | RApply _ pf => rd_proof_ok pf
  | RCrashApply _ pf _ => rd_proof_ok pf
  | _ => True
  end.

Lemma journal_delta_nil j : journal_delta j j = [].
Proof. unfold journal_delta. rewrite Nat.sub_diag. reflexivity. Qed.

Section History.
  Variable cr : crypto.
  Variable bs : list bytes.               (* the writer's blocks *)

  (* the three gates of core_apply_proof (fork, verifier, commitability), as a test *)
  Definition gates_pass (c : core) (w : world) (pf : proof) : bool :=
    (p_fork pf =? t_fork (c_tree c)) &&
    match verifier_says cr c w pf with Ok cs => commitable (c_tree c) cs | _ => false end.

  (* open the storage d (memory is lost; jn = the journal so far) and go on *)
  Definition reopen_then (d : disk) (jn : list sop) (ev : list event) (mk : res unit -> rdobs)
             (cont : core -> world -> list rdobs) : list rdobs :=
    let '(d', sops, ro) := core_open cr None true d in
    mk (res_unit ro) ::
    match ro with
    | Ok c'' => cont c'' (mkWorld d' (rev sops ++ jn) ev)
    | _ => []
    end.

  (* the run.  A history ends at a proof application that passed the three gates and then failed (30-bit frame
     limit of the oplog, an offset that cannot be computed), and at an open that fails. *)
  Fixpoint rd_run (ops : list rdop) (c : core) (w : world) : list rdobs :=
    match ops with
    | [] => []
    | RApply f pf :: rest =>
        let '(c', w', r) := core_apply_proof cr f pf c w in
        ROApply r ::
        (if gates_pass c w pf then match r with Ok true => rd_run rest c' w' | _ => [] end
         else rd_run rest c' w')
    | RGet i :: rest => let '(c', w', r) := core_get i c w in ROGet r :: rd_run rest c' w'
    | RHas i :: rest => ROHas (core_has c i) :: rd_run rest c w
    | RInfo :: rest => ROInfo (core_info c) :: rd_run rest c w
    | RReopen :: rest => reopen_then (w_disk w) (w_journal w) (w_events w) ROReopen (rd_run rest)
    | RCrashApply f pf k :: rest =>
        let '(c', w', r) := core_apply_proof cr f pf c w in
        if gates_pass c w pf then
          match r with
          | Ok true =>
              let cut := firstn k (journal_delta (w_journal w) (w_journal w')) in
              match apply_sops (w_disk w) cut with
              | Some dk => reopen_then dk (rev cut ++ w_journal w) (w_events w) ROCrash (rd_run rest)
              | None => [ROCrash (Err InvalidOperation)]
              end
          | _ => [ROApply r]
          end
        else (* refused at a gate: nothing was written, the crash loses the memory only *)
          reopen_then (w_disk w) (w_journal w) (w_events w) ROCrash (rd_run rest)
    end.

  (* the replica spec: H = the held set, r = the length (number of blocks of the writer's log the replica has
     upgraded to) *)
  Inductive rd_ok : (N -> bool) -> N -> list rdop -> list rdobs -> Prop :=
  | ok_nil H r : rd_ok H r [] []
  | ok_get H r i rest obs :
      rd_ok H r rest obs ->
      rd_ok H r (RGet i :: rest) (ROGet (Ok (if H i then Some (blk bs i) else None)) :: obs)
  | ok_has H r i rest obs :
      rd_ok H r rest obs -> rd_ok H r (RHas i :: rest) (ROHas (H i) :: obs)
  | ok_info H r cg rest obs :
      (* the contiguous length is the smallest index not held *)
      (forall i, i < cg -> H i = true) -> H cg = false ->
      rd_ok H r rest obs ->
      rd_ok H r (RInfo :: rest) (ROInfo (mkInfo r (prefix_size bs r) cg 0 false) :: obs)
  | ok_reopen H r rest obs :
      rd_ok H r rest obs -> rd_ok H r (RReopen :: rest) (ROReopen (Ok tt) :: obs)
  | ok_apply_accepted H r f pf r' rest obs :
      r <= r' -> r' <= N.of_nat (length bs) -> (p_upgrade pf = None -> r' = r) ->
      rd_ok (hold H (p_block pf)) r' rest obs ->
      rd_ok H r (RApply f pf :: rest) (ROApply (Ok true) :: obs)
  | ok_apply_refused H r f pf res rest obs :
      res <> Ok true -> rd_ok H r rest obs ->
      rd_ok H r (RApply f pf :: rest) (ROApply res :: obs)
  | ok_apply_failed H r f pf res rest :
      (forall b, res <> Ok b) -> rd_ok H r (RApply f pf :: rest) [ROApply res]
  | ok_crash_before H r f pf k rest obs :
      rd_ok H r rest obs -> rd_ok H r (RCrashApply f pf k :: rest) (ROCrash (Ok tt) :: obs)
  | ok_crash_after H r f pf k r' rest obs :
      (commit_point pf < k)%nat ->
      r <= r' -> r' <= N.of_nat (length bs) -> (p_upgrade pf = None -> r' = r) ->
      rd_ok (hold H (p_block pf)) r' rest obs ->
      rd_ok H r (RCrashApply f pf k :: rest) (ROCrash (Ok tt) :: obs)
  | ok_crash_failed H r f pf k res rest :
      (forall b, res <> Ok b) -> rd_ok H r (RCrashApply f pf k :: rest) [ROApply res].

  Lemma gates_fail_refused c w pf : gates_pass c w pf = false -> refused_at_gate cr c w pf.
  Proof.
    unfold gates_pass, refused_at_gate. intros H.
    destruct (N.eqb_spec (p_fork pf) (t_fork (c_tree c))) as [E|E]; [|left; exact E].
    cbn [andb] in H. right.
    destruct (verifier_says cr c w pf) as [cs|e|s|] eqn:V.
    - right. exists cs. split; [reflexivity|exact H].
    - left. intros cs. discriminate.
    - left. intros cs. discriminate.
    - left. intros cs. discriminate.
  Qed.

  Lemma gates_pass_not_refused c w pf : gates_pass c w pf = true -> ~ refused_at_gate cr c w pf.
  Proof.
    unfold gates_pass, refused_at_gate. intros H R. apply andb_prop in H as [H1 H2]. apply N.eqb_eq in H1.
    destruct R as [R|[R|(cs & V & Cm)]].
    - apply R, H1.
    - destruct (verifier_says cr c w pf) as [cs|e|s|]; try discriminate H2. apply (R cs). reflexivity.
    - rewrite V, Cm in H2. discriminate H2.
  Qed.

  Hypothesis Hcrc : crc_ok cr.
  Hypothesis Hhash32 : forall x, length (cr_hash cr x) = 32%nat.
  Hypothesis Hnonblank : forall x, all_zero (cr_hash cr x) = false.
  Hypothesis Hhashbytes : forall x, bytes_ok (cr_hash cr x) = true.
  Hypothesis Hw : writer_fits bs.

  (* GOAL 6 *)
  Theorem replica_history (ops : list rdop) : forall c d j ev H,
    RDInv cr bs c d H -> Forall rdop_ok ops ->
    rd_ok H (t_length (c_tree c)) ops (rd_run ops c (mkWorld d j ev)) \/
    some_collision cr \/ forged_signature cr bs (kp_public (c_keypair c)).
  Proof.
    induction ops as [|op ops IH]; intros c d j ev H X Hops.
    - left. constructor.
    - inversion Hops as [|? ? Hop Hops']; subst.
      destruct op as [f pf|i|i| | |f pf k]; cbn [rd_run rdop_ok] in *.
      + (* apply *)
        destruct (core_apply_proof cr f pf c (mkWorld d j ev)) as [[c' w'] res] eqn:Happ.
        destruct (gates_pass c (mkWorld d j ev) pf) eqn:Gp.
        * destruct res as [[|]| | |].
          -- destruct (apply_keeps_RDInv cr Hcrc Hhash32 Hnonblank Hhashbytes bs Hw f pf c d j ev H c' w' X Hop Happ)
               as [(X' & K' & Hle & Hno & _)|[C|F]]; [|right; left; exact C|right; right; exact F].
             destruct w' as [d' j' ev'].
             destruct (IH c' d' j' ev' _ X' Hops') as [Hr|[C|F]]; [left|right; left; exact C|right; right; rewrite <- K'; exact F].
             apply (ok_apply_accepted H _ f pf (t_length (c_tree c'))); try assumption.
             apply (RD_info cr bs c' d' _ X').
          -- exfalso. destruct (apply_not_accepted cr f pf c _ c' w' _ Happ ltac:(discriminate))
               as [(_ & _ & R)|(cs & _ & _ & _ & Hn)].
             ++ apply (gates_pass_not_refused c _ pf Gp R).
             ++ apply (Hn false). reflexivity.
          -- left. apply ok_apply_failed. intros b. discriminate.
          -- left. apply ok_apply_failed. intros b. discriminate.
          -- left. apply ok_apply_failed. intros b. discriminate.
        * destruct (apply_refusal_noop cr f pf c (mkWorld d j ev) (gates_fail_refused c _ pf Gp)) as (r0 & E & Hr0).
          rewrite E in Happ. injection Happ as <- <- <-.
          destruct (IH c d j ev H X Hops') as [Hr|[C|F]]; [left|right; left; exact C|right; right; exact F].
          apply ok_apply_refused; [|exact Hr].
          destruct Hr0 as [->|(_ & Hn & _)]; [discriminate|apply Hn].
      + (* get *)
        rewrite (RD_get cr bs Hw c d H j ev i X).
        destruct (H i) eqn:Hi.
        * destruct (IH c d j ev H X Hops') as [Hr|[C|F]]; [left|right; left; exact C|right; right; exact F].
          pose proof (ok_get H _ i ops _ Hr) as G. rewrite Hi in G. exact G.
        * destruct (IH c d j (EvGet i :: ev) H X Hops') as [Hr|[C|F]]; [left|right; left; exact C|right; right; exact F].
          pose proof (ok_get H _ i ops _ Hr) as G. rewrite Hi in G. exact G.
      + (* has *)
        rewrite (RD_has cr bs c d H i X).
        destruct (IH c d j ev H X Hops') as [Hr|[C|F]]; [left|right; left; exact C|right; right; exact F].
        apply ok_has, Hr.
      + (* info *)
        destruct (RD_info cr bs c d H X) as (I & _ & [E1 E2]). rewrite I.
        destruct (IH c d j ev H X Hops') as [Hr|[C|F]]; [left|right; left; exact C|right; right; exact F].
        apply ok_info; assumption.
      + (* reopen *)
        destruct (reopen_RDInv cr Hcrc Hnonblank bs Hw c d H X) as (c1 & E & X1 & Et & _ & Ek & _).
        unfold reopen_then. cbn [w_disk w_journal w_events]. rewrite E. cbn [res_unit rev app].
        destruct (IH c1 d j ev H X1 Hops') as [Hr|[C|F]];
          [left|right; left; exact C|right; right; rewrite <- Ek; exact F].
        rewrite Et in Hr. apply ok_reopen, Hr.
      + (* crash inside an apply *)
        destruct (core_apply_proof cr f pf c (mkWorld d j ev)) as [[c' w'] res] eqn:Happ.
        destruct (gates_pass c (mkWorld d j ev) pf) eqn:Gp.
        * destruct res as [[|]| | |].
          -- destruct (apply_keeps_RDInv cr Hcrc Hhash32 Hnonblank Hhashbytes bs Hw f pf c d j ev H c' w' X Hop Happ)
               as [(X' & K' & Hle & Hno & _)|[C|F]]; [|right; left; exact C|right; right; exact F].
             destruct (apply_crash_recovers cr Hcrc Hhash32 Hnonblank Hhashbytes bs Hw f pf c d j ev H c' w' X Hop Happ)
               as [(dl & Hj & _ & Hcuts)|[C|F]]; [|right; left; exact C|right; right; exact F].
             cbn [w_journal w_disk w_events]. rewrite Hj, journal_delta_spec.
             destruct (Hcuts k) as (dk & Ak & c'' & d'' & rops & Eo & Kk & Hcase). rewrite Ak.
             unfold reopen_then. rewrite Eo. cbn [res_unit].
             destruct (Nat.leb_spec k (commit_point pf)) as [Lk|Lk].
             ++ destruct Hcase as (X'' & _ & L'').
                destruct (IH c'' d'' (rev rops ++ rev (firstn k dl) ++ j) ev H X'' Hops') as [Hr|[C|F]];
                  [left|right; left; exact C|right; right; rewrite <- Kk; exact F].
                rewrite L'' in Hr. apply ok_crash_before, Hr.
             ++ destruct Hcase as (X'' & _ & L'').
                destruct (IH c'' d'' (rev rops ++ rev (firstn k dl) ++ j) ev _ X'' Hops') as [Hr|[C|F]];
                  [left|right; left; exact C|right; right; rewrite <- Kk; exact F].
                rewrite L'' in Hr.
                apply (ok_crash_after H _ f pf k (t_length (c_tree c'))); try assumption.
                apply (RD_info cr bs c' (w_disk w') _ X').
          -- exfalso. destruct (apply_not_accepted cr f pf c _ c' w' _ Happ ltac:(discriminate))
               as [(_ & _ & R)|(cs & _ & _ & _ & Hn)].
             ++ apply (gates_pass_not_refused c _ pf Gp R).
             ++ apply (Hn false). reflexivity.
          -- left. apply ok_crash_failed. intros b. discriminate.
          -- left. apply ok_crash_failed. intros b. discriminate.
          -- left. apply ok_crash_failed. intros b. discriminate.
        * destruct (reopen_RDInv cr Hcrc Hnonblank bs Hw c d H X) as (c1 & E & X1 & Et & _ & Ek & _).
          unfold reopen_then. cbn [w_disk w_journal w_events]. rewrite E. cbn [res_unit rev app].
          destruct (IH c1 d j ev H X1 Hops') as [Hr|[C|F]];
            [left|right; left; exact C|right; right; rewrite <- Ek; exact F].
          rewrite Et in Hr. apply ok_crash_before, Hr.
  Qed.

  (* from a fresh replica: created from the public key alone on empty storage *)
  Theorem fresh_replica_history kp ops :
    keypair_ok kp = true -> kp_secret kp = None -> Forall rdop_ok ops ->
    exists d0 ops0 c0,
      core_open cr (Some kp) false disk_empty = (d0, ops0, Ok c0) /\
      (rd_ok (fun _ => false) 0 ops (rd_run ops c0 (mkWorld d0 [] [])) \/
       some_collision cr \/ forged_signature cr bs (kp_public kp)).
  Proof.
    intros Hkp Hsec Hops.
    destruct (RDInv_fresh cr Hcrc Hhash32 Hnonblank bs kp Hkp Hsec) as (d0 & ops0 & c0 & E & X & K & L).
    exists d0, ops0, c0. split; [exact E|].
    destruct (replica_history ops c0 d0 [] [] _ X Hops) as [Hr|[C|F]];
      [left; rewrite L in Hr; exact Hr|right; left; exact C|right; right; rewrite <- K; exact F].
  Qed.
End History.

Print Assumptions replica_history.
Print Assumptions fresh_replica_history.

(* CodecFacts.v — round-trip, size, monotonicity and strict-prefix lemmas for Codec.v *)
From HC Require Import Base Codec.
From Coq Require Import ZifyN ZifyNat ZifyBool.
Ltac Zify.zify_post_hook ::= Z.div_mod_to_equations.
Arguments N.add : simpl never.
Arguments N.sub : simpl never.
Arguments N.mul : simpl never.
Arguments N.div : simpl never.
Arguments N.modulo : simpl never.
Arguments N.pow : simpl never.
Arguments N.eqb : simpl never.
Arguments N.ltb : simpl never.
Arguments N.leb : simpl never.

(* ---------- bytes ---------- *)

Lemma length_le_bytes n v : length (le_bytes n v) = n.
Proof. revert v; induction n as [|n IH]; intros v; cbn [le_bytes length]; [reflexivity | now rewrite IH]. Qed.

Lemma le_val_le_bytes n v : v < 256 ^ N.of_nat n -> le_val (le_bytes n v) = v.
Proof.
  revert v; induction n as [|n IH]; intros v Hv; cbn [le_bytes le_val].
  - cbn in Hv. lia.
  - rewrite IH.
    + pose proof (N.div_mod v 256). lia.
    + rewrite Nat2N.inj_succ, N.pow_succ_r' in Hv. apply N.div_lt_upper_bound; lia.
Qed.

Lemma bytes_ok_le_bytes n v : bytes_ok (le_bytes n v) = true.
Proof.
  revert v; induction n as [|n IH]; intros v; cbn [le_bytes bytes_ok forallb]; [reflexivity|].
  fold (bytes_ok (le_bytes n (v / 256))). rewrite IH. unfold byte_ok.
  pose proof (N.mod_lt v 256). rewrite andb_true_r. apply N.ltb_lt. lia.
Qed.

Lemma take_app a r : take (length a) (a ++ r) = Some (a, r).
Proof. induction a as [|x a IH]; cbn [length take app]; [reflexivity | now rewrite IH]. Qed.

Lemma take_mono n p s h t : take n p = Some (h, t) -> take n (p ++ s) = Some (h, t ++ s).
Proof.
  revert p h t; induction n as [|n IH]; intros p h t; cbn [take].
  - intros [= <- <-]. reflexivity.
  - destruct p as [|x p]; [discriminate|]. cbn [app].
    destruct (take n p) as [[h' t']|] eqn:E; [|discriminate].
    intros [= <- <-]. now rewrite (IH _ _ _ E).
Qed.

Lemma take_length n p h t : take n p = Some (h, t) -> p = h ++ t /\ length h = n.
Proof.
  revert p h t; induction n as [|n IH]; intros p h t; cbn [take].
  - intros [= <- <-]. auto.
  - destruct p as [|x p]; [discriminate|].
    destruct (take n p) as [[h' t']|] eqn:E; [|discriminate].
    intros [= <- <-]. destruct (IH _ _ _ E) as [-> <-]. auto.
Qed.

Lemma len_app a b : len (a ++ b) = len a + len b.
Proof. unfold len. rewrite app_length. lia. Qed.

Lemma len_cons x a : len (x :: a) = 1 + len a.
Proof. unfold len. cbn [length]. lia. Qed.

(* ---------- "returns": decoders never panic ---------- *)

Definition total {A} (r : res A) : Prop := returns r = true.

Lemma total_bind {A B} (r : res A) (f : A -> res B) :
  total r -> (forall a, r = Ok a -> total (f a)) -> total (bind r f).
Proof. destruct r; cbn; intros H1 H2; try discriminate; auto. Qed.

Lemma dec_fixed_total n b : total (dec_fixed n b).
Proof. unfold dec_fixed, total. destruct (take n b) as [[? ?]|]; reflexivity. Qed.

Lemma dec_le_total n b : total (dec_le n b).
Proof. unfold dec_le. apply total_bind; [apply dec_fixed_total|]. intros [h r] _. reflexivity. Qed.

Lemma dec_uint_total b : total (dec_uint b).
Proof.
  unfold dec_uint. destruct b as [|x r]; [reflexivity|].
  destruct (x <? 253); [reflexivity|]. destruct (x =? 253); [apply dec_le_total|].
  destruct (x =? 254); apply dec_le_total.
Qed.

Lemma dec_buffer_total b : total (dec_buffer b).
Proof.
  unfold dec_buffer. apply total_bind; [apply dec_uint_total|]. intros [n r] _.
  destruct (n <=? len r); [apply dec_fixed_total | reflexivity].
Qed.

Lemma dec_many_total {A} (dec : bytes -> res (A * bytes)) fuel cnt b :
  (forall b, total (dec b)) -> total (dec_many dec fuel cnt b).
Proof.
  intros Hd. revert cnt b; induction fuel as [|f IH]; intros cnt b; cbn [dec_many];
    destruct (cnt =? 0); try reflexivity.
  apply total_bind; [apply Hd|]. intros [x r] _.
  apply total_bind; [apply IH|]. intros [xs r'] _. reflexivity.
Qed.

Lemma dec_vec_total {A} (dec : bytes -> res (A * bytes)) b :
  (forall b, total (dec b)) -> total (dec_vec dec b).
Proof.
  intros Hd. unfold dec_vec. apply total_bind; [apply dec_uint_total|]. intros [n r] _.
  now apply dec_many_total.
Qed.

Lemma dec_node_total b : total (dec_node b).
Proof.
  unfold dec_node. apply total_bind; [apply dec_uint_total|]. intros [i r] _.
  apply total_bind; [apply dec_uint_total|]. intros [l r'] _.
  apply total_bind; [apply dec_fixed_total|]. intros [h r''] _. reflexivity.
Qed.

Lemma dec_nodes_total b : total (dec_nodes b).
Proof. apply dec_vec_total, dec_node_total. Qed.

(* ---------- monotonicity: a successful decode is unaffected by appended bytes ---------- *)

Definition mono {A} (dec : bytes -> res (A * bytes)) : Prop :=
  forall p s v r, dec p = Ok (v, r) -> dec (p ++ s) = Ok (v, r ++ s).

Lemma bind_ok {A B} (r : res A) (f : A -> res B) v :
  bind r f = Ok v -> exists a, r = Ok a /\ f a = Ok v.
Proof. destruct r; cbn; try discriminate. eauto. Qed.

Lemma dec_fixed_mono n : mono (dec_fixed n).
Proof.
  intros p s v r. unfold dec_fixed.
  destruct (take n p) as [[h t]|] eqn:E; [|discriminate].
  intros [= <- <-]. now rewrite (take_mono _ _ _ _ _ E).
Qed.

Lemma dec_le_mono n : mono (dec_le n).
Proof.
  intros p s v r. unfold dec_le. intros H. apply bind_ok in H as ([h t] & H1 & H2).
  injection H2 as <- <-. now rewrite (dec_fixed_mono _ _ _ _ _ H1).
Qed.

Lemma dec_uint_mono : mono dec_uint.
Proof.
  intros p s v r. unfold dec_uint. destruct p as [|x p]; [discriminate|]. cbn [app].
  destruct (x <? 253). { intros [= <- <-]. reflexivity. }
  destruct (x =? 253); [apply dec_le_mono|]. destruct (x =? 254); apply dec_le_mono.
Qed.

Lemma dec_buffer_mono : mono dec_buffer.
Proof.
  intros p s v r. unfold dec_buffer. intros H. apply bind_ok in H as ([n t] & H1 & H2).
  rewrite (dec_uint_mono _ _ _ _ H1). cbn [bind].
  destruct (n <=? len t) eqn:E; [|discriminate].
  assert (n <=? len (t ++ s) = true) as -> by (rewrite len_app; lia).
  now apply dec_fixed_mono.
Qed.

Lemma dec_many_mono {A} (dec : bytes -> res (A * bytes)) fuel fuel' cnt p s v r :
  mono dec -> (fuel <= fuel')%nat ->
  dec_many dec fuel cnt p = Ok (v, r) -> dec_many dec fuel' cnt (p ++ s) = Ok (v, r ++ s).
Proof.
  intros Hm. revert fuel' cnt p v r; induction fuel as [|f IH]; intros fuel' cnt p v r Hf;
    cbn [dec_many].
  - destruct (cnt =? 0) eqn:E; [|discriminate]. intros [= <- <-].
    destruct fuel'; cbn [dec_many]; now rewrite E.
  - destruct fuel' as [|f']; [lia|]. cbn [dec_many]. destruct (cnt =? 0) eqn:E.
    + intros [= <- <-]. reflexivity.
    + intros H. apply bind_ok in H as ([x t] & H1 & H2).
      apply bind_ok in H2 as ([xs t'] & H2 & H3). injection H3 as <- <-.
      rewrite (Hm _ _ _ _ H1). cbn [bind].
      rewrite (IH f' _ _ _ _ ltac:(lia) H2). reflexivity.
Qed.

Lemma dec_vec_mono {A} (dec : bytes -> res (A * bytes)) : mono dec -> mono (dec_vec dec).
Proof.
  intros Hm p s v r. unfold dec_vec. intros H. apply bind_ok in H as ([n t] & H1 & H2).
  rewrite (dec_uint_mono _ _ _ _ H1). cbn [bind].
  apply (dec_many_mono dec (S (length t)) _ n t s v r Hm); [rewrite app_length; lia | exact H2].
Qed.

Lemma dec_node_mono : mono dec_node.
Proof.
  intros p s v r. unfold dec_node. intros H.
  apply bind_ok in H as ([i t] & H1 & H). apply bind_ok in H as ([l t'] & H2 & H).
  apply bind_ok in H as ([h t''] & H3 & H). injection H as <- <-.
  rewrite (dec_uint_mono _ _ _ _ H1). cbn [bind].
  rewrite (dec_uint_mono _ _ _ _ H2). cbn [bind].
  rewrite (dec_fixed_mono _ _ _ _ _ H3). reflexivity.
Qed.

Lemma dec_nodes_mono : mono dec_nodes.
Proof. apply dec_vec_mono, dec_node_mono. Qed.

(* ---------- uint ---------- *)

Lemma len_enc_uint v : len (enc_uint v) = size_uint v.
Proof.
  unfold enc_uint, size_uint.
  destruct (v <? 253); [reflexivity|]. destruct (v <=? 65535).
  { rewrite len_cons. unfold len. rewrite length_le_bytes. reflexivity. }
  destruct (v <=? 4294967295); rewrite len_cons; unfold len; rewrite length_le_bytes; reflexivity.
Qed.

Lemma dec_le_le_bytes n v r : v < 256 ^ N.of_nat n -> dec_le n (le_bytes n v ++ r) = Ok (v, r).
Proof.
  intros Hv. unfold dec_le, dec_fixed.
  pose proof (take_app (le_bytes n v) r) as Ht. rewrite length_le_bytes in Ht. rewrite Ht.
  cbn [bind]. now rewrite le_val_le_bytes.
Qed.

Lemma dec_enc_uint v r : fits_u64 v = true -> dec_uint (enc_uint v ++ r) = Ok (v, r).
Proof.
  unfold fits_u64, u64_max. intros Hv. unfold enc_uint.
  destruct (v <? 253) eqn:E1. { cbn [app dec_uint]. now rewrite E1. }
  destruct (v <=? 65535) eqn:E2.
  { cbn [app dec_uint]. change (253 <? 253) with false. change (253 =? 253) with true.
    cbv iota. apply dec_le_le_bytes. change (256 ^ N.of_nat 2) with 65536. lia. }
  destruct (v <=? 4294967295) eqn:E3.
  { cbn [app dec_uint]. change (254 <? 253) with false. change (254 =? 253) with false.
    change (254 =? 254) with true. cbv iota. apply dec_le_le_bytes.
    change (256 ^ N.of_nat 4) with 4294967296. lia. }
  cbn [app dec_uint]. change (255 <? 253) with false. change (255 =? 253) with false.
  change (255 =? 254) with false. cbv iota. apply dec_le_le_bytes.
  change (256 ^ N.of_nat 8) with 18446744073709551616. lia.
Qed.

Lemma bytes_ok_enc_uint v : fits_u64 v = true -> bytes_ok (enc_uint v) = true.
Proof.
  intros _. unfold enc_uint. destruct (v <? 253) eqn:E1.
  { cbn. unfold byte_ok. rewrite andb_true_r. apply N.ltb_lt. lia. }
  destruct (v <=? 65535); [|destruct (v <=? 4294967295)];
    cbn [bytes_ok forallb]; (rewrite (bytes_ok_le_bytes : forall n v, forallb byte_ok _ = true)); reflexivity.
Qed.

(* ---------- buffer ---------- *)

Lemma len_enc_buffer v : len (enc_buffer v) = size_buffer v.
Proof. unfold enc_buffer, size_buffer. now rewrite len_app, len_enc_uint. Qed.

Lemma dec_enc_buffer v r : fits_u64 (len v) = true -> dec_buffer (enc_buffer v ++ r) = Ok (v, r).
Proof.
  intros Hv. unfold dec_buffer, enc_buffer. rewrite <- app_assoc, dec_enc_uint by assumption.
  cbn [bind]. assert (len v <=? len (v ++ r) = true) as -> by (rewrite len_app; lia).
  unfold dec_fixed, len. rewrite Nat2N.id, take_app. reflexivity.
Qed.

(* ---------- nodes ---------- *)

Lemma enc_node_ok n : node_ok n = true ->
  enc_node n = Ok (enc_uint (n_index n) ++ enc_uint (n_length n) ++ n_hash n).
Proof.
  unfold node_ok, enc_node. intros H.
  destruct (Nat.eqb (length (n_hash n)) 32); [reflexivity|].
  rewrite !andb_false_r in H. cbn in H. rewrite ?andb_false_r in H. discriminate.
Qed.

Lemma node_ok_inv n : node_ok n = true ->
  fits_u64 (n_index n) = true /\ fits_u64 (n_length n) = true /\ length (n_hash n) = 32%nat.
Proof.
  unfold node_ok. intros H. apply andb_prop in H as [H _]. apply andb_prop in H as [H H3].
  apply andb_prop in H as [H1 H2]. apply Nat.eqb_eq in H3. auto.
Qed.

Lemma len_enc_node n b : enc_node n = Ok b -> len b = size_node n.
Proof.
  unfold enc_node, size_node. destruct (Nat.eqb (length (n_hash n)) 32) eqn:E; [|discriminate].
  intros [= <-]. rewrite !len_app, !len_enc_uint. apply Nat.eqb_eq in E. unfold len. rewrite E.
  change (N.of_nat 32) with 32. lia.
Qed.

Lemma enc_node_bad_hash n : length (n_hash n) <> 32%nat -> enc_node n = Err EncodingErr.
Proof. unfold enc_node. intros H. apply Nat.eqb_neq in H. now rewrite H. Qed.

Lemma dec_enc_node n b r : node_ok n = true -> enc_node n = Ok b -> dec_node (b ++ r) = Ok (n, r).
Proof.
  intros Hok. rewrite (enc_node_ok _ Hok). intros [= <-].
  destruct (node_ok_inv _ Hok) as (H1 & H2 & H3). unfold dec_node.
  rewrite <- !app_assoc, dec_enc_uint by assumption. cbn [bind].
  rewrite dec_enc_uint by assumption. cbn [bind].
  unfold dec_fixed. rewrite <- H3, take_app. cbn [bind]. destruct n; reflexivity.
Qed.

Lemma enc_all_ok_inv {A} (enc : A -> res bytes) x l b :
  enc_all enc (x :: l) = Ok b -> exists a c, enc x = Ok a /\ enc_all enc l = Ok c /\ b = a ++ c.
Proof.
  cbn [enc_all]. intros H. apply bind_ok in H as (a & H1 & H). apply bind_ok in H as (c & H2 & H).
  injection H as <-. eauto.
Qed.

Lemma len_enc_all_nodes l b : enc_all enc_node l = Ok b -> len b = sumN (map size_node l).
Proof.
  revert b; induction l as [|x l IH]; intros b.
  - intros [= <-]. reflexivity.
  - intros H. apply enc_all_ok_inv in H as (a & c & H1 & H2 & ->).
    rewrite len_app. cbn [map sumN]. now rewrite (len_enc_node _ _ H1), (IH _ H2).
Qed.

Lemma len_enc_nodes l b : enc_nodes l = Ok b -> len b = size_nodes l.
Proof.
  unfold enc_nodes, size_nodes. intros H. apply bind_ok in H as (c & H1 & H). injection H as <-.
  now rewrite len_app, len_enc_uint, (len_enc_all_nodes _ _ H1).
Qed.

Lemma enc_all_length_ge {A} (enc : A -> res bytes) l b :
  (forall x a, enc x = Ok a -> (1 <= length a)%nat) ->
  enc_all enc l = Ok b -> (length l <= length b)%nat.
Proof.
  intros Hpos. revert b; induction l as [|x l IH]; intros b.
  - intros [= <-]. cbn. lia.
  - intros H. apply enc_all_ok_inv in H as (a & c & H1 & H2 & ->).
    rewrite app_length. cbn [length]. specialize (Hpos _ _ H1). specialize (IH _ H2). lia.
Qed.

Lemma dec_many_enc_all {A} (enc : A -> res bytes) (dec : bytes -> res (A * bytes)) ok l b r fuel :
  (forall x a r, ok x = true -> enc x = Ok a -> dec (a ++ r) = Ok (x, r)) ->
  forallb ok l = true -> enc_all enc l = Ok b -> (length l <= fuel)%nat ->
  dec_many dec fuel (N.of_nat (length l)) (b ++ r) = Ok (l, r).
Proof.
  intros Hrt. revert b fuel; induction l as [|x l IH]; intros b fuel Hok Henc Hf.
  - injection Henc as <-. destruct fuel; reflexivity.
  - apply enc_all_ok_inv in Henc as (a & c & H1 & H2 & ->).
    cbn [forallb] in Hok. apply andb_prop in Hok as [Hx Hl].
    destruct fuel as [|f]; [cbn in Hf; lia|]. cbn [dec_many length].
    assert (N.of_nat (S (length l)) =? 0 = false) as -> by lia.
    rewrite <- app_assoc, (Hrt _ _ _ Hx H1). cbn [bind].
    replace (N.of_nat (S (length l)) - 1) with (N.of_nat (length l)) by lia.
    rewrite (IH c f Hl H2) by (cbn in Hf; lia). reflexivity.
Qed.

Lemma enc_node_length_pos x a : enc_node x = Ok a -> (1 <= length a)%nat.
Proof.
  unfold enc_node. destruct (Nat.eqb _ _); [|discriminate]. intros [= <-].
  rewrite app_length. unfold enc_uint. destruct (n_index x <? 253); [cbn; lia|].
  destruct (n_index x <=? 65535); [cbn; lia|]. destruct (n_index x <=? 4294967295); cbn; lia.
Qed.

Lemma nodes_ok_inv l : nodes_ok l = true ->
  fits_u64 (N.of_nat (length l)) = true /\ forallb node_ok l = true.
Proof. unfold nodes_ok. intros H. now apply andb_prop in H. Qed.

Lemma dec_enc_nodes l b r : nodes_ok l = true -> enc_nodes l = Ok b -> dec_nodes (b ++ r) = Ok (l, r).
Proof.
  intros Hok H. apply nodes_ok_inv in Hok as [Hlen Hall].
  unfold enc_nodes in H. apply bind_ok in H as (c & H1 & H). injection H as <-.
  unfold dec_nodes, dec_vec. rewrite <- app_assoc, dec_enc_uint by assumption.
  cbn [bind]. eapply dec_many_enc_all; eauto using dec_enc_node.
  pose proof (enc_all_length_ge _ _ _ enc_node_length_pos H1). rewrite app_length. lia.
Qed.

(* ---------- generic strict-prefix lemma ---------- *)

Lemma strict_prefix_err {A} (dec : bytes -> res (A * bytes)) x b p s :
  mono dec -> (forall b, total (dec b)) ->
  dec b = Ok (x, []) -> b = p ++ s -> s <> [] -> exists e, dec p = Err e.
Proof.
  intros Hm Ht Hb -> Hs. specialize (Ht p). unfold total in Ht.
  destruct (dec p) as [[v r]|e| |] eqn:E; try discriminate; [|eauto].
  rewrite (Hm _ s _ _ E) in Hb. injection Hb as _ Hb.
  apply app_eq_nil in Hb as [_ ->]. contradiction.
Qed.

(* ---------- messages: totality and monotonicity ---------- *)

Ltac tot :=
  repeat first
    [ apply dec_uint_total | apply dec_buffer_total | apply dec_nodes_total
    | apply dec_fixed_total | reflexivity
    | apply total_bind; [| intros [? ?] _] ].

Lemma dec_req_block_total b : total (dec_req_block b). Proof. unfold dec_req_block. tot. Qed.
Lemma dec_req_seek_total b : total (dec_req_seek b). Proof. unfold dec_req_seek. tot. Qed.
Lemma dec_req_upgrade_total b : total (dec_req_upgrade b). Proof. unfold dec_req_upgrade. tot. Qed.
Lemma dec_data_block_total b : total (dec_data_block b). Proof. unfold dec_data_block. tot. Qed.
Lemma dec_data_hash_total b : total (dec_data_hash b). Proof. unfold dec_data_hash. tot. Qed.
Lemma dec_data_seek_total b : total (dec_data_seek b). Proof. unfold dec_data_seek. tot. Qed.
Lemma dec_data_upgrade_total b : total (dec_data_upgrade b). Proof. unfold dec_data_upgrade. tot. Qed.

Ltac mono_step H :=
  let x := fresh "x" in let t := fresh "t" in let H1 := fresh "H1" in
  apply bind_ok in H as ([x t] & H1 & H);
  first [ rewrite (dec_uint_mono _ _ _ _ H1) | rewrite (dec_buffer_mono _ _ _ _ H1)
        | rewrite (dec_nodes_mono _ _ _ _ H1) ];
  cbn [bind].

Ltac mono_tac :=
  let H := fresh "H" in
  intros ? ? ? ? H; repeat mono_step H; injection H as <- <-; reflexivity.

Lemma dec_req_block_mono : mono dec_req_block. Proof. unfold dec_req_block. mono_tac. Qed.
Lemma dec_req_seek_mono : mono dec_req_seek. Proof. unfold dec_req_seek. mono_tac. Qed.
Lemma dec_req_upgrade_mono : mono dec_req_upgrade. Proof. unfold dec_req_upgrade. mono_tac. Qed.
Lemma dec_data_block_mono : mono dec_data_block. Proof. unfold dec_data_block. mono_tac. Qed.
Lemma dec_data_hash_mono : mono dec_data_hash. Proof. unfold dec_data_hash. mono_tac. Qed.
Lemma dec_data_seek_mono : mono dec_data_seek. Proof. unfold dec_data_seek. mono_tac. Qed.
Lemma dec_data_upgrade_mono : mono dec_data_upgrade. Proof. unfold dec_data_upgrade. mono_tac. Qed.

(* ---------- messages: size and round trip ---------- *)

Ltac split_ok H :=
  repeat match type of H with
         | (_ && _) = true => let H' := fresh "Hok" in apply andb_prop in H as [H H']
         end.

Lemma buffer_ok_inv v : buffer_ok v = true -> fits_u64 (len v) = true.
Proof. unfold buffer_ok. intros H. now apply andb_prop in H. Qed.

Lemma rt_req_block x b r : req_block_ok x = true -> enc_req_block x = Ok b ->
  dec_req_block (b ++ r) = Ok (x, r) /\ len b = size_req_block x.
Proof.
  unfold req_block_ok, enc_req_block, dec_req_block, size_req_block. intros H [= <-]. split_ok H.
  split; [|now rewrite len_app, !len_enc_uint].
  rewrite <- !app_assoc, dec_enc_uint by assumption. cbn [bind].
  rewrite dec_enc_uint by assumption. cbn [bind]. now destruct x.
Qed.

Lemma rt_req_seek x b r : req_seek_ok x = true -> enc_req_seek x = Ok b ->
  dec_req_seek (b ++ r) = Ok (x, r) /\ len b = size_req_seek x.
Proof.
  unfold req_seek_ok, enc_req_seek, dec_req_seek, size_req_seek. intros H [= <-].
  split; [|now rewrite len_enc_uint].
  rewrite dec_enc_uint by assumption. cbn [bind]. now destruct x.
Qed.

Lemma rt_req_upgrade x b r : req_upgrade_ok x = true -> enc_req_upgrade x = Ok b ->
  dec_req_upgrade (b ++ r) = Ok (x, r) /\ len b = size_req_upgrade x.
Proof.
  unfold req_upgrade_ok, enc_req_upgrade, dec_req_upgrade, size_req_upgrade. intros H [= <-].
  split_ok H. split; [|now rewrite len_app, !len_enc_uint].
  rewrite <- !app_assoc, dec_enc_uint by assumption. cbn [bind].
  rewrite dec_enc_uint by assumption. cbn [bind]. now destruct x.
Qed.

Lemma rt_data_block x b r : data_block_ok x = true -> enc_data_block x = Ok b ->
  dec_data_block (b ++ r) = Ok (x, r) /\ len b = size_data_block x.
Proof.
  unfold data_block_ok, enc_data_block, dec_data_block, size_data_block. intros H He.
  apply bind_ok in He as (ns & Hn & He). injection He as <-. split_ok H.
  split; [|now rewrite !len_app, len_enc_uint, len_enc_buffer, (len_enc_nodes _ _ Hn); lia].
  rewrite <- !app_assoc, dec_enc_uint by assumption. cbn [bind].
  rewrite dec_enc_buffer by now apply buffer_ok_inv. cbn [bind].
  rewrite (dec_enc_nodes _ _ _ Hok Hn). cbn [bind]. now destruct x.
Qed.

Lemma rt_data_hash x b r : data_hash_ok x = true -> enc_data_hash x = Ok b ->
  dec_data_hash (b ++ r) = Ok (x, r) /\ len b = size_data_hash x.
Proof.
  unfold data_hash_ok, enc_data_hash, dec_data_hash, size_data_hash. intros H He.
  apply bind_ok in He as (ns & Hn & He). injection He as <-. split_ok H.
  split; [|now rewrite !len_app, len_enc_uint, (len_enc_nodes _ _ Hn)].
  rewrite <- !app_assoc, dec_enc_uint by assumption. cbn [bind].
  rewrite (dec_enc_nodes _ _ _ Hok Hn). cbn [bind]. now destruct x.
Qed.

Lemma rt_data_seek x b r : data_seek_ok x = true -> enc_data_seek x = Ok b ->
  dec_data_seek (b ++ r) = Ok (x, r) /\ len b = size_data_seek x.
Proof.
  unfold data_seek_ok, enc_data_seek, dec_data_seek, size_data_seek. intros H He.
  apply bind_ok in He as (ns & Hn & He). injection He as <-. split_ok H.
  split; [|now rewrite !len_app, len_enc_uint, (len_enc_nodes _ _ Hn)].
  rewrite <- !app_assoc, dec_enc_uint by assumption. cbn [bind].
  rewrite (dec_enc_nodes _ _ _ Hok Hn). cbn [bind]. now destruct x.
Qed.

Lemma rt_data_upgrade x b r : data_upgrade_ok x = true -> enc_data_upgrade x = Ok b ->
  dec_data_upgrade (b ++ r) = Ok (x, r) /\ len b = size_data_upgrade x.
Proof.
  unfold data_upgrade_ok, enc_data_upgrade, dec_data_upgrade, size_data_upgrade. intros H He.
  apply bind_ok in He as (ns & Hn & He). apply bind_ok in He as (an & Ha & He).
  injection He as <-. split_ok H.
  split.
  2:{ rewrite !len_app, !len_enc_uint, len_enc_buffer, (len_enc_nodes _ _ Hn),
        (len_enc_nodes _ _ Ha). lia. }
  rewrite <- !app_assoc, dec_enc_uint by assumption. cbn [bind].
  rewrite dec_enc_uint by assumption. cbn [bind].
  rewrite (dec_enc_nodes _ _ _ Hok1 Hn). cbn [bind].
  rewrite (dec_enc_nodes _ _ _ Hok0 Ha). cbn [bind].
  rewrite dec_enc_buffer by now apply buffer_ok_inv. cbn [bind]. now destruct x.
Qed.

Lemma rt_node x b r : node_ok x = true -> enc_node x = Ok b ->
  dec_node (b ++ r) = Ok (x, r) /\ len b = size_node x.
Proof. intros H He. split; [now apply dec_enc_node | now apply len_enc_node]. Qed.

(* ---------- encoders of well-formed values succeed ---------- *)

Lemma enc_all_nodes_ok l : forallb node_ok l = true -> exists b, enc_all enc_node l = Ok b.
Proof.
  induction l as [|x l IH]; cbn [forallb enc_all]; [eauto|]. intros H.
  apply andb_prop in H as [Hx Hl]. rewrite (enc_node_ok _ Hx). destruct (IH Hl) as [b ->].
  cbn [bind]. eauto.
Qed.

Lemma enc_nodes_ok l : nodes_ok l = true -> exists b, enc_nodes l = Ok b.
Proof.
  intros H. apply nodes_ok_inv in H as [_ H]. unfold enc_nodes.
  destruct (enc_all_nodes_ok _ H) as [b ->]. cbn [bind]. eauto.
Qed.

(* ---------- bytes_ok of encodings ---------- *)

Lemma bytes_ok_app a b : bytes_ok (a ++ b) = bytes_ok a && bytes_ok b.
Proof. unfold bytes_ok. apply forallb_app. Qed.

Lemma bytes_ok_enc_buffer v : buffer_ok v = true -> bytes_ok (enc_buffer v) = true.
Proof.
  unfold buffer_ok, enc_buffer. intros H. apply andb_prop in H as [H1 H2].
  now rewrite bytes_ok_app, bytes_ok_enc_uint, H2.
Qed.

Lemma bytes_ok_enc_node n b : node_ok n = true -> enc_node n = Ok b -> bytes_ok b = true.
Proof.
  intros Hok. rewrite (enc_node_ok _ Hok). intros [= <-].
  unfold node_ok in Hok. split_ok Hok.
  now rewrite !bytes_ok_app, !bytes_ok_enc_uint, Hok0.
Qed.

Lemma bytes_ok_enc_all_nodes l b : forallb node_ok l = true -> enc_all enc_node l = Ok b ->
  bytes_ok b = true.
Proof.
  revert b; induction l as [|x l IH]; intros b Hok.
  - intros [= <-]. reflexivity.
  - intros H. apply enc_all_ok_inv in H as (a & c & H1 & H2 & ->).
    cbn [forallb] in Hok. apply andb_prop in Hok as [Hx Hl].
    now rewrite bytes_ok_app, (bytes_ok_enc_node _ _ Hx H1), (IH _ Hl H2).
Qed.

Lemma bytes_ok_enc_nodes l b : nodes_ok l = true -> enc_nodes l = Ok b -> bytes_ok b = true.
Proof.
  intros Hok H. apply nodes_ok_inv in Hok as [Hlen Hall].
  unfold enc_nodes in H. apply bind_ok in H as (c & H1 & H). injection H as <-.
  now rewrite bytes_ok_app, bytes_ok_enc_uint, (bytes_ok_enc_all_nodes _ _ Hall H1).
Qed.

(* ---------- codec_law instances ---------- *)

Lemma codec_law_intro {A} (ok : A -> bool) size enc (dec : bytes -> res (A * bytes)) :
  mono dec -> (forall b, total (dec b)) ->
  (forall x, ok x = true -> exists b, enc x = Ok b /\ bytes_ok b = true) ->
  (forall x b r, ok x = true -> enc x = Ok b -> dec (b ++ r) = Ok (x, r) /\ len b = size x) ->
  codec_law ok size enc dec.
Proof.
  intros Hm Ht He Hrt x Hx. destruct (He x Hx) as (b & Hb & Hbo). exists b.
  split; [exact Hb|]. split; [apply (Hrt x b [] Hx Hb)|]. split; [exact Hbo|].
  split; [intros r; apply (Hrt x b r Hx Hb)|].
  intros p s Hps Hs. destruct (Hrt x b [] Hx Hb) as [H _]. rewrite app_nil_r in H.
  exact (strict_prefix_err dec x b p s Hm Ht H Hps Hs).
Qed.

Lemma law_node : codec_law node_ok size_node enc_node dec_node.
Proof.
  apply codec_law_intro; [apply dec_node_mono | apply dec_node_total | | apply rt_node].
  intros x Hx. eexists. split; [apply (enc_node_ok _ Hx)|].
  eapply bytes_ok_enc_node; [exact Hx | apply (enc_node_ok _ Hx)].
Qed.

Lemma law_req_block : codec_law req_block_ok size_req_block enc_req_block dec_req_block.
Proof.
  apply codec_law_intro; [apply dec_req_block_mono | apply dec_req_block_total | | apply rt_req_block].
  intros x Hx. eexists. split; [reflexivity|]. unfold req_block_ok in Hx. split_ok Hx.
  now rewrite bytes_ok_app, !bytes_ok_enc_uint.
Qed.

Lemma law_req_seek : codec_law req_seek_ok size_req_seek enc_req_seek dec_req_seek.
Proof.
  apply codec_law_intro; [apply dec_req_seek_mono | apply dec_req_seek_total | | apply rt_req_seek].
  intros x Hx. eexists. split; [reflexivity|]. now rewrite bytes_ok_enc_uint.
Qed.

Lemma law_req_upgrade : codec_law req_upgrade_ok size_req_upgrade enc_req_upgrade dec_req_upgrade.
Proof.
  apply codec_law_intro; [apply dec_req_upgrade_mono | apply dec_req_upgrade_total | | apply rt_req_upgrade].
  intros x Hx. eexists. split; [reflexivity|]. unfold req_upgrade_ok in Hx. split_ok Hx.
  now rewrite bytes_ok_app, !bytes_ok_enc_uint.
Qed.

Lemma law_data_block : codec_law data_block_ok size_data_block enc_data_block dec_data_block.
Proof.
  apply codec_law_intro; [apply dec_data_block_mono | apply dec_data_block_total | | apply rt_data_block].
  intros x Hx. unfold data_block_ok in Hx. split_ok Hx. unfold enc_data_block.
  destruct (enc_nodes_ok _ Hok) as [ns Hns]. rewrite Hns. cbn [bind]. eexists. split; [reflexivity|].
  now rewrite !bytes_ok_app, bytes_ok_enc_uint, bytes_ok_enc_buffer, (bytes_ok_enc_nodes _ _ Hok Hns).
Qed.

Lemma law_data_hash : codec_law data_hash_ok size_data_hash enc_data_hash dec_data_hash.
Proof.
  apply codec_law_intro; [apply dec_data_hash_mono | apply dec_data_hash_total | | apply rt_data_hash].
  intros x Hx. unfold data_hash_ok in Hx. split_ok Hx. unfold enc_data_hash.
  destruct (enc_nodes_ok _ Hok) as [ns Hns]. rewrite Hns. cbn [bind]. eexists. split; [reflexivity|].
  now rewrite !bytes_ok_app, bytes_ok_enc_uint, (bytes_ok_enc_nodes _ _ Hok Hns).
Qed.

Lemma law_data_seek : codec_law data_seek_ok size_data_seek enc_data_seek dec_data_seek.
Proof.
  apply codec_law_intro; [apply dec_data_seek_mono | apply dec_data_seek_total | | apply rt_data_seek].
  intros x Hx. unfold data_seek_ok in Hx. split_ok Hx. unfold enc_data_seek.
  destruct (enc_nodes_ok _ Hok) as [ns Hns]. rewrite Hns. cbn [bind]. eexists. split; [reflexivity|].
  now rewrite !bytes_ok_app, bytes_ok_enc_uint, (bytes_ok_enc_nodes _ _ Hok Hns).
Qed.

Lemma law_data_upgrade : codec_law data_upgrade_ok size_data_upgrade enc_data_upgrade dec_data_upgrade.
Proof.
  apply codec_law_intro; [apply dec_data_upgrade_mono | apply dec_data_upgrade_total | | apply rt_data_upgrade].
  intros x Hx. unfold data_upgrade_ok in Hx. split_ok Hx. unfold enc_data_upgrade.
  destruct (enc_nodes_ok _ Hok1) as [ns Hns]. destruct (enc_nodes_ok _ Hok0) as [an Han].
  rewrite Hns, Han. cbn [bind]. eexists. split; [reflexivity|].
  now rewrite !bytes_ok_app, !bytes_ok_enc_uint, bytes_ok_enc_buffer,
    (bytes_ok_enc_nodes _ _ Hok1 Hns), (bytes_ok_enc_nodes _ _ Hok0 Han).
Qed.

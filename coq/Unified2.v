(* Unified2.v — C01 in full, part 2: core_append and core_clear preserve the unified invariant FInv of
   Unified1.v, for every flush decision (flushes rewrite the dirty bitfield pages, the tree nodes and the
   oplog header, and empty the list of pending entries). *)
From HC Require Import Base NMap Codec CodecFacts Crypto FlatTree Storage Bitfield Oplog Merkle Core.
From HC Require Import FlatTreeFacts StorageFacts BitfieldFacts OplogFacts TreeRef OffsetFacts CoreFacts Crash Refine.
From HC Require Import ClearRefine Reopen ContigBridge Unified1.
From Coq Require Import FMapPositive ZifyN ZifyNat ZifyBool.
Ltac Zify.zify_post_hook ::= Z.div_mod_to_equations.
Arguments N.add : simpl never.
Arguments N.sub : simpl never.
Arguments N.mul : simpl never.
Arguments N.div : simpl never.
Arguments N.modulo : simpl never.
Arguments N.pow : simpl never.
Arguments N.eqb : simpl never.
Arguments N.ltb : simpl never.
Arguments N.leb : simpl never.
Arguments N.max : simpl never.
Arguments N.min : simpl never.
Arguments N.of_nat : simpl never.
Arguments N.to_nat : simpl never.

Lemma held_lt n cl i : held n cl i = true -> i < n.
Proof. unfold held. intros H. apply andb_prop in H as [H _]. lia. Qed.

Lemma updates_of_single e u : e_bitfield e = Some u -> updates_of [e] = [u].
Proof. intros H. unfold updates_of. cbn [flat_map]. rewrite H. reflexivity. Qed.

Section StepsU.
  Variable cr : crypto.
  Hypothesis Hcrc : crc_ok cr.
  Hypothesis Hhash32 : forall x, length (cr_hash cr x) = 32%nat.
  Hypothesis Hnonblank : forall x, all_zero (cr_hash cr x) = false.
  Hypothesis Hhashbytes : forall x, bytes_ok (cr_hash cr x) = true.

  (* ---------- changes that the disk part does not see ---------- *)

  (* only the skip counter differs *)
  Lemma FInv_skip c d bs cl s :
    FInv cr c d bs cl ->
    FInv cr (mkCore (c_keypair c) (c_oplog c) (c_tree c) (c_bitfield c) (c_header c) s) d bs cl.
  Proof.
    intros (W & D). split; [|exact D].
    apply (CInv_ext cr c _ d d bs cl); try reflexivity. exact W.
  Qed.

  (* only the data store differs *)
  Lemma FInv_data c d d' bs cl :
    FInv cr c d bs cl -> CInv cr c d' bs cl ->
    d_tree d' = d_tree d -> d_oplog d' = d_oplog d -> d_bitfield d' = d_bitfield d ->
    FInv cr c d' bs cl.
  Proof.
    intros (_ & D) W' Et Eo Eb. split; [exact W'|]. rewrite Et, Eo, Eb. exact D.
  Qed.

  (* ---------- a header that fits its slot and a clear entry never hit the 30-bit frame guard ---------- *)

  Lemma oplog_flush_ok (o : oplog) (h : header) :
    hdr_fits false h ->
    exists o' slot hb, oplog_flush cr o h false = Ok (o', [SW Oplog slot hb; ST Oplog ENTRIES_OFFSET]).
  Proof.
    intros [Hf|Hf]; [discriminate Hf|].
    unfold oplog_flush, insert_header. destruct (next_slot (ol_bits o)) as [[slot bit] bits'].
    destruct (frame cr bit false (enc_header h)) as [fr| | |] eqn:F.
    - cbn [bind]. pose proof (frame_length _ _ _ _ _ F) as L.
      destruct (N.ltb_spec (8 + 2 * len (enc_header h)) (len fr)) as [Lt|Ge]; [lia|].
      cbn [bind]. rewrite N.add_0_r. do 3 eexists. reflexivity.
    - unfold frame in F. destruct (1073741824 <=? len (enc_header h)); discriminate F.
    - unfold frame in F. unfold HEADER_SIZE in Hf.
      destruct (N.leb_spec 1073741824 (len (enc_header h))) as [L|L]; [lia|discriminate F].
    - unfold frame in F. destruct (1073741824 <=? len (enc_header h)); discriminate F.
  Qed.

  Lemma flush_all_ok (c : core) (w : world) c' w' r :
    unflushed_ok (c_tree c) -> hdr_fits false (c_header c) ->
    flush_all cr false c w = (c', w', r) -> r = Ok tt.
  Proof.
    intros Hok Hfits. unfold flush_all. rewrite mbind_get_core. unfold bf_flush. cbv iota.
    rewrite mbind_put_bitfield.
    match goal with |- context [mbind (emit ?ops) ?f ?c1 ?w1] =>
      destruct (emit_total ops c1 w1) as (d1 & A1 & E1);
        [apply Forall_forall; intros o Ho; apply in_map_iff in Ho as (p & <- & _); exact I|];
        rewrite (mbind_eq _ f _ _ _ _ _ E1)
    end.
    rewrite mbind_lift, (tree_flush_ok (c_tree c) Hok). cbv iota.
    rewrite mbind_put_tree.
    match goal with |- context [mbind (emit ?ops) ?f ?c1 ?w1] =>
      destruct (emit_total ops c1 w1) as (d2 & A2 & E2);
        [apply Forall_forall; intros o Ho; apply in_map_iff in Ho as (p & <- & _); exact I|];
        rewrite (mbind_eq _ f _ _ _ _ _ E2)
    end.
    rewrite mbind_get_core, mbind_lift. cbn [c_oplog c_header].
    destruct (oplog_flush_ok (c_oplog c) (c_header c) Hfits) as (o' & slot & hb & OF). rewrite OF.
    cbv iota. rewrite mbind_put_oplog.
    match goal with |- context [emit ?ops ?c1 ?w1] =>
      destruct (emit_total ops c1 w1) as (d3 & A3 & E3); [repeat constructor|]; rewrite E3
    end.
    intros H. injection H as _ _ <-. reflexivity.
  Qed.

  Lemma clear_entry_logged (o : oplog) (s k : N) :
    exists o' fr, oplog_append cr o (mkEntry [] None (Some (mkBfUpdate true s k))) =
                  Ok (o', [SW Oplog (ENTRIES_OFFSET + ol_entries_bytes o) fr]).
  Proof.
    unfold oplog_append, enc_entry. cbn [e_nodes e_upgrade e_bitfield bind lift_enc].
    unfold frame.
    match goal with |- context [1073741824 <=? len ?p] => assert (Hl : len p <= 20) end.
    { unfold enc_bf_update. cbn [bu_drop bu_start bu_length]. rewrite !len_app, !len_enc_uint.
      pose proof (size_uint_le s). pose proof (size_uint_le k). unfold len at 1 2 3 4. cbn [length]. lia. }
    match goal with |- context [1073741824 <=? len ?p] => destruct (N.leb_spec 1073741824 (len p)) as [L|L] end; [lia|].
    cbn [bind]. do 2 eexists. reflexivity.
  Qed.

  (* ---------- flush ---------- *)

  Lemma flush_all_FInv c d j ev bs cl c' w' r :
    FInv cr c d bs cl ->
    flush_all cr false c (mkWorld d j ev) = (c', w', r) ->
    r = Ok tt /\ FInv cr c' (w_disk w') bs cl /\ c_keypair c' = c_keypair c.
  Proof.
    intros (W & s0 & s1 & body & st0 & st1 & hf & l & kf & Hcont & G & Hlen & Hbytes & Hhf & Hhc & Hch &
            Hstore & Hbm & Hbnd & Hbex & Hrep & Hdirty) H.
    pose proof W as ((HL & HB & HF & HR & Hlook & Hun & Hs & Hn) & Hbf & Hcg & Hd & Hdl).
    set (n := N.of_nat (length bs)) in *.
    pose proof Hhc as (Hok & Hkp & Hfk & Hln & Hrh & Hsg).
    assert (Hfits : hdr_fits false (c_header c)).
    { apply hdr_fits_real; [exact Hok|exact Hrh|]. destruct Hsg as [->|Hsg']; unfold len; [cbn; lia|rewrite Hsg'; lia]. }
    pose proof (flush_all_ok c (mkWorld d j ev) c' w' r Hun Hfits H) as ->.
    destruct (flush_all_preserves_c cr Hhash32 Hnonblank c d j ev bs cl c' w' _ W H) as [Hp|(_ & W' & K')];
      [discriminate Hp|]. split; [reflexivity|]. split; [|exact K'].
    destruct (flush_all_detail cr Hhash32 Hnonblank c (mkWorld d j ev) Hun)
      as [(c1 & w1 & E)|(o' & ops & t' & tops & d2 & d3 & jn & OF & Hops & TF & A2 & A3 & E)];
      rewrite E in H; [discriminate H|]. injection H as <- <-.
    cbn [w_disk] in *.
    split; [exact W'|].
    cbn [c_oplog c_keypair c_header c_bitfield c_tree] in *.
    destruct (flush_crash cr Hcrc s0 s1 body st0 st1 _ hf l (c_header c) (c_oplog c) o' ops G Hok Hfits eq_refl OF)
      as (wr & s0' & s1' & st0' & st1' & Eops & _ & C1 & _ & C2 & G' & _ & Eo').
    set (d1 := d_set d Bitfield (write_pages (d_bitfield d) (bf_bits (c_bitfield c)) (bf_dirty (c_bitfield c)))) in *.
    destruct (tree_flush_other_stores (c_tree c) t' tops d1 d2 TF A2 Hun) as (_ & B2 & O2 & _).
    assert (O1 : d_oplog d1 = d_oplog d) by (destruct d; reflexivity).
    assert (B1 : d_bitfield d1 = write_pages (d_bitfield d) (bf_bits (c_bitfield c)) (bf_dirty (c_bitfield c)))
      by (destruct d; reflexivity).
    assert (S3 : forall s, s <> Oplog -> d_get d3 s = d_get d2 s).
    { intros s Hs'. apply (apply_sops_other _ _ _ _ A3). intros o Ho Heq.
      rewrite Forall_forall in Hops. rewrite (Hops o Ho) in Heq. apply Hs'. symmetry. exact Heq. }
    assert (Hcont' : f_content (d_oplog d3) = s0' ++ s1' ++ []).
    { apply (c_apply_all_sound ops d2 d3 _ Hops A3). rewrite O2, O1, Hcont, Eops.
      cbn [c_apply_all]. rewrite C1, C2. reflexivity. }
    rewrite (tree_flush_ok (c_tree c) Hun) in TF. injection TF as <- <-.
    assert (Bf3 : d_bitfield d3 = write_pages (d_bitfield d) (bf_bits (c_bitfield c)) (bf_dirty (c_bitfield c))).
    { change (d_bitfield d3) with (d_get d3 Bitfield). rewrite (S3 Bitfield) by discriminate.
      change (d_get d2 Bitfield) with (d_bitfield d2). rewrite B2, B1. reflexivity. }
    assert (Hfb : forall i, fbit (d_bitfield d3) i = held n cl i).
    { intros i. rewrite Bf3.
      destruct (fbit_write_pages (bf_bits (c_bitfield c)) (bf_dirty (c_bitfield c)) (d_bitfield d) i) as [I1 I2].
      destruct (in_dec N.eq_dec (i / PAGE_BITS) (bf_dirty (c_bitfield c))) as [Hin|Hnin].
      - rewrite (I1 Hin). apply Hbf.
      - rewrite (I2 Hnin). destruct (bool_dec (held n cl i) (fbit (d_bitfield d) i)) as [Eq|Ne]; [symmetry; exact Eq|].
        exfalso. apply Hnin, Hdirty, Ne. }
    exists s0', s1', [], st0', st1', (c_header c), [], n.
    split; [exact Hcont'|]. split; [exact G'|].
    split; [rewrite Eo'; reflexivity|]. split; [rewrite Eo'; reflexivity|].
    split; [exact Hhc|]. split; [exact Hhc|].
    split; [reflexivity|].
    split.
    { pose proof W' as ((_ & _ & _ & _ & Hlook' & _) & _). cbn [c_tree] in Hlook'.
      intros dd o Hfull. rewrite <- (Hlook' dd o Hfull). apply required_node_same_unflushed. reflexivity. }
    split; [rewrite Bf3; apply len_write_pages, Hbm|].
    split; [intros i Hi; rewrite Hfb in Hi; apply (held_lt n cl i Hi)|].
    split.
    { apply (fexact_ext (bf_get (c_bitfield c))); [intros i; rewrite Hfb; apply Hbf|].
      apply exact_contig_fexact, Hcg. }
    split; [intros i; apply Hfb|].
    intros i Hi. exfalso. apply Hi. symmetry. apply Hfb.
  Qed.

  Lemma maybe_flush_FInv f c d j ev bs cl c' w' r :
    FInv cr c d bs cl ->
    maybe_flush cr f c (mkWorld d j ev) = (c', w', r) ->
    r = Ok tt /\ FInv cr c' (w_disk w') bs cl /\ c_keypair c' = c_keypair c.
  Proof.
    intros D. unfold maybe_flush. rewrite mbind_get_core.
    match goal with |- (if ?b then _ else _) _ _ = _ -> _ => destruct b end.
    - rewrite mbind_put_skip. intros H.
      apply (flush_all_FInv _ d j ev bs cl) in H; [exact H|]. apply FInv_skip, D.
    - intros H. unfold put_skip in H. injection H as <- <- <-.
      split; [reflexivity|]. split; [|reflexivity]. cbn [w_disk]. apply FInv_skip, D.
  Qed.

  (* ---------- logging one entry that carries a bitfield update ---------- *)

  (* c2/d2: the state after the entry e has been written to the oplog and its update u applied to the
     bitfield in memory (header, tree and data store may have changed too, as described by CInv for c2/d2) *)
  Lemma log_entry_FInv c d bs cl batch e u o' fr c2 d2 cl' :
    FInv cr c d bs cl ->
    e_bitfield e = Some u -> entry_ok e = true ->
    oplog_append cr (c_oplog c) e = Ok (o', [SW Oplog (ENTRIES_OFFSET + ol_entries_bytes (c_oplog c)) fr]) ->
    c_oplog c2 = o' -> c_keypair c2 = c_keypair c -> c_bitfield c2 = bf_apply (c_bitfield c) u ->
    d_oplog d2 = f_write (d_oplog d) (ENTRIES_OFFSET + ol_entries_bytes (c_oplog c)) fr ->
    d_tree d2 = d_tree d -> d_bitfield d2 = d_bitfield d ->
    CInv cr c2 d2 (bs ++ batch) cl' ->
    (forall kf l, gchain cr bs kf l (N.of_nat (length bs)) ->
                  gchain cr (bs ++ batch) kf (l ++ [e]) (N.of_nat (length (bs ++ batch)))) ->
    hdr_desc' (c_keypair c) (c_header c2) (N.of_nat (length (bs ++ batch))) ->
    FInv cr c2 d2 (bs ++ batch) cl'.
  Proof.
    intros (W & s0 & s1 & body & st0 & st1 & hf & l & kf & Hcont & G & Hlen & Hbytes & Hhf & Hhc & Hch &
            Hstore & Hbm & Hbnd & Hbex & Hrep & Hdirty) He Hok OA Eo Ek Eb Edo Edt Edb W2 Hchain Hh2.
    pose proof W as ((HL & HB & HF & HR & Hlook & Hun & Hs & Hn) & Hbf & Hcg & Hd & Hdl).
    pose proof W2 as (_ & Hbf2 & _).
    set (n := N.of_nat (length bs)) in *. set (n' := N.of_nat (length (bs ++ batch))) in *.
    set (off := ENTRIES_OFFSET + ol_entries_bytes (c_oplog c)) in *.
    assert (Eol : c_oplog c = oo_oplog (stable_result (ol_bits (c_oplog c)) hf l)).
    { cbn [stable_result oo_oplog]. destruct (c_oplog c) as [bits el eb]. cbn [ol_bits ol_entries_len ol_entries_bytes] in *.
      rewrite Hlen, Hbytes. reflexivity. }
    assert (OA' : oplog_append cr (oo_oplog (stable_result (ol_bits (c_oplog c)) hf l)) e = Ok (o', [SW Oplog off fr]))
      by (rewrite <- Eol; exact OA).
    destruct (append_crash cr Hcrc s0 s1 body st0 st1 _ hf l e o' _ G Hok OA')
      as (fr' & Eops & _ & Cw & G' & _ & Eo' & _).
    injection Eops as Eoff <-.
    (* the update seen as a function *)
    assert (Hupd : forall i, held n' cl' i = upd_fun (held n cl) u i).
    { intros i. rewrite <- Hbf2, Eb, bf_get_apply_fun. apply upd_fun_ext, Hbf. }
    split; [exact W2|].
    rewrite Eo, Ek, Eb, Edo, Edt, Edb. fold n'.
    exists s0, s1, (body ++ fr), st0, st1, hf, (l ++ [e]), kf.
    split; [rewrite f_content_write, Hcont, Eoff; exact Cw|].
    split; [rewrite Eo'; exact G'|].
    split; [rewrite Eo'; reflexivity|]. split; [rewrite Eo'; reflexivity|].
    split; [exact Hhf|]. split; [exact Hh2|].
    split; [apply Hchain, Hch|].
    split.
    { intros dd0 o Hfull. rewrite (Hstore dd0 o Hfull). f_equal. symmetry. apply ref_node_app.
      pose proof (gchain_le cr bs l kf n Hch). fold n. lia. }
    split; [exact Hbm|]. split; [exact Hbnd|]. split; [exact Hbex|].
    split.
    { intros i. rewrite updates_of_app, upds_fun_app, (updates_of_single e u He).
      unfold upds_fun at 1. cbn [fold_left]. rewrite Hupd. apply upd_fun_ext, Hrep. }
    destruct (dirty_apply (c_bitfield c) u (held n cl) (fbit (d_bitfield d)) Hbf Hdirty) as [_ D2].
    intros i Hi. apply D2. rewrite <- Hupd. exact Hi.
  Qed.
End StepsU.

(* ====================================================================================== *)
(* core_append                                                                             *)
(* ====================================================================================== *)

Section AppendU.
  Variable cr : crypto.
  Hypothesis Hcrc : crc_ok cr.
  Hypothesis Hhash32 : forall x, length (cr_hash cr x) = 32%nat.
  Hypothesis Hnonblank : forall x, all_zero (cr_hash cr x) = false.
  Hypothesis Hhashbytes : forall x, bytes_ok (cr_hash cr x) = true.
  Hypothesis Hsig64 : forall sk m, length (cr_sign cr sk m) = 64%nat.
  Hypothesis Hsigbytes : forall sk m, bytes_ok (cr_sign cr sk m) = true.

  Lemma append_body_FInv f batch c d j ev bs cl sk c' w' r :
    FInv cr c d bs cl -> batch <> [] ->
    sumN (map len (bs ++ batch)) <= u64_max ->
    NODE_SIZE * (2 * N.of_nat (length (bs ++ batch))) <= u64_max ->
    append_body cr f batch sk c c (mkWorld d j ev) = (c', w', r) ->
    r = Panic frame_msg \/
    (r = Ok tt /\ FInv cr c' (w_disk w') (bs ++ batch) (cl_mask cl (N.of_nat (length bs))) /\
     c_keypair c' = c_keypair c).
  Proof.
    intros D Hne Hfit Hidx H.
    pose proof D as (W & s0 & s1 & body & st0 & st1 & hf & l & kf & Hcont & G & Hlen & Hbytes & Hhf & Hhc & Hch &
                     Hstore & Hbm & Hbnd & Hbex & Hrep & Hdirty).
    pose proof W as ((HL & HB & HF & HR & Hlook & Hun & Hs & Hn) & Hbf & Hcg & Hd & Hdl).
    set (B := bs ++ batch) in *. set (n := N.of_nat (length bs)) in *.
    set (k := N.of_nat (length batch)).
    assert (Hk : 0 < k) by (destruct batch; [congruence|unfold k; cbn [length]; lia]).
    assert (HlenB : N.of_nat (length B) = n + k) by (unfold B, n, k; rewrite app_length; lia).
    assert (HsumB : sumN (map len B) = sumN (map len bs) + sumN (map len batch))
      by (unfold B; rewrite map_app; apply TreeRef.sumN_app).
    set (cs0 := tree_changeset (c_tree c)) in *.
    assert (R0 : cs_roots cs0 = ref_roots cr B n).
    { unfold cs0, B. cbn [tree_changeset cs_roots]. rewrite HR. symmetry. apply ref_roots_app. unfold n. lia. }
    assert (L0 : cs_length cs0 = n) by exact HL.
    assert (Hblk : forall i, (i < length batch)%nat -> nth i batch [] = blk B (n + N.of_nat i))
      by (intros i Hi; apply batch_blk, Hi).
    destruct (cs_append_all_no_panic cr B Hfit batch cs0 n R0 L0 Hblk) as [cs1 Hcs].
    { unfold cs0. cbn [tree_changeset cs_byte_length]. rewrite HB. lia. }
    destruct (cs_append_all_ref cr B batch cs0 cs1 n R0 L0 Hblk Hcs)
      as (R1 & L1 & B1 & BL1 & A1 & F1 & U1 & Sound1).
    destruct (cs_append_all_complete cr B batch cs0 cs1 n R0 L0 Hblk Hcs) as (_ & OL1 & OF1 & Compl1).
    assert (Hn64 : n + k <= 2 ^ 64).
    { rewrite HlenB in Hidx. unfold NODE_SIZE, u64_max in Hidx. change (2 ^ 64) with 18446744073709551616. lia. }
    destruct (cs_append_all_shape cr B batch cs0 cs1 n R0 L0 Hblk Hn64 Hcs) as (new & Enew & Lnew & Shape1).
    unfold cs0 in B1, BL1, A1, F1, OL1, OF1, Sound1, Enew.
    cbn [tree_changeset cs_byte_length cs_batch_length cs_ancestors cs_fork cs_orig_length cs_orig_fork cs_nodes
         cs_rnodes rev_append] in B1, BL1, A1, F1, OL1, OF1, Sound1, Enew.
    rewrite app_nil_r in Enew.
    assert (Sound : forall x, In x (cs_nodes cs1) -> x = ref_at cr B (n_index x)).
    { intros x Hx. destruct (Sound1 x Hx) as [[]|E]. exact E. }
    assert (Shape : forall x, In x (cs_nodes cs1) -> exists jj q, x = ref_node cr B jj q /\ (q + 1) * p2 jj <= n + k).
    { intros x Hx. apply in_cs_nodes in Hx. rewrite Enew in Hx.
      destruct (Shape1 x Hx) as (jj & q & -> & _ & Q2). exists jj, q. split; [reflexivity|exact Q2]. }
    unfold append_body in H. rewrite mbind_lift in H. fold cs0 in H. rewrite Hcs in H. cbv zeta in H.
    rewrite mbind_emit_SW in H. cbn [w_disk w_journal w_events d_get] in H.
    set (cs := cs_hash_and_sign cr cs1 sk) in *.
    set (bu := mkBfUpdate false (cs_ancestors cs) (cs_batch_length cs)) in *.
    assert (Hbu : bu = mkBfUpdate false n k).
    { unfold bu, cs, cs_hash_and_sign, cs_set_hash_sig. cbn [cs_ancestors cs_batch_length].
      rewrite A1, BL1, HL. f_equal; lia. }
    assert (P1 : cs_upgraded cs = true).
    { unfold cs, cs_hash_and_sign, cs_set_hash_sig. cbn [cs_upgraded]. apply U1, Hne. }
    assert (P5 : cs_orig_fork cs = t_fork (c_tree c)).
    { unfold cs, cs_hash_and_sign, cs_set_hash_sig. cbn [cs_orig_fork]. exact OF1. }
    assert (P6 : cs_orig_length cs = t_length (c_tree c)).
    { unfold cs, cs_hash_and_sign, cs_set_hash_sig. cbn [cs_orig_length]. exact OL1. }
    assert (P7 : cs_ancestors cs = t_length (c_tree c)).
    { unfold cs, cs_hash_and_sign, cs_set_hash_sig. cbn [cs_ancestors]. exact A1. }
    set (hash := cs_tree_hash cr cs1) in *.
    set (sg := cr_sign cr sk (cs_signable cs1 hash)) in *.
    assert (Ecs : cs_nodes cs = cs_nodes cs1 /\ cs_fork cs = 0 /\ cs_length cs = n + k /\
                  cs_roots cs = ref_roots cr B (n + k) /\ cs_byte_length cs = sumN (map len B) /\
                  cs_hash cs = Some hash /\ cs_signature cs = Some sg).
    { unfold cs, cs_hash_and_sign, cs_set_hash_sig.
      cbn [cs_nodes cs_rnodes cs_fork cs_length cs_roots cs_byte_length cs_hash cs_signature].
      fold (cs_nodes cs1). rewrite F1, HF, L1, R1, B1, HB, HsumB. repeat split; reflexivity. }
    destruct Ecs as (EN & EF & EL & ER & EB & EH & ES).
    set (e := mkEntry (cs_nodes cs) (Some (mkTreeUpgrade (cs_fork cs) (cs_ancestors cs) (cs_length cs) sg)) (Some bu)).
    assert (Ee : e = mkEntry (cs_nodes cs1) (Some (mkTreeUpgrade 0 n (n + k) sg)) (Some (mkBfUpdate false n (n + k - n)))).
    { unfold e. rewrite EN, EF, EL, P7, HL, Hbu. replace (n + k - n) with k by lia. reflexivity. }
    assert (Heok : entry_ok e = true).
    { rewrite Ee. apply (append_entry_ok cr Hhash32 Hhashbytes B); try assumption.
      - rewrite <- HlenB. exact Hidx.
      - lia.
      - rewrite length_cs_nodes, Enew. replace (n + k - n) with k by lia. unfold k. lia.
      - apply Hsig64.
      - apply Hsigbytes. }
    assert (P4 : forall x, In x (e_nodes e) -> length (n_hash x) = 32%nat).
    { intros x Hx. unfold e in Hx. cbn [e_nodes] in Hx. rewrite EN in Hx. rewrite (Sound x Hx).
      apply ref_at_hash_length, Hhash32. }
    destruct (oplog_append_cases cr (c_oplog c) e P4) as [OA|(o' & fr & OA)].
    { match type of H with
      | mbind (log_and_commit _ _ _) _ ?c0 ?w0 = _ =>
          pose proof (log_and_commit_panic cr cs bu c0 w0 hash sg frame_msg P1 EH ES OA) as E
      end.
      rewrite (mbind_panic _ _ _ _ _ _ _ E) in H. injection H as <- <- <-. left. reflexivity. }
    match type of H with
    | mbind (log_and_commit _ _ _) _ ?c0 ?w0 = _ =>
        pose proof (log_and_commit_detail cr cs bu c0 w0 hash sg o' _ fr P1 EH ES P5 P6 P7 OA) as E
    end.
    rewrite (mbind_eq _ _ _ _ _ _ _ E) in H. clear E.
    cbn [w_disk w_journal w_events] in H.
    rewrite EN, EF, EL, ER, EB in H.
    (* the state after the commit satisfies the invariant for the longer list *)
    match type of H with
    | mbind (maybe_flush _ _) _ ?c2 (mkWorld ?d2 ?j2 ?ev2) = _ =>
        assert (D2 : FInv cr c2 d2 B (cl_mask cl n)); [|set (c2' := c2) in *; set (d2' := d2) in *]
    end.
    { set (dd := d_set d Data (f_write (d_data d) (t_byte_length (c_tree c)) (concat batch))).
      set (off := ENTRIES_OFFSET + ol_entries_bytes (c_oplog c)) in *.
      assert (Tsame : d_tree (d_set dd Oplog (f_write (d_oplog dd) off fr)) = d_tree d) by (destruct d; reflexivity).
      assert (Dsame : d_data (d_set dd Oplog (f_write (d_oplog dd) off fr))
                      = f_write (d_data d) (t_byte_length (c_tree c)) (concat batch)) by (destruct d; reflexivity).
      assert (Bsame : d_bitfield (d_set dd Oplog (f_write (d_oplog dd) off fr)) = d_bitfield d) by (destruct d; reflexivity).
      assert (Osame : d_oplog (d_set dd Oplog (f_write (d_oplog dd) off fr)) = f_write (d_oplog d) off fr)
        by (destruct d; reflexivity).
      assert (GG : forall i, bf_get (bf_apply (c_bitfield c) bu) i = held (N.of_nat (length B)) (cl_mask cl n) i).
      { intros i. rewrite bf_get_apply, Hbu, HlenB. cbn [bu_start bu_length bu_drop negb]. rewrite Hbf.
        unfold held, cl_mask. fold n.
        destruct (N.leb_spec n i), (N.ltb_spec i (n + k)), (N.ltb_spec i n); cbn [andb];
          rewrite ?andb_false_r, ?andb_true_r; cbn [negb]; try reflexivity; lia. }
      assert (Hex2 : exact_contig (bf_apply (c_bitfield c) bu)
                                  (update_contig (hd_contig (c_header c)) (bf_apply (c_bitfield c) bu) bu)).
      { apply update_contig_exact; [exact Hcg|]. rewrite Hbu. cbn [bu_length]. exact Hk. }
      match goal with |- FInv cr ?c2 ?d2 B _ => assert (W2 : CInv cr c2 d2 B (cl_mask cl n)) end.
      { unfold CInv, TInv. cbv zeta. cbn [c_tree c_bitfield c_header t_length t_byte_length t_fork t_roots].
        rewrite Tsame, Dsame. rewrite HB.
        split.
        { split; [symmetry; exact HlenB|].
          split; [reflexivity|].
          split; [reflexivity|].
          split; [rewrite HlenB; reflexivity|].
          split.
          { apply (commit_lookups cr Hnonblank bs batch (c_tree c) _ (d_tree d) (cs_nodes cs1)).
            - exact Sound.
            - intros jj q Q1 Q2. apply Compl1; [exact Q1|]. fold B in Q2. rewrite HlenB in Q2. exact Q2.
            - reflexivity.
            - exact Hlook. }
          split.
          { apply (commit_unflushed_ok cr Hhash32 B (c_tree c) _ (cs_nodes cs1) Hfit Sound); [reflexivity|exact Hun]. }
          split; [exact Hfit|exact Hidx]. }
        split; [exact GG|].
        split; [cbn [set_contig hd_contig]; exact Hex2|].
        split.
        { intros i Hi Hpos. rewrite <- GG in Hi. rewrite bf_get_apply, Hbu in Hi.
          cbn [bu_start bu_length bu_drop negb] in Hi.
          destruct (N.lt_ge_cases i n) as [A|A].
          - assert ((n <=? i) && (i <? n + k) = false) as E by lia. rewrite E in Hi. rewrite Hbf in Hi.
            assert (Hnth : nth (N.to_nat i) B [] = nth (N.to_nat i) bs []) by (unfold B; apply app_nth1; lia).
            rewrite Hnth in *. unfold B. rewrite prefix_size_app_l by (fold n; lia).
            pose proof (Hd i Hi Hpos) as R. pose proof R as R'. apply f_read_spec in R' as (R1' & _).
            rewrite f_read_write_other; [exact R|exact R1'|left; lia].
          - destruct (N.lt_ge_cases i (n + k)) as [A2|A2].
            2:{ assert ((n <=? i) && (i <? n + k) = false) as E by lia. rewrite E in Hi. rewrite Hbf in Hi.
                unfold held in Hi. fold n in Hi. lia. }
            set (jn := (N.to_nat i - length bs)%nat).
            assert (Hjn : (jn < length batch)%nat) by (unfold jn, n, k in *; lia).
            assert (Hi' : i = n + N.of_nat jn) by (unfold jn, n in *; lia).
            assert (Hnth : nth (N.to_nat i) B [] = nth jn batch []).
            { unfold B. rewrite app_nth2 by (unfold n in A; lia). reflexivity. }
            rewrite Hnth in *. rewrite Hi'. unfold B, n. rewrite prefix_size_app_r.
            rewrite (concat_split batch jn Hjn) at 1. apply f_read_write_part. }
        rewrite f_write_len, len_concat. lia. }
      apply (log_entry_FInv cr Hcrc Hhash32 Hnonblank Hhashbytes c d bs cl batch e bu o' fr _ _ (cl_mask cl n) D);
        try reflexivity; try assumption.
      - intros kf0 l0 Hch0. apply (gchain_snoc_append cr B l0 kf0 n e).
        + apply gchain_app; [apply N.le_refl|exact Hch0].
        + fold B. rewrite HlenB. rewrite Ee. split; [lia|]. split.
          { exists sg. split; [reflexivity|]. split; [apply Hsig64|apply Hsigbytes]. }
          split; [reflexivity|]. cbn [e_nodes]. split; [exact Shape|].
          intros jj q Q1 Q2. apply Compl1; assumption.
      - cbn [c_header]. fold B. rewrite HlenB.
        destruct Hhc as (Hok & Hkp & Hfk & Hln & Hrh & Hsgc).
        apply (hdr_desc'_upd (c_keypair c) (c_header c) n _ (n + k) hash sg); try reflexivity.
        + repeat split; assumption.
        + cbn [set_contig set_tree hd_tree]. rewrite Hfk. reflexivity.
        + cbn [set_contig hd_contig].
          assert (update_contig (hd_contig (c_header c)) (bf_apply (c_bitfield c) bu) bu <= n + k); [|unfold NODE_SIZE in Hidx; lia].
          apply (fexact_le (bf_get (bf_apply (c_bitfield c) bu))); [|apply exact_contig_fexact, Hex2].
          intros i Hi. rewrite GG, HlenB in Hi. apply (held_lt _ _ _ Hi).
        + rewrite <- HlenB. unfold NODE_SIZE in Hidx. lia.
        + apply Hhash32.
        + apply Hhashbytes.
        + apply Hsig64.
        + apply Hsigbytes. }
    mstep H.
    - apply (maybe_flush_FInv cr Hcrc Hhash32 Hnonblank Hhashbytes f c2' d2' _ _ B (cl_mask cl n)) in Hm; [|exact D2].
      destruct Hm as (_ & D3 & K3).
      rewrite mbind_send in H. unfold send in H. injection H as <- <- <-.
      right. split; [reflexivity|]. cbn [w_disk]. split; [exact D3|]. rewrite K3. reflexivity.
    - apply (maybe_flush_FInv cr Hcrc Hhash32 Hnonblank Hhashbytes f c2' d2' _ _ B (cl_mask cl n)) in Hm; [|exact D2].
      destruct Hm as (Hm & _). discriminate Hm.
    - apply (maybe_flush_FInv cr Hcrc Hhash32 Hnonblank Hhashbytes f c2' d2' _ _ B (cl_mask cl n)) in Hm; [|exact D2].
      destruct Hm as (Hm & _). discriminate Hm.
    - apply (maybe_flush_FInv cr Hcrc Hhash32 Hnonblank Hhashbytes f c2' d2' _ _ B (cl_mask cl n)) in Hm; [|exact D2].
      destruct Hm as (Hm & _). discriminate Hm.
  Qed.

  (* core_append, any forced flush decision, any batch (empty batches and empty blocks included): the new
     blocks are not cleared, older cleared indices stay cleared *)
  Theorem append_FInv f batch c d j ev bs cl sk c' w' r :
    FInv cr c d bs cl -> kp_secret (c_keypair c) = Some sk ->
    sumN (map len (bs ++ batch)) <= u64_max ->
    NODE_SIZE * (2 * N.of_nat (length (bs ++ batch))) <= u64_max ->
    core_append cr f batch c (mkWorld d j ev) = (c', w', r) ->
    r = Panic frame_msg \/
    (r = Ok (N.of_nat (length (bs ++ batch)), sumN (map len (bs ++ batch))) /\
     FInv cr c' (w_disk w') (bs ++ batch) (cl_mask cl (N.of_nat (length bs))) /\ c_keypair c' = c_keypair c).
  Proof.
    intros D Hsk Hfit Hidx H.
    unfold core_append in H. rewrite mbind_get_core, Hsk in H.
    destruct batch as [|b0 rest].
    - rewrite mbind_ret, mbind_get_core in H. unfold ret in H. injection H as <- <- <-.
      right. rewrite app_nil_r. pose proof (FInv_CInv cr c d bs cl D) as ((HL & HB & _) & _). rewrite HL, HB.
      split; [reflexivity|]. split; [|reflexivity]. cbn [w_disk].
      apply (FInv_cl_ext cr c d bs cl); [|exact D].
      intros i Hi. unfold cl_mask. assert (i <? N.of_nat (length bs) = true) as -> by lia. apply andb_true_r.
    - cbv iota in H. fold (append_body cr f (b0 :: rest) sk c) in H.
      mstep H.
      + apply (append_body_FInv f (b0 :: rest) c d j ev bs cl sk) in Hm; try assumption; [|discriminate].
        destruct Hm as [Hm|(_ & D1 & K1)]; [discriminate Hm|].
        rewrite mbind_get_core in H. unfold ret in H. injection H as <- <- <-.
        right. pose proof (FInv_CInv cr _ _ _ _ D1) as ((HL & HB & _) & _). rewrite HL, HB. auto.
      + apply (append_body_FInv f (b0 :: rest) c d j ev bs cl sk) in Hm; try assumption; [|discriminate].
        destruct Hm as [Hm|(Hm & _)]; discriminate Hm.
      + apply (append_body_FInv f (b0 :: rest) c d j ev bs cl sk) in Hm; try assumption; [|discriminate].
        destruct Hm as [Hm|(Hm & _)]; [|discriminate Hm]. left. injection Hm as ->. reflexivity.
      + apply (append_body_FInv f (b0 :: rest) c d j ev bs cl sk) in Hm; try assumption; [|discriminate].
        destruct Hm as [Hm|(Hm & _)]; discriminate Hm.
  Qed.
End AppendU.

(* ====================================================================================== *)
(* core_clear                                                                              *)
(* ====================================================================================== *)

Section ClearU.
  Variable cr : crypto.
  Hypothesis Hcrc : crc_ok cr.
  Hypothesis Hhash32 : forall x, length (cr_hash cr x) = 32%nat.
  Hypothesis Hnonblank : forall x, all_zero (cr_hash cr x) = false.
  Hypothesis Hhashbytes : forall x, bytes_ok (cr_hash cr x) = true.

  (* clear(start, end_) with start < end_ (end_ possibly beyond the length, a u64), start < length, for every
     flush decision: the clear entry is logged, the bitfield update is a drop, the hole in the data store
     is deleted, and the invariant holds for the larger cleared set *)
  Theorem clear_FInv f c d j ev bs cl start end_ c' w' r :
    let n := N.of_nat (length bs) in
    FInv cr c d bs cl -> start < n -> start < end_ -> end_ <= u64_max ->
    core_clear cr f start end_ c (mkWorld d j ev) = (c', w', r) ->
    r = Ok tt /\ FInv cr c' (w_disk w') bs (cl_clear cl start end_) /\ c_keypair c' = c_keypair c.
  Proof.
    intros n D Hsn Hse Hend H.
    pose proof (FInv_CInv cr c d bs cl D) as W.
    assert (Hhc : hdr_desc' (c_keypair c) (c_header c) n).
    { destruct D as (_ & s0 & s1 & body & st0 & st1 & hf & l & kf & _ & _ & _ & _ & _ & Hhc & _). exact Hhc. }
    pose proof W as (T & Hbf & Hcg & Hd & Hl).
    pose proof T as (HL & HB & HF & HR & Hlook & Hun & Hs & Hn).
    unfold core_clear in H.
    destruct (N.leb_spec end_ start) as [L|_]; [lia|].
    rewrite mbind_get_core in H. cbv zeta in H. rewrite mbind_lift in H.
    destruct (clear_entry_logged cr (c_oplog c) start (end_ - start)) as (o' & fr & OA). rewrite OA in H.
    cbv iota in H.
    rewrite mbind_put_oplog, mbind_emit_SW, mbind_put_bitfield, mbind_cond_header in H.
    cbn [c_keypair c_oplog c_tree c_bitfield c_header c_skip w_disk w_journal w_events d_get] in H.
    rewrite mbind_get_disk in H. cbn [w_disk] in H.
    set (cl' := cl_clear cl start end_).
    set (u := mkBfUpdate true start (end_ - start)) in *.
    set (e := mkEntry [] None (Some u)) in *.
    set (b' := bf_set_range (c_bitfield c) start (end_ - start) false) in *.
    set (d1 := d_set d Oplog (f_write (d_oplog d) (ENTRIES_OFFSET + ol_entries_bytes (c_oplog c)) fr)) in *.
    assert (Dt : d_tree d1 = d_tree d) by (destruct d; reflexivity).
    assert (Dd : d_data d1 = d_data d) by (destruct d; reflexivity).
    assert (Db : d_bitfield d1 = d_bitfield d) by (destruct d; reflexivity).
    assert (Do : d_oplog d1 = f_write (d_oplog d) (ENTRIES_OFFSET + ol_entries_bytes (c_oplog c)) fr)
      by (destruct d; reflexivity).
    assert (Hb' : forall i, bf_get b' i = held n cl' i).
    { intros i. unfold b'. rewrite bf_get_set_range, Hbf. unfold held, cl', cl_clear.
      replace (start + (end_ - start)) with end_ by lia.
      destruct ((start <=? i) && (i <? end_)); [rewrite orb_true_r; cbn [negb]; rewrite andb_false_r; reflexivity|].
      rewrite orb_false_r. reflexivity. }
    assert (Hcl' : forall i, start <= i -> i < end_ -> cl' i = true).
    { intros i A B. unfold cl', cl_clear. assert ((start <=? i) && (i <? end_) = true) as -> by lia.
      apply orb_true_r. }
    assert (Hsub : forall i, held n cl' i = true -> held n cl i = true).
    { intros i. unfold held, cl', cl_clear. destruct (i <? n); [|intros E; exact E]. cbn [andb].
      destruct (cl i); [intros E; exact E|reflexivity]. }
    pose proof (hole_bounds b' n start end_ cl' Hb' Hsn Hse Hcl') as HB'. cbv zeta in HB'. fold n in HL.
    rewrite HL in H.
    set (s' := match bf_last_index_of_true b' start with Some i => i + 1 | None => 0 end) in *.
    set (e' := match bf_index_of_true b' end_ with Some i => i | None => n end) in *.
    destruct HB' as (B1 & B2 & B3 & B4 & B5).
    rewrite Dt in H.
    rewrite mbind_lift, (byte_offset_tinv cr (c_tree c) (d_tree d) bs s' T) in H by (fold n; lia).
    rewrite mbind_lift in H. unfold sub64 at 1 in H.
    destruct (N.leb_spec 1 e') as [_|L]; [|lia].
    rewrite mbind_lift, (byte_range_tinv cr (c_tree c) (d_tree d) bs (e' - 1) T) in H by (fold n; lia).
    cbv iota in H.
    assert (Pe : prefix_size bs (e' - 1) + len (nth (N.to_nat (e' - 1)) bs []) = prefix_size bs e').
    { change (nth (N.to_nat (e' - 1)) bs []) with (blk bs (e' - 1)). rewrite <- prefix_size_succ. f_equal. lia. }
    rewrite Pe in H. rewrite mbind_lift in H. unfold sub64 in H.
    pose proof (prefix_size_mono bs s' e' ltac:(lia)) as Pm.
    destruct (N.leb_spec (prefix_size bs s') (prefix_size bs e')) as [_|L]; [|lia].
    (* the state before the delete satisfies the invariant for the larger cleared set *)
    match type of H with
    | mbind _ _ ?c2 _ = _ => assert (W2 : CInv cr c2 d1 bs cl'); [|set (c2' := c2) in *]
    end.
    { unfold CInv. cbv zeta. cbn [c_tree c_bitfield c_header]. rewrite Dt, Dd. fold n.
      split; [exact T|]. split; [exact Hb'|]. split.
      - destruct Hcg as [G1 G2]. destruct (N.ltb_spec start (hd_contig (c_header c))) as [A|A].
        + cbn [set_contig hd_contig]. split.
          * intros i Hi. unfold b'. rewrite bf_get_set_range.
            assert ((start <=? i) && (i <? start + (end_ - start)) = false) as -> by lia. apply G1. lia.
          * unfold b'. rewrite bf_get_set_range.
            assert ((start <=? start) && (start <? start + (end_ - start)) = true) as -> by lia. reflexivity.
        + split.
          * intros i Hi. unfold b'. rewrite bf_get_set_range.
            assert ((start <=? i) && (i <? start + (end_ - start)) = false) as -> by lia. apply G1. lia.
          * unfold b'. rewrite bf_get_set_range.
            destruct ((start <=? hd_contig (c_header c)) && (hd_contig (c_header c) <? start + (end_ - start)));
              [reflexivity|exact G2].
      - split; [|exact Hl]. intros i Hi. apply Hd, Hsub, Hi. }
    assert (Hn64 : n <= u64_max) by (unfold NODE_SIZE in Hn; fold n in Hn; lia).
    assert (Hcd : cdesc e).
    { exists start, (end_ - start). split; [reflexivity|]. split; [lia|]. split; lia. }
    assert (F2 : FInv cr c2' d1 (bs ++ []) cl').
    { apply (log_entry_FInv cr Hcrc Hhash32 Hnonblank Hhashbytes c d bs cl [] e u o' fr c2' d1 cl' D);
        try reflexivity; try assumption.
      - apply cdesc_entry_ok, Hcd.
      - rewrite app_nil_r. exact W2.
      - intros kf0 l0 Hch0. rewrite app_nil_r. apply gchain_snoc_clear; assumption.
      - rewrite app_nil_r. fold n. unfold c2'. cbn [c_header].
        destruct (start <? hd_contig (c_header c)); [|exact Hhc]. apply hdr_desc'_contig; [exact Hhc|lia]. }
    rewrite app_nil_r in F2.
    rewrite Dd in H.
    destruct ((0 <? prefix_size bs e' - prefix_size bs s') && (prefix_size bs s' <? f_len (d_data d))) eqn:G.
    - (* a delete is issued; it starts inside the store *)
      destruct (f_del_some (d_data d) (prefix_size bs s') (prefix_size bs e' - prefix_size bs s') ltac:(lia))
        as [f' Edel].
      rewrite (mbind_emit_SD_some Data _ _ f') in H by (cbn [w_disk d_get]; rewrite Dd; exact Edel).
      cbn [w_disk w_journal w_events] in H.
      destruct W2 as (T2 & Hbf2 & Hcg2 & Hd2 & Hl2). rewrite Dd in Hd2.
      destruct (del_hole_preserves bs cl' s' e' (d_data d) f' ltac:(lia) B4 Hd2 Hl Edel) as [Hd3 Hl3].
      assert (W3 : CInv cr c2' (d_set d1 Data f') bs cl').
      { unfold CInv. cbv zeta.
        assert (d_tree (d_set d1 Data f') = d_tree d1) as -> by (destruct d1; reflexivity).
        assert (d_data (d_set d1 Data f') = f') as -> by (destruct d1; reflexivity).
        split; [exact T2|]. split; [exact Hbf2|]. split; [exact Hcg2|]. split; [exact Hd3|exact Hl3]. }
      assert (F3 : FInv cr c2' (d_set d1 Data f') bs cl').
      { apply (FInv_data cr c2' d1 _ bs cl' F2 W3); destruct d1; reflexivity. }
      apply (maybe_flush_FInv cr Hcrc Hhash32 Hnonblank Hhashbytes f c2' _ _ _ bs cl') in H; [|exact F3].
      destruct H as (-> & F4 & K4).
      split; [reflexivity|]. split; [exact F4|]. rewrite K4. reflexivity.
    - (* no delete is issued: the data store is unchanged *)
      rewrite mbind_ret in H.
      apply (maybe_flush_FInv cr Hcrc Hhash32 Hnonblank Hhashbytes f c2' _ _ _ bs cl') in H; [|exact F2].
      destruct H as (-> & F4 & K4).
      split; [reflexivity|]. split; [exact F4|]. rewrite K4. reflexivity.
  Qed.
End ClearU.

Print Assumptions oplog_flush_ok.
Print Assumptions flush_all_ok.
Print Assumptions clear_entry_logged.
Print Assumptions flush_all_FInv.
Print Assumptions maybe_flush_FInv.
Print Assumptions log_entry_FInv.
Print Assumptions append_FInv.
Print Assumptions clear_FInv.

(* TreeRef.v — the reference Merkle tree (structural recursion over depth) and the proof that the
   incremental append algorithm of Merkle.v (append_root / merge_roots, a binary increment with
   carries) computes exactly its roots. *)
From HC Require Import Base Codec CodecFacts Crypto FlatTree Merkle Core FlatTreeFacts.
From Coq Require Import ZifyN ZifyNat ZifyBool.
Ltac Zify.zify_post_hook ::= Z.div_mod_to_equations.
Arguments N.add : simpl never.
Arguments N.sub : simpl never.
Arguments N.mul : simpl never.
Arguments N.div : simpl never.
Arguments N.modulo : simpl never.
Arguments N.pow : simpl never.
Arguments N.eqb : simpl never.
Arguments N.ltb : simpl never.
Arguments N.leb : simpl never.

(* ====================================================================== *)
(* Part A: the binary decomposition, lowest bit first                      *)
(* ====================================================================== *)

(* [rrl d m]: (depth, offset) of the roots of a forest of m subtrees of depth d, smallest subtree
   first (= the reversed root list).  Bit j of m set <-> a root of depth d + j. *)
Fixpoint rrp (d : nat) (p : positive) : list (nat * N) :=
  match p with
  | xH => [(d, 0)]
  | xO q => rrp (S d) q
  | xI q => (d, N.pos (xO q)) :: rrp (S d) q
  end.

Definition rrl (d : nat) (m : N) : list (nat * N) :=
  match m with 0 => [] | N.pos p => rrp d p end.

Lemma rrl_even (d : nat) (n : N) : rrl d (2 * n) = rrl (S d) n.
Proof. destruct n; reflexivity. Qed.

Lemma rrl_odd (d : nat) (n : N) : rrl d (2 * n + 1) = (d, 2 * n) :: rrl (S d) n.
Proof. destruct n; reflexivity. Qed.

Lemma N_bin_ind (P : N -> Prop) :
  P 0 -> (forall n, P n -> P (2 * n)) -> (forall n, P n -> P (2 * n + 1)) -> forall n, P n.
Proof.
  intros H0 H2 H1 n. induction n as [|n IH|n IH] using N.binary_ind.
  - exact H0.
  - rewrite N.double_spec. apply H2, IH.
  - rewrite N.succ_double_spec. apply H1, IH.
Qed.

Definition up (x : nat * N) : nat * N := (S (fst x), snd x).

Lemma rrp_S (p : positive) : forall d, rrp (S d) p = map up (rrp d p).
Proof.
  induction p as [p IH|p IH|]; intros d; cbn [rrp map].
  - rewrite IH. reflexivity.
  - apply IH.
  - reflexivity.
Qed.

Lemma rrl_S (d : nat) (m : N) : rrl (S d) m = map up (rrl d m).
Proof. destruct m; [reflexivity|apply rrp_S]. Qed.

Lemma rrp_depth (p : positive) : forall d x, In x (rrp d p) -> (d <= fst x)%nat.
Proof.
  induction p as [p IH|p IH|]; intros d x; cbn [rrp In].
  - intros [<-|H]; [cbn; lia|]. apply IH in H. lia.
  - intros H. apply IH in H. lia.
  - intros [<-|[]]. cbn. lia.
Qed.

Lemma rrl_depth (d : nat) (m : N) (x : nat * N) : In x (rrl d m) -> (d <= fst x)%nat.
Proof. destruct m; [intros []|apply rrp_depth]. Qed.

Definition idx (x : nat * N) : N := ft_index (N.of_nat (fst x)) (snd x).

Lemma idx_up (x : nat * N) : idx (up x) = 2 * idx x + 1.
Proof.
  unfold idx, up. cbn [fst snd]. rewrite Nat2N.inj_succ, <- N.add_1_r.
  pose proof (ft_index_succ (N.of_nat (fst x) + 1) (snd x)) as H1.
  pose proof (ft_index_succ (N.of_nat (fst x)) (snd x)) as H2.
  rewrite pow2_succ in H1. lia.
Qed.

(* ---------- ft_full_roots computes the same decomposition, highest bit first ---------- *)

Lemma fra_zero (f : nat) (off : N) : full_roots_aux f 0 off = [].
Proof. destruct f; reflexivity. Qed.

Lemma fra_step (f : nat) (tmp off : N) :
  0 < tmp ->
  full_roots_aux (S f) tmp off =
  (off + 2 ^ N.log2 tmp - 1) :: full_roots_aux f (tmp - 2 ^ N.log2 tmp) (off + 2 * 2 ^ N.log2 tmp).
Proof. intros H. cbn [full_roots_aux]. destruct (tmp =? 0) eqn:E; [lia|reflexivity]. Qed.

Lemma pow2_of_nat_S (g : nat) : 2 ^ N.of_nat (S g) = 2 * 2 ^ N.of_nat g.
Proof. rewrite Nat2N.inj_succ. apply N.pow_succ_r'. Qed.

(* peeling the lowest bit off the argument of full_roots_aux *)
Lemma fra_bridge (f : nat) :
  forall t off f' (b : bool),
    t < 2 ^ N.of_nat f -> 2 * t + 1 < 2 ^ N.of_nat f' ->
    full_roots_aux f' (2 * t + (if b then 1 else 0)) (2 * off) =
    map (fun x => 2 * x + 1) (full_roots_aux f t off) ++ (if b then [2 * off + 4 * t] else []).
Proof.
  induction f as [|g IH]; intros t off f' b Ht Ht'.
  - change (N.of_nat 0) with 0 in Ht. rewrite N.pow_0_r in Ht.
    assert (t = 0) as -> by lia. cbn [full_roots_aux map app].
    destruct f' as [|g']; [change (N.of_nat 0) with 0 in Ht'; rewrite N.pow_0_r in Ht'; lia|].
    destruct b.
    + rewrite fra_step by lia. replace (2 * 0 + 1) with 1 by lia.
      change (N.log2 1) with 0. rewrite N.pow_0_r. replace (1 - 1) with 0 by lia.
      rewrite fra_zero. f_equal. lia.
    + replace (2 * 0 + 0) with 0 by lia. apply fra_zero.
  - assert (t = 0 \/ 0 < t) as [->|Hpos] by lia.
    + rewrite fra_zero. cbn [map app].
      destruct f' as [|g']; [change (N.of_nat 0) with 0 in Ht'; rewrite N.pow_0_r in Ht'; lia|].
      destruct b.
      * rewrite fra_step by lia. replace (2 * 0 + 1) with 1 by lia.
        change (N.log2 1) with 0. rewrite N.pow_0_r. replace (1 - 1) with 0 by lia.
        rewrite fra_zero. f_equal. lia.
      * replace (2 * 0 + 0) with 0 by lia. apply fra_zero.
    + destruct f' as [|g']; [change (N.of_nat 0) with 0 in Ht'; rewrite N.pow_0_r in Ht'; lia|].
      assert (Hlog : N.log2 (2 * t + (if b then 1 else 0)) = N.succ (N.log2 t)).
      { destruct b; [apply N.log2_succ_double; exact Hpos|].
        rewrite N.add_0_r. apply N.log2_double. exact Hpos. }
      pose proof (N.log2_spec t Hpos) as [HF1 HF2]. rewrite N.pow_succ_r' in HF2.
      assert (He : N.log2 t <= N.of_nat g).
      { apply N.lt_succ_r. rewrite <- Nat2N.inj_succ. apply N.log2_lt_pow2; assumption. }
      assert (He' : N.succ (N.log2 t) <= N.of_nat g').
      { apply N.lt_succ_r. rewrite <- Nat2N.inj_succ, <- Hlog. apply N.log2_lt_pow2; [lia|].
        destruct b; lia. }
      apply (N.pow_le_mono_r 2) in He; [|discriminate].
      apply (N.pow_le_mono_r 2) in He'; [|discriminate].
      rewrite N.pow_succ_r' in He'.
      rewrite (fra_step g' (2 * t + (if b then 1 else 0))) by (destruct b; lia).
      rewrite (fra_step g t) by exact Hpos.
      rewrite Hlog, N.pow_succ_r'.
      set (F := 2 ^ N.log2 t) in *.
      cbn [map app]. f_equal; [lia|].
      replace (2 * t + (if b then 1 else 0) - 2 * F) with (2 * (t - F) + (if b then 1 else 0))
        by (destruct b; lia).
      replace (2 * off + 2 * (2 * F)) with (2 * (off + 2 * F)) by lia.
      rewrite (IH (t - F) (off + 2 * F) g' b) by lia.
      f_equal. destruct b; [|reflexivity]. f_equal. lia.
Qed.

Lemma fra_rrl (m : N) :
  forall f, m < 2 ^ N.of_nat f -> full_roots_aux f m 0 = map idx (rev (rrl 0 m)).
Proof.
  induction m as [|n IH|n IH] using N_bin_ind; intros f Hf.
  - apply fra_zero.
  - destruct f as [|g].
    { change (N.of_nat 0) with 0 in Hf. rewrite N.pow_0_r in Hf.
      assert (n = 0) as -> by lia. reflexivity. }
    rewrite pow2_of_nat_S in Hf.
    pose proof (fra_bridge g n 0 (S g) false) as B. cbv beta iota in B.
    rewrite N.add_0_r, N.mul_0_r, app_nil_r in B.
    rewrite B by (try rewrite pow2_of_nat_S; lia).
    rewrite (IH g) by lia.
    rewrite rrl_even, rrl_S, <- map_rev, !map_map.
    apply map_ext. intros x. rewrite idx_up. reflexivity.
  - destruct f as [|g].
    { change (N.of_nat 0) with 0 in Hf. rewrite N.pow_0_r in Hf. lia. }
    rewrite pow2_of_nat_S in Hf.
    pose proof (fra_bridge g n 0 (S g) true) as B. cbv beta iota in B.
    rewrite N.mul_0_r in B.
    rewrite B by (try rewrite pow2_of_nat_S; lia).
    rewrite (IH g) by lia.
    rewrite rrl_odd, rrl_S. cbn [rev]. rewrite map_app, <- map_rev, !map_map. cbn [map].
    f_equal.
    + apply map_ext. intros x. rewrite idx_up. reflexivity.
    + unfold idx. cbn [fst snd]. change (N.of_nat 0) with 0. rewrite ft_index_leaf. f_equal. lia.
Qed.

Lemma size_nat_spec (k : N) : k < 2 ^ N.of_nat (N.size_nat k).
Proof.
  destruct k as [|p]; [reflexivity|]. cbn [N.size_nat].
  induction p as [p IH|p IH|]; cbn [Pos.size_nat]; try rewrite pow2_of_nat_S; lia.
Qed.

(* the structure of ft_full_roots: the indices of the decomposition, largest subtree first *)
Lemma ft_full_roots_rrl (k : N) : ft_full_roots (2 * k) = map idx (rev (rrl 0 k)).
Proof.
  unfold ft_full_roots. replace (2 * k / 2) with k by lia. apply fra_rrl, size_nat_spec.
Qed.

(* binary increment on the decomposition *)
Lemma ft_full_roots_succ_even (m : N) :
  ft_full_roots (2 * (2 * m + 1)) = ft_full_roots (2 * (2 * m)) ++ [2 * (2 * m)].
Proof.
  rewrite !ft_full_roots_rrl, rrl_odd, rrl_even. cbn [rev]. rewrite map_app. cbn [map].
  unfold idx at 2. cbn [fst snd]. change (N.of_nat 0) with 0. rewrite ft_index_leaf. reflexivity.
Qed.

(* ====================================================================== *)
(* Part B: the reference tree                                               *)
(* ====================================================================== *)

Section Ref.
  Variable cr : crypto.
  Variable blocks : list bytes.

  Definition blk (o : N) : bytes := nth (N.to_nat o) blocks [].

  Fixpoint ref_node (d : nat) (o : N) : node :=
    match d with
    | O => block_node cr (2 * o) (blk o)
    | S d' => parent_node cr (ft_index (N.of_nat d) o) (ref_node d' (2 * o)) (ref_node d' (2 * o + 1))
    end.

  (* the reference node at a flat index *)
  Definition ref_at (i : N) : node := ref_node (N.to_nat (ft_depth i)) (ft_offset i).

  (* roots of the tree over the first n blocks: binary decomposition of n, largest subtree first *)
  Definition ref_roots (n : N) : list node := map ref_at (ft_full_roots (2 * n)).

  Definition rn (x : nat * N) : node := ref_node (fst x) (snd x).

  Definition is_ref (n : node) : Prop := n = ref_at (n_index n).

  Lemma ref_node_index (d : nat) (o : N) : n_index (ref_node d o) = ft_index (N.of_nat d) o.
  Proof.
    destruct d; cbn [ref_node]; unfold block_node, parent_node; cbn [n_index].
    - change (N.of_nat 0) with 0. rewrite ft_index_leaf. reflexivity.
    - reflexivity.
  Qed.

  Lemma ref_at_index (d : nat) (o : N) : ref_at (ft_index (N.of_nat d) o) = ref_node d o.
  Proof. unfold ref_at. rewrite ft_depth_index, ft_offset_index, Nat2N.id. reflexivity. Qed.

  Lemma ref_node_is_ref (d : nat) (o : N) : is_ref (ref_node d o).
  Proof. unfold is_ref. rewrite ref_node_index, ref_at_index. reflexivity. Qed.

  Lemma ref_at_is_ref (i : N) : is_ref (ref_at i).
  Proof. unfold ref_at. apply ref_node_is_ref. Qed.

  Lemma ref_at_index_id (i : N) : n_index (ref_at i) = i.
  Proof.
    unfold ref_at. rewrite ref_node_index, N2Nat.id. apply ft_index_depth_offset.
  Qed.

  Lemma ref_roots_rrl (n : N) : ref_roots n = map rn (rev (rrl 0 n)).
  Proof.
    unfold ref_roots. rewrite ft_full_roots_rrl, map_map. apply map_ext.
    intros [d o]. unfold idx, rn. cbn [fst snd]. apply ref_at_index.
  Qed.

  Lemma ref_roots_indices (n : N) : map n_index (ref_roots n) = ft_full_roots (2 * n).
  Proof.
    unfold ref_roots. rewrite map_map. rewrite <- (map_id (ft_full_roots (2 * n))) at 2.
    apply map_ext. apply ref_at_index_id.
  Qed.

  (* ---------- the merge loop ---------- *)

  Lemma parent_hash_comm (a b : node) :
    n_index a <> n_index b -> parent_hash cr a b = parent_hash cr b a.
  Proof.
    intros H. unfold parent_hash, parent_preimage.
    destruct (n_index a <=? n_index b) eqn:E1; destruct (n_index b <=? n_index a) eqn:E2;
      try reflexivity; lia.
  Qed.

  Lemma merge_stop (fuel : nat) (a : node) (l nodes : list node) (it : fiter) :
    match l with b :: _ => it_index (it_sibling it) <> n_index b | [] => True end ->
    merge_roots cr (S fuel) (a :: l) nodes it = Ok (a :: l, nodes, it).
  Proof.
    intros H. cbn [merge_roots]. destruct l as [|b rest]; [reflexivity|].
    destruct (it_index (it_sibling it) =? n_index b) eqn:E; [lia|]. reflexivity.
  Qed.

  Lemma merge_step (fuel : nat) (a b : node) (rest nodes : list node) (it : fiter) :
    it_index (it_sibling it) = n_index b ->
    fits_u64 (n_length a + n_length b) = true ->
    merge_roots cr (S fuel) (a :: b :: rest) nodes it =
    merge_roots cr fuel
      (mkNode (it_index (it_parent (it_sibling it))) (n_length a + n_length b) (parent_hash cr a b) :: rest)
      (mkNode (it_index (it_parent (it_sibling it))) (n_length a + n_length b) (parent_hash cr a b) :: nodes)
      (it_parent (it_sibling it)).
  Proof.
    intros H F. cbn [merge_roots].
    destruct (it_index (it_sibling it) =? n_index b) eqn:E; [|lia].
    cbn [negb]. unfold add64. rewrite F. reflexivity.
  Qed.

  Lemma merge_panic (fuel : nat) (a b : node) (rest nodes : list node) (it : fiter) :
    it_index (it_sibling it) = n_index b ->
    fits_u64 (n_length a + n_length b) = false ->
    exists s, merge_roots cr (S fuel) (a :: b :: rest) nodes it = Panic s.
  Proof.
    intros H F. cbn [merge_roots].
    destruct (it_index (it_sibling it) =? n_index b) eqn:E; [|lia].
    cbn [negb]. unfold add64. rewrite F. eexists. reflexivity.
  Qed.

  (* The carry chain.  State: the current node is the reference node (d, m), the iterator sits on
     it, and the rest of the (reversed) root list is the decomposition of m at depth d.  The loop
     ends with the decomposition of m + 1. *)
  Lemma merge_ref (m : N) :
    forall (d fuel : nat) (nodes : list node),
      (length (rrl d m) < fuel)%nat ->
      match merge_roots cr fuel (ref_node d m :: map rn (rrl d m)) nodes (it_at (N.of_nat d) m) with
      | Ok (rr, nr, it') =>
          rr = map rn (rrl d (m + 1)) /\
          exists new, nr = new ++ nodes /\ Forall is_ref new
      | Panic _ => exists d' o', fits_u64 (n_length (ref_node d' o')) = false
      | _ => False
      end.
  Proof.
    induction m as [|n IH|n IH] using N_bin_ind; intros d fuel nodes Hfuel.
    - destruct fuel as [|f]; [lia|]. cbn [rrl map].
      rewrite merge_stop by exact I. split; [reflexivity|]. exists []. split; [reflexivity|constructor].
    - destruct fuel as [|f]; [lia|].
      rewrite merge_stop.
      + split.
        * rewrite rrl_odd, rrl_even. reflexivity.
        * exists []. split; [reflexivity|constructor].
      + destruct (rrl d (2 * n)) as [|b rest] eqn:Eb; [exact I|]. cbn [map].
        assert (Hb : (S d <= fst b)%nat).
        { apply (rrl_depth (S d) n). rewrite <- rrl_even, Eb. left. reflexivity. }
        rewrite it_sibling_at_even by (rewrite even_mod; lia).
        unfold rn. rewrite ref_node_index. cbn [it_at it_index].
        intros Heq. apply ft_index_inj in Heq. lia.
    - destruct fuel as [|f]; [lia|].
      rewrite rrl_odd in *. cbn [map length] in *. unfold rn at 1. cbn [fst snd].
      assert (Hsib : it_sibling (it_at (N.of_nat d) (2 * n + 1)) = it_at (N.of_nat d) (2 * n)).
      { rewrite it_sibling_at_odd by (rewrite odd_mod; lia). f_equal. lia. }
      assert (Hidx : it_index (it_sibling (it_at (N.of_nat d) (2 * n + 1))) = n_index (ref_node d (2 * n))).
      { rewrite Hsib, ref_node_index. reflexivity. }
      assert (Hlen : n_length (ref_node (S d) n) =
                     n_length (ref_node d (2 * n + 1)) + n_length (ref_node d (2 * n))).
      { cbn [ref_node]. unfold parent_node. cbn [n_length]. lia. }
      destruct (fits_u64 (n_length (ref_node d (2 * n + 1)) + n_length (ref_node d (2 * n)))) eqn:F.
      + rewrite merge_step by assumption.
        rewrite Hsib, it_parent_at. replace (2 * n / 2) with n by lia.
        assert (Hnode : mkNode (it_index (it_at (N.of_nat d + 1) n))
                          (n_length (ref_node d (2 * n + 1)) + n_length (ref_node d (2 * n)))
                          (parent_hash cr (ref_node d (2 * n + 1)) (ref_node d (2 * n)))
                        = ref_node (S d) n).
        { cbn [ref_node]. unfold parent_node. cbn [it_at it_index].
          rewrite Nat2N.inj_succ, <- N.add_1_r. f_equal; [lia|].
          apply parent_hash_comm. rewrite !ref_node_index.
          pose proof (ft_index_lt_offset (N.of_nat d) (2 * n) (2 * n + 1)). lia. }
        rewrite Hnode.
        replace (N.of_nat d + 1) with (N.of_nat (S d)) by (rewrite Nat2N.inj_succ; lia).
        specialize (IH (S d) f (ref_node (S d) n :: nodes)).
        destruct (merge_roots cr f (ref_node (S d) n :: map rn (rrl (S d) n))
                    (ref_node (S d) n :: nodes) (it_at (N.of_nat (S d)) n))
          as [[[rr nr] it']| | |]; try (apply IH; lia).
        destruct IH as (Hrr & new & Hnr & Hnew); [lia|]. split.
        * replace (2 * n + 1 + 1) with (2 * (n + 1)) by lia. rewrite rrl_even. exact Hrr.
        * exists (new ++ [ref_node (S d) n]). split.
          -- rewrite <- app_assoc. exact Hnr.
          -- apply Forall_app. split; [exact Hnew|]. constructor; [|constructor].
             apply ref_node_is_ref.
      + destruct (merge_panic f (ref_node d (2 * n + 1)) (ref_node d (2 * n))
                    (map rn (rrl (S d) n)) nodes (it_at (N.of_nat d) (2 * n + 1)) Hidx F) as [s ->].
        exists (S d), n. rewrite Hlen. exact F.
  Qed.

  (* ---------- T1: one append ---------- *)

  Lemma add64_ok (s : string) (a b v : N) : add64 s a b = Ok v -> v = a + b.
  Proof. unfold add64. destruct (fits_u64 (a + b)); intros H; inversion H; reflexivity. Qed.

  Lemma in_cs_nodes (c : changeset) (n : node) : In n (cs_nodes c) <-> In n (cs_rnodes c).
  Proof. unfold cs_nodes. rewrite rev_append_rev, app_nil_r. symmetry. apply in_rev. Qed.

  Lemma leaf_is_ref_node (k : N) : block_node cr (k * 2) (blk k) = ref_node 0 k.
  Proof. cbn [ref_node]. rewrite (N.mul_comm k 2). reflexivity. Qed.

  Lemma it_new_leaf (k : N) : it_new (k * 2) = it_at (N.of_nat 0) k.
  Proof. change (N.of_nat 0) with 0. rewrite <- it_new_index, ft_index_leaf, (N.mul_comm k 2). reflexivity. Qed.

  Lemma rev_ref_roots (k : N) : rev (ref_roots k) = map rn (rrl 0 k).
  Proof. rewrite ref_roots_rrl, <- map_rev, rev_involutive. reflexivity. Qed.

  Lemma length_ref_roots (k : N) : length (ref_roots k) = length (rrl 0 k).
  Proof. rewrite ref_roots_rrl, map_length, rev_length. reflexivity. Qed.

  (* the merge loop started by an append at length k *)
  Lemma merge_append (k : N) (nodes : list node) :
    match merge_roots cr (S (length (ref_roots k))) (block_node cr (k * 2) (blk k) :: rev (ref_roots k))
            nodes (it_new (k * 2)) with
    | Ok (rr, nr, it') =>
        rev rr = ref_roots (k + 1) /\ exists new, nr = new ++ nodes /\ Forall is_ref new
    | Panic _ => exists d' o', fits_u64 (n_length (ref_node d' o')) = false
    | _ => False
    end.
  Proof.
    rewrite leaf_is_ref_node, it_new_leaf, rev_ref_roots, length_ref_roots.
    pose proof (merge_ref k 0 (S (length (rrl 0 k))) nodes (Nat.lt_succ_diag_r _)) as M.
    destruct (merge_roots cr (S (length (rrl 0 k))) (ref_node 0 k :: map rn (rrl 0 k)) nodes
                (it_at (N.of_nat 0) k)) as [[[rr nr] it']| | |]; try exact M.
    destruct M as [-> M]. split; [|exact M].
    rewrite <- rev_ref_roots, rev_involutive. reflexivity.
  Qed.

  Theorem cs_append_ref (c c' : changeset) (k : N) :
    cs_roots c = ref_roots (cs_length c) ->
    cs_length c = k ->
    cs_append cr c (blk k) = Ok c' ->
    cs_roots c' = ref_roots (k + 1) /\
    cs_length c' = k + 1 /\
    cs_byte_length c' = cs_byte_length c + len (blk k) /\
    cs_batch_length c' = cs_batch_length c + 1 /\
    cs_ancestors c' = cs_ancestors c /\
    cs_fork c' = cs_fork c /\
    cs_upgraded c' = true /\
    (forall n, In n (cs_nodes c') -> In n (cs_nodes c) \/ n = ref_at (n_index n)).
  Proof.
    intros Hroots Hk H. unfold cs_append in H.
    apply bind_ok in H as ([c1 it1] & H1 & H). injection H as <-.
    unfold append_root in H1.
    apply bind_ok in H1 as (bl & Hbl & H1). apply add64_ok in Hbl.
    apply bind_ok in H1 as ([[rr nr] it'] & Hm & H1). injection H1 as <- <-.
    cbn [cs_roots cs_length cs_byte_length cs_batch_length cs_ancestors cs_fork cs_upgraded].
    rewrite Hroots, Hk in Hm.
    pose proof (merge_append k (block_node cr (k * 2) (blk k) :: cs_rnodes c)) as M.
    rewrite Hm in M. destruct M as (Hrr & new & -> & Hnew).
    split; [exact Hrr|]. split.
    { rewrite Hk, it_new_leaf. cbn [it_at it_factor]. change (2 ^ (N.of_nat 0 + 1)) with 2. lia. }
    split. { subst bl. unfold block_node. cbn [n_length]. reflexivity. }
    split; [reflexivity|]. split; [reflexivity|]. split; [reflexivity|]. split; [reflexivity|].
    intros n Hn. apply in_cs_nodes in Hn. cbn [cs_rnodes] in Hn.
    apply in_app_or in Hn as [Hn|[Hn|Hn]].
    - right. rewrite Forall_forall in Hnew. apply Hnew, Hn.
    - right. subst n. rewrite leaf_is_ref_node. apply ref_node_is_ref.
    - left. apply in_cs_nodes, Hn.
  Qed.

  (* ---------- T2: a batch ---------- *)

  Theorem cs_append_all_ref (batch : list bytes) :
    forall (c c' : changeset) (k : N),
      cs_roots c = ref_roots k ->
      cs_length c = k ->
      (forall j, (j < length batch)%nat -> nth j batch [] = blk (k + N.of_nat j)) ->
      cs_append_all cr c batch = Ok c' ->
      cs_roots c' = ref_roots (k + N.of_nat (length batch)) /\
      cs_length c' = k + N.of_nat (length batch) /\
      cs_byte_length c' = cs_byte_length c + sumN (map len batch) /\
      cs_batch_length c' = cs_batch_length c + N.of_nat (length batch) /\
      cs_ancestors c' = cs_ancestors c /\
      cs_fork c' = cs_fork c /\
      (batch <> [] -> cs_upgraded c' = true) /\
      (forall n, In n (cs_nodes c') -> In n (cs_nodes c) \/ n = ref_at (n_index n)).
  Proof.
    induction batch as [|d r IH]; intros c c' k Hroots Hk Hb H.
    - cbn [cs_append_all] in H. injection H as <-. cbn [length map sumN].
      change (N.of_nat 0) with 0. rewrite !N.add_0_r.
      repeat (split; [first [assumption|reflexivity]|]). split; [intros E; contradiction|].
      intros n Hn. left. exact Hn.
    - cbn [cs_append_all] in H. apply bind_ok in H as (c1 & H1 & H).
      assert (Hd : d = blk k).
      { specialize (Hb 0%nat). cbn [nth length] in Hb. change (N.of_nat 0) with 0 in Hb.
        rewrite N.add_0_r in Hb. apply Hb. lia. }
      subst d. rewrite <- Hk in Hroots.
      destruct (cs_append_ref c c1 k Hroots Hk H1)
        as (R1 & L1 & B1 & BL1 & A1 & F1 & U1 & N1).
      assert (Hb' : forall j, (j < length r)%nat -> nth j r [] = blk (k + 1 + N.of_nat j)).
      { intros j Hj. specialize (Hb (S j)). cbn [nth length] in Hb.
        replace (k + 1 + N.of_nat j) with (k + N.of_nat (S j)) by lia. apply Hb. lia. }
      destruct (IH c1 c' (k + 1) R1 L1 Hb' H) as (R2 & L2 & B2 & BL2 & A2 & F2 & U2 & N2).
      cbn [length map sumN].
      replace (k + N.of_nat (S (length r))) with (k + 1 + N.of_nat (length r)) by lia.
      split; [exact R2|]. split; [exact L2|]. split; [lia|]. split; [lia|].
      split; [congruence|]. split; [congruence|]. split.
      + intros _. destruct r as [|d' r'].
        * cbn [cs_append_all] in H. injection H as <-. exact U1.
        * apply U2. discriminate.
      + intros n Hn. apply N2 in Hn as [Hn|Hn]; [apply N1, Hn|right; exact Hn].
  Qed.

  Definition empty_tree : mtree := mkTree [] 0 0 0 None nm_empty.

End Ref.

Section RefFacts.
  Variable cr : crypto.

  (* from the empty tree, appending all the blocks *)
  Corollary cs_append_all_from_empty (blocks : list bytes) (c' : changeset) :
    cs_append_all cr (tree_changeset empty_tree) blocks = Ok c' ->
    cs_roots c' = ref_roots cr blocks (N.of_nat (length blocks)) /\
    cs_length c' = N.of_nat (length blocks) /\
    cs_byte_length c' = sumN (map len blocks) /\
    cs_batch_length c' = N.of_nat (length blocks) /\
    cs_ancestors c' = 0 /\
    cs_fork c' = 0 /\
    (forall n, In n (cs_nodes c') -> n = ref_at cr blocks (n_index n)).
  Proof.
    intros H.
    destruct (cs_append_all_ref cr blocks blocks (tree_changeset empty_tree) c' 0)
      as (R & L & B & BL & A & F & _ & Nn); try reflexivity; try exact H.
    - intros j _. unfold blk. rewrite N.add_0_l, Nat2N.id. reflexivity.
    - cbn [tree_changeset empty_tree cs_byte_length cs_batch_length
        cs_ancestors cs_fork t_length t_byte_length t_fork] in *. rewrite ?N.add_0_l in *.
      repeat (split; [assumption|]).
      intros n Hn. destruct (Nn n Hn) as [[]|E]. exact E.
  Qed.

  Lemma sublist_blk (pre batch post : list bytes) (j : nat) :
    (j < length batch)%nat ->
    nth j batch [] = blk (pre ++ batch ++ post) (N.of_nat (length pre) + N.of_nat j).
  Proof.
    intros Hj. unfold blk. rewrite <- Nat2N.inj_add, Nat2N.id, app_nth2_plus, app_nth1 by exact Hj.
    reflexivity.
  Qed.

  (* T2 for a batch that is literally a segment of the block list *)
  Corollary cs_append_all_ref_segment (pre batch post : list bytes) (c c' : changeset) :
    let blocks := pre ++ batch ++ post in
    let k := N.of_nat (length pre) in
    cs_roots c = ref_roots cr blocks k ->
    cs_length c = k ->
    cs_append_all cr c batch = Ok c' ->
    cs_roots c' = ref_roots cr blocks (k + N.of_nat (length batch)) /\
    cs_length c' = k + N.of_nat (length batch) /\
    cs_byte_length c' = cs_byte_length c + sumN (map len batch) /\
    cs_batch_length c' = cs_batch_length c + N.of_nat (length batch) /\
    cs_ancestors c' = cs_ancestors c /\
    cs_fork c' = cs_fork c /\
    (batch <> [] -> cs_upgraded c' = true) /\
    (forall n, In n (cs_nodes c') -> In n (cs_nodes c) \/ n = ref_at cr blocks (n_index n)).
  Proof.
    intros blocks k Hroots Hk H.
    apply (cs_append_all_ref cr blocks batch c c' k Hroots Hk); [|exact H].
    intros j Hj. apply sublist_blk, Hj.
  Qed.

  (* ---------- T3: what gets signed ---------- *)

  Theorem signature_is_over_reference (blocks batch : list bytes) (c c' : changeset) (k : N) (sk : bytes) :
    cs_roots c = ref_roots cr blocks k ->
    cs_length c = k ->
    (forall j, (j < length batch)%nat -> nth j batch [] = blk blocks (k + N.of_nat j)) ->
    cs_append_all cr c batch = Ok c' ->
    let n := k + N.of_nat (length batch) in
    let h := tree_hash cr (ref_roots cr blocks n) in
    let msg := signable h n (cs_fork c') in
    cs_hash (cs_hash_and_sign cr c' sk) = Some h /\
    cs_signature (cs_hash_and_sign cr c' sk) = Some (cr_sign cr sk msg) /\
    cs_roots (cs_hash_and_sign cr c' sk) = ref_roots cr blocks n /\
    cs_length (cs_hash_and_sign cr c' sk) = n /\
    (forall pk_of : bytes -> bytes,
        (forall sk m, cr_verify cr (pk_of sk) m (cr_sign cr sk m) = true) ->
        forall s, cs_signature (cs_hash_and_sign cr c' sk) = Some s ->
                  cr_verify cr (pk_of sk) msg s = true).
  Proof.
    intros Hroots Hk Hb H n h msg.
    destruct (cs_append_all_ref cr blocks batch c c' k Hroots Hk Hb H) as (R & L & _).
    unfold cs_hash_and_sign, cs_set_hash_sig, cs_tree_hash, cs_signable.
    cbn [cs_hash cs_signature cs_roots cs_length]. rewrite R, L. fold n. fold h. fold msg.
    repeat (split; [reflexivity|]).
    intros pk_of Hv s Hs. injection Hs as <-. apply Hv.
  Qed.

End RefFacts.

(* ====================================================================== *)
(* Part C: sizes (T4) and absence of overflow panics (T5)                  *)
(* ====================================================================== *)

Lemma sumN_app (a b : list N) : sumN (a ++ b) = sumN a + sumN b.
Proof. induction a as [|x a IH]; cbn [app sumN]; lia. Qed.

Lemma sumN_rev (l : list N) : sumN (rev l) = sumN l.
Proof. induction l as [|x l IH]; cbn [rev sumN]; [reflexivity|]. rewrite sumN_app. cbn [sumN]. lia. Qed.

Lemma sum_firstn_succ (l : list bytes) :
  forall n, sumN (map len (firstn (S n) l)) = sumN (map len (firstn n l)) + len (nth n l []).
Proof.
  induction l as [|x l IH]; intros n.
  - destruct n; reflexivity.
  - destruct n as [|n].
    + cbn [firstn map sumN nth]. lia.
    + change (firstn (S (S n)) (x :: l)) with (x :: firstn (S n) l).
      cbn [firstn map sumN nth]. rewrite <- N.add_assoc. f_equal. apply IH.
Qed.

Lemma sum_firstn_le (l : list bytes) : forall n, sumN (map len (firstn n l)) <= sumN (map len l).
Proof.
  induction l as [|x l IH]; intros n.
  - destruct n; cbn; lia.
  - destruct n as [|n]; cbn [firstn map sumN]; [lia|]. specialize (IH n). lia.
Qed.

Section Sizes.
  Variable cr : crypto.
  Variable blocks : list bytes.

  (* total size of the blocks o*2^d .. (o+1)*2^d - 1, by the recursion of ref_node *)
  Fixpoint ref_size (d : nat) (o : N) : N :=
    match d with
    | O => len (blk blocks o)
    | S d' => ref_size d' (2 * o) + ref_size d' (2 * o + 1)
    end.

  (* total size of the first n blocks *)
  Definition prefix_size (n : N) : N := sumN (map len (firstn (N.to_nat n) blocks)).

  Lemma ref_node_length (d : nat) : forall o, n_length (ref_node cr blocks d o) = ref_size d o.
  Proof.
    induction d as [|d IH]; intros o; cbn [ref_node ref_size].
    - reflexivity.
    - unfold parent_node. cbn [n_length]. rewrite !IH. reflexivity.
  Qed.

  Lemma prefix_size_succ (n : N) : prefix_size (n + 1) = prefix_size n + len (blk blocks n).
  Proof.
    unfold prefix_size, blk. rewrite N.add_1_r, N2Nat.inj_succ. apply sum_firstn_succ.
  Qed.

  Lemma prefix_size_le (n : N) : prefix_size n <= sumN (map len blocks).
  Proof. apply sum_firstn_le. Qed.

  (* ref_size d o is the size of the block range [o*2^d, (o+1)*2^d) *)
  Lemma ref_size_prefix (d : nat) :
    forall o, prefix_size (o * 2 ^ N.of_nat d) + ref_size d o = prefix_size ((o + 1) * 2 ^ N.of_nat d).
  Proof.
    induction d as [|d IH]; intros o.
    - change (N.of_nat 0) with 0. rewrite N.pow_0_r, !N.mul_1_r. cbn [ref_size].
      symmetry. apply prefix_size_succ.
    - cbn [ref_size]. rewrite pow2_of_nat_S.
      pose proof (IH (2 * o)) as H1. pose proof (IH (2 * o + 1)) as H2.
      replace (o * (2 * 2 ^ N.of_nat d)) with (2 * o * 2 ^ N.of_nat d) by lia.
      replace ((o + 1) * (2 * 2 ^ N.of_nat d)) with ((2 * o + 1 + 1) * 2 ^ N.of_nat d) by lia.
      lia.
  Qed.

  Theorem ref_node_size (d : nat) (o : N) :
    n_length (ref_node cr blocks d o) = ref_size d o /\
    prefix_size (o * 2 ^ N.of_nat d) + ref_size d o = prefix_size ((o + 1) * 2 ^ N.of_nat d).
  Proof. split; [apply ref_node_length|apply ref_size_prefix]. Qed.

  Lemma ref_size_le (d : nat) (o : N) : ref_size d o <= sumN (map len blocks).
  Proof.
    pose proof (ref_size_prefix d o). pose proof (prefix_size_le ((o + 1) * 2 ^ N.of_nat d)). lia.
  Qed.

  Lemma rrl_size (m : N) :
    forall d, sumN (map n_length (map (rn cr blocks) (rrl d m))) = prefix_size (m * 2 ^ N.of_nat d).
  Proof.
    induction m as [|n IH|n IH] using N_bin_ind; intros d.
    - rewrite N.mul_0_l. reflexivity.
    - rewrite rrl_even, IH, pow2_of_nat_S. f_equal. lia.
    - rewrite rrl_odd. cbn [map sumN]. rewrite IH, pow2_of_nat_S.
      unfold rn. cbn [fst snd]. rewrite ref_node_length.
      pose proof (ref_size_prefix d (2 * n)) as H.
      replace (n * (2 * 2 ^ N.of_nat d)) with (2 * n * 2 ^ N.of_nat d) by lia. lia.
  Qed.

  Theorem ref_roots_size (n : N) : sumN (map n_length (ref_roots cr blocks n)) = prefix_size n.
  Proof.
    rewrite ref_roots_rrl, !map_rev, sumN_rev, rrl_size.
    change (N.of_nat 0) with 0. rewrite N.pow_0_r, N.mul_1_r. reflexivity.
  Qed.

  (* ---------- T5 ---------- *)

  Hypothesis total_fits : sumN (map len blocks) <= u64_max.

  Lemma ref_node_fits (d : nat) (o : N) : fits_u64 (n_length (ref_node cr blocks d o)) = true.
  Proof. rewrite ref_node_length. pose proof (ref_size_le d o). unfold fits_u64. lia. Qed.

  Lemma cs_append_no_panic (c : changeset) (k : N) :
    cs_roots c = ref_roots cr blocks (cs_length c) ->
    cs_length c = k ->
    cs_byte_length c + len (blk blocks k) <= u64_max ->
    exists c', cs_append cr c (blk blocks k) = Ok c'.
  Proof.
    intros Hroots Hk Hbl. unfold cs_append, append_root.
    unfold block_node at 1. cbn [n_length]. unfold add64 at 1.
    assert (fits_u64 (cs_byte_length c + len (blk blocks k)) = true) as -> by (unfold fits_u64; lia).
    cbn [bind]. rewrite Hroots, Hk.
    pose proof (merge_append cr blocks k (block_node cr (k * 2) (blk blocks k) :: cs_rnodes c)) as M.
    destruct (merge_roots cr (S (length (ref_roots cr blocks k)))
                (block_node cr (k * 2) (blk blocks k) :: rev (ref_roots cr blocks k))
                (block_node cr (k * 2) (blk blocks k) :: cs_rnodes c) (it_new (k * 2)))
      as [[[rr nr] it']| | |].
    - cbn [bind]. eexists. reflexivity.
    - contradiction.
    - destruct M as (d' & o' & F). rewrite ref_node_fits in F. discriminate F.
    - contradiction.
  Qed.

  Theorem cs_append_all_no_panic (batch : list bytes) :
    forall (c : changeset) (k : N),
      cs_roots c = ref_roots cr blocks k ->
      cs_length c = k ->
      (forall j, (j < length batch)%nat -> nth j batch [] = blk blocks (k + N.of_nat j)) ->
      cs_byte_length c + sumN (map len batch) <= u64_max ->
      exists c', cs_append_all cr c batch = Ok c'.
  Proof.
    induction batch as [|d r IH]; intros c k Hroots Hk Hb Hbl.
    - exists c. reflexivity.
    - assert (Hd : d = blk blocks k).
      { specialize (Hb 0%nat). cbn [nth length] in Hb. change (N.of_nat 0) with 0 in Hb.
        rewrite N.add_0_r in Hb. apply Hb. lia. }
      subst d. cbn [map sumN] in Hbl. rewrite <- Hk in Hroots.
      destruct (cs_append_no_panic c k Hroots Hk) as [c1 H1]; [lia|].
      destruct (cs_append_ref cr blocks c c1 k Hroots Hk H1) as (R1 & L1 & B1 & _).
      assert (Hb' : forall j, (j < length r)%nat -> nth j r [] = blk blocks (k + 1 + N.of_nat j)).
      { intros j Hj. specialize (Hb (S j)). cbn [nth length] in Hb.
        replace (k + 1 + N.of_nat j) with (k + N.of_nat (S j)) by lia. apply Hb. lia. }
      destruct (IH c1 (k + 1) R1 L1 Hb') as [c' H']; [lia|].
      exists c'. cbn [cs_append_all]. rewrite H1. cbn [bind]. exact H'.
  Qed.

End Sizes.

(* appending all the blocks to the empty tree never panics when the total size fits in a u64 *)
Corollary cs_append_all_from_empty_ok (cr : crypto) (blocks : list bytes) :
  sumN (map len blocks) <= u64_max ->
  exists c', cs_append_all cr (tree_changeset empty_tree) blocks = Ok c' /\
             cs_roots c' = ref_roots cr blocks (N.of_nat (length blocks)) /\
             cs_byte_length c' = sumN (map len blocks).
Proof.
  intros H.
  destruct (cs_append_all_no_panic cr blocks H blocks (tree_changeset empty_tree) 0) as [c' Hc].
  - reflexivity.
  - reflexivity.
  - intros j _. unfold blk. rewrite N.add_0_l, Nat2N.id. reflexivity.
  - cbn [tree_changeset empty_tree cs_byte_length t_byte_length]. lia.
  - exists c'. split; [exact Hc|].
    destruct (cs_append_all_from_empty cr blocks c' Hc) as (R & _ & B & _). split; assumption.
Qed.

(* ====================================================================== *)
(* Non-vacuity: a toy crypto instance and five small blocks                *)
(* ====================================================================== *)

Definition toy_crypto : crypto :=
  mkCrypto (fun b => firstn 32 (b ++ repeat 0 32)) (fun _ => 0) (fun sk m => sk ++ m)
           (fun pk m s => bytes_eqb s (pk ++ m)).

Definition toy_blocks : list bytes := [[1; 2; 3]; []; [4]; [5; 6; 7; 8]; [9; 10]].

Example toy_append_all_is_reference :
  match cs_append_all toy_crypto (tree_changeset empty_tree) toy_blocks with
  | Ok c' =>
      cs_roots c' = ref_roots toy_crypto toy_blocks 5 /\
      map n_index (cs_roots c') = [3; 8] /\
      map n_length (cs_roots c') = [8; 2] /\
      cs_length c' = 5 /\ cs_byte_length c' = 10 /\
      map n_index (cs_nodes c') = [0; 2; 1; 4; 6; 5; 3; 8]
  | _ => False
  end.
Proof. vm_compute. repeat split. Qed.

Print Assumptions ft_full_roots_rrl.
Print Assumptions ft_full_roots_succ_even.
Print Assumptions merge_ref.
Print Assumptions cs_append_ref.
Print Assumptions cs_append_all_ref.
Print Assumptions cs_append_all_from_empty.
Print Assumptions cs_append_all_ref_segment.
Print Assumptions signature_is_over_reference.
Print Assumptions ref_node_size.
Print Assumptions ref_roots_size.
Print Assumptions cs_append_all_no_panic.
Print Assumptions cs_append_all_from_empty_ok.
Print Assumptions toy_append_all_is_reference.

(* DiskFileFacts.v — C14: random-access-disk 3.0.1 (DiskFile.v) refines the flat byte file of Storage.v.
   * Within one session (no reopen) EVERY history gives the observations of the flat file (read results, OutOfBounds
     errors, lengths) and the same content through the interface, for both `del` variants (hole punching / writing zeros),
     provided every read fits one read call of the runtime (`op_read_fits`; always true without a cap).
   * The file the OS holds is the flat file's content minus a zero-filled hole at its END (`raw_is_prefix`); it is
     byte-identical, and the tracked length equals the OS size (`rad_tight`), exactly as long as no zero-length write
     beyond the end happens (`step_tight_iff`).  With that condition, histories with `Reopen` agree as well.
   * Differences, as Examples: the zero-length write beyond the end (file not extended, length forgotten by a reopen),
     and a read larger than the runtime's cap (tail of the answer is zeros). *)
From HC Require Import Base NMap Storage StorageFacts PagedMem PagedMemFacts DiskFile.
From Coq Require Import ZifyN ZifyNat ZifyBool.
Ltac Zify.zify_post_hook ::= Z.div_mod_to_equations.
Arguments N.add : simpl never.
Arguments N.sub : simpl never.
Arguments N.mul : simpl never.
Arguments N.div : simpl never.
Arguments N.modulo : simpl never.
Arguments N.pow : simpl never.
Arguments N.eqb : simpl never.
Arguments N.ltb : simpl never.
Arguments N.leb : simpl never.
Arguments N.max : simpl never.
Arguments N.min : simpl never.
Arguments N.of_nat : simpl never.
Arguments N.to_nat : simpl never.
Arguments N.iter : simpl never.

(* ---------- byte lists ---------- *)

Lemma len_app (a b : list N) : len (a ++ b) = len a + len b.
Proof. unfold len. rewrite app_length. lia. Qed.

Lemma l_get_app (a b : list N) k :
  l_get (a ++ b) k = if k <? len a then l_get a k else l_get b (k - len a).
Proof.
  unfold l_get, len. destruct (N.ltb_spec k (N.of_nat (length a))) as [H|H].
  - apply app_nth1. lia.
  - rewrite app_nth2 by lia. f_equal. lia.
Qed.

Lemma l_get_nth (d : list N) k : nth (N.to_nat k) d 0 = l_get d k.
Proof. reflexivity. Qed.

Lemma len_b_pwrite l a d :
  len (b_pwrite l a d) = if len d =? 0 then len l else N.max (len l) (a + len d).
Proof.
  destruct d as [|y d']; [reflexivity|]. unfold b_pwrite.
  rewrite !len_app, len_l_take, len_zeros_n, len_l_drop.
  generalize (len (y :: d')) (len_cons y d'). intros m Hm. bcase; lia.
Qed.

Lemma l_get_b_pwrite l a d k :
  l_get (b_pwrite l a d) k = if (a <=? k) && (k <? a + len d) then l_get d (k - a) else l_get l k.
Proof.
  destruct d as [|y d'].
  - cbn [b_pwrite]. rewrite len_nil. bcase; try reflexivity; lia.
  - unfold b_pwrite. pose proof (len_cons y d') as Hm. revert Hm.
    generalize (y :: d') as e. intros e Hm.
    rewrite !l_get_app, len_l_take, len_zeros_n, l_get_l_take, l_get_zeros_n, l_get_l_drop.
    destruct (N.leb_spec a k) as [A|A]; cbn [andb].
    + destruct (N.ltb_spec k (a + len e)) as [B|B].
      * bcase; try lia. f_equal. lia.
      * bcase; try lia. f_equal. lia.
    + bcase; try reflexivity; try lia. symmetry. apply l_get_beyond. lia.
Qed.

Lemma len_set_len l n : len (l_take n l ++ zeros_n (n - len l)) = n.
Proof. rewrite len_app, len_l_take, len_zeros_n. lia. Qed.

Lemma l_get_set_len l n k :
  l_get (l_take n l ++ zeros_n (n - len l)) k = if k <? n then l_get l k else 0.
Proof.
  rewrite l_get_app, len_l_take, l_get_l_take, l_get_zeros_n.
  bcase; try reflexivity; try lia. symmetry. apply l_get_beyond. lia.
Qed.

(* one read call: the bytes between the cursor and the end, at most n *)
Lemma l_slice_short l : forall a n,
  l_slice l a n = map (l_get l) (nrange a (N.to_nat (N.min n (len l - a)))).
Proof.
  induction l as [|x r IH]; intros a n; cbn [l_slice].
  - rewrite len_nil. replace (N.to_nat (N.min n (0 - a))) with 0%nat by lia. reflexivity.
  - rewrite len_cons. destruct (N.eqb_spec n 0) as [E|E].
    + subst n. replace (N.to_nat (N.min 0 (len r + 1 - a))) with 0%nat by lia. reflexivity.
    + destruct (N.eqb_spec a 0) as [A|A].
      * subst a. replace (N.to_nat (N.min n (len r + 1 - 0))) with (S (N.to_nat (N.min (n - 1) (len r - 0)))) by lia.
        cbn [nrange map]. rewrite l_get_cons_0. f_equal. rewrite IH.
        apply map_nrange_reindex. intros k Hk. rewrite l_get_cons_S by lia. f_equal. lia.
      * rewrite IH. replace (N.to_nat (N.min n (len r - (a - 1)))) with (N.to_nat (N.min n (len r + 1 - a))) by lia.
        apply map_nrange_reindex. intros k Hk.
        rewrite (l_get_cons_S x r (a + k)) by lia. f_equal. lia.
Qed.

Lemma len_l_slice l a n : len (l_slice l a n) = N.min n (len l - a).
Proof. rewrite l_slice_short. unfold len at 1. rewrite map_length, nrange_length. lia. Qed.

(* the buffer after the read: what the call delivered, zeros behind it = the bytes of the zero-padded file *)
Lemma read_buffer l a n :
  l_slice l a n ++ zeros_n (n - len (l_slice l a n)) = map (l_get l) (nrange a (N.to_nat n)).
Proof.
  rewrite len_l_slice, l_slice_short.
  set (m := N.min n (len l - a)).
  replace (N.to_nat n) with (N.to_nat m + N.to_nat (n - m))%nat by lia.
  rewrite nrange_app, map_app. f_equal.
  apply zeros_n_map. intros k Hk. apply l_get_beyond. lia.
Qed.

(* ---------- the refinement relation ---------- *)

(* byte i of the zero-padded OS file *)
Definition os_byte (d : rad) (i : N) : N := l_get (os_data (rad_file d)) i.

(* the flat file has the tracked length; the OS file is not longer; below the tracked length the flat file's bytes are
   those of the OS file padded with zeros *)
Record drefines (d : rad) (f : file) : Prop := mk_drefines {
  dr_len : f_len f = rad_length d;
  dr_size : os_size (rad_file d) <= rad_length d;
  dr_byte : forall i, i < rad_length d -> f_byte f i = os_byte d i
}.

(* the invariant of the crate: tracked length = size of the OS file *)
Definition rad_tight (d : rad) : Prop := os_size (rad_file d) = rad_length d.

Lemma rad_new_refines : drefines rad_new file_empty.
Proof. split; [reflexivity | apply N.le_refl |]. intros i Hi. change (i < 0) in Hi. lia. Qed.

Lemma rad_new_tight : rad_tight rad_new.
Proof. reflexivity. Qed.

(* ---------- read ---------- *)

Lemma rad_read_spec cfg d off n :
  op_read_fits cfg (R off n) = true ->
  snd (rad_read cfg d off n) =
  if off + n <=? rad_length d then Some (map (os_byte d) (nrange off (N.to_nat n))) else None.
Proof.
  intros Hc. unfold rad_read.
  destruct (N.ltb_spec (rad_length d) (off + n)) as [H|H], (N.leb_spec (off + n) (rad_length d)) as [G|G]; try lia;
    [reflexivity|].
  cbn [snd fst]. f_equal. unfold os_read. cbn [snd os_seek os_data os_pos].
  replace (match dc_read_cap cfg with Some c => N.min n c | None => n end) with n.
  - apply read_buffer.
  - unfold op_read_fits in Hc. destruct (dc_read_cap cfg) as [c|]; [|reflexivity]. lia.
Qed.

Lemma rad_read_state cfg d off n :
  rad_length (fst (rad_read cfg d off n)) = rad_length d /\
  os_data (rad_file (fst (rad_read cfg d off n))) = os_data (rad_file d).
Proof.
  unfold rad_read. destruct (rad_length d <? off + n); cbn [fst rad_length rad_file]; [now split|].
  split; reflexivity.
Qed.

Lemma rad_read_refines cfg d f off n :
  drefines d f -> op_read_fits cfg (R off n) = true ->
  snd (rad_read cfg d off n) = f_read f off n /\ drefines (fst (rad_read cfg d off n)) f.
Proof.
  intros [Hl Hs Hb] Hc. split.
  - rewrite rad_read_spec by exact Hc. unfold f_read. rewrite Hl.
    destruct (N.leb_spec (off + n) (rad_length d)) as [C|C]; [|reflexivity].
    f_equal. apply map_nrange_ext. intros k Hk. symmetry. apply Hb. lia.
  - destruct (rad_read_state cfg d off n) as [E1 E2].
    split; unfold os_size, os_byte; rewrite ?E1, ?E2; assumption.
Qed.

Lemma rad_read_tight cfg d off n : rad_tight d -> rad_tight (fst (rad_read cfg d off n)).
Proof.
  destruct (rad_read_state cfg d off n) as [E1 E2]. unfold rad_tight, os_size. now rewrite E1, E2.
Qed.

(* ---------- write ---------- *)

Lemma rad_write_refines d f off data :
  drefines d f -> drefines (rad_write d off data) (f_write f off data).
Proof.
  intros [Hl Hs Hb]. unfold os_size in Hs.
  split; unfold rad_write, os_size, os_byte; cbn [rad_length rad_file os_write_all os_seek os_data os_pos].
  - rewrite f_write_len, Hl. bcase; lia.
  - rewrite len_b_pwrite. bcase; lia.
  - intros i Hi. rewrite l_get_b_pwrite.
    assert (Hi' : i < f_len (f_write f off data)) by (rewrite f_write_len, Hl; revert Hi; bcase; lia).
    rewrite (f_write_at f off data i Hi'). rewrite l_get_nth.
    destruct ((off <=? i) && (i <? off + len data)); [reflexivity|].
    rewrite Hl. destruct (N.ltb_spec i (rad_length d)) as [C|C].
    + apply Hb. exact C.
    + symmetry. apply l_get_beyond. lia.
Qed.

Lemma rad_write_tight d off data :
  rad_tight d -> (rad_tight (rad_write d off data) <-> op_tight (rad_length d) (W off data) = true).
Proof.
  unfold rad_tight, os_size, rad_write. cbn [rad_length rad_file os_write_all os_seek os_data os_pos].
  intros Ht. rewrite len_b_pwrite, Ht. destruct data as [|y r]; cbn [op_tight].
  - rewrite len_nil. split; bcase; try lia; intros; try reflexivity; try discriminate; lia.
  - pose proof (len_cons y r) as E. split; [reflexivity|]. intros _. bcase; lia.
Qed.

(* ---------- truncate ---------- *)

Lemma rad_truncate_refines d f n : drefines d f -> drefines (rad_truncate d n) (f_truncate f n).
Proof.
  intros [Hl Hs Hb]. unfold os_size in Hs.
  split; unfold rad_truncate, os_size, os_byte; cbn [rad_length rad_file os_set_len os_data].
  - apply f_truncate_len.
  - rewrite len_set_len. lia.
  - intros i Hi. rewrite l_get_set_len, f_truncate_at by exact Hi. rewrite Hl.
    destruct (N.ltb_spec i n) as [_|C]; [|lia].
    destruct (N.ltb_spec i (rad_length d)) as [C|C]; [now apply Hb|].
    symmetry. apply l_get_beyond. lia.
Qed.

Lemma rad_truncate_tight d n : rad_tight (rad_truncate d n).
Proof. unfold rad_tight, os_size, rad_truncate. cbn [rad_length rad_file os_set_len os_data]. apply len_set_len. Qed.

(* ---------- del ---------- *)

Lemma len_trim cfg file off n :
  n <> 0 ->
  len (os_data (rad_trim cfg file off n)) =
  if dc_sparse cfg then len (os_data file) else N.max (len (os_data file)) (off + n).
Proof.
  intros Hn. unfold rad_trim. destruct (dc_sparse cfg); cbn [os_punch os_write_all os_seek os_data os_pos].
  - apply len_l_zero.
  - rewrite len_b_pwrite, len_zeros_n. bcase; lia.
Qed.

Lemma l_get_trim cfg file off n k :
  l_get (os_data (rad_trim cfg file off n)) k =
  if (off <=? k) && (k <? off + n) then 0 else l_get (os_data file) k.
Proof.
  unfold rad_trim. destruct (dc_sparse cfg); cbn [os_punch os_write_all os_seek os_data os_pos].
  - apply l_get_l_zero.
  - rewrite l_get_b_pwrite, len_zeros_n, l_get_zeros_n. reflexivity.
Qed.

Lemma rad_del_refines cfg d f off n :
  drefines d f ->
  match rad_del cfg d off n, f_del f off n with
  | Some d', Some f' => drefines d' f'
  | None, None => True
  | _, _ => False
  end.
Proof.
  intros Hr. pose proof Hr as [Hl Hs Hb]. unfold os_size in Hs. unfold rad_del, f_del. rewrite Hl.
  destruct (N.ltb_spec (rad_length d) off) as [A|A]; [exact I|].
  destruct (N.eqb_spec n 0) as [B|B]; [exact Hr|].
  destruct (N.leb_spec (rad_length d) (off + n)) as [C|C]; [now apply rad_truncate_refines|].
  split; unfold os_size, os_byte; cbn [rad_length rad_file f_len].
  - reflexivity.
  - rewrite len_trim by exact B. destruct (dc_sparse cfg); lia.
  - intros i Hi. rewrite l_get_trim. unfold f_byte. cbn [f_map]. rewrite m_clear_get.
    replace (off + N.of_nat (N.to_nat n)) with (off + n) by lia.
    destruct ((off <=? i) && (i <? off + n)); [reflexivity|]. apply (Hb i Hi).
Qed.

Lemma rad_del_tight cfg d off n d' : rad_tight d -> rad_del cfg d off n = Some d' -> rad_tight d'.
Proof.
  unfold rad_del. intros Ht.
  destruct (N.ltb_spec (rad_length d) off) as [A|A]; [discriminate|].
  destruct (N.eqb_spec n 0) as [B|B]; [intros E; injection E as <-; exact Ht|].
  destruct (N.leb_spec (rad_length d) (off + n)) as [C|C]; intros E; injection E as <-.
  - apply rad_truncate_tight.
  - unfold rad_tight, os_size in *. cbn [rad_length rad_file]. rewrite len_trim by exact B.
    destruct (dc_sparse cfg); lia.
Qed.

(* ---------- one operation ---------- *)

(* the observation is the flat file's and the relation is kept: for EVERY operation, also the zero-length write
   beyond the end *)
Theorem rad_step_refines cfg d f o :
  drefines d f -> op_read_fits cfg o = true ->
  snd (rad_step cfg d o) = snd (file_step f o) /\
  drefines (fst (rad_step cfg d o)) (fst (file_step f o)).
Proof.
  intros Hr Hc. destruct o as [off data | off n | off n | n | ]; cbn [rad_step file_step].
  - cbn [fst snd]. split; [reflexivity | now apply rad_write_refines].
  - cbn [fst snd]. destruct (rad_read_refines cfg d f off n Hr Hc) as [E Hr']. rewrite E. split; [reflexivity | exact Hr'].
  - pose proof (rad_del_refines cfg d f off n Hr) as D.
    destruct (rad_del cfg d off n) as [d'|], (f_del f off n) as [f'|]; try contradiction; cbn [fst snd];
      (split; [reflexivity|]); [exact D | exact Hr].
  - cbn [fst snd]. split; [reflexivity | now apply rad_truncate_refines].
  - cbn [fst snd]. unfold rad_len. pose proof Hr as [Hl _ _]. rewrite Hl. split; [reflexivity | exact Hr].
Qed.

(* the invariant "tracked length = OS file size" is kept by exactly the operations other than a zero-length write
   beyond the end *)
Theorem step_tight_iff cfg d o :
  rad_tight d -> (rad_tight (fst (rad_step cfg d o)) <-> op_tight (rad_length d) o = true).
Proof.
  intros Ht. destruct o as [off data | off n | off n | n | ]; cbn [rad_step].
  - cbn [fst]. now apply rad_write_tight.
  - cbn [fst op_tight]. split; [reflexivity|]. intros _. now apply rad_read_tight.
  - cbn [op_tight]. split; [reflexivity|]. intros _.
    pose proof (rad_del_tight cfg d off n) as K.
    destruct (rad_del cfg d off n) as [d'|]; cbn [fst]; [now apply K | exact Ht].
  - cbn [fst op_tight]. split; [reflexivity|]. intros _. apply rad_truncate_tight.
  - cbn [fst op_tight]. split; [reflexivity|]. intros _. exact Ht.
Qed.

(* ... and every operation except that one restores or keeps it; truncate (and a del reaching the end) restores it *)
Lemma truncate_restores_tight cfg d n : rad_tight (fst (rad_step cfg d (T n))).
Proof. apply rad_truncate_tight. Qed.

(* ---------- histories within one session ---------- *)

Theorem rad_steps_refine cfg ops : forall d f,
  drefines d f -> forallb (op_read_fits cfg) ops = true ->
  fst (rad_steps cfg d ops) = fst (file_steps f ops) /\
  drefines (snd (rad_steps cfg d ops)) (snd (file_steps f ops)).
Proof.
  induction ops as [|o ops IH]; intros d f Hr Hc; cbn [rad_steps file_steps fst snd].
  - split; [reflexivity | exact Hr].
  - cbn [forallb] in Hc. apply andb_prop in Hc. destruct Hc as [Hc1 Hc2].
    destruct (rad_step_refines cfg d f o Hr Hc1) as (E & Hr').
    destruct (IH _ _ Hr' Hc2) as (E2 & Hr2).
    split; [now rewrite E, E2 | exact Hr2].
Qed.

(* ---------- content and the file on disk ---------- *)

Lemma rad_content_spec d : rad_content d = map (os_byte d) (nrange 0 (N.to_nat (rad_length d))).
Proof.
  unfold rad_content. rewrite rad_read_spec by reflexivity.
  destruct (N.leb_spec (0 + rad_length d) (rad_length d)); [reflexivity | lia].
Qed.

Theorem content_drefines d f : drefines d f -> rad_content d = f_content f.
Proof.
  intros [Hl Hs Hb]. rewrite rad_content_spec. unfold f_content. rewrite Hl.
  apply map_nrange_ext. intros k Hk. symmetry. apply Hb. lia.
Qed.

Lemma list_as_map (l : list N) : l = map (l_get l) (nrange 0 (length l)).
Proof.
  apply (nth_ext _ _ 0 0).
  - now rewrite map_length, nrange_length.
  - intros k Hk. rewrite map_nrange_nth by exact Hk. unfold l_get. f_equal. lia.
Qed.

(* "up to zero-filled holes": the OS file is the flat file's content without a zero-filled hole at the END *)
Theorem raw_is_prefix d f :
  drefines d f -> f_content f = rad_raw d ++ zeros_n (rad_length d - os_size (rad_file d)).
Proof.
  intros Hr. pose proof Hr as [Hl Hs Hb]. rewrite <- (content_drefines d f Hr), rad_content_spec.
  unfold rad_raw, os_size, os_byte in *. set (l := os_data (rad_file d)) in *.
  replace (N.to_nat (rad_length d)) with (length l + N.to_nat (rad_length d - len l))%nat by (unfold len in *; lia).
  rewrite nrange_app, map_app. f_equal.
  - symmetry. apply list_as_map.
  - symmetry. apply zeros_n_map. intros k Hk. apply l_get_beyond. unfold len. lia.
Qed.

(* byte-identical files under the invariant *)
Theorem raw_tight d f : drefines d f -> rad_tight d -> rad_raw d = f_content f.
Proof.
  intros Hr Ht. rewrite (raw_is_prefix d f Hr). unfold rad_tight in Ht. rewrite Ht, N.sub_diag.
  unfold zeros_n. cbn. now rewrite app_nil_r.
Qed.

(* ---------- histories with reopen ---------- *)

Lemma rad_reopen_refines d f : drefines d f -> rad_tight d -> drefines (rad_reopen d) f /\ rad_tight (rad_reopen d).
Proof.
  intros [Hl Hs Hb] Ht. unfold rad_tight, os_size in *. split; [|reflexivity].
  split; unfold rad_reopen, rad_open, os_size, os_byte; cbn [rad_length rad_file os_data].
  - congruence.
  - lia.
  - intros i Hi. apply Hb. lia.
Qed.

Theorem rad_dsteps_refine cfg ops : forall d f,
  drefines d f -> rad_tight d ->
  ops_tight f ops = true -> forallb (dop_read_fits cfg) ops = true ->
  fst (rad_dsteps cfg d ops) = fst (file_dsteps f ops) /\
  drefines (snd (rad_dsteps cfg d ops)) (snd (file_dsteps f ops)) /\
  rad_tight (snd (rad_dsteps cfg d ops)).
Proof.
  induction ops as [|o ops IH]; intros d f Hr Ht Hz Hc; cbn [rad_dsteps file_dsteps fst snd].
  - split; [reflexivity|]. now split.
  - cbn [forallb] in Hc. apply andb_prop in Hc. destruct Hc as [Hc1 Hc2].
    destruct o as [o|]; cbn [rad_dstep file_dstep ops_tight dop_read_fits] in *.
    + apply andb_prop in Hz. destruct Hz as [Hz1 Hz2].
      destruct (rad_step_refines cfg d f o Hr Hc1) as (E & Hr').
      assert (Ht' : rad_tight (fst (rad_step cfg d o))).
      { apply (step_tight_iff cfg d o Ht). pose proof Hr as [Hl _ _]. now rewrite <- Hl. }
      destruct (IH _ _ Hr' Ht' Hz2 Hc2) as (E2 & Hr2 & Ht2).
      split; [now rewrite E, E2|]. now split.
    + destruct (rad_reopen_refines d f Hr Ht) as [Hr' Ht'].
      destruct (IH _ _ Hr' Ht' Hz Hc2) as (E2 & Hr2 & Ht2). cbn [fst snd].
      split; [now rewrite E2|]. now split.
Qed.

(* C14 for the disk backend.  For both `del` variants and every history (with reopens) that contains no zero-length
   write beyond the end and whose reads each fit one read call: the same observations as the flat file, the same content
   through the interface, and a byte-identical file on disk. *)
Theorem rad_refines_file cfg ops :
  ops_tight file_empty ops = true -> forallb (dop_read_fits cfg) ops = true ->
  run_rad cfg ops = (fst (run_dfile ops), snd (run_dfile ops), snd (run_dfile ops)).
Proof.
  intros Hz Hc. unfold run_rad, run_dfile. cbn [fst snd].
  destruct (rad_dsteps_refine cfg ops rad_new file_empty rad_new_refines rad_new_tight Hz Hc) as (E & Hr & Ht).
  rewrite E, (content_drefines _ _ Hr), (raw_tight _ _ Hr Ht). reflexivity.
Qed.

(* ... hence the two variants are indistinguishable, also on disk *)
Corollary del_variants_agree cap ops :
  ops_tight file_empty ops = true -> forallb (dop_read_fits (mkDcfg true cap)) ops = true ->
  run_rad (mkDcfg true cap) ops = run_rad (mkDcfg false cap) ops.
Proof.
  intros Hz Hc. rewrite (rad_refines_file (mkDcfg true cap) ops Hz Hc).
  symmetry. apply rad_refines_file; [exact Hz | exact Hc].
Qed.

Lemma rad_dsteps_session cfg ops : forall d, rad_dsteps cfg d (map Dop ops) = rad_steps cfg d ops.
Proof. induction ops as [|o ops IH]; intros d; cbn [map rad_dsteps rad_steps rad_dstep]; [reflexivity | now rewrite IH]. Qed.

Lemma file_dsteps_session ops : forall f, file_dsteps f (map Dop ops) = file_steps f ops.
Proof. induction ops as [|o ops IH]; intros f; cbn [map file_dsteps file_steps file_dstep]; [reflexivity | now rewrite IH]. Qed.

(* Within one session NO condition on the writes is needed: observations and content through the interface are the flat
   file's (= run_file of PagedMem.v, hence also those of random-access-memory: PagedMemFacts.ram_refines_file); the file on
   disk may lack a zero-filled hole at the end. *)
Theorem rad_session_refines_file cfg ops :
  forallb (op_read_fits cfg) ops = true ->
  let r := run_rad cfg (map Dop ops) in
  fst (fst r) = fst (run_file ops) /\
  snd (fst r) = snd (run_file ops) /\
  exists z, snd (run_file ops) = snd r ++ zeros_n z.
Proof.
  intros Hc. unfold run_rad, run_file. cbn [fst snd]. rewrite rad_dsteps_session.
  destruct (rad_steps_refine cfg ops rad_new file_empty rad_new_refines Hc) as (E & Hr).
  split; [exact E|]. split; [now apply content_drefines|].
  eexists. apply (raw_is_prefix _ _ Hr).
Qed.

Corollary rad_session_agrees_with_ram cfg ps ops :
  0 < ps -> forallb (op_read_fits cfg) ops = true ->
  fst (run_rad cfg (map Dop ops)) = run_ram ps ops.
Proof.
  intros Hps Hc. rewrite (ram_refines_file ps ops Hps).
  destruct (rad_session_refines_file cfg ops Hc) as (E1 & E2 & _).
  destruct (run_rad cfg (map Dop ops)) as [[a b] c], (run_file ops) as [a' b']. cbn [fst snd] in *. congruence.
Qed.

(* a static sufficient condition for `ops_tight`: no write is empty *)
Definition dop_nonempty_write (o : dop) : bool :=
  match o with Dop (W _ []) => false | _ => true end.

Lemma nonempty_writes_tight ops : forall f, forallb dop_nonempty_write ops = true -> ops_tight f ops = true.
Proof.
  induction ops as [|o ops IH]; intros f H; [reflexivity|].
  cbn [forallb] in H. apply andb_prop in H. destruct H as [H1 H2].
  destruct o as [o|]; cbn [ops_tight]; [|now apply IH].
  rewrite IH by exact H2. rewrite andb_true_r.
  destruct o as [off [|y r] | | | | ]; try reflexivity. discriminate.
Qed.

(* ---------- where the model is faithful to the u64 / off_t arithmetic ---------- *)

(* with every argument of every call below a bound B (PagedMemFacts.op_bounded: offset + length < B), the tracked length
   stays below B, hence so does every sum the Rust code forms (offset + data.len(), offset + length) and every offset or
   length handed to the OS (seek, set_len, fallocate): with B = 2^63 nothing overflows u64 or off_t *)
Lemma rad_step_length_bounded cfg B d o :
  rad_length d < B -> op_bounded B o -> rad_length (fst (rad_step cfg d o)) < B.
Proof.
  intros Hd Ho. destruct o as [off data | off n | off n | n | ]; cbn [rad_step op_bounded fst] in *; try assumption.
  - unfold rad_write. cbn [rad_length]. destruct (rad_length d <? off + len data); assumption.
  - destruct (rad_read_state cfg d off n) as [E _]. now rewrite E.
  - unfold rad_del. destruct (rad_length d <? off); [exact Hd|].
    destruct (n =? 0); [exact Hd|].
    destruct (rad_length d <=? off + n); cbn [fst rad_truncate rad_length]; [lia | exact Hd].
Qed.

Lemma rad_steps_length_bounded cfg B ops : forall d,
  rad_length d < B -> Forall (op_bounded B) ops -> rad_length (snd (rad_steps cfg d ops)) < B.
Proof.
  induction ops as [|o ops IH]; intros d Hd Hops; cbn [rad_steps snd]; [exact Hd|].
  inversion Hops as [|o' ops' Ho Hops' E]; subst. apply IH; [|exact Hops'].
  now apply rad_step_length_bounded.
Qed.

(* ---------- the differences, as examples ---------- *)

Definition cfg_punch : dcfg := mkDcfg true None.
Definition cfg_zeros : dcfg := mkDcfg false None.
(* a runtime whose read call delivers at most 4 bytes (tokio: 2097152) *)
Definition cfg_cap4 : dcfg := mkDcfg true (Some 4).

(* DESIGN.md section 11 item 4.  A zero-length write beyond the end: observations in the session agree (len = 5, the read
   gives zeros), the file on disk stays empty where the flat file has five zeros ... *)
Example zero_length_write_beyond_end :
  run_rad cfg_punch [Dop (W 5 []); Dop L; Dop (R 0 5)] = ([ODone; OLen 5; OBytes [0; 0; 0; 0; 0]], [0; 0; 0; 0; 0], []) /\
  run_dfile [Dop (W 5 []); Dop L; Dop (R 0 5)] = ([ODone; OLen 5; OBytes [0; 0; 0; 0; 0]], [0; 0; 0; 0; 0]) /\
  ops_tight file_empty [Dop (W 5 []); Dop L; Dop (R 0 5)] = false.
Proof. vm_compute. repeat split. Qed.

(* ... and a reopen forgets the length: the statement of rad_refines_file without its first premise is false *)
Example reopen_forgets_zero_length_write_refuted :
  ~ (forall cfg ops, forallb (dop_read_fits cfg) ops = true ->
       fst (fst (run_rad cfg ops)) = fst (run_dfile ops)).
Proof.
  intros H. specialize (H cfg_punch [Dop (W 5 []); Reopen; Dop L; Dop (R 0 5)] eq_refl).
  vm_compute in H. discriminate H.
Qed.

Example reopen_forgets_zero_length_write :
  fst (fst (run_rad cfg_punch [Dop (W 5 []); Reopen; Dop L; Dop (R 0 5)])) = [ODone; ODone; OLen 0; OOutOfBounds] /\
  fst (run_dfile [Dop (W 5 []); Reopen; Dop L; Dop (R 0 5)]) = [ODone; ODone; OLen 5; OBytes [0; 0; 0; 0; 0]].
Proof. vm_compute. split; reflexivity. Qed.

(* after such a write the two `del` variants leave different files (the write of zeros extends the file, the hole does
   not): a reopen sees 9, 11 or — flat file — 12 bytes *)
Example del_variants_differ_after_zero_length_write :
  let ops := [Dop (W 0 [1; 2; 3; 4; 5; 6; 7; 8; 9]); Dop (W 12 []); Dop (D 10 1); Reopen; Dop L] in
  fst (fst (run_rad cfg_punch ops)) = [ODone; ODone; ODone; ODone; OLen 9] /\
  fst (fst (run_rad cfg_zeros ops)) = [ODone; ODone; ODone; ODone; OLen 11] /\
  fst (run_dfile ops) = [ODone; ODone; ODone; ODone; OLen 12].
Proof. vm_compute. repeat split. Qed.

(* a read larger than one read call of the runtime: the tail of the answer is zeros, no error.
   (the statement of rad_session_refines_file without its premise is false) *)
Example capped_read_differs :
  fst (fst (run_rad cfg_cap4 [Dop (W 0 [1; 2; 3; 4; 5; 6]); Dop (R 0 6)])) = [ODone; OBytes [1; 2; 3; 4; 0; 0]] /\
  fst (run_dfile [Dop (W 0 [1; 2; 3; 4; 5; 6]); Dop (R 0 6)]) = [ODone; OBytes [1; 2; 3; 4; 5; 6]].
Proof. vm_compute. split; reflexivity. Qed.

Example capped_read_refuted :
  ~ (forall cfg ops, fst (fst (run_rad cfg (map Dop ops))) = fst (run_file ops)).
Proof.
  intros H. specialize (H cfg_cap4 [W 0 [1; 2; 3; 4; 5; 6]; R 0 6]). vm_compute in H. discriminate H.
Qed.

(* ---------- non-vacuity ---------- *)

Definition ex_ops : list dop :=
  [Dop (W 0 [1; 2; 3; 4; 5]); Dop (W 8 [9]); Dop (R 0 9); Dop (D 1 2); Dop (R 0 9); Dop (W 9 []); Dop (W 3 []); Dop L;
   Dop (R 8 4); Dop (D 4 3); Reopen; Dop L; Dop (R 0 9); Dop (T 3); Dop (T 5); Dop (R 0 5); Dop (R 0 6); Dop (D 6 1);
   Dop (D 5 0); Dop (D 2 7); Reopen; Dop (R 0 2)].

(* the premises of rad_refines_file hold of a history with holes, growth by truncate, reopens, empty writes at the end,
   failing calls — for both variants and under a cap *)
Example ex_premises :
  ops_tight file_empty ex_ops = true /\
  forallb (dop_read_fits cfg_punch) ex_ops = true /\
  forallb (dop_read_fits cfg_zeros) ex_ops = true /\
  forallb (dop_read_fits (mkDcfg false (Some 9))) ex_ops = true.
Proof. vm_compute. repeat split. Qed.

Example ex_run :
  run_rad cfg_zeros ex_ops =
  ([ODone; ODone; OBytes [1; 2; 3; 4; 5; 0; 0; 0; 9]; ODone; OBytes [1; 0; 0; 4; 5; 0; 0; 0; 9]; ODone; ODone; OLen 9;
    OOutOfBounds; ODone; ODone; OLen 9; OBytes [1; 0; 0; 4; 0; 0; 0; 0; 9]; ODone; ODone; OBytes [1; 0; 0; 0; 0];
    OOutOfBounds; OOutOfBounds; ODone; ODone; ODone; OBytes [1; 0]], [1; 0], [1; 0]).
Proof. vm_compute. reflexivity. Qed.

(* the histories of PagedMemFacts.v (the doc example of lib.rs — the same in both crates —, holes across the file, shrink
   and grow again) on the disk model: observations and content of the flat file; `ex_stale` ends with a zero-length
   write beyond the end, so the file on disk has 2 bytes where the flat file has 11 *)
Example ex_hello_disk :
  run_rad cfg_punch (map Dop ex_hello) = (fst (run_file ex_hello), snd (run_file ex_hello), snd (run_file ex_hello)) /\
  run_rad cfg_zeros (map Dop ex_hello) = run_rad cfg_punch (map Dop ex_hello).
Proof. vm_compute. split; reflexivity. Qed.

Example ex_cross_disk :
  run_rad cfg_punch (map Dop ex_cross) = (fst (run_file ex_cross), snd (run_file ex_cross), snd (run_file ex_cross)) /\
  run_rad cfg_zeros (map Dop ex_cross) = run_rad cfg_punch (map Dop ex_cross).
Proof. vm_compute. split; reflexivity. Qed.

Example ex_stale_disk :
  run_rad cfg_punch (map Dop ex_stale) = (fst (run_file ex_stale), snd (run_file ex_stale), [1; 2]) /\
  snd (run_file ex_stale) = [1; 2; 0; 0; 0; 0; 0; 0; 0; 0; 0] /\
  run_rad cfg_zeros (map Dop ex_stale) = run_rad cfg_punch (map Dop ex_stale).
Proof. vm_compute. repeat split. Qed.

(* a state in which the relation holds non-trivially and the invariant does not (tracked 12, OS file 9 bytes) *)
Example ex_loose_state :
  let d := snd (rad_steps cfg_punch rad_new [W 0 [1; 2; 3; 4; 5; 6; 7; 8; 9]; W 12 []]) in
  let f := snd (file_steps file_empty [W 0 [1; 2; 3; 4; 5; 6; 7; 8; 9]; W 12 []]) in
  drefines d f /\ ~ rad_tight d /\ rad_length d = 12 /\ os_size (rad_file d) = 9.
Proof.
  cbv zeta. split; [|split; [|split]].
  - apply (rad_steps_refine cfg_punch [W 0 [1; 2; 3; 4; 5; 6; 7; 8; 9]; W 12 []] rad_new file_empty rad_new_refines eq_refl).
  - unfold rad_tight. vm_compute. discriminate.
  - reflexivity.
  - reflexivity.
Qed.

Print Assumptions rad_step_refines.
Print Assumptions step_tight_iff.
Print Assumptions rad_steps_refine.
Print Assumptions rad_dsteps_refine.
Print Assumptions content_drefines.
Print Assumptions raw_is_prefix.
Print Assumptions raw_tight.
Print Assumptions rad_refines_file.
Print Assumptions del_variants_agree.
Print Assumptions rad_session_refines_file.
Print Assumptions rad_session_agrees_with_ram.
Print Assumptions nonempty_writes_tight.
Print Assumptions rad_steps_length_bounded.
Print Assumptions ex_hello_disk.
Print Assumptions ex_cross_disk.
Print Assumptions ex_stale_disk.
Print Assumptions zero_length_write_beyond_end.
Print Assumptions reopen_forgets_zero_length_write_refuted.
Print Assumptions reopen_forgets_zero_length_write.
Print Assumptions del_variants_differ_after_zero_length_write.
Print Assumptions capped_read_differs.
Print Assumptions capped_read_refuted.
Print Assumptions ex_premises.
Print Assumptions ex_run.
Print Assumptions ex_loose_state.

(* Replicate.v -- prover / verifier agreement for Merkle proofs (property C03).
   R1: nothing in a created proof is fabricated (every node comes from the writer's own lookup).
   R2: block-only requests: shape of the proof, the verifier's climb succeeds on it, the root it
       computes carries the writer's hash, verify_proof accepts, the changeset is commitable.
   R3: what the replica's missing-node count says about the replica's store.
   R4: upgrade-only proofs sent to an empty replica. *)
From HC Require Import Base NMap Codec CodecFacts Crypto FlatTree Storage Oplog Merkle Core.
From HC Require Import FlatTreeFacts Sound NoPanic TreeRef CoreFacts.
From Coq Require Import ZifyN ZifyNat ZifyBool.
Ltac Zify.zify_post_hook ::= Z.div_mod_to_equations.
Arguments N.add : simpl never.
Arguments N.sub : simpl never.
Arguments N.mul : simpl never.
Arguments N.div : simpl never.
Arguments N.modulo : simpl never.
Arguments N.pow : simpl never.
Arguments N.eqb : simpl never.
Arguments N.ltb : simpl never.
Arguments N.leb : simpl never.

(* ====================================================================================== *)
(* R1. no fabrication                                                                      *)
(* ====================================================================================== *)

(* the node was obtained from the writer's own lookup *)
Definition from_writer (t : mtree) (tf : file) (n : node) : Prop :=
  exists i, required_node t tf i = Ok n.

Definition opt_all (P : node -> Prop) (o : option (list node)) : Prop :=
  match o with Some l => Forall P l | None => True end.

Definition lp_all (P : node -> Prop) (p : local_proof) : Prop :=
  opt_all P (lp_seek p) /\ opt_all P (lp_nodes p) /\ opt_all P (lp_upgrade p) /\
  opt_all P (lp_additional p).

Lemma lp_all_empty P : lp_all P lp_empty.
Proof. unfold lp_all, lp_empty. cbn. tauto. Qed.

Section NoFabrication.
  Variable t : mtree.
  Variable tf : file.
  Let P := from_writer t tf.

  Lemma from_writer_intro i n : required_node t tf i = Ok n -> P n.
  Proof. intros H. exists i. exact H. Qed.

  Lemma seek_proof_loop_from fuel : forall it root acc l,
    Forall P acc -> seek_proof_loop fuel t tf it root acc = Ok l -> Forall P l.
  Proof.
    induction fuel as [|f IH]; intros it root acc l Ha H; [discriminate H|].
    cbn [seek_proof_loop] in H. destruct (it_index it =? root).
    - injection H as <-. apply Forall_rev. exact Ha.
    - apply bind_ok in H. destruct H as (n & Hn & H).
      apply (IH _ _ _ _ (Forall_cons n (from_writer_intro _ _ Hn) Ha) H).
  Qed.

  Lemma seek_proof_from seek_root root p p' :
    lp_all P p -> seek_proof t tf seek_root root p = Ok p' -> lp_all P p'.
  Proof.
    intros (H1 & H2 & H3 & H4) H. unfold seek_proof in H.
    apply bind_ok in H. destruct H as (n & Hn & H).
    apply bind_ok in H. destruct H as (l & Hl & H). injection H as <-.
    unfold lp_all. cbn [lp_seek lp_nodes lp_upgrade lp_additional opt_all].
    repeat split; try assumption.
    apply (seek_proof_loop_from _ _ _ _ _ (Forall_cons n (from_writer_intro _ _ Hn) (Forall_nil _)) Hl).
  Qed.

  Lemma block_proof_loop_from fuel : forall it root is_seek seek_root p acc p' l,
    lp_all P p -> Forall P acc ->
    block_proof_loop fuel t tf it root is_seek seek_root p acc = Ok (p', l) ->
    lp_all P p' /\ Forall P l.
  Proof.
    induction fuel as [|f IH]; intros it root is_seek seek_root p acc p' l Hp Ha H; [discriminate H|].
    cbn [block_proof_loop] in H. destruct (it_index it =? root).
    - injection H as <- <-. split; [exact Hp | apply Forall_rev; exact Ha].
    - destruct (is_seek && it_contains (it_sibling it) seek_root &&
                negb (it_index (it_sibling it) =? seek_root)).
      + apply bind_ok in H. destruct H as (p1 & Hs & H).
        apply (IH _ _ _ _ _ _ _ _ (seek_proof_from _ _ _ _ Hp Hs) Ha H).
      + apply bind_ok in H. destruct H as (n & Hn & H).
        apply (IH _ _ _ _ _ _ _ _ Hp (Forall_cons n (from_writer_intro _ _ Hn) Ha) H).
  Qed.

  Lemma block_and_seek_proof_from ix is_seek seek_root root p p' :
    lp_all P p -> block_and_seek_proof t tf ix is_seek seek_root root p = Ok p' -> lp_all P p'.
  Proof.
    intros Hp H. unfold block_and_seek_proof in H. destruct ix as [i|].
    - destruct (negb (it_contains (it_new root) (ix_index i))); [discriminate H|].
      apply bind_ok in H. destruct H as (acc0 & H0 & H).
      apply bind_ok in H. destruct H as ([p1 l] & Hl & H). injection H as <-.
      assert (Ha : Forall P acc0).
      { destruct (ix_value i).
        - injection H0 as <-. constructor.
        - apply bind_ok in H0. destruct H0 as (n & Hn & H0). injection H0 as <-.
          constructor; [exact (from_writer_intro _ _ Hn) | constructor]. }
      destruct (block_proof_loop_from _ _ _ _ _ _ _ _ _ Hp Ha Hl) as ((A1 & A2 & A3 & A4) & B).
      unfold lp_all. cbn [lp_seek lp_nodes lp_upgrade lp_additional opt_all]. tauto.
    - exact (seek_proof_from _ _ _ _ Hp H).
  Qed.

  Lemma connect_loop_from fuel : forall it root target ix is_seek sub_tree with_sub p acc p' acc',
    lp_all P p -> Forall P acc ->
    connect_loop fuel t tf it root target ix is_seek sub_tree with_sub p acc = Ok (p', acc') ->
    lp_all P p' /\ Forall P acc'.
  Proof.
    induction fuel as [|f IH]; intros it root target ix is_seek sub_tree with_sub p acc p' acc' Hp Ha H;
      [discriminate H|].
    cbn [connect_loop] in H. destruct (it_index it =? root).
    - injection H as <- <-. auto.
    - apply bind_ok in H. destruct H as ([p1 acc1] & H1 & H).
      assert (lp_all P p1 /\ Forall P acc1) as [Hp1 Ha1].
      { destruct (target <? it_index (it_sibling it)).
        - destruct (with_sub && match lp_nodes p, lp_seek p with None, None => true | _, _ => false end
                    && it_contains (it_sibling it) sub_tree).
          + apply bind_ok in H1. destruct H1 as (p2 & H2 & H1). injection H1 as <- <-.
            split; [exact (block_and_seek_proof_from _ _ _ _ _ _ Hp H2) | exact Ha].
          + apply bind_ok in H1. destruct H1 as (n & Hn & H1). injection H1 as <- <-.
            split; [exact Hp|]. apply Forall_app. split; [exact Ha|].
            constructor; [exact (from_writer_intro _ _ Hn) | constructor].
        - injection H1 as <- <-. auto. }
      apply (IH _ _ _ _ _ _ _ _ _ _ _ Hp1 Ha1 H).
  Qed.

  Lemma upgrade_loop_from fuel : forall it from to ix is_seek sub_tree with_sub has p acc p' acc' has',
    lp_all P p -> Forall P acc ->
    upgrade_loop fuel t tf it from to ix is_seek sub_tree with_sub has p acc = Ok (p', acc', has') ->
    lp_all P p' /\ Forall P acc'.
  Proof.
    induction fuel as [|f IH]; intros it from to ix is_seek sub_tree with_sub has p acc p' acc' has' Hp Ha H;
      [discriminate H|].
    cbn [upgrade_loop] in H. destruct (it_full_root it to) as [found it1].
    destruct (negb found).
    { injection H as <- <- <-. auto. }
    destruct (it_index it1 + it_factor it1 / 2 <? from).
    { apply (IH _ _ _ _ _ _ _ _ _ _ _ _ _ Hp Ha H). }
    destruct (negb has && it_contains it1 (from - 2)).
    { apply bind_ok in H. destruct H as ([p1 acc1] & H1 & H).
      destruct (connect_loop_from _ _ _ _ _ _ _ _ _ _ _ _ Hp Ha H1) as [Hp1 Ha1].
      apply (IH _ _ _ _ _ _ _ _ _ _ _ _ _ Hp1 Ha1 H). }
    destruct (with_sub && match lp_nodes p, lp_seek p with None, None => true | _, _ => false end
              && it_contains it1 sub_tree).
    { apply bind_ok in H. destruct H as (p1 & H1 & H).
      apply (IH _ _ _ _ _ _ _ _ _ _ _ _ _ (block_and_seek_proof_from _ _ _ _ _ _ Hp H1) Ha H). }
    apply bind_ok in H. destruct H as (n & Hn & H).
    refine (IH _ _ _ _ _ _ _ _ _ _ _ _ _ Hp _ H).
    apply Forall_app. split; [exact Ha|]. constructor; [exact (from_writer_intro _ _ Hn) | constructor].
  Qed.

  Lemma upgrade_proof_from ix is_seek from to sub_tree p p' :
    lp_all P p -> upgrade_proof t tf ix is_seek from to sub_tree p = Ok p' -> lp_all P p'.
  Proof.
    intros Hp H. unfold upgrade_proof in H.
    apply bind_ok in H. destruct H as ([[p1 acc] has] & H1 & H). injection H as <-.
    destruct (upgrade_loop_from _ _ _ _ _ _ _ _ _ _ _ _ _ _ Hp (Forall_nil _) H1) as ((A1 & A2 & A3 & A4) & B).
    destruct has; unfold lp_all; cbn [lp_seek lp_nodes lp_upgrade lp_additional opt_all]; tauto.
  Qed.

  Lemma additional_upgrade_proof_from from to p p' :
    lp_all P p -> additional_upgrade_proof t tf from to p = Ok p' -> lp_all P p'.
  Proof.
    intros Hp H. unfold additional_upgrade_proof in H.
    apply bind_ok in H. destruct H as ([[p1 acc] has] & H1 & H). injection H as <-.
    destruct (upgrade_loop_from _ _ _ _ _ _ _ _ _ _ _ _ _ _ Hp (Forall_nil _) H1) as ((A1 & A2 & A3 & A4) & B).
    destruct has; unfold lp_all; cbn [lp_seek lp_nodes lp_upgrade lp_additional opt_all]; tauto.
  Qed.
End NoFabrication.

(* every node list of the valueless proof satisfies P *)
Definition vp_all (P : node -> Prop) (vp : vproof) : Prop :=
  (forall b, vp_block vp = Some b -> Forall P (dh_nodes b)) /\
  (forall h, vp_hash vp = Some h -> Forall P (dh_nodes h)) /\
  (forall s, vp_seek vp = Some s -> Forall P (ds_nodes s)) /\
  (forall u, vp_upgrade vp = Some u -> Forall P (du_nodes u) /\ Forall P (du_additional u)).

Theorem create_proof_no_fabrication t tf block hash seek upgrade vp :
  create_valueless_proof t tf block hash seek upgrade = Ok vp ->
  vp_all (from_writer t tf) vp /\
  vp_fork vp = t_fork t /\
  (forall b, vp_block vp = Some b -> exists rb, block = Some rb /\ dh_index b = rb_index rb) /\
  (forall h, vp_hash vp = Some h -> exists rh, block = None /\ hash = Some rh /\ dh_index h = rb_index rh) /\
  (forall s, vp_seek vp = Some s -> exists rs, seek = Some rs /\ ds_bytes s = rs_bytes rs) /\
  (forall u, vp_upgrade vp = Some u ->
     exists ru, upgrade = Some ru /\ du_start u = ru_start ru /\ du_length u = ru_length ru /\
                t_signature t = Some (du_signature u)) /\
  (upgrade = None -> vp_upgrade vp = None).
Proof.
  intros H. unfold create_valueless_proof in H.
  apply bind_ok in H. destruct H as ([from to] & _ & H).
  apply bind_ok in H. destruct H as (ixo & _ & H).
  destruct ((to <=? from) || (2 * t_length t <? to)); [discriminate H|].
  apply bind_ok in H. destruct H as ([[sub_tree p0] untrusted] & H0 & H).
  apply bind_ok in H. destruct H as (sub_tree' & _ & H).
  apply bind_ok in H. destruct H as (p & Hp & H).
  apply bind_ok in H. destruct H as ([dblock dhash] & Hbh & H).
  apply bind_ok in H. destruct H as (dup & Hup & H). injection H as <-.
  (* the local proof after the block / seek stage *)
  assert (A0 : lp_all (from_writer t tf) p0).
  { destruct ixo as [ix|].
    - destruct ((match seek with Some _ => true | None => false end) &&
                (match upgrade with Some _ => true | None => false end) && (from <=? ix_index ix));
        [discriminate H0|].
      destruct (match upgrade with Some u => ix_last ix <? ru_start u | None => true end).
      + apply bind_ok in H0. destruct H0 as (sub & _ & H0).
        apply bind_ok in H0. destruct H0 as (seek_root & _ & H0).
        apply bind_ok in H0. destruct H0 as (p1 & H1 & H0). injection H0 as _ <- _.
        exact (block_and_seek_proof_from _ _ _ _ _ _ _ _ (lp_all_empty _) H1).
      + injection H0 as _ <- _. apply lp_all_empty.
    - injection H0 as _ <- _. apply lp_all_empty. }
  (* ... and after the upgrade stage *)
  assert (A : lp_all (from_writer t tf) p).
  { destruct upgrade as [u|].
    - apply bind_ok in Hp. destruct Hp as (p1 & H1 & Hp).
      pose proof (upgrade_proof_from _ _ _ _ _ _ _ _ _ A0 H1) as A1.
      destruct (to <? 2 * t_length t).
      + exact (additional_upgrade_proof_from _ _ _ _ _ _ A1 Hp).
      + injection Hp as <-. exact A1.
    - injection Hp as <-. exact A0. }
  destruct A as (As & An & Au & Aa).
  unfold vp_all. cbn [vp_fork vp_block vp_hash vp_seek vp_upgrade].
  (* block / hash sections *)
  assert (B : (forall b, dblock = Some b ->
                 Forall (from_writer t tf) (dh_nodes b) /\
                 exists rb, block = Some rb /\ dh_index b = rb_index rb) /\
              (forall h, dhash = Some h ->
                 Forall (from_writer t tf) (dh_nodes h) /\
                 exists rh, block = None /\ hash = Some rh /\ dh_index h = rb_index rh)).
  { destruct block as [rb|].
    - destruct (lp_nodes p) as [ns|]; [|discriminate Hbh]. injection Hbh as <- <-.
      split; [|intros h [=]]. intros b [= <-]. cbn [dh_nodes dh_index]. split; [exact An|].
      exists rb. auto.
    - destruct hash as [rh|].
      + destruct (lp_nodes p) as [ns|]; [|discriminate Hbh]. injection Hbh as <- <-.
        split; [intros b [=]|]. intros h [= <-]. cbn [dh_nodes dh_index]. split; [exact An|].
        exists rh. auto.
      + injection Hbh as <- <-. split; intros ? [=]. }
  destruct B as [Bb Bh].
  (* seek section *)
  assert (S : forall s, match seek, lp_seek p with
                        | Some s0, Some ns => Some (mkDataSeek (rs_bytes s0) ns)
                        | _, _ => None
                        end = Some s ->
              Forall (from_writer t tf) (ds_nodes s) /\ exists rs, seek = Some rs /\ ds_bytes s = rs_bytes rs).
  { intros s Hs. destruct seek as [s0|]; [|discriminate Hs].
    destruct (lp_seek p) as [ns|]; [|discriminate Hs]. injection Hs as <-.
    cbn [ds_nodes ds_bytes]. split; [exact As|]. exists s0. auto. }
  (* upgrade section *)
  assert (U : (forall u, dup = Some u ->
                (Forall (from_writer t tf) (du_nodes u) /\ Forall (from_writer t tf) (du_additional u)) /\
                exists ru, upgrade = Some ru /\ du_start u = ru_start ru /\ du_length u = ru_length ru /\
                           t_signature t = Some (du_signature u)) /\
              (upgrade = None -> dup = None)).
  { destruct upgrade as [ru|].
    - split; [|intros [=]].
      destruct (lp_upgrade p) as [ns|]; [|discriminate Hup].
      destruct (t_signature t) as [sg|]; [|discriminate Hup]. injection Hup as <-.
      intros u [= <-]. cbn [du_nodes du_additional du_start du_length du_signature].
      split.
      + split; [exact Au|]. destruct (lp_additional p); [exact Aa | constructor].
      + exists ru. auto.
    - injection Hup as <-. split; [intros u [=] | reflexivity]. }
  destruct U as [U1 U2].
  split; [|split; [reflexivity|]].
  - repeat split.
    + intros b Hb. apply (Bb b Hb).
    + intros h Hh. apply (Bh h Hh).
    + intros s Hs. apply (S s Hs).
    + apply (U1 u H).
    + apply (U1 u H).
  - split; [intros b Hb; apply (Bb b Hb)|].
    split; [intros h Hh; apply (Bh h Hh)|].
    split; [intros s Hs; apply (S s Hs)|].
    split; [intros u Hu; apply (U1 u Hu) | exact U2].
Qed.
